#!/bin/sh
# intake of a sub-agent's deliverable:  tools_intake.sh <src dir> <name>   (e.g. /tmp/seedwt/C10.out/a C10-3)
# copies patch/demo/meta into seeded/<name>, confirms it independently (demo clean / patched), then runs
# the registered quick checks against it in a private scratch worktree.
set -e
src="$1"; name="$2"; V=$(dirname "$(readlink -f "$0")")
mkdir -p "$V/seeded/$name"
cp "$src/patch.diff" "$V/seeded/$name/patch.diff"
[ -f "$src/demo.py" ] && cp "$src/demo.py" "$V/seeded/$name/demo.py"
[ -f "$src/sanity.py" ] && cp "$src/sanity.py" "$V/seeded/$name/sanity.py"
cp "$src/meta.json" "$V/seeded/$name/meta.json"
if [ -f "$src/demo.py" ]; then VERIF_CONFIRM_WT=/tmp/verif_confirm_$name /venv/bin/python "$V/tools_confirm.py" "$name"; git -C /repo worktree remove --force /tmp/verif_confirm_$name || true; fi
VERIF_EVAL_WT=/tmp/verif_eval_$name /venv/bin/python "$V/tools_seeded.py" "$name"
git -C /repo worktree remove --force /tmp/verif_eval_$name || true; rm -rf /tmp/verif_eval_${name}_evidence
