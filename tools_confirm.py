#!/venv/bin/python
"""Confirm seeded changes independently of their authors: in a scratch worktree of /repo HEAD,
demo.py must exit 0 on the clean tree and non-zero with patch.diff applied; optionally
(--suite) the baseline test suite must still pass with the patch applied.
Writes the outcome into seeded/<name>/meta.json under "confirmed"."""
import json, os, subprocess, sys, time
V = os.path.dirname(os.path.abspath(__file__))
WT = os.environ.get("VERIF_CONFIRM_WT", "/tmp/verif_confirm_repo")
suite = "--suite" in sys.argv
names = [a for a in sys.argv[1:] if not a.startswith("--")] or sorted(
    d for d in os.listdir(os.path.join(V, "seeded")) if os.path.isdir(os.path.join(V, "seeded", d)))

def sh(*cmd, **kw):
    return subprocess.run(cmd, capture_output=True, text=True, **kw)

head = sh("git", "-C", "/repo", "rev-parse", "HEAD").stdout.strip()
if not os.path.isdir(WT):
    assert sh("git", "-C", "/repo", "worktree", "add", "--detach", WT, head).returncode == 0
sh("git", "-C", WT, "checkout", "--detach", head); sh("git", "-C", WT, "checkout", "--", ".")
env = dict(os.environ, PYTHONPATH=os.path.join(WT, "src"), JAX_PLATFORMS="cpu")
for name in names:
    d = os.path.join(V, "seeded", name)
    mp = os.path.join(d, "meta.json")
    meta = json.load(open(mp)) if os.path.exists(mp) else {"property": name.split("-")[0]}
    conf = meta.get("confirmed", {})
    if not suite or "demo_clean_exit" not in conf:
        c = sh("/venv/bin/python", os.path.join(d, "demo.py"), cwd=WT, env=env, timeout=1800)
        conf["demo_clean_exit"] = c.returncode
        a = sh("git", "-C", WT, "apply", os.path.join(d, "patch.diff"))
        conf["patch_applies_to"] = head[:7] if a.returncode == 0 else "NO: " + a.stderr[-200:]
        if a.returncode == 0:
            p = sh("/venv/bin/python", os.path.join(d, "demo.py"), cwd=WT, env=env, timeout=1800)
            conf["demo_patched_exit"] = p.returncode
            conf["demo_patched_message"] = (p.stdout + p.stderr).strip().splitlines()[-1][:300] if (p.stdout + p.stderr).strip() else ""
            imp = sh("/venv/bin/python", "-c", "import lerax, lerax.algorithm, lerax.env, lerax.wrapper, lerax.buffer", cwd=WT, env=env)
            conf["imports_with_patch"] = imp.returncode == 0
    if suite and str(conf.get("patch_applies_to", "NO")).startswith("NO") is False:
        sh("git", "-C", WT, "checkout", "--", "."); sh("git", "-C", WT, "apply", os.path.join(d, "patch.diff"))
        t0 = time.time()
        s = sh("/venv/bin/python", "-m", "pytest", "-q", "-p", "no:cacheprovider", "--timeout=1800", "-n", "6",
               "--continue-on-collection-errors", "tests", "--deselect", "tests/test_export.py", cwd=WT, env=env)
        tail = [l for l in s.stdout.splitlines() if " passed" in l or " failed" in l]
        conf["suite_with_patch"] = (tail[-1] if tail else s.stdout[-200:]) + f" [{int(time.time()-t0)}s]"
    sh("git", "-C", WT, "checkout", "--", ".")
    conf["ok"] = (conf.get("demo_clean_exit") == 0 and conf.get("demo_patched_exit", 0) != 0 and conf.get("imports_with_patch", False))
    meta["confirmed"] = conf
    json.dump(meta, open(mp, "w"), indent=1)
    print(name, json.dumps(conf)[:300], flush=True)
