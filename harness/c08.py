"""C08 — on-policy losses: real PPO.ppo_loss / A2C.a2c_loss / REINFORCE.reinforce_loss (values, stats,
per-sample gradients) and the configured optimiser vs lean/LeraxModel/Loss.lean."""
from __future__ import annotations

from typing import ClassVar

import equinox as eqx
import jax
import numpy as np
from jax import numpy as jnp

from lerax.algorithm import A2C, DQN, PPO, REINFORCE, SAC
from lerax.buffer import RolloutBuffer
from lerax.policy import AbstractActorCriticPolicy
from lerax.space import Box, Discrete


class SamplePolicy(AbstractActorCriticPolicy):
    """evaluate_action returns per-sample table entries (sample index = observation[0]), so the
    loss inputs are fully controlled and jax.grad w.r.t. the tables gives per-sample partials"""
    name: ClassVar[str] = "SamplePolicy"
    action_space: Discrete
    observation_space: Box
    V: jax.Array
    LP: jax.Array
    ENT: jax.Array

    def __init__(self, V, LP, ENT):
        n = len(V)
        self.action_space, self.observation_space = Discrete(2), Box(0.0, float(n), shape=(1,))
        self.V, self.LP, self.ENT = (jnp.asarray(x, dtype=float) for x in (V, LP, ENT))

    def reset(self, *, key):
        return None

    def __call__(self, state, observation, *, key=None, action_mask=None):
        return None, jnp.array(0)

    def action_and_value(self, state, observation, *, key, action_mask=None):
        i = observation[0].astype(int)
        return None, jnp.array(0), self.V[i], self.LP[i]

    def evaluate_action(self, state, observation, action, *, action_mask=None):
        i = observation[0].astype(int)
        return None, self.V[i], self.LP[i], self.ENT[i]

    def value(self, state, observation):
        return None, self.V[observation[0].astype(int)]


def _draw(ctx, n, eps):
    rng = ctx.rng
    # advantage regimes: ordinary; tiny scale (std far below sqrt(machine eps): normalisation must divide
    # by std + eps, not by sqrt(var + eps)); large common offset (|mean| >> std: the variance must be
    # computed around the mean, E[x^2] - E[x]^2 cancels catastrophically in float32)
    regime = str(rng.choice(["ordinary", "ordinary", "tiny", "offset"]))
    z = rng.uniform(-2, 2, n)
    if regime == "tiny":
        adv = z * (1e-10 if ctx.x64 else 1e-5)
    elif regime == "offset":
        adv = float(rng.choice([-1000.0, 300.0, 1000.0])) + 0.5 * z
    else:
        adv = z
    ctx.count("advantages:" + regime)
    lp_old = rng.uniform(-3, -0.1, n)
    # ratios inside / outside both clip edges, both advantage signs
    place = rng.choice(["in", "lo", "hi", "far-lo", "far-hi"], n)
    ratio = np.where(place == "in", rng.uniform(1 - 0.8 * eps, 1 + 0.8 * eps, n),
             np.where(place == "lo", rng.uniform(1 - 1.6 * eps, 1 - 1.1 * eps, n),
             np.where(place == "hi", rng.uniform(1 + 1.1 * eps, 1 + 1.6 * eps, n),
             np.where(place == "far-lo", rng.uniform(0.05, 0.4, n), rng.uniform(2.0, 4.0, n)))))
    lp_new = lp_old + np.log(ratio)
    v_old = rng.uniform(-2, 2, n)
    dv = np.where(rng.random(n) < 0.5, rng.uniform(-0.8 * eps, 0.8 * eps, n),
                  rng.choice([-1, 1], n) * rng.uniform(1.2 * eps, 3 * eps + 0.5, n))
    v_new = v_old + dv
    ret = v_old + rng.uniform(-1.5, 1.5, n)
    ent = rng.uniform(0, 2, n)
    return adv, lp_old, lp_new, v_old, v_new, ret, ent, place, regime


def _buffer(n, adv, lp_old, v_old, ret):
    return RolloutBuffer(observations=jnp.arange(n, dtype=float)[:, None], actions=jnp.zeros(n, dtype=int),
                         rewards=jnp.zeros(n), dones=jnp.zeros(n, bool), log_probs=lp_old, values=v_old,
                         states=None, returns=ret, advantages=adv)


def check_losses(ctx, idx):
    rng = ctx.rng
    n = int(rng.integers(2, ctx.budget(12, 40)))
    eps = float(rng.choice([0.1, 0.2, 0.3]))
    adv, lp_old, lp_new, v_old, v_new, ret, ent, place, regime = _draw(ctx, n, eps)
    on_policy = bool(rng.random() < 0.2)
    if on_policy:
        lp_new = lp_old.copy()
    ft = np.float64 if ctx.x64 else np.float32
    adv, lp_old, lp_new, v_old, v_new, ret, ent = (np.asarray(x, ft).astype(np.float64)
                                                   for x in (adv, lp_old, lp_new, v_old, v_new, ret, ent))
    cfg = {"normalize": bool(rng.random() < 0.5), "clip": eps, "clip_value": bool(rng.random() < 0.6),
           "value_coef": float(rng.choice([0.25, 0.5, 1.0])), "entropy_coef": float(rng.choice([0.0, 0.01, 0.5])),
           "eps": float(np.finfo(ft).eps)}
    policy = SamplePolicy(v_new, lp_new, ent)
    buf = _buffer(n, jnp.asarray(adv), jnp.asarray(lp_old), jnp.asarray(v_old), jnp.asarray(ret))
    samples = [{"logp_new": lp_new[i], "v_new": v_new[i], "entropy": ent[i], "logp_old": lp_old[i],
                "v_old": v_old[i], "ret": ret[i], "adv": adv[i]} for i in range(n)]
    args = (cfg["normalize"], cfg["clip"], cfg["clip_value"], cfg["value_coef"], cfg["entropy_coef"])
    (loss, stats), grads = PPO.ppo_loss_grad(policy, buf, *args)
    m = ctx.drv.call("ppo_loss", cfg=cfg, samples=samples)
    case = {"kind": "ppo_loss", "cfg": cfg, "samples": samples, "on_policy": on_policy, "advantage_regime": regime,
            "impl": {"loss": float(loss), "approx_kl": float(stats.approx_kl), "policy_loss": float(stats.policy_loss),
                     "value_loss": float(stats.value_loss), "entropy_loss": float(stats.entropy_loss)},
            "model": {k: m[k] for k in ("loss", "approx_kl", "policy_loss", "value_loss", "entropy_loss")}}
    ctx.case({"k": "ppo", "idx": idx, "samples": samples, "cfg": cfg}, True, sample=case if idx == 0 else None)
    ctx.count("ppo_loss")
    ctx.count("ppo:clip_value" if cfg["clip_value"] else "ppo:no_clip_value")
    ctx.count("ppo:normalize" if cfg["normalize"] else "ppo:raw-adv")
    for p in place:
        ctx.count("ratio:" + str(p))
    # float32 with a large common offset: the inputs themselves carry ~6e-5 absolute rounding, which the
    # normalisation divides by a std of ~0.5
    sc = 16.0 if (regime != "offset" or ctx.x64) else 200.0
    for f, clause in [("policy_loss", "ppo_policy_loss_is_clipped_surrogate"),
                      ("value_loss", "ppo_value_loss_is_half_mse_or_ppo2_max"),
                      ("entropy_loss", "entropy_loss_is_neg_mean_entropy"),
                      ("loss", "total_is_weighted_sum")]:
        if not ctx.close(case["impl"][f], m[f], sc):
            ctx.phi_fail(clause, case, key="ppo:" + f)
            return
    # the KL estimator itself is not fixed by the property (only that it vanishes on-policy)
    if not ctx.close(case["impl"]["approx_kl"], m["approx_kl"], sc):
        ctx.disagree("approx_kl estimator", case, impl=case["impl"]["approx_kl"], model=m["approx_kl"])
    if on_policy:
        ctx.count("ppo:on-policy")
        if not (abs(float(stats.approx_kl)) < 1e-5 and ctx.close(float(stats.policy_loss), -float(np.mean(m["advantages"])), sc)):
            ctx.phi_fail("on_policy_ratio_one_kl_zero", case, key="ppo:on_policy")
    g_lp, g_v, g_e = (np.asarray(x, np.float64) for x in (grads.LP, grads.V, grads.ENT))
    if not ctx.close(g_lp, m["d_logp"], sc):
        ctx.phi_fail("clipped_sample_contributes_no_policy_gradient", {**case, "impl_grad": g_lp, "model_grad": m["d_logp"]},
                     key="ppo:grad_logp")
    elif not ctx.close(g_v, m["d_value"], sc):
        ctx.phi_fail("value_gradient", {**case, "impl_grad": g_v, "model_grad": m["d_value"]}, key="ppo:grad_value")
    elif not ctx.close(g_e, np.full(n, m["d_entropy"]), sc):
        ctx.phi_fail("entropy_gradient", case, key="ppo:grad_entropy")
    # A2C / REINFORCE
    (l2, s2), _ = A2C.a2c_loss_grad(policy, buf, cfg["normalize"], cfg["value_coef"], cfg["entropy_coef"])
    m2 = ctx.drv.call("a2c_loss", cfg=cfg, samples=samples)
    ctx.count("a2c_loss")
    if not all(ctx.close(float(a), m2[k], sc) for a, k in [(l2, "loss"), (s2.policy_loss, "policy_loss"),
                                                          (s2.value_loss, "value_loss"), (s2.entropy_loss, "entropy_loss")]):
        ctx.phi_fail("a2c_loss_is_published_objective", {**case, "impl_a2c": float(l2), "model_a2c": m2}, key="a2c:loss")
    (l3, s3), _ = REINFORCE.reinforce_loss_grad(policy, buf, cfg["normalize"], cfg["value_coef"])
    m3 = ctx.drv.call("reinforce_loss", cfg=cfg, samples=samples)
    ctx.count("reinforce_loss")
    if not all(ctx.close(float(a), m3[k], sc) for a, k in [(l3, "loss"), (s3.policy_loss, "policy_loss"),
                                                          (s3.value_loss, "value_loss")]):
        ctx.phi_fail("reinforce_loss_is_published_objective", {**case, "impl": float(l3), "model": m3}, key="reinforce:loss")


def check_optimizers(ctx):
    rng = ctx.rng
    # configured (non-default) clipping thresholds and learning rates: the optimiser must use the
    # CONFIGURED values
    mg = {k_: float(rng.choice(v_)) for k_, v_ in {"PPO": [0.5, 0.8, 2.0], "A2C": [0.5, 0.3, 1.5],
                                                   "REINFORCE": [0.5, 0.9, 3.0], "DQN": [10.0, 4.0, 0.7]}.items()}
    algos = {
        "PPO": (PPO(max_grad_norm=mg["PPO"], learning_rate=3e-4), mg["PPO"], 3e-4),
        "A2C": (A2C(max_grad_norm=mg["A2C"], learning_rate=7e-4), mg["A2C"], 7e-4),
        "REINFORCE": (REINFORCE(max_grad_norm=mg["REINFORCE"], learning_rate=2e-4), mg["REINFORCE"], 2e-4),
        "DQN": (DQN(max_grad_norm=mg["DQN"], learning_rate=1e-4), mg["DQN"], 1e-4),
        "PPO'": (PPO(max_grad_norm=1.7, learning_rate=1e-3), 1.7, 1e-3),
        "A2C'": (A2C(max_grad_norm=0.25, learning_rate=5e-4), 0.25, 5e-4),
        "REINFORCE'": (REINFORCE(max_grad_norm=2.5, learning_rate=3e-4), 2.5, 3e-4),
    }
    for name, (algo, max_norm, lr) in algos.items():
        for rep in range(ctx.budget(3, 10)):
            n = int(rng.integers(2, 9))
            scale = float(rng.choice([0.01, 0.3, 3.0, 40.0]))
            g = rng.normal(size=n) * scale
            params = {"w": jnp.zeros(n)}
            state = algo.optimizer.init(params)
            updates, _ = algo.optimizer.update({"w": jnp.asarray(g)}, state, params)
            u = np.asarray(updates["w"], np.float64)
            g64 = np.asarray(jnp.asarray(g), np.float64)
            m = ctx.drv.call("opt_step", max_norm=max_norm, lr=lr, eps=1e-8, g=g64)
            case = {"kind": "optimizer", "algo": name, "g": g64, "impl_update": u, "model_update": m["update"],
                    "grad_norm": m["norm"], "max_norm": max_norm}
            ctx.case(case, True)
            ctx.count("optimizer:clipped" if m["norm"] >= max_norm else "optimizer:unclipped")
            if not ctx.close(u, m["update"], 64.0):
                ctx.phi_fail("updates_through_global_norm_clip_then_adam", case, key="opt:" + name)
    # several consecutive updates: the clipped gradient (not the raw one) must enter Adam's moments
    for name, (algo, max_norm, lr) in algos.items():
        for rep in range(ctx.budget(2, 8)):
            n = int(rng.integers(2, 7))
            scales = [float(rng.choice([20.0, 50.0])), float(rng.choice([0.05, 0.2])), float(rng.choice([0.5, 5.0]))]
            grads = [rng.normal(size=n) * sc for sc in scales]
            params = {"w": jnp.zeros(n)}
            state = algo.optimizer.init(params)
            ups = []
            for g in grads:
                u, state = algo.optimizer.update({"w": jnp.asarray(g)}, state, params)
                ups.append(np.asarray(u["w"], np.float64))
            g64 = [np.asarray(jnp.asarray(g), np.float64) for g in grads]
            m = ctx.drv.call("opt_steps", max_norm=max_norm, lr=lr, grads=g64)
            case = {"kind": "optimizer-sequence", "algo": name, "grads": g64, "impl_updates": ups, "model_updates": m}
            ctx.case(case, True)
            ctx.count("optimizer:sequences")
            if not all(ctx.close(u, mu, 256.0) for u, mu in zip(ups, m)):
                ctx.phi_fail("updates_through_global_norm_clip_then_adam", case, key="opt-seq:" + name)
    # SAC has no global-norm clipping by construction (plain Adam): documented, not part of the statement


def check_on_policy_end_to_end(ctx):
    """'on data collected by the current policy every ratio is 1 and the approximate KL is 0', end to end:
    a rollout collected by the real algorithm with the real MLPActorCriticPolicy (all action-space kinds,
    clipping active on bounded boxes, non-unit std), then the real PPO loss with the unchanged policy."""
    from .common.realpolicy import reevaluation_cases
    for c in reevaluation_cases(ctx, ctx.budget(10, 30)):
        flat, policy = c["flat"], c["policy"]
        flat = eqx.tree_at(lambda b: (b.returns, b.advantages), flat,
                           (jnp.zeros_like(flat.rewards), jnp.ones_like(flat.rewards)), is_leaf=lambda x: x is None)
        normalize = bool(ctx.rng.random() < 0.5)
        _, stats = PPO.ppo_loss(policy, flat, normalize, 0.2, True, 0.5, 0.01)
        ratios = np.exp(c["reevaluated_log_prob"] - c["stored_log_prob"])
        slim = {k: v for k, v in c.items() if k not in ("policy", "flat")}
        case = {**slim, "kind": "on-policy-end-to-end", "approx_kl": float(stats.approx_kl),
                "policy_loss": float(stats.policy_loss), "max_abs_ratio_minus_one": float(np.max(np.abs(ratios - 1)))}
        ctx.case({"kind": "on-policy-end-to-end", "space": c["action_space"], "lp": c["stored_log_prob"]}, True)
        ctx.count("on-policy-e2e:" + c["action_space"])
        ctx.count("on-policy-e2e:out-of-bounds-samples", c["out_of_bounds_samples"])
        tol = 1e-6 if ctx.x64 else 2e-3
        expected_pl = 0.0 if normalize else -1.0        # advantages are all 1: -mean(A) (normalised: 0)
        if not (abs(case["approx_kl"]) < tol and case["max_abs_ratio_minus_one"] < tol
                and abs(case["policy_loss"] - expected_pl) < 10 * tol):
            ctx.phi_fail("on_policy_ratio_one_kl_zero", case, key="ppo:on_policy_end_to_end")
        ctx.gc(4)


def run(ctx):
    check_on_policy_end_to_end(ctx)
    for i in range(ctx.budget(25, 200)):
        check_losses(ctx, i)
        ctx.gc(16)
    check_optimizers(ctx)
