"""C19 — reported performance numbers: LoggingCallbackStepState.next on histories, full training
iterations with a recording backend and an independent history callback, and the evaluation
helper average_reward — vs lean/LeraxModel/Logging.lean."""
from __future__ import annotations

import equinox as eqx
import jax
import numpy as np
from jax import numpy as jnp
from jax import random as jr

from lerax.algorithm import A2C, DQN, PPO, REINFORCE
from lerax.benchmark import average_reward
from lerax.callback import (AbstractCallbackStepState, AbstractStepCallback, CallbackList,
                            LoggingCallback, LoggingCallbackStepState)
from lerax.wrapper import TimeLimit

from .common.collect import policy_desc, slice_env
from .common.recording import RecordingBackend
from .common.tabular import TabularQPolicy, random_ac_policy, random_tabular


# ------------------------------------------------------------------ next() on histories

def check_next(ctx, idx):
    rng = ctx.rng
    n = int(rng.integers(1, ctx.budget(120, 300)))
    alpha = float(rng.choice([0.0, 0.1, 0.5, 0.9, 1.0]))
    p = float(rng.choice([0.0, 0.05, 0.3, 1.0]))
    ft = np.float64 if ctx.x64 else np.float32
    rewards = np.asarray(rng.integers(-8, 9, n) / 4.0 if rng.random() < 0.5 else rng.uniform(-2, 2, n), ft)
    dones = rng.random(n) < p
    E = int(rng.choice([1, 3]))

    def drive(rs, ds):
        def body(s, x):
            return s.next(x[0], x[1], alpha), None
        return jax.lax.scan(body, LoggingCallbackStepState.initial(), (rs, ds))[0]

    if E == 1:
        out = jax.jit(drive)(jnp.asarray(rewards), jnp.asarray(dones))
        outs = [(rewards, dones, out)]
    else:
        R = np.stack([np.roll(rewards, 7 * e) * (e + 1) for e in range(E)]).astype(ft)
        D = np.stack([np.roll(dones, 3 * e) for e in range(E)])
        out = jax.jit(jax.vmap(drive))(jnp.asarray(R), jnp.asarray(D))
        outs = [(R[e], D[e], jax.tree.map(lambda x: x[e], out)) for e in range(E)]
    for rs, ds, st in outs:
        impl = {"step": int(st.step), "episode_return": float(st.episode_return),
                "episode_length": int(st.episode_length), "episode_done": bool(st.episode_done),
                "average_return": float(st.average_return), "average_length": float(st.average_length)}
        if impl["step"] < 0 or impl["episode_length"] < 0:
            ctx.phi_fail("step_counts_every_environment_step", {"kind": "next-history", "alpha": alpha, "n": n, "impl": impl},
                         key="log:negative-counter")
            continue
        m = ctx.drv.call("log_run", alpha=alpha, rewards=np.asarray(rs, np.float64), dones=ds, impl=impl,
                         tol=ctx.tol(float(n)))
        case = {"kind": "next-history", "alpha": alpha, "n": n, "vmapped": E > 1,
                "rewards": rs[:12], "dones": ds[:12], "impl": impl, "model": m["state"],
                "episodes": len(m["episode_returns"])}
        ctx.case({"idx": idx, "rs": rs, "ds": ds, "alpha": alpha}, bool(ds.any()), sample=case if idx == 0 else None)
        ctx.count("next:histories")
        ctx.count("next:episode-ends", int(ds.sum()))
        ctx.count(f"next:alpha={alpha}")
        if not m["phi"]["phi"]:
            ctx.phi_fail(m["phi"]["clause"], case, key="log:" + m["phi"]["clause"])
        ms = m["state"]
        ok = (ms["step"] == impl["step"] and ms["episode_length"] == impl["episode_length"]
              and ms["episode_done"] == impl["episode_done"]
              and ctx.close(ms["episode_return"], impl["episode_return"], float(n))
              and ctx.close(ms["average_return"], impl["average_return"], float(n))
              and ctx.close(ms["average_length"], impl["average_length"], float(n)))
        if not ok:
            ctx.disagree("LoggingCallbackStepState.next", case, impl=impl, model=ms)


# ------------------------------------------------------------------ training with a recording backend

class HistState(AbstractCallbackStepState):
    r: jax.Array
    d: jax.Array
    n: jax.Array


class HistoryCallback(AbstractStepCallback):
    """independent recorder of the true (environment reward, done) stream of every step"""
    size: int = eqx.field(static=True)

    def step_reset(self, ctx, *, key):
        return HistState(jnp.zeros(self.size), jnp.zeros(self.size, bool), jnp.array(0))

    def on_step(self, ctx, *, key):
        reward = ctx.locals.get("reward", ctx.reward)      # the reward the environment produced
        s = ctx.state
        return HistState(s.r.at[s.n].set(reward), s.d.at[s.n].set(ctx.done), s.n + 1)


def check_training(ctx, idx):
    rng = ctx.rng
    which = ["PPO", "DQN"][idx % 2]
    env0 = random_tabular(rng, p_term=0.12, p_trunc=0.0, dyadic=True)
    env = TimeLimit(env0, int(rng.integers(2, 6)))
    E, T = int(rng.choice([1, 3])), int(rng.integers(3, 9))
    iters = ctx.budget(3, 6)
    alpha = float(rng.choice([0.1, 0.5, 0.9]))
    LS = 4
    if which == "PPO":
        algo = PPO(num_envs=E, num_steps=T, num_epochs=1, num_batches=1, gamma=0.9)
        policy = random_ac_policy(rng, env0)
        warm = 0
    else:
        algo = DQN(buffer_size=64 * E, learning_starts=LS, num_envs=E, num_steps=T, batch_size=2)
        policy = TabularQPolicy(env0, rng.uniform(-1, 1, (int(env0.T.shape[0]), int(env0.T.shape[1]))), epsilon=0.5)
        warm = LS
    backend = RecordingBackend()
    # several backends on odd configurations: every backend receives every record, in order
    extra = [RecordingBackend() for _ in range(idx % 3)]
    cb = CallbackList(callbacks=[LoggingCallback([backend] + extra if extra else backend, name="verif", alpha=alpha),
                                 HistoryCallback(size=warm + iters * T + 1)])
    key = jr.key(int(rng.integers(0, 2**31)))
    state = eqx.filter_jit(lambda k: algo.reset(env, policy, key=k, callback=cb))(key)
    it = eqx.filter_jit(lambda s, k: algo.iteration(s, key=k, callback=cb))
    for k in range(1, iters + 1):
        key, kk = jr.split(key)
        state = it(state, kk)
        jax.effects_barrier()
        log_states, hist = state.step_state.callback_state.states
        avg_r, avg_l, steps = [], [], []
        for e in range(E):
            ls, hs = slice_env(log_states, e, E), slice_env(hist, e, E)
            n = int(hs.n)
            rs, ds = np.asarray(hs.r, np.float64)[:n], np.asarray(hs.d)[:n]
            impl = {"step": int(ls.step), "average_return": float(ls.average_return),
                    "average_length": float(ls.average_length)}
            m = ctx.drv.call("log_run", alpha=alpha, rewards=rs, dones=ds, impl=impl, tol=ctx.tol(64.0))
            case = {"kind": "training-log", "algo": which, "E": E, "T": T, "iteration": k, "env": e,
                    "alpha": alpha, "true_rewards": rs, "true_dones": ds, "impl": impl,
                    "model_ema_return": m["ema_return"], "model_ema_length": m["ema_length"]}
            ctx.case({"idx": idx, "k": k, "e": e}, bool(ds.any()), sample=case if (idx < 2 and k == iters and e == 0) else None)
            ctx.count("training:env-histories")
            ctx.count("training:episode-ends", int(ds.sum()))
            if n != warm + k * T:
                ctx.phi_fail("one_callback_step_per_environment_step", case, key="log:steps-per-env")
            if not m["phi"]["phi"]:
                ctx.phi_fail(m["phi"]["clause"], case, key="log:training:" + m["phi"]["clause"])
            avg_r.append(m["ema_return"]); avg_l.append(m["ema_length"]); steps.append(n)
        # what reached the backend
        recs = backend.records
        case = {"kind": "backend-records", "algo": which, "E": E, "T": T, "iteration": k,
                "records": [(s, {kk_: v for kk_, v in d.items() if kk_.startswith("episode/")}) for s, d in recs]}
        ctx.case({"idx": idx, "k": k, "backend": True}, True)
        ctx.count("training:backend-records-checked")
        if len(recs) != k:
            ctx.phi_fail("one_record_per_iteration_in_order", case, key="log:record-count")
            return
        for j, b2 in enumerate(extra):
            ctx.count("training:additional-backends-checked")
            if [(s_, sorted(d_.items())) for s_, d_ in b2.records] != [(s_, sorted(d_.items())) for s_, d_ in recs]:
                ctx.phi_fail("one_record_per_iteration_in_order",
                             {**case, "backend": j + 1, "records_of_that_backend": [(s_, len(d_)) for s_, d_ in b2.records]},
                             key="log:every-backend")
                return
        step, scal = recs[-1]
        if step != sum(steps) or [s for s, _ in recs] != sorted(s for s, _ in recs):
            ctx.phi_fail("record_carries_cumulative_environment_steps", case, key="log:record-step")
        if not (ctx.close(scal["episode/return"], float(np.mean(avg_r)), 64.0)
                and ctx.close(scal["episode/length"], float(np.mean(avg_l)), 64.0)):
            ctx.phi_fail("logged_statistics_are_mean_over_environments_of_episode_emas",
                         {**case, "expected_return": float(np.mean(avg_r)), "expected_length": float(np.mean(avg_l))},
                         key="log:record-values")


def check_logged_return_from_tables(ctx, idx):
    """Logged episode statistics against rewards reconstructed INDEPENDENTLY of anything the algorithm
    calls 'reward': the environment is a deterministic finite MDP (one noise value), so the reward the
    environment paid at every step follows from the recorded (state, action) pairs and the tables:
    s' = T[s, a], r = Rw[s, a, s'], done = term[s'] or trunc[s'] or clock + 1 >= time limit."""
    from .common.collect import collect
    rng = ctx.rng
    which = ["PPO", "A2C", "REINFORCE"][idx % 3]
    env0 = random_tabular(rng, n_noise=1, p_term=0.1, p_trunc=0.0, dyadic=True)
    N = int(rng.integers(2, 6))
    env = TimeLimit(env0, N)
    E, T = int(rng.choice([1, 2])), int(rng.integers(4, 10))
    alpha = float(rng.choice([0.1, 0.5, 0.9]))
    algo = {"PPO": lambda: PPO(num_envs=E, num_steps=T, num_epochs=1, num_batches=1, gamma=0.9),
            "A2C": lambda: A2C(num_envs=E, num_steps=T, gamma=0.9),
            "REINFORCE": lambda: REINFORCE(num_envs=E, num_steps=T, gamma=0.9)}[which]()
    policy = random_ac_policy(rng, env0)
    # critic values far from zero, so that a value-bootstrapped reward would be visible
    policy = eqx.tree_at(lambda p: p.values, policy, policy.values + 3.0)
    cb = LoggingCallback(RecordingBackend(), name="verif", alpha=alpha)
    key = jr.key(int(rng.integers(0, 2**31)))
    pre, post, buf, run = collect(algo, env, policy, key, callback=cb)
    Tt, Rw = np.asarray(env0.T), np.asarray(env0.Rw, np.float64)
    term, trunc = np.asarray(env0.term), np.asarray(env0.trunc)
    hist = [([], []) for _ in range(E)]
    for rollout in range(ctx.budget(2, 4)):
        if rollout > 0:
            key, kk = jr.split(key)
            post, buf = run(post, kk)
        for e in range(E):
            be = slice_env(buf, e, E)
            obs = np.asarray(be.observations, np.float64)
            acts = np.asarray(be.actions).astype(int).reshape(T)
            for t in range(T):
                s0, clock, a = int(obs[t, 0]), int(obs[t, 1]), int(acts[t])
                s1 = int(Tt[s0, a, 0])
                hist[e][0].append(float(Rw[s0, a, s1]))
                hist[e][1].append(bool(term[s1] or trunc[s1] or clock + 1 >= N))
            ls = slice_env(post.callback_state, e, E)
            impl = {"step": int(ls.step), "average_return": float(ls.average_return),
                    "average_length": float(ls.average_length)}
            rs, ds = np.asarray(hist[e][0], np.float64), np.asarray(hist[e][1])
            m = ctx.drv.call("log_run", alpha=alpha, rewards=rs, dones=ds, impl=impl, tol=ctx.tol(64.0))
            case = {"kind": "training-log-vs-tables", "algo": which, "E": E, "T": T, "time_limit": N, "rollout": rollout,
                    "env": e, "alpha": alpha, "rewards_the_environment_paid": rs, "episode_ends": ds, "impl": impl,
                    "model_ema_return": m["ema_return"], "model_ema_length": m["ema_length"]}
            ctx.case({"idx": idx, "r": rollout, "e": e, "rs": rs}, bool(ds.any()))
            ctx.count("training-vs-tables:env-histories")
            ctx.count("training-vs-tables:truncated-only-episode-ends",
                      int(sum(1 for i in range(len(ds)) if ds[i])))
            if not m["phi"]["phi"]:
                ctx.phi_fail(m["phi"]["clause"], case, key="log:tables:" + m["phi"]["clause"])
                return


# ------------------------------------------------------------------ evaluation helper

class _CoinState(eqx.Module):
    t: jax.Array


def check_average_reward_stochastic_terminal(ctx):
    """An environment whose `terminal` uses its key (allowed by the interface): +1 per step, every reached
    state is terminal with probability 1/2.  'Each episode ends at its first terminal state' makes the
    return geometric (mean 2, variance 2); an evaluation that re-tests a finished episode with fresh
    keys and resumes it reports far more.  Statistical clause: mean of 512 episodes within +-0.45
    (7 standard errors), every return an integer in [1, max_steps]."""
    from typing import ClassVar

    from lerax.env import AbstractEnv, AbstractEnvState
    from lerax.policy import AbstractPolicy
    from lerax.space import Box, Discrete

    class CoinState(AbstractEnvState):
        t: jax.Array

    class CoinEnv(AbstractEnv):
        name: ClassVar[str] = "Coin"
        action_space: Discrete
        observation_space: Box

        def __init__(self):
            self.action_space, self.observation_space = Discrete(2), Box(0.0, 1e6, shape=(1,))

        def initial(self, *, key):
            return CoinState(jnp.array(0))

        def action_mask(self, state, *, key):
            return None

        def transition(self, state, action, *, key):
            return CoinState(state.t + 1)

        def observation(self, state, *, key):
            return jnp.asarray([state.t], dtype=float)

        def reward(self, state, action, next_state, *, key):
            return jnp.array(1.0)

        def terminal(self, state, *, key):
            return jr.bernoulli(key, 0.5)

        def truncate(self, state):
            return jnp.array(False)

        def state_info(self, state):
            return {}

        def transition_info(self, state, action, next_state):
            return {}

        def default_renderer(self):
            raise NotImplementedError

        def render(self, state, renderer):
            raise NotImplementedError

    class ZeroPolicy(AbstractPolicy):
        name: ClassVar[str] = "Zero"
        action_space: Discrete
        observation_space: Box

        def __init__(self, env):
            self.action_space, self.observation_space = env.action_space, env.observation_space

        def reset(self, *, key):
            return None

        def __call__(self, state, observation, *, key=None, action_mask=None):
            return None, jnp.array(0)

    env = CoinEnv()
    policy = ZeroPolicy(env)
    from lerax.benchmark import rollout_scan
    for max_steps in (32, 64):
        keys = jr.split(jr.key(int(ctx.rng.integers(0, 2**31))), 512)
        rets = np.asarray(jax.jit(jax.vmap(lambda k: rollout_scan(env, policy, key=k, deterministic=True,
                                                                 max_steps=max_steps)))(keys), np.float64)
        avg = float(average_reward(env, policy, num_episodes=512, max_steps=max_steps, deterministic=True,
                                   key=jr.key(int(ctx.rng.integers(0, 2**31)))))
        case = {"kind": "average_reward-stochastic-terminal", "max_steps": max_steps, "episodes": 512,
                "mean_return_rollout_scan": float(rets.mean()), "average_reward": avg, "expected_mean": 2.0,
                "max_return": float(rets.max()), "histogram": np.bincount(rets.astype(int))[:12]}
        ctx.case(case, True)
        ctx.count("average_reward:stochastic-terminal")
        integral = bool(np.all(rets == np.round(rets)) and rets.min() >= 1 and rets.max() <= max_steps)
        if not (integral and abs(rets.mean() - 2.0) < 0.45 and abs(avg - 2.0) < 0.45):
            ctx.phi_fail("average_reward_is_mean_undiscounted_return_to_first_done_or_cap", case,
                         key="eval:stochastic-terminal")

def check_average_reward(ctx, idx):
    rng = ctx.rng
    family = ["deterministic", "length-determined"][idx % 2]
    box = bool(rng.random() < 0.3)
    N = int(rng.integers(2, 9))
    max_steps = [None, int(rng.integers(1, 14))][int(rng.random() < 0.7)]
    episodes = int(rng.integers(1, 5))
    if family == "deterministic":
        env0 = random_tabular(rng, box=box, n_noise=1, p_term=0.15, p_trunc=0.1)
        env0 = eqx.tree_at(lambda e: e.inits, env0, env0.inits[:1])
        det = True
    else:
        env0 = random_tabular(rng, box=box, p_term=0.0, p_trunc=0.0)
        c = float(rng.integers(1, 9)) / 4.0
        env0 = eqx.tree_at(lambda e: (e.term, e.trunc, e.Rw, e.coef), env0,
                           (jnp.zeros_like(env0.term), jnp.zeros_like(env0.trunc),
                            jnp.full_like(env0.Rw, c), jnp.zeros_like(env0.coef)))
        det = False
    env = TimeLimit(env0, N)
    policy = random_ac_policy(rng, env0, dyadic=False)
    key = jr.key(int(rng.integers(0, 2**31)))
    got = float(average_reward(env, policy, num_episodes=episodes, max_steps=max_steps,
                               deterministic=det, key=key))
    desc = [{"w": "timeLimit", "n": N}]
    if family == "deterministic":
        exp = ctx.drv.call("eval_episode", tab=env0.describe(), stack=desc, policy=policy_desc(policy),
                           init=int(env0.inits[0]), max_steps=max_steps)
    else:
        exp = float(env0.Rw[0, 0, 0]) * (N if max_steps is None else min(N, max_steps))
    case = {"kind": "average_reward", "family": family, "box": box, "time_limit": N, "max_steps": max_steps,
            "num_episodes": episodes, "impl": got, "expected": exp}
    ctx.case({**case, "idx": idx}, True, sample=case if idx < 2 else None)
    ctx.count("average_reward:" + family)
    ctx.count("average_reward:capped" if (max_steps is not None and max_steps < N) else "average_reward:episode-end")
    if not ctx.close(got, exp, 16.0):
        ctx.phi_fail("average_reward_is_mean_undiscounted_return_to_first_done_or_cap", case,
                     key="eval:" + family)


def run(ctx):
    for i in range(ctx.budget(30, 200)):
        check_next(ctx, i)
    for i in range(ctx.budget(4, 16)):
        check_training(ctx, i)
        ctx.gc(4)
    for i in range(ctx.budget(3, 12)):
        check_logged_return_from_tables(ctx, i)
        ctx.gc(4)
    check_average_reward_stochastic_terminal(ctx)
    for i in range(ctx.budget(12, 60)):
        check_average_reward(ctx, i)
