"""C14 — spaces: contains / sample / canonical / flatten / == / hash / Gymnasium round trip
vs lean/LeraxModel/Space.lean.

Spaces are generated as *descriptors* (plain JSON, the driver's wire format), built into real
lerax spaces with `build`, and every answer of the real code is compared with the model; Φ
(`phiContains`, `phiMember`, `phiFlatten`, `phiEq`, `phiGym`) is decided by the driver on the
implementation's own answers.
"""
from __future__ import annotations

import logging
import warnings
from collections import OrderedDict

import jax
import numpy as np
from jax import numpy as jnp
from jax import random as jr

from lerax.space import Box, Dict, Discrete, MultiBinary, MultiDiscrete, Tuple

warnings.filterwarnings("ignore")
logging.getLogger("jax").setLevel(logging.ERROR)

INF = float("inf")
NAN = float("nan")
KEY_POOL = ["b", "a", "B", "ab", "", "z", "k1", "é", "aa", "Z"]
BOX_SHAPES = [(), (1,), (2,), (3,), (2, 3), (1, 2), (3, 1), (2, 1, 2), (2, 2, 2), (0,), (2, 0)]
MB_SHAPES = [(1,), (2,), (3,), (2, 3), (3, 2), (1, 1), (2, 1, 2), (2, 2, 3)]


# ------------------------------------------------------------------ helpers

def prod(shape):
    n = 1
    for d in shape:
        n *= int(d)
    return n


class Gen:
    """everything that depends on the run: rng and the float type the implementation uses"""

    def __init__(self, ctx):
        self.ctx = ctx
        self.rng = ctx.rng
        self.ft = np.float64 if ctx.x64 else np.float32

    def r(self, x):
        """a Python float as the implementation will see it (rounded to its float type)"""
        with np.errstate(over="ignore"):
            return float(self.ft(x))

    def choice(self, xs):
        return xs[int(self.rng.integers(len(xs)))]

    def dyadic(self, lo=-16, hi=16):
        return float(self.rng.integers(lo * 4, hi * 4 + 1)) / 4.0

    # one unit in the last place; subnormals are avoided (XLA:CPU flushes them to zero, which is a
    # floating-point effect outside the exact-arithmetic model)
    def next_up(self, x):
        y = float(np.nextafter(self.ft(x), self.ft(INF)))
        tiny = float(np.finfo(self.ft).tiny)
        return tiny if 0.0 <= y < tiny else (-0.0 if -tiny < y < 0.0 else y)

    def next_down(self, x):
        y = float(np.nextafter(self.ft(x), self.ft(-INF)))
        tiny = float(np.finfo(self.ft).tiny)
        return -tiny if -tiny < y <= 0.0 else (0.0 if 0.0 < y < tiny else y)


# ------------------------------------------------------------------ space descriptors

def gen_bounds(g: Gen):
    """one (low, high) pair; kinds cover finite, equal, half-infinite, unbounded, signed zero"""
    kind = g.choice(["finite", "finite", "equal", "lower", "upper", "free", "negzero-low",
                     "negzero-high", "zero", "nondyadic"])
    a = g.dyadic()
    w = float(g.rng.integers(1, 33)) / 4.0
    if kind == "finite":
        return a, a + w, kind
    if kind == "equal":
        return a, a, kind
    if kind == "lower":
        return a, INF, kind
    if kind == "upper":
        return -INF, a, kind
    if kind == "free":
        return -INF, INF, kind
    if kind == "negzero-low":
        return -0.0, w, kind
    if kind == "negzero-high":
        return -w, -0.0, kind
    if kind == "zero":
        return 0.0, w, kind
    lo = g.r(0.1 + float(g.rng.integers(0, 3)))
    return lo, g.r(lo + 0.7), kind


def gen_leaf(g: Gen):
    k = g.choice(["box", "box", "discrete", "mb", "md"])
    if k == "box":
        shape = g.choice(BOX_SHAPES)
        n = prod(shape)
        if n > 0 and g.rng.random() < 0.3:
            lo, hi, kind = gen_bounds(g)
            g.ctx.count("box-bounds:" + kind, n)
            low, high = [lo] * n, [hi] * n
        else:
            low, high = [], []
            for _ in range(n):
                lo, hi, kind = gen_bounds(g)
                g.ctx.count("box-bounds:" + kind)
                low.append(lo)
                high.append(hi)
        return {"k": "box", "shape": list(shape), "low": low, "high": high}
    if k == "discrete":
        return {"k": "discrete", "n": int(g.choice([1, 2, 3, 5, 17]))}
    if k == "mb":
        return {"k": "mb", "shape": list(g.choice(MB_SHAPES))}
    m = int(g.rng.integers(1, 5))
    return {"k": "md", "nvec": [int(g.rng.integers(1, 7)) for _ in range(m)]}


def gen_space(g: Gen, depth: int):
    if depth <= 0 or g.rng.random() < 0.35:
        return gen_leaf(g)
    if g.rng.random() < 0.5:
        m = int(g.rng.integers(0, 4)) if g.rng.random() < 0.9 else 0
        ks = list(g.rng.permutation(KEY_POOL)[:m])
        return {"k": "dict", "items": [[str(k), gen_space(g, depth - 1)] for k in ks]}
    m = int(g.rng.integers(1, 4))
    return {"k": "tuple", "items": [gen_space(g, depth - 1) for _ in range(m)]}


def depth_of(d):
    if d["k"] == "dict":
        return 1 + max([depth_of(s) for _k, s in d["items"]], default=0)
    if d["k"] == "tuple":
        return 1 + max(depth_of(s) for s in d["items"])
    return 0


def kinds_of(d, acc=None):
    acc = set() if acc is None else acc
    acc.add(d["k"])
    if d["k"] == "dict":
        for _k, s in d["items"]:
            kinds_of(s, acc)
    if d["k"] == "tuple":
        for s in d["items"]:
            kinds_of(s, acc)
    return acc


def build(d, g: Gen, variant=0):
    """descriptor -> real lerax space (variant changes *how* the same space is constructed)"""
    k = d["k"]
    if k == "box":
        shape = tuple(d["shape"])
        low = np.asarray(d["low"], dtype=np.float64).reshape(shape)
        high = np.asarray(d["high"], dtype=np.float64).reshape(shape)
        n = prod(shape)
        uniform = n > 0 and len(set(map(repr, d["low"]))) == 1 and len(set(map(repr, d["high"]))) == 1
        if uniform and variant % 2 == 0:
            return Box(d["low"][0], d["high"][0], shape=shape)
        return Box(low, high) if variant % 3 else Box(jnp.asarray(low), jnp.asarray(high), shape=shape)
    if k == "discrete":
        return Discrete(d["n"])
    if k == "mb":
        sh = tuple(d["shape"])
        return MultiBinary(sh[0]) if len(sh) == 1 and variant % 2 == 0 else MultiBinary(sh)
    if k == "md":
        return MultiDiscrete(tuple(d["nvec"]))
    if k == "dict":
        items = [(key, build(s, g, variant)) for key, s in d["items"]]
        return Dict(OrderedDict(items)) if variant % 2 else Dict(dict(items))
    if k == "tuple":
        return Tuple(tuple(build(s, g, variant) for s in d["items"]))
    raise ValueError(k)


def describe(s):
    """real lerax space -> descriptor"""
    if isinstance(s, Box):
        return {"k": "box", "shape": [int(x) for x in s.shape],
                "low": np.asarray(s.low, dtype=np.float64).ravel().tolist(),
                "high": np.asarray(s.high, dtype=np.float64).ravel().tolist()}
    if isinstance(s, Discrete):
        return {"k": "discrete", "n": int(s.n)}
    if isinstance(s, MultiBinary):
        return {"k": "mb", "shape": [int(x) for x in s.n]}
    if isinstance(s, MultiDiscrete):
        return {"k": "md", "nvec": [int(x) for x in s.nvec]}
    if isinstance(s, Dict):
        return {"k": "dict", "items": [[str(k), describe(v)] for k, v in s.spaces.items()]}
    if isinstance(s, Tuple):
        return {"k": "tuple", "items": [describe(v) for v in s.spaces]}
    raise TypeError(type(s))


def sort_desc(d):
    """descriptor with every Dict's keys in Gymnasium's (sorted) order"""
    if d["k"] == "dict":
        return {"k": "dict", "items": sorted([[k, sort_desc(s)] for k, s in d["items"]], key=lambda kv: kv[0])}
    if d["k"] == "tuple":
        return {"k": "tuple", "items": [sort_desc(s) for s in d["items"]]}
    return d


def wire_space(d):
    """descriptor -> wire (floats as bit patterns)"""
    k = d["k"]
    if k == "box":
        return {"k": "box", "shape": d["shape"], "low": np.asarray(d["low"], dtype=np.float64).reshape(-1),
                "high": np.asarray(d["high"], dtype=np.float64).reshape(-1)}
    if k == "dict":
        return {"k": "dict", "items": [[key, wire_space(s)] for key, s in d["items"]]}
    if k == "tuple":
        return {"k": "tuple", "items": [wire_space(s) for s in d["items"]]}
    return d


def same_desc(a, b):
    """structural equality of descriptors, numbers compared numerically (0.0 == -0.0)"""
    if a is None or b is None or a["k"] != b["k"]:
        return False
    k = a["k"]
    if k == "box":
        return (list(a["shape"]) == list(b["shape"])
                and np.array_equal(np.asarray(a["low"], dtype=np.float64), np.asarray(b["low"], dtype=np.float64))
                and np.array_equal(np.asarray(a["high"], dtype=np.float64), np.asarray(b["high"], dtype=np.float64)))
    if k == "dict":
        return (len(a["items"]) == len(b["items"])
                and all(x[0] == y[0] and same_desc(x[1], y[1]) for x, y in zip(a["items"], b["items"])))
    if k == "tuple":
        return (len(a["items"]) == len(b["items"])
                and all(same_desc(x, y) for x, y in zip(a["items"], b["items"])))
    return a == b


# ------------------------------------------------------------------ values

class Foreign:
    """a value of a foreign type"""

    def __repr__(self):
        return "<Foreign object>"


def val_wire(x, g: Gen):
    """Python value -> the model's `Val` (wire form).  Numbers are taken as the implementation
    will see them (its float type); everything that is not a number / tuple / list / dict is foreign."""
    if isinstance(x, range):        # an integer sequence like any list
        x = list(x)
    if isinstance(x, OrderedDict):
        return {"k": "odict", "items": [[str(k), val_wire(v, g)] for k, v in x.items()]}
    if isinstance(x, dict):
        return {"k": "pdict", "items": [[str(k), val_wire(v, g)] for k, v in x.items()]}
    if isinstance(x, tuple):
        return {"k": "tuple", "items": [val_wire(v, g) for v in x]}
    if isinstance(x, list):
        return {"k": "list", "items": [val_wire(v, g) for v in x]}
    if isinstance(x, (bool, np.bool_)):
        return {"k": "arr", "shape": [], "data": np.asarray([float(x)])}
    if isinstance(x, (int, np.integer)):
        return {"k": "arr", "shape": [], "data": np.asarray([float(int(x))])}
    if isinstance(x, (float, np.floating)):
        return {"k": "arr", "shape": [], "data": np.asarray([g.r(x)])}
    if hasattr(x, "shape") and hasattr(x, "dtype"):
        a = np.asarray(x)
        if a.dtype.kind not in "biuf":
            return {"k": "foreign"}
        if a.dtype.kind == "f":
            with np.errstate(over="ignore"):
                a = a.astype(g.ft)
        return {"k": "arr", "shape": [int(n) for n in a.shape], "data": a.astype(np.float64).reshape(-1)}
    return {"k": "foreign"}


def show(x):
    """readable form of a value for replays"""
    if isinstance(x, OrderedDict):
        return {"OrderedDict": [[k, show(v)] for k, v in x.items()]}
    if isinstance(x, dict):
        return {"dict": [[k, show(v)] for k, v in x.items()]}
    if isinstance(x, tuple):
        return {"tuple": [show(v) for v in x]}
    if isinstance(x, list):
        return {"list": [show(v) for v in x]}
    if hasattr(x, "shape") and hasattr(x, "dtype"):
        a = np.asarray(x)
        return {"array": a.tolist() if a.dtype.kind in "biuf" else repr(a), "dtype": str(a.dtype),
                "shape": list(a.shape), "type": type(x).__module__.split(".")[0]}
    if x is None or isinstance(x, (bool, int, str)):
        return x
    if isinstance(x, float):
        return x if np.isfinite(x) else repr(x)
    return repr(x)


def wrap_array(g: Gen, a: np.ndarray, intlike: bool):
    """the same array handed over as jax array / numpy array / nested lists / scalar"""
    form = g.choice(["jnp", "np", "list", "np64", "scalar"])
    if intlike and g.rng.random() < 0.6:
        a = a.astype(np.int32)
    if form == "jnp":
        return jnp.asarray(a)
    if form == "np64" and a.dtype.kind == "f":
        return np.asarray(a, dtype=np.float64)
    if form == "list" and a.ndim > 0:
        return a.tolist()
    if form == "scalar" and a.ndim == 0:
        return a.item()
    return np.asarray(a)


def box_entry_member(g: Gen, lo, hi):
    opts = []
    if np.isfinite(lo):
        opts += [lo, lo]
    if np.isfinite(hi):
        opts += [hi, hi]
    if np.isfinite(lo) and np.isfinite(hi):
        opts += [g.r((lo + hi) / 2), g.r(lo + (hi - lo) * float(g.rng.random()))]
        opts = [min(max(o, lo), hi) for o in opts]
    elif np.isfinite(lo):
        opts += [lo + float(g.rng.integers(0, 64)) / 4, lo + 1e6, INF]
    elif np.isfinite(hi):
        opts += [hi - float(g.rng.integers(0, 64)) / 4, hi - 1e6, -INF]
    else:
        opts += [g.dyadic(), 0.0, -0.0, 1e6, -1e6, INF, -INF]
    if lo <= 0.0 <= hi:
        opts += [0.0, -0.0]
    return g.choice(opts)


def gen_member(g: Gen, d, plain=False):
    """a member of the space described by `d` (plain: arrays at the leaves, keys in order)"""
    k = d["k"]
    if k == "box":
        shape = tuple(d["shape"])
        a = np.asarray([box_entry_member(g, lo, hi) for lo, hi in zip(d["low"], d["high"])],
                       dtype=g.ft).reshape(shape)
        return jnp.asarray(a) if plain else wrap_array(g, a, False)
    if k == "discrete":
        i = g.choice([0, d["n"] - 1, int(g.rng.integers(0, d["n"]))])
        a = np.asarray(i, dtype=np.int32) if g.rng.random() < 0.7 or plain else np.asarray(float(i), dtype=g.ft)
        return jnp.asarray(a) if plain else wrap_array(g, a, False)
    if k == "mb":
        shape = tuple(d["shape"])
        a = g.rng.integers(0, 2, size=shape)
        if plain:
            return jnp.asarray(a.astype(bool))
        a = a.astype(g.choice([bool, np.int32, g.ft]))
        return wrap_array(g, a, False)
    if k == "md":
        nvec = d["nvec"]
        a = np.asarray([g.choice([0, n - 1, int(g.rng.integers(0, n))]) for n in nvec], dtype=np.int32)
        if plain:
            return jnp.asarray(a)
        if g.rng.random() < 0.3:
            a = a.astype(g.ft)
        return wrap_array(g, a, False)
    if k == "dict":
        items = [(key, gen_member(g, s, plain)) for key, s in d["items"]]
        if not plain and len(items) > 1 and g.rng.random() < 0.25:
            g.ctx.count("member:dict-keys-permuted")
            items = [items[i] for i in g.rng.permutation(len(items))]
        return OrderedDict(items)
    if k == "tuple":
        return tuple(gen_member(g, s, plain) for s in d["items"])
    raise ValueError(k)


def ragged(g: Gen):
    return g.choice([[[1, 2], [3]], [1, [2]], [[0], [0, 0]], [[[0]], [0]]])


def mutate_leaf(g: Gen, d, x):
    """a near-miss of member `x` of leaf space `d`; returns (value, mutation name)"""
    k = d["k"]
    foreign = [("string", "abc"), ("none", None), ("object", Foreign()), ("ragged", ragged(g)),
               ("odict", OrderedDict(a=1)), ("dict", {}), ("list-of-none", [None]), ("list-of-str", ["a"])]
    if g.rng.random() < 0.22:
        name, v = g.choice(foreign)
        return v, name
    a = np.array(np.asarray(x), copy=True)
    shape_muts = ["add-axis", "flatten", "drop", "transpose", "scalar", "extend", "empty"]
    if g.rng.random() < 0.25:
        m = g.choice(shape_muts)
        if m == "add-axis":
            v = a[None]
        elif m == "flatten":
            v = a.reshape(-1) if a.ndim != 1 else a.reshape(-1, 1)
        elif m == "drop":
            v = a[0] if a.ndim > 0 and a.shape[0] > 0 else np.zeros((1,) * (a.ndim + 1))
        elif m == "transpose":
            v = a.T if a.ndim >= 2 and a.T.shape != a.shape else a.reshape(a.shape + (1,))
        elif m == "scalar":
            v = np.asarray(0) if a.ndim > 0 else np.asarray([0])
        elif m == "extend":
            v = np.concatenate([a, a[:1]], axis=0) if a.ndim > 0 and a.shape[0] > 0 else np.zeros((1,) + a.shape)
        else:
            v = np.zeros((0,)) if a.shape != (0,) else np.zeros((1,))
        form = g.choice(["np", "jnp", "list"])
        v = jnp.asarray(v) if form == "jnp" else (v.tolist() if form == "list" else v)
        return v, "shape:" + m
    a = a.astype(np.float64)
    n = a.size
    if k == "box":
        if n == 0:
            return np.zeros(tuple(d["shape"]) + (1,)), "shape:add-axis"
        i = int(g.rng.integers(n))
        lo, hi = d["low"][i], d["high"][i]
        opts = [("nan", NAN)]
        if np.isfinite(lo):
            opts += [("below-by-ulp", g.next_down(lo)), ("below", lo - 1.0), ("-inf", -INF)]
        if np.isfinite(hi):
            opts += [("above-by-ulp", g.next_up(hi)), ("above", hi + 1.0), ("+inf", INF)]
        if not np.isfinite(lo):
            opts += [("at--inf", -INF)]
        if not np.isfinite(hi):
            opts += [("at-+inf", INF)]
        name, val = g.choice(opts)
        a.reshape(-1)[i] = val
        return wrap_array(g, a.astype(g.ft), False), "box:" + name
    if k == "discrete":
        nn = d["n"]
        opts = [("minus-one", -1), ("n", nn), ("n+1", nn + 1), ("half", 0.5), ("n-half", nn - 0.5),
                ("nan", NAN), ("+inf", INF), ("-inf", -INF), ("neg-zero", -0.0), ("true", True),
                ("rank1", [0]), ("tuple1", (0,)), ("big-2^31", 2 ** 31), ("big-2^40", 2 ** 40),
                ("neg-big", -2 ** 40), ("neg-frac", -0.25), ("float-n-1", float(nn - 1)),
                ("minus-n", -nn), ("np-rank1", np.asarray([0]))]
        name, val = g.choice(opts)
        if isinstance(val, float) and g.rng.random() < 0.5:
            val = g.choice([jnp.asarray(val), np.asarray(val, dtype=g.ft)])
        elif isinstance(val, int) and not isinstance(val, bool) and abs(val) < 2 ** 31 and g.rng.random() < 0.5:
            val = g.choice([jnp.asarray(val), np.asarray(val)])
        return val, "discrete:" + name
    i = int(g.rng.integers(n))
    if k == "mb":
        opts = [("two", 2.0), ("minus-one", -1.0), ("half", 0.5), ("nan", NAN), ("+inf", INF),
                ("neg-zero", -0.0), ("one", 1.0), ("big-2^31", None)]
        name, val = g.choice(opts)
        if val is None:
            lst = a.astype(int).tolist()
            flat_set(lst, i, a.shape, 2 ** 31)
            return lst, "mb:" + name
        a.reshape(-1)[i] = val
        if float(val).is_integer():
            return wrap_array(g, a, True), "mb:" + name
        return wrap_array(g, a.astype(g.ft), False), "mb:" + name
    if k == "md":
        nn = d["nvec"][i]
        opts = [("minus-one", -1.0), ("n", float(nn)), ("n+1", float(nn + 1)), ("half", 0.5),
                ("nan", NAN), ("-inf", -INF), ("+inf", INF), ("neg-zero", -0.0), ("minus-n", -float(nn)),
                ("neg-frac", -0.5), ("all-minus-one", None), ("big-2^31", None)]
        name, val = g.choice(opts)
        if name == "all-minus-one":
            return wrap_array(g, np.full(a.shape, -1.0), True), "md:" + name
        if name == "big-2^31":
            lst = a.astype(int).tolist()
            lst[i] = 2 ** 31
            return lst, "md:" + name
        a.reshape(-1)[i] = val
        if np.isfinite(val) and float(val).is_integer():
            return wrap_array(g, a, True), "md:" + name
        return wrap_array(g, a.astype(g.ft), False), "md:" + name
    raise ValueError(k)


def boundary_values(g: Gen, d):
    """deterministic boundary / malformed candidates for a leaf space (the same for every seed)"""
    k = d["k"]
    out = [("none", None), ("string", "abc"), ("ragged", [[1, 2], [3]]), ("object", Foreign()),
           ("odict", OrderedDict(a=1)), ("dict", {}), ("empty-list", []), ("big-2^40", 2 ** 40),
           # foreign types that array conversion treats specially: digit strings, byte strings, complex numbers,
           # generators, object / datetime arrays, exotic scalars — all are "foreign types": rejected, never an exception
           ("string-012", "012"), ("string-1", "1"), ("string-1e3", "1e3"), ("string-empty", ""), ("bytes", b"\x01"),
           ("complex", 1 + 2j), ("complex64-real", np.complex64(1)), ("complex-array", np.array([1j, 0])),
           ("object-array", np.array([1, None], dtype=object)), ("datetime64", np.datetime64("2020-01-01")),
           ("generator", (i for i in [1])), ("range", range(2)), ("set", {1}), ("ellipsis", Ellipsis),
           ("big-2^63", 2 ** 63), ("neg-big", -2 ** 63 - 1), ("list-str-num", ["1", 2])]
    if k == "box":
        shape = tuple(d["shape"])
        lo = np.asarray(d["low"], dtype=np.float64).reshape(shape)
        hi = np.asarray(d["high"], dtype=np.float64).reshape(shape)
        out += [("at-low", lo.astype(g.ft)), ("at-high", jnp.asarray(hi.astype(g.ft))),
                ("at-low-list", lo.tolist()), ("nan", np.full(shape, NAN, dtype=g.ft))]
        if lo.size:
            below = np.asarray([g.next_down(x) if np.isfinite(x) else x for x in lo.reshape(-1)]).reshape(shape)
            above = np.asarray([g.next_up(x) if np.isfinite(x) else x for x in hi.reshape(-1)]).reshape(shape)
            out += [("all-below-by-ulp", below.astype(g.ft)), ("all-above-by-ulp", above.astype(g.ft)),
                    ("row-of-box", lo[None].astype(g.ft))]
    elif k == "discrete":
        n = d["n"]
        out += [("zero", 0), ("n-1", n - 1), ("minus-one", -1), ("n", n), ("n-1-float", float(n - 1)),
                ("half", 0.5), ("nan", NAN), ("+inf", INF), ("-inf", -INF), ("neg-zero", -0.0),
                ("rank1", [0]), ("jnp-n-1", jnp.asarray(n - 1)), ("np-minus-one", np.asarray(-1)),
                ("big-2^31", 2 ** 31), ("neg-big", -2 ** 31 - 1), ("true", True)]
    elif k == "mb":
        shape = tuple(d["shape"])
        out += [("zeros", np.zeros(shape, dtype=bool)), ("ones", jnp.ones(shape, dtype=jnp.int32)),
                ("ones-float-list", np.ones(shape).tolist()), ("twos", np.full(shape, 2)),
                ("minus-ones", np.full(shape, -1)), ("halves", np.full(shape, 0.5, dtype=g.ft)),
                ("nans", np.full(shape, NAN, dtype=g.ft)), ("flat", np.zeros((prod(shape),) + (1,), dtype=bool)),
                ("first-row", np.zeros(shape, dtype=bool)[0]), ("neg-zeros", np.full(shape, -0.0, dtype=g.ft))]
    elif k == "md":
        nvec = np.asarray(d["nvec"])
        out += [("zeros", np.zeros(len(nvec), dtype=np.int32)), ("max", jnp.asarray(nvec - 1)),
                ("max-float-list", (nvec - 1).astype(float).tolist()), ("at-nvec", nvec),
                ("minus-ones", np.full(len(nvec), -1)), ("first-minus-one", [-1] + [0] * (len(nvec) - 1)),
                ("last-minus-one", [0] * (len(nvec) - 1) + [-1]),
                ("neg-inf", np.full(len(nvec), -INF, dtype=g.ft)), ("halves", np.full(len(nvec), 0.5, dtype=g.ft)),
                ("nans", np.full(len(nvec), NAN, dtype=g.ft)), ("too-long", np.zeros(len(nvec) + 1, dtype=np.int32)),
                ("two-d", np.zeros((1, len(nvec)), dtype=np.int32)), ("scalar", 0)]
        # members (and the first non-member) given in narrow integer dtypes: membership is about the VALUE
        out += [("uint8-max-member", np.minimum(nvec - 1, 255).astype(np.uint8)),
                ("int8-max-member", np.minimum(nvec - 1, 127).astype(np.int8)),
                ("uint8-mid", np.minimum(nvec // 2, 200).astype(np.uint8)),
                ("int16-max-member", (nvec - 1).astype(np.int16)), ("uint16-at-nvec", nvec.astype(np.uint16)),
                ("bool-ones", np.ones(len(nvec), dtype=bool)), ("float16-zeros", np.zeros(len(nvec), dtype=np.float16))]
    if k == "discrete":
        n = int(d["n"])
        out += [("uint8-max-member", np.uint8(min(n - 1, 255))), ("int8-max-member", np.int8(min(n - 1, 127))),
                ("uint8-array", np.asarray(min(n - 1, 200), dtype=np.uint8)), ("int16-at-n", np.int16(min(n, 30000))),
                ("bool-true", np.bool_(True)), ("float16-zero", np.float16(0.0))]
    # ... and in integer dtypes WIDER than the default integer type: the value decides, not its image under a
    # wrapping cast (uint32 max is not -1, 2^32 + 1 is not 1, 2^32 is not 0)
    if k == "discrete":
        out += [("uint32-max", np.uint32(2 ** 32 - 1)), ("uint32-2^31", np.uint32(2 ** 31)),
                ("int64-2^32+1", np.int64(2 ** 32 + 1)), ("int64-2^32", np.int64(2 ** 32)),
                ("int64-neg-2^32+1", np.int64(-2 ** 32 + 1)), ("uint64-2^32+1", np.uint64(2 ** 32 + 1)),
                ("uint32-array-max", np.asarray(2 ** 32 - 1, dtype=np.uint32)), ("int64-member", np.int64(0))]
    elif k == "md":
        m = len(d["nvec"])
        for nm, v, dt in (("uint32-max", 2 ** 32 - 1, np.uint32), ("int64-2^32+1", 2 ** 32 + 1, np.int64),
                          ("int64-2^32", 2 ** 32, np.int64), ("uint64-2^32+1", 2 ** 32 + 1, np.uint64)):
            a = np.zeros(m, dtype=dt)
            a[m - 1] = v
            out.append((nm + "-last", a))
        out.append(("int64-member", np.zeros(m, dtype=np.int64)))
    elif k == "mb":
        shape = tuple(d["shape"])
        out += [("int64-2^32+1", np.full(shape, 2 ** 32 + 1, dtype=np.int64)), ("int64-2^32", np.full(shape, 2 ** 32, dtype=np.int64)),
                ("uint32-max", np.full(shape, 2 ** 32 - 1, dtype=np.uint32)), ("uint64-ones", np.ones(shape, dtype=np.uint64))]
    elif k == "box":
        shape = tuple(d["shape"])
        out += [("int64-2^32", np.full(shape, 2 ** 32, dtype=np.int64)), ("int64-neg-2^32", np.full(shape, -2 ** 32, dtype=np.int64)),
                ("uint32-max", np.full(shape, 2 ** 32 - 1, dtype=np.uint32)), ("uint64-2^32+1", np.full(shape, 2 ** 32 + 1, dtype=np.uint64))]
    return out


def flat_set(lst, i, shape, val):
    idx = np.unravel_index(i, shape)
    cur = lst
    for j in idx[:-1]:
        cur = cur[j]
    cur[idx[-1]] = val


def mutate(g: Gen, d, x):
    """near-miss of member `x` of space `d`: returns (value, mutation name, kind of the touched node)"""
    k = d["k"]
    if k in ("box", "discrete", "mb", "md"):
        v, name = mutate_leaf(g, d, x)
        return v, name, k
    if k == "dict":
        items = list(x.items())
        here = g.rng.random() < 0.4 or not items
        if here:
            m = g.choice(["plain-dict", "missing-key", "extra-key", "permuted", "tuple", "pairs", "none",
                          "renamed-key"])
            if m == "plain-dict":
                return dict(items), "dict:" + m, k
            if m == "missing-key" and items:
                j = int(g.rng.integers(len(items)))
                return OrderedDict(items[:j] + items[j + 1:]), "dict:" + m, k
            if m == "renamed-key" and items:
                j = int(g.rng.integers(len(items)))
                items[j] = (items[j][0] + "_", items[j][1])
                return OrderedDict(items), "dict:" + m, k
            if m == "permuted" and len(items) > 1:
                return OrderedDict(items[1:] + items[:1]), "dict:" + m, k
            if m == "tuple":
                return tuple(v for _k, v in items), "dict:" + m, k
            if m == "pairs":
                return [(kk, v) for kk, v in items], "dict:" + m, k
            if m == "none":
                return None, "dict:" + m, k
            return OrderedDict(items + [("extra", jnp.asarray(0))]), "dict:extra-key", k
        j = int(g.rng.integers(len(items)))
        key = items[j][0]
        sub = dict(d["items"])[key]
        v, name, kk = mutate(g, sub, items[j][1])
        items[j] = (key, v)
        return OrderedDict(items), name, kk
    if k == "tuple":
        xs = list(x)
        if g.rng.random() < 0.4:
            m = g.choice(["list", "shorter", "longer", "none", "ndarray", "odict"])
            if m == "list":
                return xs, "tuple:" + m, k
            if m == "shorter":
                return tuple(xs[:-1]), "tuple:" + m, k
            if m == "longer":
                return tuple(xs + [xs[-1]]), "tuple:" + m, k
            if m == "none":
                return None, "tuple:" + m, k
            if m == "ndarray":
                return np.zeros((len(xs),)), "tuple:" + m, k
            return OrderedDict((str(i), v) for i, v in enumerate(xs)), "tuple:" + m, k
        j = int(g.rng.integers(len(xs)))
        v, name, kk = mutate(g, d["items"][j], xs[j])
        xs[j] = v
        return tuple(xs), name, kk
    raise ValueError(k)


# ------------------------------------------------------------------ observing the implementation

def exc_name(e):
    return type(e).__name__


def observe_contains(space, x):
    try:
        r = space.contains(x)
    except Exception as e:  # noqa: BLE001
        return {"k": "raised", "exc": exc_name(e)}
    if isinstance(r, (bool, np.bool_)):
        return {"k": "scalar", "b": bool(r)}
    if hasattr(r, "shape") and hasattr(r, "dtype"):
        if tuple(r.shape) == () and np.asarray(r).dtype == np.bool_:
            return {"k": "scalar", "b": bool(r)}
        return {"k": "array", "shape": [int(n) for n in r.shape]}
    return {"k": "raised", "exc": "not-a-boolean:" + type(r).__name__}


def observe_in(space, x):
    try:
        r = x in space
    except Exception as e:  # noqa: BLE001
        return "raised:" + exc_name(e)
    return bool(r)


NAMES = {"box": "Box", "discrete": "Discrete", "mb": "MultiBinary", "md": "MultiDiscrete",
         "dict": "Dict", "tuple": "Tuple"}


def answer_key(obs, leaf, impl, model):
    leaf = NAMES.get(leaf, leaf)
    if impl["k"] == "raised":
        return f"{obs}/{leaf}/raised:{impl['exc']}"
    if impl["k"] == "array":
        return f"{obs}/{leaf}/non-scalar-answer"
    return f"{obs}/{leaf}/" + ("accepted-non-member" if impl["b"] and not model else "rejected-member")


def to_np(x):
    return jax.tree.map(lambda a: np.asarray(a), x)


# ------------------------------------------------------------------ the checks

def check_contains(g: Gen, d, space, n_members, n_malformed):
    ctx = g.ctx
    vals, tags = [], []
    for _ in range(n_members):
        vals.append(gen_member(g, d))
        tags.append(("member", d["k"]))
    for _ in range(n_malformed):
        x = gen_member(g, d)
        try:
            v, name, leaf = mutate(g, d, x)
        except Exception as e:  # noqa: BLE001  (generator problem, not a verdict)
            import traceback
            ctx.note(f"generator: mutate failed with {exc_name(e)}: " + traceback.format_exc()[-300:])
            continue
        vals.append(v)
        tags.append((name, leaf))
    if d["k"] in ("box", "discrete", "mb", "md"):
        for name, v in boundary_values(g, d):
            vals.append(v)
            tags.append(("fixed:" + name, d["k"]))
    impl = [observe_contains(space, v) for v in vals]
    impl_in = [observe_in(space, v) for v in vals]
    out = ctx.drv.call("space_contains", space=wire_space(d), values=[val_wire(v, g) for v in vals], impl=impl)
    for v, (name, leaf), r, rin, m, phi in zip(vals, tags, impl, impl_in, out["contains"], out["phi"]):
        case = {"space": d, "value": show(v), "mutation": name,
                "replay": "harness.c14.build(space).contains(value)"}
        ctx.case({"op": "contains", **case}, nontrivial=True,
                 sample={**case, "impl": r, "model": m})
        ctx.count("contains:model=" + str(m))
        ctx.count("contains:value=" + name)
        if not phi:
            ctx.phi_fail("contains_iff_mem", {**case, "impl": r, "model_member": m},
                         key=answer_key("contains", leaf, r, m))
        if rin != m:
            lf = NAMES.get(leaf, leaf)
            k = f"in/{lf}/{rin}" if isinstance(rin, str) else (
                f"in/{lf}/" + ("accepted-non-member" if rin else "rejected-member"))
            ctx.phi_fail("in_iff_mem", {**case, "impl": rin, "model_member": m}, key=k)
    return out["wf"]


def derive_draw(g: Gen, d, x):
    """oracle answers (the draws) read back from a sample; returns (draw, ok)"""
    k = d["k"]
    if k == "box":
        xs = np.asarray(x, dtype=np.float64).reshape(-1)
        us, es, zs, ok = [], [], [], True
        if len(xs) != len(d["low"]):
            return {"k": "box", "u": np.zeros(0), "e": np.zeros(0), "z": np.zeros(0)}, False
        for v, lo, hi in zip(xs, d["low"], d["high"]):
            u = e = z = 0.0
            if not np.isfinite(v):
                ok = False
            elif np.isfinite(lo) and np.isfinite(hi):
                u = (v - lo) / (hi - lo) if hi > lo else 0.0
                ok = ok and (-1e-6 <= u <= 1 + 1e-6) and (hi > lo or v == lo)
            elif np.isfinite(lo):
                e = v - lo
                ok = ok and e >= 0
            elif np.isfinite(hi):
                e = hi - v
                ok = ok and e >= 0
            else:
                z = v
            us.append(u)
            es.append(e)
            zs.append(z)
        return {"k": "box", "u": np.asarray(us), "e": np.asarray(es), "z": np.asarray(zs)}, ok
    if k == "discrete":
        v = np.asarray(x)
        ok = v.shape == () and v.dtype.kind in "iu" and 0 <= int(v) < d["n"]
        return {"k": "index", "i": int(v) if ok else 0}, ok
    if k == "mb":
        v = np.asarray(x)
        ok = v.dtype.kind in "biu" and list(v.shape) == list(d["shape"]) and bool(((v == 0) | (v == 1)).all())
        return {"k": "bits", "b": [bool(b) for b in v.reshape(-1)] if ok else []}, ok
    if k == "md":
        v = np.asarray(x)
        ok = v.dtype.kind in "iu" and v.shape == (len(d["nvec"]),) and all(
            0 <= int(a) < n for a, n in zip(v, d["nvec"]))
        return {"k": "indices", "i": [int(a) for a in v] if ok else []}, ok
    if k == "dict":
        ok = isinstance(x, OrderedDict) and list(x.keys()) == [key for key, _ in d["items"]]
        if not ok:
            return {"k": "node", "items": []}, False
        subs = [derive_draw(g, s, x[key]) for key, s in d["items"]]
        return {"k": "node", "items": [s[0] for s in subs]}, all(s[1] for s in subs)
    if k == "tuple":
        ok = isinstance(x, tuple) and len(x) == len(d["items"])
        if not ok:
            return {"k": "node", "items": []}, False
        subs = [derive_draw(g, s, xi) for s, xi in zip(d["items"], x)]
        return {"k": "node", "items": [s[0] for s in subs]}, all(s[1] for s in subs)
    raise ValueError(k)


def wire_equal(g: Gen, a, b, scale=8.0):
    """model value (decoded wire) vs value (wire form): same structure, numbers close"""
    if a["k"] != b["k"]:
        return False
    k = a["k"]
    if k == "arr":
        return list(a["shape"]) == list(b["shape"]) and g.ctx.close(
            np.asarray(a["data"], dtype=np.float64).reshape(-1), np.asarray(b["data"], dtype=np.float64).reshape(-1),
            scale)
    if k in ("tuple", "list"):
        return len(a["items"]) == len(b["items"]) and all(wire_equal(g, x, y, scale) for x, y in zip(a["items"], b["items"]))
    if k in ("odict", "pdict"):
        return len(a["items"]) == len(b["items"]) and all(
            x[0] == y[0] and wire_equal(g, x[1], y[1], scale) for x, y in zip(a["items"], b["items"]))
    return True


def unstack(tree, i):
    return jax.tree.map(lambda a: a[i], tree)


def check_sample(g: Gen, d, space, n_keys, masks):
    """`sample` under many keys (vmapped: one trace per space / mask)"""
    ctx = g.ctx
    seed = int(g.rng.integers(0, 2 ** 31 - 1))
    keys = jr.split(jr.key(seed), n_keys)
    members = []
    for mask in masks:
        case0 = {"space": d, "mask": None if mask is None else [bool(b) for b in np.asarray(mask)]}
        try:
            if mask is None:
                batch = jax.vmap(lambda kk: space.sample(key=kk))(keys)
            else:
                batch = jax.vmap(lambda kk: space.sample(key=kk, mask=mask))(keys)
            batch = to_np(batch)
        except Exception as e:  # noqa: BLE001
            ctx.phi_fail("sample_mem", {**case0, "impl": "raised " + exc_name(e)},
                         key=f"sample/{top_name(d)}/raised:{exc_name(e)}")
            continue
        for i in range(n_keys):
            x = unstack(batch, i)
            case = {**case0, "seed": seed, "i": i, "n_keys": n_keys, "sample": show(x),
                    "replay": "build(space).sample(key=jax.random.split(jax.random.key(seed), n_keys)[i], mask=mask)"}
            draw, ok = derive_draw(g, d, x)
            out = ctx.drv.call("space_sample", space=wire_space(d), mask=case0["mask"], draw=draw,
                               impl=val_wire(x, g))
            ctx.case({"op": "sample", **case}, nontrivial=True, sample={**case, "model": out["sample"]})
            ctx.count("sample:" + d["k"])
            if mask is not None:
                ctx.count("sample:masked")
            if not out["phi"]:
                what = "not-a-member" if not out["member"] else "masked-index-chosen"
                ctx.phi_fail("sample_mem", case, key=f"sample/{top_name(d)}/{what}")
            elif not ok:
                ctx.phi_fail("sample_draws_in_range", {**case, "draw": draw},
                             key=f"sample/{top_name(d)}/draw-out-of-range-or-wrong-type")
            elif not wire_equal(g, out["sample"], val_wire(x, g)):
                ctx.disagree("sample", case, impl=show(x), model=out["sample"])
            if i < 2:
                members.append(x)
    return members


def check_canonical(g: Gen, d, space):
    ctx = g.ctx
    case = {"space": d, "replay": "build(space).canonical()"}
    try:
        c = to_np(space.canonical())
    except Exception as e:  # noqa: BLE001
        ctx.phi_fail("canonical_mem", {**case, "impl": "raised " + exc_name(e)},
                     key=f"canonical/{top_name(d)}/raised:{exc_name(e)}")
        return None, None
    out = ctx.drv.call("space_info", space=wire_space(d), impl_canonical=val_wire(c, g))
    ctx.case({"op": "canonical", **case}, nontrivial=True, sample={**case, "impl": show(c)})
    ctx.count("canonical:" + d["k"])
    if not out["phi"]:
        leaf = "Box" if "box" in kinds_of(d) else top_name(d)
        ctx.phi_fail("canonical_mem", {**case, "impl": show(c), "model": out["canonical"]},
                     key=f"canonical/{leaf}/not-a-member")
        c = None
    elif not wire_equal(g, out["canonical"], val_wire(c, g)):
        ctx.disagree("canonical", case, impl=show(c), model=out["canonical"])
    try:
        fs = int(space.flat_size)
    except Exception as e:  # noqa: BLE001
        fs = "raised:" + exc_name(e)
    if fs != out["flat_size"]:
        ctx.disagree("flat_size", case, impl=fs, model=out["flat_size"])
    return c, out


def check_flatten(g: Gen, d, space, values):
    ctx = g.ctx
    for x in values:
        case = {"space": d, "value": show(x), "replay": "build(space).flatten_sample(value)"}
        try:
            flat = np.asarray(space.flatten_sample(x))
        except Exception as e:  # noqa: BLE001
            ctx.phi_fail("flatten_length", {**case, "impl": "raised " + exc_name(e)},
                         key=f"flatten/{top_name(d)}/raised:{exc_name(e)}")
            continue
        ctx.case({"op": "flatten", **case}, nontrivial=True, sample={**case, "impl": flat})
        ctx.count("flatten:" + d["k"])
        if flat.ndim != 1 or flat.dtype.kind != "f":
            ctx.phi_fail("flatten_length", {**case, "impl_shape": list(flat.shape), "dtype": str(flat.dtype)},
                         key=f"flatten/{top_name(d)}/not-a-flat-float-vector")
            continue
        out = ctx.drv.call("space_flatten", space=wire_space(d), value=val_wire(x, g),
                           impl=flat.astype(np.float64))
        if not out["phi"]:
            what = "wrong-length" if len(flat) != out["flat_size"] else "does-not-determine-sample"
            ctx.phi_fail("flatten_determines_sample", {**case, "impl": flat, "flat_size": out["flat_size"],
                                                       "decoded": out["decoded"], "normal": out["normal"]},
                         key=f"flatten/{top_name(d)}/{what}")
        elif not ctx.close(np.asarray(out["flat"], dtype=np.float64).reshape(-1), flat.astype(np.float64)):
            ctx.disagree("flatten_sample", case, impl=flat, model=out["flat"])


def variants_of(g: Gen, d):
    """spaces structurally close to `d` (equal and unequal ones)"""
    out = [("same", d), ("same-rebuilt", d)]
    k = d["k"]

    def flip_zero(xs):
        return [(-0.0 if (x == 0.0 and not np.signbit(x)) else (0.0 if x == 0.0 else x)) for x in xs]

    if k == "box":
        n = len(d["low"])
        out.append(("box-zero-sign-flipped", {**d, "low": flip_zero(d["low"]), "high": flip_zero(d["high"])}))
        if n > 0:
            i = int(g.rng.integers(n))
            hi = list(d["high"])
            hi[i] = hi[i] + 1.0 if np.isfinite(hi[i]) else 7.0
            out.append(("box-one-bound-changed", {**d, "high": hi}))
            lo = list(d["low"])
            lo[i] = lo[i] - 1.0 if np.isfinite(lo[i]) else -7.0
            out.append(("box-one-bound-changed", {**d, "low": lo}))
        out.append(("box-reshaped", {**d, "shape": [1] + list(d["shape"])}))
        if len(d["shape"]) >= 2 and d["shape"][0] != d["shape"][-1]:
            out.append(("box-reshaped", {**d, "shape": list(reversed(d["shape"]))}))
    elif k == "discrete":
        out.append(("discrete-n+1", {"k": "discrete", "n": d["n"] + 1}))
        out.append(("other-kind", {"k": "md", "nvec": [d["n"]]}))
        out.append(("other-kind", {"k": "mb", "shape": [d["n"]]}))
    elif k == "mb":
        out.append(("mb-reshaped", {"k": "mb", "shape": [prod(d["shape"])]}))
        out.append(("mb-reshaped", {"k": "mb", "shape": list(d["shape"]) + [1]}))
        out.append(("other-kind", {"k": "md", "nvec": list(d["shape"])}))
    elif k == "md":
        out.append(("md-one-changed", {"k": "md", "nvec": d["nvec"][:-1] + [d["nvec"][-1] + 1]}))
        out.append(("md-extended", {"k": "md", "nvec": d["nvec"] + [d["nvec"][-1]]}))
        if len(d["nvec"]) > 1:
            out.append(("md-prefix", {"k": "md", "nvec": d["nvec"][:-1]}))
        out.append(("other-kind", {"k": "mb", "shape": list(d["nvec"])}))
    elif k == "tuple":
        items = d["items"]
        if len(items) > 1:
            out.append(("tuple-prefix", {"k": "tuple", "items": items[:-1]}))
            out.append(("tuple-reversed", {"k": "tuple", "items": items[::-1]}))
        out.append(("tuple-extended", {"k": "tuple", "items": items + [items[0]]}))
        out.append(("tuple-extended", {"k": "tuple", "items": items + [{"k": "discrete", "n": 2}]}))
        j = int(g.rng.integers(len(items)))
        sub = variants_of(g, items[j])
        name, v = sub[int(g.rng.integers(2, len(sub)))] if len(sub) > 2 else sub[0]
        out.append(("tuple-child:" + name, {"k": "tuple", "items": items[:j] + [v] + items[j + 1:]}))
        out.append(("other-kind", {"k": "dict", "items": [[str(i), s] for i, s in enumerate(items)]}))
    elif k == "dict":
        items = d["items"]
        out.append(("dict-extended", {"k": "dict", "items": items + [["extra", {"k": "discrete", "n": 2}]]}))
        if items:
            out.append(("dict-prefix", {"k": "dict", "items": items[:-1]}))
            out.append(("dict-key-renamed", {"k": "dict", "items": [[items[0][0] + "_", items[0][1]]] + items[1:]}))
            j = int(g.rng.integers(len(items)))
            sub = variants_of(g, items[j][1])
            name, v = sub[int(g.rng.integers(2, len(sub)))] if len(sub) > 2 else sub[0]
            out.append(("dict-child:" + name, {"k": "dict", "items": items[:j] + [[items[j][0], v]] + items[j + 1:]}))
            out.append(("other-kind", {"k": "tuple", "items": [s for _k, s in items]}))
        if len(items) > 1:
            out.append(("dict-keys-permuted", {"k": "dict", "items": items[1:] + items[:1]}))
    return out


def top_name(d):
    return {"box": "Box", "discrete": "Discrete", "mb": "MultiBinary", "md": "MultiDiscrete",
            "dict": "Dict", "tuple": "Tuple"}[d["k"]]


def check_eq_hash(g: Gen, d):
    ctx = g.ctx
    vs = variants_of(g, d)
    descs = [v for _n, v in vs]
    names = [n for n, _v in vs]
    spaces = [build(v, g, variant=i) for i, v in enumerate(descs)]
    n = len(spaces)
    hashes = []
    for s in spaces:
        try:
            hashes.append(hash(s))
        except Exception as e:  # noqa: BLE001
            hashes.append("raised:" + exc_name(e))
    eqm, raised = [], {}
    for i, s in enumerate(spaces):
        row = []
        for j, t in enumerate(spaces):
            try:
                row.append(bool(s == t))
            except Exception as e:  # noqa: BLE001
                raised[(i, j)] = exc_name(e)
                row.append(False)
        eqm.append(row)
    heq = [[(not isinstance(hashes[i], str)) and hashes[i] == hashes[j] for j in range(n)] for i in range(n)]
    out = ctx.drv.call("space_eq", spaces=[wire_space(v) for v in descs], impl_eq=eqm, impl_hash_eq=heq)
    for i in range(n):
        if isinstance(hashes[i], str):
            ctx.phi_fail("eq_hash", {"space": descs[i], "impl": hashes[i], "replay": "hash(build(space))"},
                         key=f"hash/{top_name(descs[i])}/{hashes[i]}")
        for j in range(n):
            case = {"left": descs[i], "right": descs[j], "relation": f"{names[i]} vs {names[j]}",
                    "replay": "build(left) == build(right); hash(build(left)) == hash(build(right))"}
            ctx.case({"op": "eq", **case}, nontrivial=(i != j),
                     sample={**case, "impl_eq": eqm[i][j], "model_eq": out["beq"][i][j]})
            ctx.count("eq:model=" + str(out["beq"][i][j]))
            ctx.count("eq:" + names[j].split(":")[0])
            if (i, j) in raised:
                ctx.phi_fail("beq_iff_eq", {**case, "impl": "raised " + raised[(i, j)]},
                             key=f"eq/{top_name(descs[i])}/raised:{raised[(i, j)]}")
                continue
            if isinstance(hashes[i], str) or isinstance(hashes[j], str):
                if eqm[i][j] != out["beq"][i][j]:
                    ctx.phi_fail("beq_iff_eq", {**case, "impl_eq": eqm[i][j], "model_eq": out["beq"][i][j]},
                                 key=f"eq/{top_name(descs[i])}/" + ("true-for-unequal" if eqm[i][j] else "false-for-equal"))
                continue
            if not out["phi"][i][j]:
                if eqm[i][j] != out["beq"][i][j]:
                    ctx.phi_fail("beq_iff_eq", {**case, "impl_eq": eqm[i][j], "model_eq": out["beq"][i][j]},
                                 key=f"eq/{top_name(descs[i])}/" + ("true-for-unequal" if eqm[i][j] else "false-for-equal"))
                else:
                    leaf = "Box" if "box" in kinds_of(descs[i]) else top_name(descs[i])
                    ctx.phi_fail("eq_hash", {**case, "impl_eq": True, "hash_left": hashes[i], "hash_right": hashes[j]},
                                 key=f"hash/{leaf}/equal-spaces-different-hash")
            elif out["hash_eq"][i][j] and not heq[i][j]:
                ctx.disagree("hash", case, impl={"left": hashes[i], "right": hashes[j]}, model="same hash key")
    # comparison with things that are not spaces
    s = spaces[0]
    foreign = [None, "x", 0, describe(s)]
    if isinstance(s, (Dict, Tuple)):
        foreign.append(s.spaces)
    for f in foreign:
        try:
            r = bool(s == f)
        except Exception as e:  # noqa: BLE001
            r = "raised:" + exc_name(e)
        ctx.count("eq:foreign")
        if r is not False:
            ctx.phi_fail("beq_iff_eq", {"left": d, "right": repr(f)[:200], "impl": r,
                                        "replay": "build(left) == <its own container / None / str>"},
                         key=f"eq/{top_name(d)}/equal-to-a-non-space")


def gym_desc(gs):
    import gymnasium as gym
    sp = gym.spaces
    if isinstance(gs, sp.Box):
        return {"k": "box", "shape": [int(n) for n in gs.shape],
                "low": np.asarray(gs.low, dtype=np.float64).reshape(-1).tolist(),
                "high": np.asarray(gs.high, dtype=np.float64).reshape(-1).tolist()}
    if isinstance(gs, sp.Discrete):
        return {"k": "discrete", "n": int(gs.n), "start": int(gs.start)}
    if isinstance(gs, sp.MultiBinary):
        if isinstance(gs.n, (int, np.integer)):
            return {"k": "mb_int", "n": int(gs.n)}
        return {"k": "mb_tuple", "shape": [int(n) for n in gs.n]}
    if isinstance(gs, sp.MultiDiscrete):
        return {"k": "md", "nvec": [int(n) for n in np.asarray(gs.nvec).reshape(-1)]}
    if isinstance(gs, sp.Dict):
        return {"k": "dict", "items": [[str(k), gym_desc(v)] for k, v in gs.spaces.items()]}
    if isinstance(gs, sp.Tuple):
        return {"k": "tuple", "items": [gym_desc(v) for v in gs.spaces]}
    return {"k": "unknown:" + type(gs).__name__}


def same_gym(a, b):
    if a.get("k") != b.get("k"):
        return False
    if a["k"] == "box":
        return same_desc(a, b)
    if a["k"] == "dict":
        return len(a["items"]) == len(b["items"]) and all(
            x[0] == y[0] and same_gym(x[1], y[1]) for x, y in zip(a["items"], b["items"]))
    if a["k"] == "tuple":
        return len(a["items"]) == len(b["items"]) and all(same_gym(x, y) for x, y in zip(a["items"], b["items"]))
    return a == b


def check_gym(g: Gen, d, space):
    from lerax.compatibility.gym import gym_space_to_lerax_space, lerax_to_gym_space
    ctx = g.ctx
    case = {"space": d, "replay": "gym_space_to_lerax_space(lerax_to_gym_space(build(space))) == "
                                  "build(sort_desc(space))"}
    leaf = "Box" if "box" in kinds_of(d) else top_name(d)
    try:
        gs = lerax_to_gym_space(space)
        back = gym_space_to_lerax_space(gs)
        bd = describe(back)
    except Exception as e:  # noqa: BLE001
        ctx.phi_fail("gym_roundtrip", {**case, "impl": "raised " + exc_name(e)},
                     key=f"gym/{leaf}/raised:{exc_name(e)}")
        return
    out = ctx.drv.call("space_gym", space=wire_space(d), impl_back=wire_space(bd))
    ctx.case({"op": "gym", **case}, nontrivial=True, sample={**case, "gym": repr(gs)[:200], "back": bd})
    ctx.count("gym:" + d["k"])
    if d["k"] == "dict" and [k for k, _ in d["items"]] != sorted(k for k, _ in d["items"]):
        ctx.count("gym:dict-keys-not-in-gym-order")
    expected = build(sort_desc(d), g, variant=1)
    try:
        impl_equal = bool(back == expected)
    except Exception as e:  # noqa: BLE001
        impl_equal = "raised:" + exc_name(e)
    if not out["phi"]:
        ctx.phi_fail("gym_roundtrip", {**case, "back": bd, "expected": out["sorted"]},
                     key=f"gym/{leaf}/roundtrip-not-equal")
    elif impl_equal is not True:
        ctx.phi_fail("gym_roundtrip", {**case, "back": bd, "impl_eq": impl_equal},
                     key=f"gym/{top_name(d)}/roundtrip-not-equal-by-own-eq")
    else:
        if not same_gym(gym_desc(gs), out["gym"]):
            ctx.disagree("gym space", case, impl=gym_desc(gs), model=out["gym"])
        if out["back"] is None or not same_desc(bd, out["back"]):
            ctx.disagree("gym round trip", case, impl=bd, model=out["back"])


def gen_masks(g: Gen, n, count):
    masks = [None]
    for _ in range(count):
        kind = g.choice(["single", "random", "all", "all-but-one"])
        m = np.zeros(n, dtype=bool)
        if kind == "single":
            m[int(g.rng.integers(n))] = True
        elif kind == "random":
            m = g.rng.random(n) < 0.5
            m[int(g.rng.integers(n))] = True
        elif kind == "all":
            m[:] = True
        else:
            m[:] = True
            if n > 1:
                m[int(g.rng.integers(n))] = False
        masks.append(g.choice([m, jnp.asarray(m), [bool(b) for b in m]]))
        g.ctx.count("mask:" + kind)
    return masks


FIXED = [
    # CartPole's observation space, signed zeros, degenerate and empty boxes, empty Dict, deep nesting
    {"k": "box", "shape": [4], "low": [-4.8, -INF, -0.41887903, -INF], "high": [4.8, INF, 0.41887903, INF]},
    {"k": "box", "shape": [], "low": [-0.0], "high": [1.0]},
    {"k": "box", "shape": [2, 2], "low": [0.0, -0.0, -INF, 1.0], "high": [0.0, 2.0, -0.0, INF]},
    {"k": "box", "shape": [2, 0], "low": [], "high": []},
    {"k": "mb", "shape": [2, 3]},
    {"k": "md", "nvec": [3, 1, 4]},
    {"k": "md", "nvec": [300, 4]},          # sizes beyond the range of int8 / uint8 candidates
    {"k": "md", "nvec": [200, 3, 129]},
    {"k": "discrete", "n": 300},
    {"k": "discrete", "n": 1},
    {"k": "dict", "items": []},
    {"k": "tuple", "items": [{"k": "dict", "items": []}, {"k": "mb", "shape": [2, 3]}]},
    {"k": "dict", "items": [["z", {"k": "dict", "items": [["y", {"k": "discrete", "n": 2}],
                                                         ["x", {"k": "tuple", "items": [{"k": "md", "nvec": [2, 2]}]}]]}],
                            ["k", {"k": "tuple", "items": [{"k": "discrete", "n": 2},
                                                           {"k": "box", "shape": [1], "low": [-INF], "high": [0.0]}]}]]},
]


def round_desc(g: Gen, d):
    """bounds as the implementation will store them (its float type)"""
    if d["k"] == "box":
        return {**d, "low": [g.r(x) for x in d["low"]], "high": [g.r(x) for x in d["high"]]}
    if d["k"] == "dict":
        return {"k": "dict", "items": [[k, round_desc(g, s)] for k, s in d["items"]]}
    if d["k"] == "tuple":
        return {"k": "tuple", "items": [round_desc(g, s) for s in d["items"]]}
    return d


def check_masked_sample_many_keys(ctx):
    """Masked Discrete sampling over 2^25 keys (float32 mode; 2^22 with x64): an implementation whose
    inverse-CDF / search breaks exactly at an edge draw (u = 0 or the largest u below 1) picks a masked index
    for about one key in 2^23.  Masks exclude the first and / or the last index."""
    from lerax.space import Discrete
    n_chunks = ctx.budget(8, 32) if not ctx.x64 else ctx.budget(1, 4)
    for n, mask in [(5, [False, True, False, True, True]), (4, [True, True, False, False]), (3, [False, True, False])]:
        sp = Discrete(n)
        m = jnp.asarray(mask)
        f = jax.jit(jax.vmap(lambda k: sp.sample(key=k, mask=m)))
        counts = np.zeros(n + 2, dtype=np.int64)
        bad_key = None
        for c in range(n_chunks):
            seed = int(ctx.rng.integers(0, 2**31))
            out = np.asarray(f(jax.random.split(jax.random.key(seed), 1 << 22)))
            counts += np.bincount(np.clip(out, -1, n) + 1, minlength=n + 2)
            bad = np.nonzero((out < 0) | (out >= n) | ~np.asarray(mask)[np.clip(out, 0, n - 1)])[0]
            if len(bad) and bad_key is None:
                bad_key = {"seed": seed, "index_in_split": int(bad[0]), "sampled": int(out[bad[0]])}
        case = {"space": {"k": "discrete", "n": n}, "mask": mask, "keys": int(n_chunks) << 22,
                "histogram(-1..n)": counts.tolist(), "first_bad": bad_key,
                "replay": "Discrete(n).sample(key=jax.random.split(jax.random.key(seed), 1 << 22)[index_in_split], mask=mask)"}
        ctx.case({"op": "masked-sample-many-keys", "n": n, "mask": mask}, True)
        ctx.count("sample:masked-many-keys", int(n_chunks) << 22)
        if bad_key is not None:
            ctx.phi_fail("sample_discrete_mask", case, key="sample/Discrete/masked-index-chosen")


def run(ctx):
    check_masked_sample_many_keys(ctx)
    import gymnasium as gym
    gym.logger.min_level = 40
    g = Gen(ctx)
    n_spaces = ctx.budget(110, 1500)
    n_members = ctx.budget(6, 12)
    n_malformed = ctx.budget(26, 60)
    n_keys = ctx.budget(12, 48)
    n_masks = ctx.budget(3, 8)
    descs = [round_desc(g, d) for d in FIXED]
    while len(descs) < n_spaces:
        depth = int(g.choice([0, 1, 1, 2, 2, 3]))
        descs.append(round_desc(g, gen_space(g, depth)))
    for idx, d in enumerate(descs):
        ctx.count(f"space:top={d['k']}")
        ctx.count(f"space:depth={depth_of(d)}")
        try:
            space = build(d, g, variant=idx)
            back = describe(space)
        except Exception as e:  # noqa: BLE001
            ctx.note(f"generator: build failed with {exc_name(e)} for {d}")
            continue
        if not same_desc(back, d):
            ctx.disagree("constructor", {"space": d}, impl=back, model=d)
            continue
        wf = check_contains(g, d, space, n_members, n_malformed)
        if not wf:
            ctx.note("generator produced an ill-formed space: " + str(d)[:200])
            continue
        masks = gen_masks(g, d["n"], n_masks) if d["k"] == "discrete" else [None]
        members = check_sample(g, d, space, n_keys, masks)
        c, _ = check_canonical(g, d, space)
        pool = members[:4] + ([c] if c is not None else [])
        pool += [gen_member(g, d, plain=True) for _ in range(2)] + [gen_member(g, d) for _ in range(2)]
        check_flatten(g, d, space, pool)
        check_eq_hash(g, d)
        check_gym(g, d, space)
