"""C17 — built-in environments realise their Gymnasium reference MDPs.

Three correspondences per case, as everywhere in /verif:
  lerax code        vs  lean/LeraxModel/Classic.lean, Mujoco.lean (`…L`)      -> ctx.disagree
  Gymnasium 1.3.0   vs  lean/LeraxModel/GymRef.lean,  Mujoco.lean (`…G`)      -> ctx.disagree
  Φ on the implementation: lerax output vs Gymnasium output for the same state and action
  (decided by the driver op `c17_same` with the tolerance relation)             -> ctx.phi_fail

Parts: (1) classic control (CartPole, MountainCar, ContinuousMountainCar, Acrobot; Pendulum's
clip/observation for C02); (2) MuJoCo assembly for all 11 environments on states produced by
MuJoCo C (Gymnasium's own simulator) and handed to lerax through `mjx.put_data` — no MJX
compilation, so contact forces and every option are covered in the quick tier; (3) MuJoCo physics
differential: lerax `initial` / `transition` under MJX vs Gymnasium after `set_state` to the
identical `qpos/qvel` (quick: InvertedPendulum, Reacher, HalfCheetah; thorough: all 11).
Contact forces are never compared across simulators.
"""
from __future__ import annotations

import itertools
import math
import warnings

import numpy as np

warnings.filterwarnings("ignore")

import diffrax  # noqa: E402
import equinox as eqx  # noqa: E402
import gymnasium as gym  # noqa: E402
import jax  # noqa: E402
import mujoco  # noqa: E402
from jax import numpy as jnp  # noqa: E402
from mujoco import mjx  # noqa: E402

from lerax.env import classic_control as cc  # noqa: E402
from lerax.env import mujoco as lmj  # noqa: E402
from lerax.env.classic_control.acrobot import AcrobotState  # noqa: E402
from lerax.env.classic_control.cartpole import CartPoleState  # noqa: E402
from lerax.env.classic_control.continuous_mountain_car import ContinuousMountainCarState  # noqa: E402
from lerax.env.classic_control.mountain_car import MountainCarState  # noqa: E402
from lerax.env.classic_control.pendulum import PendulumState  # noqa: E402
from lerax.env.mujoco import MujocoEnvState  # noqa: E402

gym.logger.min_level = 50  # silence "step after terminated" warnings: intended here


# ------------------------------------------------------------------ small helpers

def _close(a, b, atol, rtol):
    a = np.asarray(a, dtype=np.float64)
    b = np.asarray(b, dtype=np.float64)
    if a.shape != b.shape:
        return False
    if (np.isnan(a) != np.isnan(b)).any():
        return False
    a = np.nan_to_num(a, nan=0.0, posinf=1e300, neginf=-1e300)
    b = np.nan_to_num(b, nan=0.0, posinf=1e300, neginf=-1e300)
    return bool((np.abs(a - b) <= atol + rtol * np.maximum(np.abs(a), np.abs(b))).all())


def _ft(ctx):
    return np.float64 if ctx.x64 else np.float32


def _r(ctx, x):
    """round to the float type lerax computes in, return as float64"""
    return np.asarray(x, dtype=_ft(ctx)).astype(np.float64)


def _f(x):
    return float(np.asarray(x))


def _vec(x):
    return np.atleast_1d(np.asarray(x, dtype=np.float64)).ravel()


def _same(ctx, clauses, case, key_prefix, scale=1.0, atol=None, rtol=None):
    """Φ on implementation outputs: every (name, lerax_value, gym_value) pair must agree."""
    tol = ctx.tol(scale)
    if atol is not None:
        tol = {"atol": atol, "rtol": rtol if rtol is not None else atol}
    cl = [[n, _vec(a), _vec(b)] for n, a, b in clauses]
    out = ctx.drv.call("c17_same", clauses=cl, tol=tol)
    if not out["phi"]:
        name = out["clause"]
        pair = next(c for c in cl if c[0] == name)
        ctx.phi_fail(name, {**case, "lerax": pair[1], "gymnasium": pair[2]},
                     key=f"{key_prefix}:{name}")
        return False
    return True


def _chk(ctx, observable, case, impl, model, scale=1.0, atol=None, rtol=None, exact=False):
    """implementation vs Lean model of the same implementation"""
    if exact:
        ok = np.array_equal(np.asarray(impl), np.asarray(model))
    elif atol is not None:
        ok = _close(impl, model, atol, rtol if rtol is not None else atol)
    else:
        ok = ctx.close(_vec(impl), _vec(model), scale)
    if not ok:
        ctx.disagree(observable, case, impl=impl, model=model)
    return ok


G_ATOL, G_RTOL = 1e-9, 1e-9  # Gymnasium computes in float64 whatever the JAX mode


# ================================================================== classic control

def _key():
    return jax.random.key(0)


def _batched(fn):
    return jax.jit(jax.vmap(fn))


class _Classic:
    """vmapped, jitted access to one lerax classic-control environment"""

    def __init__(self, env, State, dim):
        self.env, self.State, self.dim = env, State, dim
        t0 = jnp.array(0.0)
        k = _key()
        mk = lambda y: State(y=y, t=t0)  # noqa: E731
        self.dyn = _batched(lambda y, a: env.dynamics(t0, y, a))
        self.clip = _batched(env.clip)
        self.terminal = _batched(lambda y: env.terminal(mk(y), key=k))
        self.reward = _batched(lambda y, a, yn: env.reward(mk(y), a, mk(yn), key=k))
        self.obs = _batched(lambda y: env.observation(mk(y), key=k))
        self.trans = _batched(lambda y, a: env.transition(mk(y), a, key=k).y)
        self.initial = jax.jit(jax.vmap(lambda kk: env.initial(key=kk).y))


def _arr(ctx, x, integer=False):
    if integer:
        return jnp.asarray(np.asarray(x, dtype=np.int32))
    return jnp.asarray(np.asarray(x, dtype=_ft(ctx)))


def _np(x):
    return np.asarray(x, dtype=np.float64)


def _init_ranges(ctx, name, C, genv, model_l, model_g, gym_state=lambda g: np.asarray(g.state, dtype=np.float64)):
    """initial-state range: lerax samples inside the model's (= Gymnasium's) range and spread over
    it; Gymnasium samples inside its transcribed range."""
    n = ctx.budget(512, 4096)
    keys = jax.random.split(jax.random.key(int(ctx.rng.integers(0, 2**31 - 1))), n)
    ys = _np(C.initial(keys))
    gs = []
    for _ in range(ctx.budget(200, 1000)):
        genv.reset(seed=int(ctx.rng.integers(0, 2**31 - 1)))
        gs.append(gym_state(genv))
    gs = np.asarray(gs, dtype=np.float64)
    rl = np.asarray(model_l, dtype=np.float64)
    rg = np.asarray(model_g, dtype=np.float64)
    case = {"env": name, "what": "init_range", "lerax_min": ys.min(0), "lerax_max": ys.max(0),
            "gym_min": gs.min(0), "gym_max": gs.max(0), "model_lerax": rl, "model_gym": rg}
    ctx.case(case, True, sample=case)
    ctx.count(f"classic:{name}:init_range")
    eps = 1e-6
    if not ((ys >= rl[:, 0] - eps).all() and (ys <= rl[:, 1] + eps).all()):
        ctx.disagree(f"classic:{name}:init_range", case, impl=[ys.min(0), ys.max(0)], model=rl)
    if not ((gs >= rg[:, 0] - eps).all() and (gs <= rg[:, 1] + eps).all()):
        ctx.disagree(f"gym:{name}:reset_range", case, impl=[gs.min(0), gs.max(0)], model=rg)
    # Φ: same initial-state range — lerax draws lie in Gymnasium's range and cover it like
    # Gymnasium's own draws do (extremes within 5 % of the width from the ends)
    width = np.maximum(rg[:, 1] - rg[:, 0], 0.0)
    inside = (ys >= rg[:, 0] - eps).all() and (ys <= rg[:, 1] + eps).all()
    covers = ((ys.min(0) <= rg[:, 0] + 0.05 * width + eps).all()
              and (ys.max(0) >= rg[:, 1] - 0.05 * width - eps).all())
    if not (inside and covers):
        ctx.phi_fail("init_range", case, key=f"classic:{name}:init_range")


# ---- CartPole

def _cartpole(ctx, kw=None):
    rng = ctx.rng
    kw = kw or {}
    env = cc.CartPole(solver=diffrax.Euler(), **kw)
    C = _Classic(env, CartPoleState, 4)
    g = gym.make("CartPole-v1").unwrapped
    g.reset(seed=0)
    if kw:      # the same non-default physical parameters on the Gymnasium side (instance attributes)
        g.gravity, g.masscart, g.masspole = kw["gravity"], kw["cart_mass"], kw["pole_mass"]
        g.length, g.force_mag = kw["half_length"], kw["force_mag"]
        g.total_mass, g.polemass_length = g.masspole + g.masscart, g.masspole * g.length
        ctx.count("classic:cartpole:non-default-parameters")
    pl = dict(gravity=_f(env.gravity), cart_mass=_f(env.cart_mass), pole_mass=_f(env.pole_mass),
              length=_f(env.length), force_mag=_f(env.force_mag),
              theta_threshold=_f(env.theta_threshold_radians), x_threshold=_f(env.x_threshold),
              dt=_f(env.dt))
    pg = dict(gravity=g.gravity, cart_mass=g.masscart, pole_mass=g.masspole, length=g.length,
              force_mag=g.force_mag, theta_threshold=g.theta_threshold_radians,
              x_threshold=g.x_threshold, dt=g.tau)
    _same(ctx, [(k, pl[k], pg[k]) for k in pl], {"env": "CartPole", "what": "parameters"},
          "classic:cartpole:params")
    n = ctx.budget(48, 400)
    ys = np.column_stack([rng.uniform(-3, 3, n), rng.uniform(-3, 3, n), rng.uniform(-0.5, 0.5, n),
                          rng.uniform(-3, 3, n)])
    xt, tt = pl["x_threshold"], pl["theta_threshold"]
    edge = []
    for sx, st in itertools.product([-1, 1], repeat=2):
        edge += [[sx * xt, 0.1, 0.0, 0.0], [sx * xt * 1.01, 0.1, 0.0, 0.0], [0.0, 0.0, st * tt, 0.2],
                 [0.3, 0.0, st * tt * 1.01, 0.0], [sx * xt * 0.999, 1.0, st * tt * 0.999, 1.0]]
    ys = _r(ctx, np.vstack([ys, np.asarray(edge)]))
    acts = rng.integers(0, 2, len(ys))
    acts[: len(acts) // 2 * 2 : 2] = 0
    acts[1: len(acts) // 2 * 2 : 2] = 1
    Y, A = _arr(ctx, ys), _arr(ctx, acts, integer=True)
    dyn, clp, ter, trn = _np(C.dyn(Y, A)), _np(C.clip(Y)), np.asarray(C.terminal(Y)), _np(C.trans(Y, A))
    rew = _np(C.reward(Y, A, _arr(ctx, trn)))
    ter_next = np.asarray(C.terminal(_arr(ctx, trn)))
    for i in range(len(ys)):
        y, a = ys[i], int(acts[i])
        case = {"env": "CartPole", "y": y, "action": a}
        out_l = ctx.drv.call("c17_cartpole", p=pl, y=y, action=a)["lerax"]
        out_g = ctx.drv.call("c17_cartpole", p=pg, y=y, action=a)["gym"]
        _chk(ctx, "classic:cartpole:dynamics", case, dyn[i], out_l["dynamics"], 4.0)
        _chk(ctx, "classic:cartpole:clip", case, clp[i], out_l["clip"])
        _chk(ctx, "classic:cartpole:terminal", case, bool(ter[i]), out_l["terminal"], exact=True)
        _chk(ctx, "classic:cartpole:euler_step", case, trn[i], out_l["euler_step"], 4.0)
        _chk(ctx, "classic:cartpole:reward", case, rew[i], out_l["reward"])
        # Gymnasium: one step from the same state
        g.state = np.array(y, dtype=np.float64)
        g.steps_beyond_terminated = None
        _o, gr, gterm, _tr, _info = g.step(a)
        gs = np.asarray(g.state, dtype=np.float64)
        _chk(ctx, "gym:cartpole:step_state", case, gs, out_g["step"]["state"], atol=G_ATOL, rtol=G_RTOL)
        _chk(ctx, "gym:cartpole:reward", case, gr, out_g["step"]["reward"], atol=G_ATOL)
        _chk(ctx, "gym:cartpole:terminated", case, bool(gterm), out_g["step"]["terminated"], exact=True)
        # Φ: same field (Gymnasium's accelerations recovered from its Euler update), same Euler
        # step, same reward, same termination of the successor
        gfield = (gs - y) / g.tau
        near = min(abs(abs(gs[0]) - xt), abs(abs(gs[2]) - tt)) < 1e-5
        clauses = [("field", dyn[i], gfield), ("euler_step", trn[i], gs), ("reward", rew[i], gr)]
        if not near:
            clauses.append(("terminated", float(ter_next[i]), float(gterm)))
        else:
            ctx.count("classic:cartpole:near-threshold-skipped")
        _same(ctx, clauses, case, "classic:cartpole", scale=8.0)
        ctx.case(case, True, sample={**case, "lerax_dynamics": dyn[i], "gym_next": gs})
        ctx.count("classic:cartpole:cases")
        if ter_next[i]:
            ctx.count("classic:cartpole:terminal-step")
    # 200-step trajectories with the Euler solver vs CartPole-v1
    horizon = 200

    def roll(y0, actions):
        def body(y, a):
            yn = env.transition(CartPoleState(y=y, t=jnp.array(0.0)), a, key=_key()).y
            return yn, yn
        return jax.lax.scan(body, y0, actions)[1]
    roll = jax.jit(roll)
    for ep in range(ctx.budget(4, 24)):
        g.reset(seed=int(rng.integers(0, 2**31 - 1)))
        y0 = _r(ctx, np.asarray(g.state, dtype=np.float64))
        g.state = np.array(y0)
        # a stabilising controller with noise keeps the pole up for long episodes
        actions, gstates, gterms, grews = [], [], [], []
        for t in range(horizon):
            s = np.asarray(g.state)
            a = int((s[2] + 0.5 * s[3] + 0.05 * s[0] + 0.1 * s[1] + 0.02 * rng.normal()) > 0)
            if rng.random() < 0.1:
                a = int(rng.integers(0, 2))
            _o, r, term, _t, _i = g.step(a)
            actions.append(a); gstates.append(np.asarray(g.state, dtype=np.float64))
            gterms.append(bool(term)); grews.append(float(r))
            if term:
                break
        T = len(actions)
        case = {"env": "CartPole", "what": "euler-trajectory", "y0": y0, "actions": actions}
        gs_arr = np.asarray(gstates)
        # (a) every step of the episode, re-synchronised on Gymnasium's state (float32 round-off
        #     cannot accumulate through the unstable pole dynamics)
        prev = _r(ctx, np.vstack([y0[None], gs_arr[:-1]]))
        lnext = _np(C.trans(_arr(ctx, prev), _arr(ctx, actions, integer=True)))
        lterm = np.asarray(C.terminal(_arr(ctx, _r(ctx, gs_arr))))
        safe = [t for t in range(T) if min(abs(abs(gstates[t][0]) - xt), abs(abs(gstates[t][2]) - tt)) > 1e-4]
        _same(ctx, [("trajectory_step_states", lnext.ravel(), gs_arr.ravel()),
                    ("trajectory_terminated", lterm[safe].astype(float), np.asarray(gterms)[safe].astype(float)),
                    ("trajectory_reward", np.ones(T), np.asarray(grews))], case, "classic:cartpole", scale=8.0)
        # (b) free-running lerax trajectory from the same initial state and action sequence:
        #     whole episode in x64; a 25-step prefix in float32
        ltraj = _np(roll(_arr(ctx, y0), _arr(ctx, actions, integer=True)))
        m = T if ctx.x64 else min(T, 25)
        _same(ctx, [("trajectory_states", ltraj[:m].ravel(), gs_arr[:m].ravel())], case,
              "classic:cartpole", atol=(1e-7 if ctx.x64 else 2e-3), rtol=(1e-7 if ctx.x64 else 2e-3))
        ctx.case(case, True)
        ctx.count("classic:cartpole:trajectories")
        ctx.count("classic:cartpole:trajectory-steps", T)
        if gterms[-1]:
            ctx.count("classic:cartpole:trajectory-terminated")
    out = ctx.drv.call("c17_cartpole", p=pl, y=[0, 0, 0, 0], action=0)
    _init_ranges(ctx, "cartpole", C, g, out["lerax"]["init_range"], out["gym"]["reset_range"])


# ---- MountainCar / ContinuousMountainCar share the geometry

def _mc_states(ctx, p, n):
    rng = ctx.rng
    lo, hi, ms, goal = p["min_position"], p["max_position"], p["max_speed"], p["goal_position"]
    xs = np.concatenate([rng.uniform(lo, hi, n), np.linspace(lo, hi, 9), [lo, lo, lo, hi, hi],
                         rng.uniform(goal - 0.08, min(goal + 0.08, hi), n // 2 + 1)])
    vs = np.concatenate([rng.uniform(-ms, ms, n), rng.uniform(-ms, ms, 9), [-ms, 0.0, ms, ms, -ms],
                         rng.uniform(0.0, ms, n // 2 + 1)])
    return _r(ctx, np.column_stack([xs, vs]))


def _mc_raws(ctx, p, n):
    """raw solver outputs: beyond both walls, beyond the speed limits, interior; never within
    1e-3 of a wall without being beyond it (float32 vs float64 equality with the wall)"""
    rng = ctx.rng
    lo, hi, ms = p["min_position"], p["max_position"], p["max_speed"]
    xs = rng.uniform(lo - 0.3, hi + 0.3, n)
    vs = rng.uniform(-1.6 * ms, 1.6 * ms, n)
    k = max(6, n // 4)
    xs = np.concatenate([xs, lo - rng.uniform(0.01, 0.3, k), hi + rng.uniform(0.01, 0.3, k),
                         lo - rng.uniform(0.01, 0.3, 3)])
    vs = np.concatenate([vs, -rng.uniform(0.2, 1.5, k) * ms, rng.uniform(0.2, 1.5, k) * ms,
                         [0.0, 0.5 * ms, 2 * ms]])
    near = (np.abs(xs - lo) < 1e-3) | (np.abs(xs - hi) < 1e-3)
    xs = np.where(near, xs + 5e-3, xs)
    return _r(ctx, np.column_stack([xs, vs]))


def _fit(a, n):
    """tile the rows of `a` to exactly n rows"""
    reps = -(-n // len(a))
    return np.tile(a, (reps, 1))[:n] if a.ndim == 2 else np.tile(a, reps)[:n]


def _mountaincar(ctx, kw=None):
    rng = ctx.rng
    kw = kw or {}
    env = cc.MountainCar(solver=diffrax.Euler(), **kw)
    C = _Classic(env, MountainCarState, 2)
    g = gym.make("MountainCar-v0").unwrapped
    g.reset(seed=0)
    for k_, v_ in kw.items():
        setattr(g, k_, v_)
    if kw:
        ctx.count("classic:mountaincar:non-default-parameters")
    names = ["min_position", "max_position", "max_speed", "goal_position", "goal_velocity", "force", "gravity"]
    pl = {k: _f(getattr(env, k)) for k in names}
    pl["dt"] = _f(env.dt)
    pg = {k: float(getattr(g, k)) for k in names}
    pg["dt"] = 1.0
    _same(ctx, [(k, pl[k], pg[k]) for k in pl], {"env": "MountainCar", "what": "parameters"},
          "classic:mountaincar:params")
    ys = _mc_states(ctx, pl, ctx.budget(30, 300))
    raws = _mc_raws(ctx, pl, max(8, len(ys) // 2))
    n = max(len(ys), len(raws))
    ys, raws = _fit(ys, n), _fit(raws, n)
    acts = rng.integers(0, 3, n)
    acts[:9] = [0, 1, 2, 0, 1, 2, 0, 1, 2]
    Y, A, Rw = _arr(ctx, ys), _arr(ctx, acts, integer=True), _arr(ctx, raws)
    dyn, clp, ter = _np(C.dyn(Y, A)), _np(C.clip(Rw)), np.asarray(C.terminal(Y))
    for i in range(len(ys)):
        y, a, raw = ys[i], int(acts[i]), raws[i]
        case = {"env": "MountainCar", "y": y, "action": a, "raw": raw}
        out_l = ctx.drv.call("c17_mountaincar", p=pl, y=y, action=a)["lerax"]
        out_lr = ctx.drv.call("c17_mountaincar", p=pl, y=raw, action=a)["lerax"]
        out_g = ctx.drv.call("c17_mountaincar", p=pg, y=y, action=a)["gym"]
        _chk(ctx, "classic:mountaincar:dynamics", case, dyn[i], out_l["dynamics"])
        _chk(ctx, "classic:mountaincar:terminal", case, bool(ter[i]), out_l["terminal"], exact=True)
        _chk(ctx, "classic:mountaincar:clip", case, clp[i], out_lr["clip"])
        if not out_lr["obs_in_space"]:
            ctx.disagree("classic:mountaincar:obs_in_space(model)", case, impl=clp[i], model=out_lr["clip"])
        # Gymnasium step from the same state
        g.state = np.array(y, dtype=np.float64)
        _o, gr, gterm, _t, _i = g.step(a)
        gs = np.asarray(g.state, dtype=np.float64)
        _chk(ctx, "gym:mountaincar:step_state", case, gs, out_g["step"]["state"], atol=G_ATOL, rtol=G_RTOL)
        _chk(ctx, "gym:mountaincar:terminated", case, bool(gterm), out_g["step"]["terminated"], exact=True)
        _chk(ctx, "gym:mountaincar:reward", case, gr, out_g["step"]["reward"], atol=G_ATOL)
        clauses = []
        free = abs(y[1] + out_g["field"][1]) < pg["max_speed"] * 0.999 and pg["min_position"] < gs[0] < pg["max_position"]
        if free:
            # no limit active: Gymnasium's velocity increment is its acceleration
            clauses.append(("field", dyn[i], [y[1], gs[1] - y[1]]))
            ctx.count("classic:mountaincar:field-checked")
        # reward / termination of this transition, evaluated by lerax on Gymnasium's successor
        gsr = _r(ctx, gs)
        lt = bool(np.asarray(C.terminal(_arr(ctx, gsr[None]))[0]))
        lr = _f(C.reward(Y[i:i + 1], A[i:i + 1], _arr(ctx, gsr[None]))[0])
        clauses.append(("reward", lr, gr))
        if abs(gs[0] - pg["goal_position"]) > 1e-5:
            clauses.append(("terminated", float(lt), float(gterm)))
        # limits: drive Gymnasium's limit statements with the raw pair (x_raw, v_raw)
        vclip = float(np.clip(raw[1], -pg["max_speed"], pg["max_speed"]))
        x0 = raw[0] - vclip
        v0 = raw[1] - ((a - 1) * pg["force"] + math.cos(3 * x0) * (-pg["gravity"]))
        g.state = np.array([x0, v0], dtype=np.float64)
        g.step(a)
        glim = np.asarray(g.state, dtype=np.float64)
        out_gl = ctx.drv.call("c17_mountaincar", p=pg, y=[x0, v0], action=a)["gym"]
        _chk(ctx, "gym:mountaincar:limits", case, glim, out_gl["step"]["state"], atol=G_ATOL, rtol=G_RTOL)
        clauses.append(("limits", clp[i], glim))
        _same(ctx, clauses, case, "classic:mountaincar")
        ctx.case(case, True, sample={**case, "lerax_clip": clp[i], "gym_limits": glim})
        ctx.count("classic:mountaincar:cases")
        if raw[0] < pl["min_position"]:
            ctx.count("classic:mountaincar:left-wall" + (":v<0" if raw[1] < 0 else ":v>=0"))
        if raw[0] > pl["max_position"]:
            ctx.count("classic:mountaincar:right-wall")
        if abs(raw[1]) > pl["max_speed"]:
            ctx.count("classic:mountaincar:speed-limit")
        if gterm:
            ctx.count("classic:mountaincar:goal-step")
    out = ctx.drv.call("c17_mountaincar", p=pl, y=[0, 0], action=0)
    _init_ranges(ctx, "mountaincar", C, g, out["lerax"]["init_range"], out["gym"]["reset_range"])


def _cmc(ctx, kw=None):
    rng = ctx.rng
    kw = kw or {}
    env = cc.ContinuousMountainCar(solver=diffrax.Euler(), **kw)
    C = _Classic(env, ContinuousMountainCarState, 2)
    g = gym.make("MountainCarContinuous-v0").unwrapped
    g.reset(seed=0)
    for k_, v_ in kw.items():
        setattr(g, k_, v_)
    if kw:
        ctx.count("classic:cmc:non-default-parameters")
    names = ["min_action", "max_action", "min_position", "max_position", "max_speed", "goal_position",
             "goal_velocity", "power"]
    pl = {k: _f(getattr(env, k)) for k in names}
    pl["dt"] = _f(env.dt)
    pg = {k: float(getattr(g, k)) for k in names}
    pg["dt"] = 1.0
    out0 = ctx.drv.call("c17_cmc", p=pl, y=[0, 0], action=0.0)
    if not kw:
        _chk(ctx, "classic:cmc:default_goal", {"env": "ContinuousMountainCar"}, pl["goal_position"],
             out0["lerax"]["default_goal"])
        _chk(ctx, "gym:cmc:goal", {"env": "ContinuousMountainCar"}, pg["goal_position"], out0["gym"]["goal"],
             atol=G_ATOL)
    _same(ctx, [(k, pl[k], pg[k]) for k in pl], {"env": "ContinuousMountainCar", "what": "parameters"},
          "classic:cmc:params")
    ys = _mc_states(ctx, pg, ctx.budget(36, 360))
    raws = _mc_raws(ctx, pl, max(8, len(ys) // 2))
    n = max(len(ys), len(raws))
    ys, raws = _fit(ys, n), _fit(raws, n)
    acts = rng.uniform(-1.0, 1.0, n)
    acts[:6] = [-1.0, 1.0, 0.0, 0.5, -0.5, 1.0]
    acts[6:10] = [-1.7, 1.4, 2.5, -3.0]  # outside the action space: clipped by both for the field
    acts = _r(ctx, acts)
    Y, A, Rw = _arr(ctx, ys), _arr(ctx, acts), _arr(ctx, raws)
    dyn, clp, ter = _np(C.dyn(Y, A)), _np(C.clip(Rw)), np.asarray(C.terminal(Y))
    for i in range(n):
        y, a, raw = ys[i], float(acts[i]), raws[i]
        in_space = pl["min_action"] <= a <= pl["max_action"]
        case = {"env": "ContinuousMountainCar", "y": y, "action": a, "raw": raw}
        out_l = ctx.drv.call("c17_cmc", p=pl, y=y, action=a)["lerax"]
        out_lr = ctx.drv.call("c17_cmc", p=pl, y=raw, action=a)["lerax"]
        out_g = ctx.drv.call("c17_cmc", p=pg, y=y, action=a)["gym"]
        _chk(ctx, "classic:cmc:dynamics", case, dyn[i], out_l["dynamics"])
        _chk(ctx, "classic:cmc:terminal", case, bool(ter[i]), out_l["terminal"], exact=True)
        _chk(ctx, "classic:cmc:clip", case, clp[i], out_lr["clip"])
        g.state = np.array(y, dtype=np.float64)
        _o, gr, gterm, _t, _i = g.step(np.array([a], dtype=np.float64))
        gs = np.asarray(g.state, dtype=np.float64)  # stored as float32 by Gymnasium
        _chk(ctx, "gym:cmc:step_state", case, gs, out_g["step"]["state"], atol=1e-6, rtol=1e-6)
        _chk(ctx, "gym:cmc:terminated", case, bool(gterm), out_g["step"]["terminated"], exact=True)
        _chk(ctx, "gym:cmc:reward", case, gr, out_g["step"]["reward"], atol=G_ATOL, rtol=G_RTOL)
        clauses = []
        free = abs(y[1] + out_g["field"][1]) < pg["max_speed"] * 0.999 and pg["min_position"] < gs[0] < pg["max_position"]
        if free:
            clauses.append(("field", dyn[i], [y[1], gs[1] - y[1]]))
            ctx.count("classic:cmc:field-checked")
        gsr = _r(ctx, gs)
        lt = bool(np.asarray(C.terminal(_arr(ctx, gsr[None]))[0]))
        lr = _f(C.reward(Y[i:i + 1], A[i:i + 1], _arr(ctx, gsr[None]))[0])
        out_rw = ctx.drv.call("c17_cmc", p=pl, y=y, action=a, next=gsr)["lerax"]
        _chk(ctx, "classic:cmc:reward", case, lr, out_rw["reward"])
        far_goal = abs(gs[0] - pg["goal_position"]) > 1e-5 and abs(gs[0] - pl["goal_position"]) > 1e-5
        if in_space and far_goal:
            clauses.append(("reward", lr, gr))
        if far_goal:
            clauses.append(("terminated", float(lt), float(gterm)))
        vclip = float(np.clip(raw[1], -pg["max_speed"], pg["max_speed"]))
        x0 = raw[0] - vclip
        force = min(max(a, pg["min_action"]), pg["max_action"])
        v0 = raw[1] - (force * pg["power"] - 0.0025 * math.cos(3 * x0))
        g.state = np.array([x0, v0], dtype=np.float64)
        g.step(np.array([a], dtype=np.float64))
        glim = np.asarray(g.state, dtype=np.float64)
        out_gl = ctx.drv.call("c17_cmc", p=pg, y=[x0, v0], action=a)["gym"]
        _chk(ctx, "gym:cmc:limits", case, glim, out_gl["step"]["state"], atol=1e-6, rtol=1e-6)
        clauses.append(("limits", clp[i], glim))
        # Gymnasium keeps this environment's state in float32
        t32 = max(2.0 * ctx.atol, 2e-6)
        _same(ctx, clauses, case, "classic:cmc", atol=t32, rtol=t32)
        ctx.case(case, True, sample={**case, "lerax_clip": clp[i], "gym_limits": glim, "gym_reward": gr})
        ctx.count("classic:cmc:cases")
        if raw[0] < pl["min_position"]:
            ctx.count("classic:cmc:left-wall" + (":v<0" if raw[1] < 0 else ":v>=0"))
        if gterm:
            ctx.count("classic:cmc:goal-step")
        if not in_space:
            ctx.count("classic:cmc:out-of-space-action")
    _init_ranges(ctx, "cmc", C, g, out0["lerax"]["init_range"], out0["gym"]["reset_range"])


def _acrobot(ctx, kw=None):
    rng = ctx.rng
    from gymnasium.envs.classic_control import acrobot as gacro
    kw = kw or {}
    env = cc.Acrobot(solver=diffrax.Euler(), **kw)
    C = _Classic(env, AcrobotState, 4)
    g = gym.make("Acrobot-v1").unwrapped
    g.reset(seed=0)
    for k_, v_ in kw.items():       # link_length_1 -> LINK_LENGTH_1 ... (instance attributes shadow the class's)
        setattr(g, k_.upper(), v_)
    if kw:
        ctx.count("classic:acrobot:non-default-parameters")
    pi_l = float(np.asarray(jnp.asarray(jnp.pi, dtype=_ft(ctx))))
    pl = dict(gravity=_f(env.gravity), l1=_f(env.link_length_1), l2=_f(env.link_length_2),
              m1=_f(env.link_mass_1), m2=_f(env.link_mass_2), lc1=_f(env.link_com_pos_1),
              lc2=_f(env.link_com_pos_2), moi=_f(env.link_moi), max_vel_1=_f(env.max_vel_1),
              max_vel_2=_f(env.max_vel_2), torques=_np(env.torques), dt=_f(env.dt))
    pg = dict(gravity=9.8, l1=g.LINK_LENGTH_1, l2=g.LINK_LENGTH_2, m1=g.LINK_MASS_1, m2=g.LINK_MASS_2,
              lc1=g.LINK_COM_POS_1, lc2=g.LINK_COM_POS_2, moi=g.LINK_MOI, max_vel_1=g.MAX_VEL_1,
              max_vel_2=g.MAX_VEL_2, torques=np.asarray(g.AVAIL_TORQUE, dtype=np.float64), dt=g.dt)
    _same(ctx, [(k, pl[k], pg[k]) for k in pl], {"env": "Acrobot", "what": "parameters"},
          "classic:acrobot:params")
    n = ctx.budget(40, 400)
    ys = np.column_stack([rng.uniform(-3.1, 3.1, n), rng.uniform(-3.1, 3.1, n),
                          rng.uniform(-12, 12, n), rng.uniform(-28, 28, n)])
    # upright region (terminal) and hanging region
    up = np.column_stack([rng.uniform(2.6, 3.1, 8) * rng.choice([-1, 1], 8), rng.uniform(-0.4, 0.4, 8),
                          rng.uniform(-1, 1, 8), rng.uniform(-1, 1, 8)])
    ys = _r(ctx, np.vstack([ys, up, [[0.0, 0.0, 0.0, 0.0]]]))
    n = len(ys)
    acts = rng.integers(0, 3, n)
    acts[:3] = [0, 1, 2]
    # raw solver outputs: angles over several turns (away from the cut at odd multiples of pi),
    # velocities beyond the limits
    turns = rng.integers(-3, 4, (n, 2))
    ang = rng.uniform(-3.0, 3.0, (n, 2)) + turns * 2 * np.pi
    raws = np.column_stack([ang, rng.uniform(-1.5, 1.5, n) * 4 * np.pi, rng.uniform(-1.5, 1.5, n) * 9 * np.pi])
    raws = _r(ctx, raws)
    Y, A, Rw = _arr(ctx, ys), _arr(ctx, acts, integer=True), _arr(ctx, raws)
    dyn, clp, ter, obs = _np(C.dyn(Y, A)), _np(C.clip(Rw)), np.asarray(C.terminal(Y)), _np(C.obs(Y))
    ter_clip = np.asarray(C.terminal(_arr(ctx, clp)))
    rew_clip = _np(C.reward(Y, A, _arr(ctx, clp)))
    for i in range(n):
        y, a, raw = ys[i], int(acts[i]), raws[i]
        case = {"env": "Acrobot", "y": y, "action": a, "raw": raw}
        out_l = ctx.drv.call("c17_acrobot", p=pl, pi=pi_l, y=y, action=a, next=clp[i])["lerax"]
        out_lr = ctx.drv.call("c17_acrobot", p=pl, pi=pi_l, y=raw, action=a)["lerax"]
        out_g = ctx.drv.call("c17_acrobot", p=pg, pi=math.pi, y=y, action=a)["gym"]
        _chk(ctx, "classic:acrobot:dynamics", case, dyn[i], out_l["dynamics"], 16.0)
        _chk(ctx, "classic:acrobot:terminal", case, bool(ter[i]), out_l["terminal"], exact=True)
        _chk(ctx, "classic:acrobot:obs", case, obs[i], out_l["obs"])
        _chk(ctx, "classic:acrobot:reward", case, rew_clip[i], out_l["reward"])
        _chk(ctx, "classic:acrobot:clip", case, clp[i], out_lr["clip"], 4.0)
        # Gymnasium: vector field through its own `_dsdt`, one RK4 step
        torque = g.AVAIL_TORQUE[a]
        gf = np.asarray(g._dsdt(np.append(y, torque)), dtype=np.float64)[:4]
        _chk(ctx, "gym:acrobot:field", case, gf, out_g["field"], atol=G_ATOL, rtol=G_RTOL)
        g.dt = gacro.AcrobotEnv.dt
        g.state = np.array(y, dtype=np.float64)
        _o, gr, gterm, _t, _i = g.step(a)
        _chk(ctx, "gym:acrobot:step_state", case, np.asarray(g.state, dtype=np.float64),
             out_g["step"]["state"], atol=1e-8, rtol=1e-8)
        _chk(ctx, "gym:acrobot:terminated", case, bool(gterm), out_g["step"]["terminated"], exact=True)
        _chk(ctx, "gym:acrobot:reward", case, gr, out_g["step"]["reward"], atol=G_ATOL)
        # limits, termination and reward of the limited state: Gymnasium's step with dt = 0 applies
        # exactly its wrap/bound statements, `_terminal` and the reward rule to the raw state
        g.dt = 0.0
        g.state = np.array(raw, dtype=np.float64)
        go, gr0, gterm0, _t, _i = g.step(a)
        glim = np.asarray(g.state, dtype=np.float64)
        g.dt = gacro.AcrobotEnv.dt
        out_gl = ctx.drv.call("c17_acrobot", p=pg, pi=math.pi, y=raw, action=a)["gym"]
        _chk(ctx, "gym:acrobot:limits", case, glim, out_gl["limits"], atol=G_ATOL, rtol=G_RTOL)
        tip = -math.cos(glim[0]) - math.cos(glim[0] + glim[1])
        # (Gymnasium returns this observation as float32)
        t32 = max(16.0 * ctx.atol, 2e-6)
        _same(ctx, [("observation", _np(C.obs(_arr(ctx, clp[i][None]))[0]), np.asarray(go, dtype=np.float64))],
              case, "classic:acrobot", atol=t32, rtol=t32)
        clauses = [("field", dyn[i], gf), ("limits", clp[i], glim)]
        if abs(tip - 1.0) > 1e-4:
            clauses += [("terminated", float(ter_clip[i]), float(gterm0)), ("reward", rew_clip[i], gr0)]
        _same(ctx, clauses, case, "classic:acrobot", scale=16.0)
        ctx.case(case, True, sample={**case, "lerax_dynamics": dyn[i], "gym_dsdt": gf})
        ctx.count("classic:acrobot:cases")
        if gterm0:
            ctx.count("classic:acrobot:terminal-state")
        if abs(raw[0]) > math.pi or abs(raw[1]) > math.pi:
            ctx.count("classic:acrobot:angle-wrapped")
        if abs(raw[2]) > pl["max_vel_1"] or abs(raw[3]) > pl["max_vel_2"]:
            ctx.count("classic:acrobot:velocity-limited")
    out = ctx.drv.call("c17_acrobot", p=pl, pi=pi_l, y=[0, 0, 0, 0], action=0)
    _init_ranges(ctx, "acrobot", C, g, out["lerax"]["init_range"], out["gym"]["reset_range"])


def _pendulum(ctx):
    """lerax Pendulum vs Classic.lean (clip / observation / field — the part C02 reuses)"""
    rng = ctx.rng
    env = cc.Pendulum(solver=diffrax.Euler())
    C = _Classic(env, PendulumState, 2)
    pi_l = float(np.asarray(jnp.asarray(jnp.pi, dtype=_ft(ctx))))
    pl = dict(max_speed=_f(env.max_speed), max_torque=_f(env.max_torque), g=_f(env.g), m=_f(env.m),
              l=_f(env.l), dt=_f(env.dt))
    n = ctx.budget(16, 100)
    turns = rng.integers(-2, 3, n)
    raws = _r(ctx, np.column_stack([rng.uniform(-3.0, 3.0, n) + turns * 2 * np.pi, rng.uniform(-14, 14, n)]))
    acts = _r(ctx, rng.uniform(-3, 3, n))
    Rw, A = _arr(ctx, raws), _arr(ctx, acts)
    clp, dyn = _np(C.clip(Rw)), _np(C.dyn(Rw, A))
    obs = _np(C.obs(_arr(ctx, clp)))
    for i in range(n):
        case = {"env": "Pendulum", "raw": raws[i], "action": float(acts[i])}
        out = ctx.drv.call("c17_pendulum", p=pl, pi=pi_l, y=raws[i], action=float(acts[i]))["lerax"]
        _chk(ctx, "classic:pendulum:clip", case, clp[i], out["clip"], 4.0)
        _chk(ctx, "classic:pendulum:dynamics", case, dyn[i], out["dynamics"], 4.0)
        outc = ctx.drv.call("c17_pendulum", p=pl, pi=pi_l, y=clp[i], action=0.0)["lerax"]
        _chk(ctx, "classic:pendulum:obs", case, obs[i], outc["obs"])
        if not out["obs_in_space"]:
            ctx.disagree("classic:pendulum:obs_in_space(model)", case, impl=obs[i], model=out["clip"])
        ctx.case(case, True)
        ctx.count("classic:pendulum:cases")


# ================================================================== MuJoCo

ENVS = ["InvertedPendulum", "Reacher", "HalfCheetah", "InvertedDoublePendulum", "Hopper", "Walker2d",
        "Swimmer", "Pusher", "Ant", "HumanoidStandup", "Humanoid"]
GYM_ID = {n: f"{n}-v5" for n in ENVS}
QUICK_PHYSICS = ["InvertedPendulum", "Reacher", "HalfCheetah"]
# hard ground impacts: MJX and MuJoCo C resolve them differently (O(0.5) in joint velocities after
# one control step from identical qpos/qvel) — physics, not assembly.  In these environments the
# cross-simulator comparison is made only on transitions during which no contact is active at any
# sub-step (decided by replaying the sub-steps on a copy of Gymnasium's MjData); the other
# transitions are covered by the assembly part (quantities of one simulator).
# Ant additionally hits its joint limits as soon as it lands (same effect without any contact), so
# for Ant only the first two transitions after a reset (free flight) are compared across simulators.
CONTACT_SENSITIVE = {"Ant": 2, "Humanoid": None}

# constructor-option sets (same keyword names on both sides)
FLAG_OPTS = {
    "HalfCheetah": ["exclude_current_positions_from_observation"],
    "Hopper": ["exclude_current_positions_from_observation", "terminate_when_unhealthy"],
    "Walker2d": ["exclude_current_positions_from_observation", "terminate_when_unhealthy"],
    "Swimmer": ["exclude_current_positions_from_observation"],
    "Ant": ["exclude_current_positions_from_observation", "include_cfrc_ext_in_observation",
            "terminate_when_unhealthy"],
    "Humanoid": ["exclude_current_positions_from_observation", "include_cinert_in_observation",
                 "include_cvel_in_observation", "include_qfrc_actuator_in_observation",
                 "include_cfrc_ext_in_observation", "terminate_when_unhealthy"],
    "HumanoidStandup": ["exclude_current_positions_from_observation", "include_cinert_in_observation",
                        "include_cvel_in_observation", "include_qfrc_actuator_in_observation",
                        "include_cfrc_ext_in_observation"],
}
NUM_OPTS = {
    "HalfCheetah": {"forward_reward_weight": 1.5, "ctrl_cost_weight": 0.2},
    "Hopper": {"healthy_reward": 2.0, "healthy_z_range": (0.8, 1.6), "healthy_angle_range": (-0.1, 0.15),
               "healthy_state_range": (-50.0, 50.0), "ctrl_cost_weight": 0.01},
    "Walker2d": {"healthy_reward": 0.5, "healthy_z_range": (0.9, 1.8), "forward_reward_weight": 2.0},
    "Swimmer": {"forward_reward_weight": 0.5, "ctrl_cost_weight": 0.01},
    "Ant": {"contact_cost_weight": 1e-3, "contact_force_range": (-0.5, 2.0), "healthy_z_range": (0.3, 0.9),
            "healthy_reward": 2.0, "forward_reward_weight": 0.5},
    "Humanoid": {"contact_cost_weight": 1e-6, "contact_cost_range": (-np.inf, 0.5), "healthy_reward": 3.0,
                 "healthy_z_range": (1.1, 1.9), "forward_reward_weight": 2.0, "ctrl_cost_weight": 0.2},
    "HumanoidStandup": {"ctrl_cost_weight": 0.2, "impact_cost_weight": 1e-6, "impact_cost_range": (-np.inf, 2.0)},
    "InvertedDoublePendulum": {"healthy_reward": 5.0},
    "Reacher": {"reward_dist_weight": 2.0, "reward_control_weight": 0.5},
    "Pusher": {"reward_near_weight": 1.0, "reward_dist_weight": 2.0, "reward_control_weight": 0.3},
}

# attribute name -> cfg key (lerax: plain attribute, Gymnasium: "_" + attribute)
SCALARS = {
    "forward_reward_weight": "forward_reward_weight", "ctrl_cost_weight": "ctrl_cost_weight",
    "reward_control_weight": "ctrl_cost_weight", "contact_cost_weight": "contact_cost_weight",
    "healthy_reward": "healthy_reward", "reward_dist_weight": "reward_dist_weight",
    "reward_near_weight": "reward_near_weight", "uph_cost_weight": "uph_cost_weight",
    "impact_cost_weight": "impact_cost_weight",
}
BOOLS = ["terminate_when_unhealthy", "exclude_current_positions_from_observation",
         "include_cinert_in_observation", "include_cvel_in_observation",
         "include_qfrc_actuator_in_observation", "include_cfrc_ext_in_observation"]
RANGES = {"healthy_z_range": "z", "healthy_angle_range": "angle", "healthy_state_range": "state",
          "contact_force_range": "c", "contact_cost_range": "c", "impact_cost_range": "c"}
BODIES = {"fingertip": "fingertip", "target": "target", "tips_arm": "tips_arm", "object": "object", "goal": "goal"}


def _cfg(obj, prefix, mj_model, dt):
    cfg = {"dt": float(np.asarray(dt)), "timestep": float(mj_model.opt.timestep),
           "body_mass": np.asarray(mj_model.body_mass, dtype=np.float64)}
    for attr, key in SCALARS.items():
        if hasattr(obj, prefix + attr):
            cfg[key] = float(np.asarray(getattr(obj, prefix + attr)))
    for attr in BOOLS:
        if hasattr(obj, prefix + attr):
            cfg[attr] = bool(getattr(obj, prefix + attr))
    for attr, key in RANGES.items():
        if hasattr(obj, prefix + attr):
            lo, hi = [float(v) for v in np.asarray(getattr(obj, prefix + attr), dtype=np.float64)]
            cfg[key + "_lo"], cfg[key + "_hi"] = lo, hi
    for key, body in BODIES.items():
        attr = {"": f"{key}_body_id"}.get(prefix)
        if attr and hasattr(obj, attr):
            cfg[key] = int(getattr(obj, attr))
        else:
            i = mujoco.mj_name2id(mj_model, mujoco.mjtObj.mjOBJ_BODY, body)
            if i >= 0:
                cfg[key] = int(i)
    if prefix == "" and hasattr(obj, "main_body_id"):
        cfg["main_body"] = int(obj.main_body_id)
    elif hasattr(obj, "_main_body"):
        mb = obj._main_body
        cfg["main_body"] = int(mb) if isinstance(mb, (int, np.integer)) else int(
            mujoco.mj_name2id(mj_model, mujoco.mjtObj.mjOBJ_BODY, mb))
    return cfg


PHYS_FIELDS = ["qpos", "qvel", "xpos", "xipos", "cfrc_ext", "cinert", "cvel", "qfrc_actuator",
               "qfrc_constraint", "site_xpos", "ctrl"]


def _field(d, name):
    with warnings.catch_warnings():
        warnings.simplefilter("ignore")
        try:
            return getattr(d, name)
        except AttributeError:
            return getattr(d._impl, name)


def _phys(d):
    p = {n: np.array(_field(d, n), dtype=np.float64, copy=True) for n in PHYS_FIELDS}
    p["finite"] = bool(np.isfinite(np.concatenate([p["qpos"], p["qvel"]])).all())
    return p


def _comps(d):
    return {k: float(np.asarray(v)) for k, v in d.items()
            if k.startswith("reward_") or k in ("dist_penalty", "vel_penalty", "alive_bonus",
                                                "distance_penalty", "velocity_penalty")}


IDP_MAP = {"alive_bonus": ("reward_survive", 1.0), "dist_penalty": ("distance_penalty", -1.0),
           "vel_penalty": ("velocity_penalty", -1.0)}


def _cfrc_mask(name, opts, n_obs, dims):
    """indices of observation entries that are contact forces (never compared across simulators)"""
    nq, nv, nbody = dims
    if name == "Ant" and opts.get("include_cfrc_ext_in_observation", True):
        return np.arange(n_obs - (nbody - 1) * 6, n_obs)
    if name in ("Humanoid", "HumanoidStandup") and opts.get("include_cfrc_ext_in_observation", True):
        return np.arange(n_obs - (nbody - 1) * 6, n_obs)
    return np.arange(0)


def _option_sets(ctx, name):
    sets = [{}]
    flags = FLAG_OPTS.get(name, [])
    if ctx.quick:
        if flags:
            sets.append({f: False for f in flags})
        if name in NUM_OPTS:
            sets.append(dict(NUM_OPTS[name]))
    else:
        combos = list(itertools.product([True, False], repeat=len(flags)))
        if len(combos) > 12:
            idx = ctx.rng.choice(len(combos), 12, replace=False)
            combos = [combos[i] for i in sorted(idx)] + [tuple([False] * len(flags))]
        for cmb in combos:
            o = dict(zip(flags, cmb))
            if o and o not in sets:
                sets.append(o)
        if name in NUM_OPTS:
            sets.append(dict(NUM_OPTS[name]))
            if flags:
                sets.append({**NUM_OPTS[name], **{f: False for f in flags}})
    return sets


def _make_pair(name, opts):
    e = getattr(lmj, name)(**opts)
    g = gym.make(GYM_ID[name], **opts).unwrapped
    return e, g


def _mj_action(ctx, g, kind):
    lo, hi = g.action_space.low.astype(np.float64), g.action_space.high.astype(np.float64)
    if kind == "corner":
        return np.where(ctx.rng.random(lo.shape) < 0.5, lo, hi)
    if kind == "zero":
        return np.zeros_like(lo)
    return ctx.rng.uniform(lo, hi) * ctx.rng.choice([0.3, 1.0])


def _assembly_case(ctx, name, opts, e, g, cfg_l, cfg_g, dims, d0, d1, p0g, p1g, action, gym_out, first, tag):
    """one transition: all three correspondences on the assembly"""
    k = _key()
    s0 = MujocoEnvState(sim_state=d0, t=jnp.array(0.0))
    s1 = MujocoEnvState(sim_state=d1, t=jnp.array(0.0))
    a = jnp.asarray(np.asarray(action, dtype=_ft(ctx)))
    obs1 = _np(e.observation(s1, key=k))
    obs0 = _np(e.observation(s0, key=k))
    rew = _f(e.reward(s0, a, s1, key=k))
    term = bool(np.asarray(e.terminal(s1, key=k)))
    comps = _comps(e.transition_info(s0, a, s1))
    p0l, p1l = _phys(d0), _phys(d1)
    a_l = _r(ctx, action)
    case = {"env": name, "options": {k_: (list(v) if isinstance(v, tuple) else v) for k_, v in opts.items()},
            "source": tag, "qpos": p0g["qpos"], "qvel": p0g["qvel"], "action": action}
    out_l = ctx.drv.call("c17_mujoco", env=name, cfg=cfg_l, prev=p0l, next=p1l, action=a_l, dims=list(dims))
    out_g = ctx.drv.call("c17_mujoco", env=name, cfg=cfg_g, prev=p0g, next=p1g, action=action, dims=list(dims))
    ml, mg = out_l["lerax"], out_g["gym"]
    pre = f"mujoco:{name}"
    sc = 1.0 if ctx.x64 else 20.0
    _chk(ctx, f"{pre}:lerax:obs", case, obs1, ml["obs"], sc)
    _chk(ctx, f"{pre}:lerax:obs_reset", case, obs0, ml["obs_prev"], sc)
    _chk(ctx, f"{pre}:lerax:reward", case, rew, ml["reward"], sc)
    _chk(ctx, f"{pre}:lerax:terminated", case, term, ml["terminated"], exact=True)
    # health-boundary probe: after a step the cached body positions (xpos) lag the integrated qpos by one
    # sub-step; Gymnasium's is_healthy reads the height from qpos.  Put the upper (then the lower) bound of
    # the healthy height range between the two readings and compare termination / healthy reward again.
    zi = {"Ant": 2, "Humanoid": 2, "Hopper": 1, "Walker2d": 1}.get(name)
    if zi is not None and hasattr(e, "healthy_z_range") and "z_lo" in cfg_l:
        zq = float(p1l["qpos"][zi])
        zs = p1l["xpos"][:, 2]
        zx = float(zs[int(np.argmin(np.where(np.abs(zs - zq) > 1e-9, np.abs(zs - zq), np.inf)))])
        if 1e-9 < abs(zq - zx) < 0.05:
            mid = 0.5 * (zq + zx)
            for lo_, hi_ in ((min(zq, zx) - 1.0, mid), (mid, max(zq, zx) + 1.0)):
                e2 = eqx.tree_at(lambda m: m.healthy_z_range, e, jnp.asarray([lo_, hi_], dtype=e.healthy_z_range.dtype))
                lo32, hi32 = (float(v) for v in np.asarray(e2.healthy_z_range, dtype=np.float64))
                if not (min(zq, zx) < hi32 < max(zq, zx) or min(zq, zx) < lo32 < max(zq, zx)):
                    continue        # float32 cannot place a bound strictly between the two heights
                term2 = bool(np.asarray(e2.terminal(s1, key=k)))
                rew2 = _f(e2.reward(s0, a, s1, key=k))
                m2 = ctx.drv.call("c17_mujoco", env=name, cfg={**cfg_l, "z_lo": lo32, "z_hi": hi32}, prev=p0l,
                                  next=p1l, action=a_l, dims=list(dims))["lerax"]
                pc = {**case, "probe": "healthy_z bound placed between post-step qpos height and cached body height",
                      "qpos_height": zq, "cached_body_height": zx, "healthy_z_range": [lo32, hi32]}
                ctx.count(f"{pre}:health-boundary-probes")
                # Φ first: Gymnasium itself, in the very state it just reached, with the same bounds
                if hasattr(g, "_healthy_z_range") and hasattr(g, "is_healthy"):
                    old = g._healthy_z_range
                    try:
                        g._healthy_z_range = (lo32, hi32)
                        gterm2 = bool((not g.is_healthy) and getattr(g, "_terminate_when_unhealthy", True))
                    finally:
                        g._healthy_z_range = old
                    _same(ctx, [("terminated", float(term2), float(gterm2))], {**pc, "gymnasium_terminated": gterm2,
                                                                                "lerax_terminated": term2},
                          f"{pre}:health-probe")
                _chk(ctx, f"{pre}:lerax:terminated", pc, term2, m2["terminated"], exact=True)
                _chk(ctx, f"{pre}:lerax:reward", pc, rew2, m2["reward"], sc)
    _chk(ctx, f"{pre}:lerax:obs_size", case, int(e.observation_space.shape[0]), ml["obs_size"], exact=True)
    _chk(ctx, f"{pre}:lerax:obs_length", case, len(obs1), ml["obs_size"], exact=True)
    mcomps = dict((n_, v) for n_, v in ml["comps"])
    for n_, v in comps.items():
        if n_ in mcomps:
            _chk(ctx, f"{pre}:lerax:{n_}", case, v, mcomps[n_], sc)
    go, gr, gterm, ginfo, gobs0 = gym_out
    gcomps = _comps(ginfo)
    _chk(ctx, f"{pre}:gym:obs", case, go, mg["obs"], atol=G_ATOL, rtol=G_RTOL)
    _chk(ctx, f"{pre}:gym:reward", case, gr, mg["reward"], atol=1e-8, rtol=1e-8)
    _chk(ctx, f"{pre}:gym:terminated", case, bool(gterm), mg["terminated"], exact=True)
    if first:
        _chk(ctx, f"{pre}:gym:obs_reset", case, gobs0, mg["obs_prev"], atol=G_ATOL, rtol=G_RTOL)
    gm = dict((n_, v) for n_, v in mg["comps"])
    for n_, v in gcomps.items():
        if n_ in gm:
            _chk(ctx, f"{pre}:gym:{n_}", case, v, gm[n_], atol=1e-8, rtol=1e-8)
    # Φ: lerax vs Gymnasium on the same physical state (quantities of ONE simulator)
    clauses = [("obs_size", len(obs1), len(go)), ("observation", obs1, go), ("reward", rew, gr),
               ("terminated", float(term), float(gterm))]
    if first:
        clauses.insert(1, ("observation_at_reset", obs0, gobs0))
    for n_, v in comps.items():
        if name == "InvertedDoublePendulum":
            gname, sign = IDP_MAP[n_]
            clauses.append((f"component:{n_}", v, sign * gcomps[gname]))
        elif n_ in gcomps:
            clauses.append((f"component:{n_}", v, gcomps[n_]))
    _same(ctx, clauses, case, f"{pre}:assembly", scale=sc)
    ctx.case(case, True, sample={**case, "lerax_reward": rew, "gym_reward": gr, "lerax_components": comps,
                                 "gym_components": gcomps})
    ctx.count(f"{pre}:assembly-cases")
    if term:
        ctx.count(f"{pre}:terminated")
    if float(np.sum(np.square(p1g["cfrc_ext"]))) > 0:
        ctx.count(f"{pre}:contact-forces-present")
    if float(np.sum(np.square(p1g["cfrc_ext"]))) > 10:
        ctx.count(f"{pre}:contact-sumsq>10")


def _mujoco_assembly(ctx):
    for name in ENVS:
        for opts in _option_sets(ctx, name):
            e, g = _make_pair(name, opts)
            mjm = g.model
            dims = (int(mjm.nq), int(mjm.nv), int(mjm.nbody))
            cfg_l = _cfg(e, "", e.mujoco_model, e.dt)
            cfg_g = _cfg(g, "_", mjm, g.dt)
            # Reacher reads xipos where Gymnasium reads xpos: equal for this model?
            episodes = ctx.budget(2, 5)
            horizon = {"Humanoid": 24, "HumanoidStandup": 8, "Ant": 10}.get(name, 6)
            if not ctx.quick:
                horizon *= 3
            for ep in range(episodes):
                gobs0, _ = g.reset(seed=int(ctx.rng.integers(0, 2**31 - 1)))
                if ep == episodes - 1 and name in ("Hopper", "Walker2d", "HalfCheetah", "Swimmer"):
                    # a legal but fast start state: some joint velocities beyond +-10 (where Hopper / Walker2d
                    # clip the velocities they report, whatever the observation options)
                    qv = np.array(g.data.qvel, dtype=np.float64)
                    for j in ctx.rng.choice(len(qv), size=min(2, len(qv)), replace=False):
                        qv[j] = float(ctx.rng.choice([-1.0, 1.0])) * float(ctx.rng.uniform(10.5, 14.0))
                    g.set_state(np.array(g.data.qpos, dtype=np.float64), qv)
                    ctx.count(f"mujoco:{name}:fast-start-episodes")
                for t in range(horizon):
                    kind = "corner" if t % 5 == 3 else ("zero" if t % 7 == 6 else "uniform")
                    action = _mj_action(ctx, g, kind)
                    d0 = mjx.put_data(e.mujoco_model, g.data)
                    p0g = _phys(g.data)
                    gob_prev = np.asarray(g._get_obs(), dtype=np.float64)
                    go, gr, gterm, _tr, ginfo = g.step(action)
                    d1 = mjx.put_data(e.mujoco_model, g.data)
                    p1g = _phys(g.data)
                    _assembly_case(ctx, name, opts, e, g, cfg_l, cfg_g, dims, d0, d1, p0g, p1g, action,
                                   (np.asarray(go, dtype=np.float64), float(gr), bool(gterm), ginfo, gob_prev),
                                   first=True, tag=("reset" if t == 0 else f"rollout:{t}"))
            g.close()


def _mujoco_physics(ctx):
    names = QUICK_PHYSICS if ctx.quick else ENVS
    k = _key()
    for name in names:
        opts = {}
        e, g = _make_pair(name, opts)
        mjm = g.model
        dims = (int(mjm.nq), int(mjm.nv), int(mjm.nbody))
        cfg_l = _cfg(e, "", e.mujoco_model, e.dt)
        initial = eqx.filter_jit(e.initial)
        transition = eqx.filter_jit(e.transition)
        pre = f"mujoco:{name}"
        tol = 1e-3
        n_reset = ctx.budget(3, 8)
        n_roll = ctx.budget(4, 12)
        g.reset(seed=0)
        for r in range(n_reset):
            key = jax.random.key(int(ctx.rng.integers(0, 2**31 - 1)))
            s = initial(key=key)
            for t in range(n_roll + 1):
                d = s.sim_state
                pl_ = _phys(d)
                qpos, qvel = pl_["qpos"], pl_["qvel"]
                case = {"env": name, "source": "initial()" if t == 0 else f"lerax rollout step {t}",
                        "qpos": qpos, "qvel": qvel}
                if t == 0:
                    g.reset(seed=int(ctx.rng.integers(0, 2**31 - 1)))  # as a real reset: ctrl = 0
                g.set_state(qpos.copy(), qvel.copy())
                gobs0 = np.asarray(g._get_obs(), dtype=np.float64)
                lobs0 = _np(e.observation(s, key=k))
                mask = _cfrc_mask(name, opts, len(gobs0), dims)
                keep = np.setdiff1d(np.arange(len(gobs0)), mask)
                if t == 0:
                    # Φ at reset: cached kinematics are those of the reset state (FK by MuJoCo C),
                    # and the reset observation is Gymnasium's for the same qpos/qvel
                    clauses = [("reset_kinematics:xpos", pl_["xpos"].ravel(), np.asarray(g.data.xpos).ravel()),
                               ("reset_kinematics:xipos", pl_["xipos"].ravel(), np.asarray(g.data.xipos).ravel()),
                               ("reset_kinematics:cinert", pl_["cinert"].ravel(), np.asarray(g.data.cinert).ravel()),
                               ("reset_kinematics:site_xpos", pl_["site_xpos"].ravel(),
                                np.asarray(g.data.site_xpos).ravel()),
                               ("observation_at_reset", lobs0[keep], gobs0[keep])]
                    _same(ctx, clauses, case, f"{pre}:physics", atol=tol, rtol=tol)
                    ctx.count(f"{pre}:reset-states")
                action = _mj_action(ctx, g, "corner" if t % 4 == 3 else "uniform")
                a_l = jnp.asarray(np.asarray(action, dtype=_ft(ctx)))
                s1 = transition(s, a_l, key=k)
                lobs1 = _np(e.observation(s1, key=k))
                lrew = _f(e.reward(s, a_l, s1, key=k))
                lterm = bool(np.asarray(e.terminal(s1, key=k)))
                lcomps = _comps(e.transition_info(s, a_l, s1))
                touching = name in CONTACT_SENSITIVE and (
                    _contact_during(g, _r(ctx, action))
                    or (CONTACT_SENSITIVE[name] is not None and t >= CONTACT_SENSITIVE[name]))
                go, gr, gterm, _tr, ginfo = g.step(_r(ctx, action))
                go = np.asarray(go, dtype=np.float64)
                gcomps = _comps(ginfo)
                # lerax vs its assembly model on the MJX quantities
                p1 = _phys(s1.sim_state)
                out_l = ctx.drv.call("c17_mujoco", env=name, cfg=cfg_l, prev=pl_, next=p1,
                                     action=_r(ctx, action), dims=list(dims))["lerax"]
                sc = 1.0 if ctx.x64 else 20.0
                _chk(ctx, f"{pre}:lerax(mjx):obs", case, lobs1, out_l["obs"], sc)
                _chk(ctx, f"{pre}:lerax(mjx):reward", case, lrew, out_l["reward"], sc)
                _chk(ctx, f"{pre}:lerax(mjx):terminated", case, lterm, out_l["terminated"], exact=True)
                # Φ across simulators (tolerance 1e-3; contact-force terms excluded)
                if touching:
                    ctx.count(f"{pre}:physics-impacts-not-compared-across-simulators")
                    ctx.case({**case, "action": action}, True)
                    s = s1
                    continue
                contact = name in ("Ant", "Humanoid", "HumanoidStandup")
                _same(ctx, [("observation", lobs1[keep], go[keep])], {**case, "action": action},
                      f"{pre}:physics", atol=tol, rtol=tol)
                cl = []
                if contact:
                    ck = "reward_impact" if name == "HumanoidStandup" else "reward_contact"
                    cl.append(("reward_without_contact_term", lrew - lcomps.get(ck, 0.0), float(gr) - gcomps.get(ck, 0.0)))
                else:
                    cl.append(("reward", lrew, float(gr)))
                for n_, v in lcomps.items():
                    if n_ in ("reward_contact", "reward_impact"):
                        continue
                    if name == "InvertedDoublePendulum":
                        gname, sign = IDP_MAP[n_]
                        cl.append((f"component:{n_}", v, sign * gcomps[gname]))
                    elif n_ in gcomps:
                        cl.append((f"component:{n_}", v, gcomps[n_]))
                if lterm == bool(gterm) or not _near_health_boundary(name, e, p1):
                    cl.append(("terminated", float(lterm), float(gterm)))
                else:
                    ctx.count(f"{pre}:near-health-boundary-skipped")
                rs = 30.0 if name == "HumanoidStandup" else 1.0  # height / 0.003 amplifies 1e-5 to 3e-3
                _same(ctx, cl, {**case, "action": action}, f"{pre}:physics", atol=tol * rs, rtol=tol)
                ctx.case({**case, "action": action}, True,
                         sample={**case, "action": action, "lerax_reward": lrew, "gym_reward": float(gr)})
                ctx.count(f"{pre}:physics-cases")
                s = s1
        g.close()


def _mujoco_contact_forces(ctx):
    """Contact forces across simulators, where the two engines agree on the motion.

    Gymnasium fills `cfrc_ext` after every control step (`mj_rnePostConstraint` in `do_simulation`); the
    contact-force block of the observation and the contact / impact cost are part of the v5 semantics.
    HumanoidStandup lies on the floor from the reset on, and MJX and MuJoCo C agree there to ~1e-3
    relative, so the comparison is made on it (thorough: Humanoid too), only on transitions after
    which the two simulators' positions agree, with a tolerance of 2 % of the largest contact force."""
    # (Ant is left out: its reported forces are clipped to [-1, 1] and the two engines resolve its leg
    #  impacts differently, so the clipped blocks differ although lerax assembles them correctly — the Ant
    #  formulas are covered by the assembly part on one simulator's quantities)
    names = ["HumanoidStandup"] if ctx.quick else ["HumanoidStandup", "Humanoid"]
    k = _key()
    # ... and with the contact-force block switched OFF in the observation: the option only trims the observation,
    # the contact / impact cost of the reward is still charged (Gymnasium v5), so the forces must still be computed
    configs = [(n, {}) for n in names] + [(n, {"include_cfrc_ext_in_observation": False}) for n in names]
    for name, opts in configs:
        e, g = _make_pair(name, opts)
        mjm = g.model
        dims = (int(mjm.nq), int(mjm.nv), int(mjm.nbody))
        initial = eqx.filter_jit(e.initial)
        transition = eqx.filter_jit(e.transition)
        pre = f"mujoco:{name}" + ("[no-cfrc-in-obs]" if opts else "")
        g.reset(seed=0)
        ck = "reward_impact" if name == "HumanoidStandup" else "reward_contact"
        for r in range(ctx.budget(2, 6)):
            s = initial(key=jax.random.key(int(ctx.rng.integers(0, 2**31 - 1))))
            for t in range(ctx.budget(3, 12) if name != "Ant" else 30):
                pl_ = _phys(s.sim_state)
                g.set_state(pl_["qpos"].copy(), pl_["qvel"].copy())
                action = _mj_action(ctx, g, "uniform")
                a_l = jnp.asarray(np.asarray(action, dtype=_ft(ctx)))
                s1 = transition(s, a_l, key=k)
                go, gr, _gt, _tr, ginfo = g.step(_r(ctx, action))
                go = np.asarray(go, dtype=np.float64)
                lobs1 = _np(e.observation(s1, key=k))
                lcomps, gcomps = _comps(e.transition_info(s, a_l, s1)), _comps(ginfo)
                p1 = _phys(s1.sim_state)
                mask = _cfrc_mask(name, opts, len(go), dims) if not opts else np.zeros(0, dtype=int)
                gmax = float(np.abs(go[mask]).max()) if len(mask) else (float(np.abs(np.asarray(g.data.cfrc_ext)).max()) if opts else 0.0)
                agree = float(np.abs(p1["qpos"] - np.asarray(g.data.qpos)).max()) < (1e-5 if ctx.x64 else 1e-3)
                s = s1
                if gmax < 1.0 or not agree:
                    ctx.count(f"{pre}:contact-forces:skipped(no contact or motions differ)")
                    continue
                case = {"env": name, "source": f"reset {r}, step {t}", "qpos": pl_["qpos"], "qvel": pl_["qvel"],
                        "action": action, "largest_contact_force_gymnasium": gmax,
                        "largest_contact_force_lerax": float(np.abs(lobs1[mask]).max()) if len(mask) else None, "options": opts,
                        "lerax_" + ck: lcomps.get(ck), "gymnasium_" + ck: gcomps.get(ck)}
                ctx.case(case, True)
                ctx.count(f"{pre}:contact-forces-compared")
                tolc = 2e-2 * gmax + 1e-2
                if len(mask) and float(np.abs(lobs1[mask] - go[mask]).max()) > tolc:
                    ctx.phi_fail("observation(contact forces)", {**case, "lerax_block": lobs1[mask][:24], "gymnasium_block": go[mask][:24]},
                                 key=f"{pre}:physics:contact_forces_in_observation")
                elif ck in lcomps and ck in gcomps and abs(lcomps[ck] - gcomps[ck]) > 5e-2 * abs(gcomps[ck]) + 1e-4:
                    ctx.phi_fail(f"component:{ck}", case, key=f"{pre}:physics:{ck}")
        g.close()


def _mujoco_reset_all(ctx, names):
    """Reset-state clauses for environments whose full physics differential runs only in the thorough
    tier: initial() is cheap to compile, so the cached kinematics of the reset state and the reset
    observation are compared with MuJoCo C / Gymnasium at the same qpos/qvel for every environment."""
    k = _key()
    for name in names:
        opts = {}
        e, g = _make_pair(name, opts)
        mjm = g.model
        dims = (int(mjm.nq), int(mjm.nv), int(mjm.nbody))
        initial = eqx.filter_jit(e.initial)
        pre = f"mujoco:{name}"
        tol = 1e-3
        for r in range(ctx.budget(2, 4)):
            key = jax.random.key(int(ctx.rng.integers(0, 2**31 - 1)))
            s = initial(key=key)
            pl_ = _phys(s.sim_state)
            qpos, qvel = pl_["qpos"], pl_["qvel"]
            case = {"env": name, "source": "initial()", "qpos": qpos, "qvel": qvel}
            g.reset(seed=int(ctx.rng.integers(0, 2**31 - 1)))
            g.set_state(qpos.copy(), qvel.copy())
            gobs0 = np.asarray(g._get_obs(), dtype=np.float64)
            lobs0 = _np(e.observation(s, key=k))
            mask = _cfrc_mask(name, opts, len(gobs0), dims)
            keep = np.setdiff1d(np.arange(len(gobs0)), mask)
            clauses = [("reset_kinematics:xpos", pl_["xpos"].ravel(), np.asarray(g.data.xpos).ravel()),
                       ("reset_kinematics:xipos", pl_["xipos"].ravel(), np.asarray(g.data.xipos).ravel()),
                       ("reset_kinematics:cinert", pl_["cinert"].ravel(), np.asarray(g.data.cinert).ravel()),
                       ("reset_kinematics:site_xpos", pl_["site_xpos"].ravel(), np.asarray(g.data.site_xpos).ravel()),
                       ("observation_at_reset", lobs0[keep], gobs0[keep])]
            _same(ctx, clauses, case, f"{pre}:physics", atol=tol, rtol=tol)
            ctx.case(case, True)
            ctx.count(f"{pre}:reset-states")
        g.close()
        ctx.gc(3)


def _contact_during(g, action):
    """is any contact active at some sub-step of Gymnasium's transition from the current state?"""
    import copy
    d2 = copy.copy(g.data)
    d2.ctrl[:] = action
    for _ in range(int(g.frame_skip)):
        mujoco.mj_step(g.model, d2)
        if int(d2.ncon) > 0:
            return True
    return False


def _near_health_boundary(name, e, p):
    vals = []
    for attr, idx in (("healthy_z_range", {"Hopper": 1, "Walker2d": 1}.get(name, 2)),
                      ("healthy_angle_range", 2)):
        if hasattr(e, attr):
            lo, hi = np.asarray(getattr(e, attr), dtype=np.float64)
            vals += [abs(p["qpos"][idx] - lo), abs(p["qpos"][idx] - hi)]
    if name == "InvertedPendulum":
        vals.append(abs(abs(p["qpos"][1]) - 0.2))
    if name == "InvertedDoublePendulum" and len(p["site_xpos"]):
        vals.append(abs(p["site_xpos"][0][2] - 1.0))
    return bool(vals) and min(vals) < 5e-3


# ================================================================== entry point

def run(ctx):
    _cartpole(ctx)
    _mountaincar(ctx)
    _cmc(ctx)
    _acrobot(ctx)
    # the same comparisons with non-default constructor parameters on both sides (the theorems hold for
    # every parameter set; which parameters enter which formula is part of the reference semantics:
    # e.g. Gymnasium's Acrobot goal test does not involve the link lengths)
    _cartpole(ctx, dict(gravity=9.0, cart_mass=1.3, pole_mass=0.25, half_length=0.7, force_mag=8.0))
    _mountaincar(ctx, dict(goal_position=0.45, goal_velocity=0.01, force=0.0015, gravity=0.002, max_speed=0.06))
    _cmc(ctx, dict(power=0.002, goal_position=0.4, goal_velocity=0.01, max_speed=0.06))
    # a goal velocity the car can never reach (above max_speed): Gymnasium then never terminates / pays the bonus
    _cmc(ctx, dict(goal_velocity=0.1))
    _mountaincar(ctx, dict(goal_velocity=0.1))
    _acrobot(ctx, dict(link_length_1=1.5, link_length_2=0.6, link_mass_1=1.2, link_mass_2=0.8,
                       link_com_pos_1=0.6, link_com_pos_2=0.4, link_moi=1.3))
    _pendulum(ctx)
    _mujoco_assembly(ctx)
    _mujoco_physics(ctx)
    _mujoco_contact_forces(ctx)
    if ctx.quick and not ctx.x64:
        _mujoco_reset_all(ctx, [n for n in ENVS if n not in QUICK_PHYSICS])
    ctx.note("InvertedDoublePendulum: lerax reports dist_penalty / vel_penalty / alive_bonus (penalties "
             "positive) where Gymnasium reports distance_penalty / velocity_penalty / reward_survive "
             "(penalties negative); compared as the same three quantities")
    ctx.note("MJX vs MuJoCo C: transitions of Ant / Humanoid with an active contact at some sub-step (and Ant "
             "transitions later than two steps after a reset, where joint-limit impacts occur) are not compared "
             "across simulators — the two engines resolve impacts differently (O(0.1-1) in joint velocities); "
             "those states are covered by the assembly part")
    ctx.note("contact forces (cfrc_ext): through the assembly models on quantities of one simulator everywhere; "
             "between MJX and MuJoCo C on HumanoidStandup (thorough: Humanoid) on transitions after which "
             "the two simulators' positions agree, to 2 % of the largest force")
