"""C12 — JAX transformations are transparent; parallel environments never mix.
(a) vectorised collection vs single-environment collections and perturbation of other streams;
(b) every environment function eager vs jit vs vmap."""
from __future__ import annotations

import equinox as eqx
import jax
import numpy as np
from jax import numpy as jnp
from jax import random as jr

from lerax.algorithm import A2C, DQN, PPO, REINFORCE, SAC
from lerax.callback import CallbackList
from lerax.env.classic_control import (Acrobot, CartPole, ContinuousMountainCar, MountainCar,
                                       Pendulum)
from lerax.space import Box, Discrete
from lerax.wrapper import ClipAction, FlattenObservation, TimeLimit

from .common.stacks import sample_action
from .common.tabular import (TabularQPolicy, TabularSACPolicy, random_ac_policy, random_tabular)


def _leaves(tree):
    return jax.tree.leaves(eqx.filter(tree, eqx.is_array))


def _bit_equal(a, b):
    la, lb = _leaves(a), _leaves(b)
    return len(la) == len(lb) and all(np.array_equal(np.asarray(x), np.asarray(y), equal_nan=True)
                                      for x, y in zip(la, lb))


def _close(ctx, a, b, scale=8.0):
    la, lb = _leaves(a), _leaves(b)
    if len(la) != len(lb):
        return False
    for x, y in zip(la, lb):
        x, y = np.asarray(x), np.asarray(y)
        if x.shape != y.shape:
            return False
        if x.dtype.kind == "f":
            if not ctx.close(x, y, scale):
                return False
        elif not np.array_equal(x, y):
            return False
    return True


def check_collection(ctx, idx):
    rng = ctx.rng
    which = ["PPO", "DQN", "A2C", "SAC", "REINFORCE"][idx % 5]
    box = which == "SAC" or (which in ("PPO", "A2C") and rng.random() < 0.4)
    env0 = random_tabular(rng, box=box, masks=(not box and which != "DQN"), p_term=0.15, p_trunc=0.1)
    env = TimeLimit(env0, int(rng.integers(2, 6))) if rng.random() < 0.6 else env0
    N, T = int(rng.integers(2, 5)), int(rng.integers(3, 9))
    nS = int(env0.T.shape[0])
    on_policy = which in ("PPO", "A2C", "REINFORCE")
    if which == "PPO":
        algo, policy = PPO(num_envs=N, num_steps=T, num_epochs=1, num_batches=1), random_ac_policy(rng, env0)
    elif which == "A2C":
        algo, policy = A2C(num_envs=N, num_steps=T, gae_lambda=0.9), random_ac_policy(rng, env0)
    elif which == "REINFORCE":
        algo, policy = REINFORCE(num_envs=N, num_steps=T), random_ac_policy(rng, env0)
    elif which == "DQN":
        algo = DQN(buffer_size=16 * N, learning_starts=3, num_envs=N, num_steps=T, batch_size=2)
        policy = TabularQPolicy(env0, rng.uniform(-1, 1, (nS, int(env0.T.shape[1]))), epsilon=0.4)
    else:
        algo = SAC(buffer_size=16 * N, learning_starts=3, num_envs=N, num_steps=T, batch_size=2, q_width_size=4, q_depth=1)
        policy = TabularSACPolicy(env0, rng.uniform(-1, 1, nS), rng.uniform(-1, 0, nS), scale_out=2.0)
    cb = CallbackList(callbacks=[])
    key = jr.key(int(rng.integers(0, 2**31)))
    k0, k1 = jr.split(key)
    state = algo.reset(env, policy, key=k0, callback=cb)
    keys = jr.split(k1, N)
    vec = eqx.filter_jit(lambda ss, ks: eqx.filter_vmap(
        algo.collect_rollout, in_axes=(None, None, eqx.if_array(0), None, 0))(env, policy, ss, cb, ks))
    single = eqx.filter_jit(lambda ss, k: algo.collect_rollout(env, policy, ss, cb, k))
    out_vec = vec(state.step_state, keys)
    case0 = {"kind": "collection", "algo": which, "box": box, "N": N, "T": T}
    for i in range(N):
        si = jax.tree.map(lambda x: x[i], state.step_state)
        out_i = single(si, keys[i])
        vi = jax.tree.map(lambda x: x[i], out_vec)
        ok = _close(ctx, vi, out_i, 4.0)
        ctx.case({**case0, "idx": idx, "stream": i}, True, sample={**case0, "stream": i} if (idx < 2 and i == 0) else None)
        ctx.count(f"collection:{which}")
        if not ok:
            ctx.phi_fail("N_env_collection_equals_N_single_collections", {**case0, "stream": i}, key="c12:vec-vs-single")
    # perturbation: replace stream j's start state by another environment's and re-collect
    j = int(rng.integers(0, N))
    src = (j + 1) % N
    perturbed = jax.tree.map(lambda x: x.at[j].set(x[src]) if hasattr(x, "at") else x, state.step_state)
    keys2 = keys.at[j].set(jr.split(jr.key(12345))[0]) if hasattr(keys, "at") else keys
    out_p = vec(perturbed, keys2)
    for i in range(N):
        if i == j:
            continue
        same = _bit_equal(jax.tree.map(lambda x: x[i], out_p), jax.tree.map(lambda x: x[i], out_vec))
        ctx.case({**case0, "idx": idx, "perturbed": j, "stream": i}, True)
        ctx.count("collection:perturbation")
        if not same:
            ctx.phi_fail("other_streams_unaffected_by_perturbing_one", {**case0, "perturbed": j, "stream": i},
                         key="c12:cross-talk")


class _TapState(eqx.Module):
    adv: jax.Array
    ret: jax.Array


def _make_tap(E, T):
    from lerax.callback import AbstractIterationCallback

    class BufferTap(AbstractIterationCallback):
        """records the advantages / returns of the rollout that iteration() trains on (read from the
        iteration's locals; absent local => zeros and the clause is skipped)"""

        def reset(self, ctx, *, key):
            return _TapState(jnp.full((E, T), jnp.nan), jnp.full((E, T), jnp.nan))

        def on_iteration(self, ctx, *, key):
            buf = ctx.locals.get("rollout_buffer")
            if buf is None:
                return ctx.state
            return _TapState(jnp.asarray(buf.advantages, dtype=float).reshape(E, T),
                             jnp.asarray(buf.returns, dtype=float).reshape(E, T))

    return BufferTap()


def check_iteration_streams(ctx, idx):
    """Through the real iteration(): perturbing one environment's start state must leave the
    advantages / returns the learner trains on for every other environment bit-identical."""
    rng = ctx.rng
    which = ["PPO", "A2C", "REINFORCE"][idx % 3]
    env0 = random_tabular(rng, p_term=0.05, p_trunc=0.0)
    env = TimeLimit(env0, int(rng.integers(6, 12)))
    N, T = int(rng.integers(2, 5)), int(rng.integers(4, 9))
    if idx % 2 == 0:
        # square rollouts (num_envs == num_steps): the environment and the time axis cannot be told apart
        # by their extents
        N = T = int(rng.integers(3, 6))
        ctx.count("iteration:square-rollout")
    policy = random_ac_policy(rng, env0)
    algo = {"PPO": lambda: PPO(num_envs=N, num_steps=T, num_epochs=1, num_batches=1, gae_lambda=0.9, gamma=0.95),
            "A2C": lambda: A2C(num_envs=N, num_steps=T, gae_lambda=0.9, gamma=0.95),
            "REINFORCE": lambda: REINFORCE(num_envs=N, num_steps=T, gamma=0.95)}[which]()
    cb = _make_tap(N, T)
    k0, k1 = jr.split(jr.key(int(rng.integers(0, 2**31))))
    state = algo.reset(env, policy, key=k0, callback=cb)
    it = eqx.filter_jit(lambda s, k: algo.iteration(s, key=k, callback=cb))
    base = it(state, k1).callback_state
    if bool(jnp.isnan(base.adv).all()):
        ctx.note("iteration(): rollout buffer not visible to callbacks; stream-independence through iteration() skipped")
        return
    j = int(rng.integers(0, N))
    src = (j + 1) % N
    pert_step = jax.tree.map(lambda x: x.at[j].set(x[src]) if (hasattr(x, "at") and x.ndim >= 1 and x.shape[0] == N) else x,
                             state.step_state.env_state)
    if _bit_equal(pert_step, state.step_state.env_state):
        # identical start states: push the perturbed environment one step ahead instead
        one = jax.tree.map(lambda x: x[j], state.step_state.env_state)
        moved = env.transition(one, sample_action(rng, env, k0), key=k0)
        pert_step = jax.tree.map(lambda x, m: x.at[j].set(m), state.step_state.env_state, moved)
    pert = eqx.tree_at(lambda s: s.step_state.env_state, state, pert_step)
    out = it(pert, k1).callback_state
    case = {"kind": "iteration-streams", "algo": which, "N": N, "T": T, "perturbed": j}
    for i in range(N):
        if i == j:
            continue
        ctx.case({**case, "idx": idx, "stream": i}, True, sample={**case, "stream": i} if idx == 0 else None)
        ctx.count("iteration:perturbation")
        same = (np.array_equal(np.asarray(base.adv[i]), np.asarray(out.adv[i]), equal_nan=True)
                and np.array_equal(np.asarray(base.ret[i]), np.asarray(out.ret[i]), equal_nan=True))
        if not same:
            ctx.phi_fail("advantages_of_other_environments_unaffected_through_iteration",
                         {**case, "stream": i, "base_adv": np.asarray(base.adv[i]), "perturbed_adv": np.asarray(out.adv[i])},
                         key="c12:iteration-cross-talk")


def check_offpolicy_streams(ctx, idx):
    """Off-policy algorithms through their real reset() (warm-up) and iteration(), N environments that all hit
    their time limit on the SAME step, a stateful policy:
      * after the warm-up and after an iteration every environment has been restarted at its own episode ends
        (TimeLimit counter < limit, policy-state chain inside its own replay buffer unbroken);
      * pushing one environment one step ahead leaves the other environments' replay buffers and step states
        bit-identical."""
    rng = ctx.rng
    which = ["DQN", "SAC"][idx % 2]
    sync = idx % 4 < 2          # all environments end episodes together (time limit only) / at different steps
    env0 = random_tabular(rng, box=(which == "SAC"), p_term=0.0 if sync else 0.25, p_trunc=0.0)
    if sync:
        env0 = eqx.tree_at(lambda e: (e.term, e.trunc), env0, (jnp.zeros_like(env0.term), jnp.zeros_like(env0.trunc)))
    n = int(rng.integers(2, 5)) if sync else int(rng.integers(4, 8))
    env = TimeLimit(env0, n)
    N, T, LS = 3, int(rng.integers(2 * n, 3 * n + 1)), (n + 1 if sync else 3 * n)
    ctx.count("off-policy-streams:" + ("synchronous-episode-ends" if sync else "asynchronous-episode-ends"))
    nS = int(env0.T.shape[0])
    if which == "DQN":
        algo = DQN(buffer_size=64 * N, learning_starts=LS, num_envs=N, num_steps=T, batch_size=2)
        policy = TabularQPolicy(env0, rng.uniform(-1, 1, (nS, int(env0.T.shape[1]))), epsilon=0.4)
    else:
        algo = SAC(buffer_size=64 * N, learning_starts=LS, num_envs=N, num_steps=T, batch_size=2, q_width_size=4, q_depth=1)
        policy = TabularSACPolicy(env0, rng.uniform(-1, 1, nS), rng.uniform(-1, 0, nS), scale_out=2.0)
    cb = CallbackList(callbacks=[])
    k0, k1 = jr.split(jr.key(int(rng.integers(0, 2**31))))
    state = algo.reset(env, policy, key=k0, callback=cb)
    it = eqx.filter_jit(lambda s, k: algo.iteration(s, key=k, callback=cb))
    base = it(state, k1)
    case0 = {"kind": "off-policy-streams", "algo": which, "N": N, "T": T, "time_limit": n, "learning_starts": LS}

    def own_episodes(tag, st):
        ss = st.step_state
        counts = np.asarray(ss.env_state.step_count).reshape(N)
        buf = ss.buffer
        pos = np.asarray(buf.position).reshape(N)
        for e in range(N):
            m = int(min(pos[e], np.asarray(buf.dones).shape[1]))
            dn = np.asarray(buf.dones)[e][:m]
            sc = np.asarray(buf.states.count)[e][:m]
            nsc = np.asarray(buf.next_states.count)[e][:m]
            chain_ok = all((sc[t + 1] == 0) if dn[t] else (sc[t + 1] == nsc[t]) for t in range(m - 1))
            ctx.case({**case0, "phase": tag, "env": e}, True)
            ctx.count("off-policy-streams:" + tag)
            if counts[e] >= n or not chain_ok or (sync and int(dn.sum()) != m // n):
                ctx.phi_fail("each_environment_restarts_at_its_own_episode_ends",
                             {**case0, "phase": tag, "env": e, "time_limit_counter": int(counts[e]), "dones": dn,
                              "policy_state_counts": sc, "next_policy_state_counts": nsc},
                             key="c12:offpolicy-own-episodes")
                return False
        return True

    if not (own_episodes("after-reset", state) and own_episodes("after-iteration", base)):
        return
    for j in (0, N - 1):
        one = jax.tree.map(lambda x: x[j], state.step_state.env_state)
        moved = env.transition(one, sample_action(rng, env, k0), key=k0)
        pert_env = jax.tree.map(lambda x, m_: x.at[j].set(m_), state.step_state.env_state, moved)
        pert = eqx.tree_at(lambda s_: s_.step_state.env_state, state, pert_env)
        out = it(pert, k1)
        for i in range(N):
            if i == j:
                continue
            pick = lambda st: jax.tree.map(lambda x: x[i] if (hasattr(x, "ndim") and x.ndim >= 1 and x.shape[0] == N) else x,
                                           (st.step_state.buffer, st.step_state.env_state, st.step_state.policy_state))
            ctx.case({**case0, "perturbed": j, "stream": i, "idx": idx}, True)
            ctx.count("off-policy-streams:perturbation")
            if not _bit_equal(pick(out), pick(base)):
                ctx.phi_fail("other_streams_unaffected_by_perturbing_one", {**case0, "perturbed": j, "stream": i,
                             "through": "iteration()"}, key="c12:offpolicy-cross-talk")
                return


def check_step_purity(ctx, env, name, idx):
    """env.step depends only on its explicit arguments and leaves them intact: stepping twice from
    the same state gives the same result and the state passed in is still usable afterwards."""
    rng = ctx.rng
    key = jr.key(int(rng.integers(0, 2**31)))
    state, _, _ = env.reset(key=key)
    action = sample_action(rng, env, key)
    case = {"kind": "step-purity", "env": name}
    ctx.case({**case, "idx": idx}, True)
    ctx.count("step-purity")
    try:
        out1 = env.step(state, action, key=key)
        out2 = env.step(state, action, key=key)
        nxt = env.transition(state, action, key=key)        # the input state must still be alive
        jax.block_until_ready(jax.tree.leaves((out1, out2, nxt)))
        if not _bit_equal(out1, out2):
            ctx.phi_fail("step_repeatable_from_same_arguments", case, key=f"c12:step-impure:{name}")
    except RuntimeError as e:
        ctx.phi_fail("step_leaves_its_arguments_intact", {**case, "error": str(e)[:200]}, key=f"c12:step-destroys-input:{name}")


def check_env_modes(ctx, env, name, idx):
    rng = ctx.rng
    fns = {
        "initial": lambda s, a, k: env.initial(key=k),
        "transition": lambda s, a, k: env.transition(s, a, key=k),
        "observation": lambda s, a, k: env.observation(s, key=k),
        "reward": lambda s, a, k: env.reward(s, a, env.transition(s, a, key=k), key=k),
        "terminal": lambda s, a, k: env.terminal(env.transition(s, a, key=k), key=k),
        "truncate": lambda s, a, k: env.truncate(env.transition(s, a, key=k)),
    }
    B = int(rng.choice([1, 3] if ctx.quick else [1, 3, 7]))
    key = jr.key(int(rng.integers(0, 2**31)))
    ks = jr.split(key, B)
    # reachable states: a few random steps from reset
    states, actions = [], []
    jstep = eqx.filter_jit(lambda s, a, k: env.transition(s, a, key=k))
    for b in range(B):
        s = env.initial(key=ks[b])
        for t in range(int(rng.integers(0, 6))):
            kk = jr.fold_in(ks[b], t)
            s = jstep(s, sample_action(rng, env, kk), kk)
        states.append(s)
        actions.append(sample_action(rng, env, jr.fold_in(ks[b], 99)))
    S = jax.tree.map(lambda *xs: jnp.stack(xs), *states)
    A = jnp.stack([jnp.asarray(a) for a in actions])
    for fname, f in fns.items():
        n_eager = 1 if ctx.quick else B      # eager diffrax solves are slow: one element in quick
        jf = eqx.filter_jit(f)
        jitted = [jf(states[b], actions[b], ks[b]) for b in range(B)]
        eager = [f(states[b], actions[b], ks[b]) if b < n_eager else jitted[b] for b in range(B)]
        vm = eqx.filter_vmap(f)(S, A, ks)
        case = {"kind": "env-modes", "env": name, "function": fname, "batch": B}
        ctx.case({**case, "idx": idx}, True, sample=case if idx == 0 and fname == "transition" else None)
        ctx.count(f"modes:{name}")
        for b in range(B):
            vb = jax.tree.map(lambda x: x[b], vm)
            if not (_close(ctx, eager[b], jitted[b], 64.0) and _close(ctx, eager[b], vb, 64.0)):
                ctx.phi_fail("eager_jit_vmap_agree", {**case, "element": b,
                                                      "eager": [np.asarray(x) for x in _leaves(eager[b])],
                                                      "jit": [np.asarray(x) for x in _leaves(jitted[b])],
                                                      "vmap": [np.asarray(x) for x in _leaves(vb)]},
                             key=f"c12:modes:{name}:{fname}")
                break
        # arguments outside the declared action space that the environment tolerates (it clips / selects
        # internally): the three modes must still agree — in particular none may raise where another returns
        if fname in ("transition", "reward"):
            sp = env.action_space
            outs = []
            if isinstance(sp, Box):
                hi, lo = np.asarray(sp.high, np.float64), np.asarray(sp.low, np.float64)
                if np.isfinite(hi).all() and np.isfinite(lo).all():
                    outs = [jnp.asarray(hi + 1.0, dtype=A.dtype), jnp.asarray(lo - 0.75, dtype=A.dtype)]
            elif isinstance(sp, Discrete):
                outs = [jnp.asarray(sp.n, dtype=A.dtype)]
            for a_out in outs:
                res = {}
                for mode, call in (("eager", lambda: f(states[0], a_out, ks[0])),
                                   ("jit", lambda: jf(states[0], a_out, ks[0])),
                                   ("vmap", lambda: jax.tree.map(lambda x: x[0], eqx.filter_vmap(f)(
                                       jax.tree.map(lambda x: x[None], states[0]), a_out[None], ks[:1])))):
                    try:
                        res[mode] = call()
                        jax.block_until_ready(jax.tree.leaves(res[mode]))
                    except Exception as e:  # noqa: BLE001
                        res[mode] = f"raised {type(e).__name__}"
                ctx.count("modes:out-of-space-action")
                raised = [m for m, r in res.items() if isinstance(r, str)]
                if 0 < len(raised) < 3:
                    ctx.phi_fail("eager_jit_vmap_agree", {**case, "out_of_space_action": np.asarray(a_out),
                                 "outcome": {m: (r if isinstance(r, str) else "returned") for m, r in res.items()}},
                                 key=f"c12:modes-out-of-space:{name}:{fname}")
                elif not raised and not (_close(ctx, res["eager"], res["jit"], 64.0) and _close(ctx, res["eager"], res["vmap"], 64.0)):
                    ctx.phi_fail("eager_jit_vmap_agree", {**case, "out_of_space_action": np.asarray(a_out)},
                                 key=f"c12:modes-out-of-space:{name}:{fname}")
        # depends only on explicit arguments: a second call returns the same bits
        again = f(states[0], actions[0], ks[0])
        if not _bit_equal(again, eager[0]):
            ctx.phi_fail("depends_only_on_explicit_arguments", case, key=f"c12:impure:{name}:{fname}")


def check_adapter_jit_depends_on_explicit_arguments_only(ctx):
    """two Gymnax adapters around environments of the same class with DIFFERENT parameters, used one after the
    other in one process through Gymnax's public (jitted, `self`-static) `reset` / `step`: each jitted call agrees
    with the same call under `jax.disable_jit()` — the compiled program of one adapter is not reused for the other."""
    try:
        from lerax.compatibility.gymnax import LeraxEnvParams, LeraxToGymnaxEnv
    except Exception as e:  # noqa: BLE001
        ctx.note(f"gymnax adapter not importable: {type(e).__name__}"[:100])
        return
    pairs = [("CartPole", CartPole(), CartPole(gravity=1.6, force_mag=30.0)),
             ("Pendulum", Pendulum(), Pendulum(g=3.0, m=2.5))]
    params = LeraxEnvParams()
    for name, e1, e2 in pairs[:ctx.budget(1, 2)]:
        adapters = [LeraxToGymnaxEnv(e1), LeraxToGymnaxEnv(e2)]
        key = jr.key(int(ctx.rng.integers(0, 2**31)))
        for which, ad in enumerate(adapters):               # the first adapter is traced first
            k0, k1, ka = jr.split(jr.fold_in(key, which), 3)
            obs, st = ad.reset(k0, params)
            a = ad.action_space(params).sample(ka)
            jit_out = ad.step(k1, st, a, params)
            with jax.disable_jit():
                obs_e, st_e = ad.reset(k0, params)
                eager_out = ad.step(k1, st_e, a, params)
            same = _close(ctx, (obs, jit_out[0], jit_out[2], jit_out[3]), (obs_e, eager_out[0], eager_out[2], eager_out[3]))
            case = {"kind": "gymnax-adapter-jit-vs-eager", "env": name, "adapter": ["default parameters", "other parameters"][which],
                    "jit_obs": np.asarray(jit_out[0]), "eager_obs": np.asarray(eager_out[0])}
            ctx.case(case, True)
            ctx.count("adapter-jit-vs-eager:" + name)
            if not same:
                ctx.phi_fail("jit_equals_eager", case, key="c12:adapter-jit-cache")


def run(ctx):
    check_adapter_jit_depends_on_explicit_arguments_only(ctx)
    for i in range(ctx.budget(5, 25)):
        check_collection(ctx, i)
        ctx.gc(4)
    envs = [("CartPole", CartPole()), ("MountainCar", MountainCar()), ("Pendulum", Pendulum()),
            ("Acrobot", Acrobot()), ("ContinuousMountainCar", ContinuousMountainCar()),
            ("TimeLimit(CartPole)", TimeLimit(CartPole(), 5)),
            ("ClipAction(Pendulum)", ClipAction(Pendulum())),
            ("FlattenObservation(Acrobot)", FlattenObservation(Acrobot())),
            ("Tabular", random_tabular(ctx.rng)), ("TabularBox", random_tabular(ctx.rng, box=True))]
    if ctx.quick:
        envs = [envs[i] for i in (0, 2, 5, 6, 8)]
    for i in range(ctx.budget(4, 8)):
        check_offpolicy_streams(ctx, i)
        ctx.gc(2)
    for i in range(ctx.budget(4, 12)):
        check_iteration_streams(ctx, i)
        ctx.gc(2)
    for i, (name, env) in enumerate(envs):
        check_step_purity(ctx, env, name, i)
        check_env_modes(ctx, env, name, i)
        ctx.gc(2)
    if not ctx.quick:
        try:
            from lerax.env.mujoco import InvertedPendulum
            check_env_modes(ctx, InvertedPendulum(), "InvertedPendulum", 100)
        except Exception as e:  # noqa: BLE001
            ctx.note(f"MuJoCo env modes skipped: {type(e).__name__}: {e}"[:200])
