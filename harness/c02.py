"""C02 — environments stay inside their declared spaces with well-typed signals: rollouts of the
real built-in environments (classic control; MuJoCo and Unitree G1 in the thorough tier) under
wrapper variants with random and bound-corner action sequences."""
from __future__ import annotations

import equinox as eqx
import jax
import numpy as np
from jax import numpy as jnp
from jax import random as jr

from lerax.env.classic_control import (Acrobot, CartPole, ContinuousMountainCar, MountainCar,
                                       Pendulum)
from lerax.space import Box, Discrete
from lerax.wrapper import (ClipAction, FlattenObservation, RescaleAction, RescaleObservation,
                           TimeLimit, TransformAction)


def _variants(env, name):
    out = [(name, env), (f"TimeLimit({name})", TimeLimit(env, 7)),
           (f"FlattenObservation({name})", FlattenObservation(env))]
    if isinstance(env.action_space, Box) and bool(np.isfinite(np.asarray(env.action_space.low)).all()):
        out.append((f"ClipAction(RescaleAction({name}))", ClipAction(RescaleAction(env))))
    osp = env.observation_space
    if isinstance(osp, Box) and bool(np.isfinite(np.asarray(osp.low)).all() and np.isfinite(np.asarray(osp.high)).all()):
        out.append((f"RescaleObservation({name})", RescaleObservation(env)))
        # an action wrapper ABOVE a wrapper that changes the observation space: the stack must advertise
        # the space of the observations it actually emits (the inner wrapper's, not the base env's)
        inner = RescaleObservation(env)
        if isinstance(env.action_space, Box) and bool(np.isfinite(np.asarray(env.action_space.low)).all()):
            out.append((f"ClipAction(RescaleObservation({name}))", ClipAction(inner)))
        else:
            out.append((f"TransformAction(RescaleObservation({name}))",
                        TransformAction(inner, lambda a: a, inner.action_space)))
    return out


def _action_seq(rng, env, kind, H, key):
    sp = env.action_space
    if isinstance(sp, Discrete):
        if kind == "low":
            return jnp.zeros(H, dtype=int)
        if kind == "high":
            return jnp.full(H, sp.n - 1, dtype=int)
        if kind == "alternate":
            return jnp.asarray([0 if t % 2 == 0 else sp.n - 1 for t in range(H)])
        return jax.vmap(lambda k: sp.sample(key=k))(jr.split(key, H))
    low, high = np.asarray(sp.low), np.asarray(sp.high)
    lo = np.where(np.isfinite(low), low, -3.0)
    hi = np.where(np.isfinite(high), high, 3.0)
    if kind == "low":
        return jnp.broadcast_to(jnp.asarray(lo, dtype=float), (H,) + lo.shape)
    if kind == "high":
        return jnp.broadcast_to(jnp.asarray(hi, dtype=float), (H,) + hi.shape)
    if kind == "alternate":
        return jnp.stack([jnp.asarray(lo if t % 2 == 0 else hi, dtype=float) for t in range(H)])
    return jax.vmap(lambda k: sp.sample(key=k))(jr.split(key, H))


def _check_rollout(ctx, name, env, kind, H, functional, idx, pump=None):
    rng = ctx.rng
    key = jr.key(int(rng.integers(0, 2**31)))
    k_act, k_run = jr.split(key)
    actions = _action_seq(rng, env, "random" if pump is not None else kind, H, k_act)
    a_lo, a_hi = _action_seq(rng, env, "low", 1, k_act)[0], _action_seq(rng, env, "high", 1, k_act)[0]

    @eqx.filter_jit
    def roll(actions, key):
        k0, k1 = jr.split(key)
        state, obs0, _ = env.reset(key=k0)

        def body(state, xs):
            a, k = xs
            if pump is not None:
                # energy pumping: push in the direction of motion (bang-bang on a velocity coordinate)
                a = jnp.where(state.unwrapped.y[pump[0]] * pump[1] > 0, a_hi, a_lo)
            if functional:
                ks = jr.split(k, 5)
                nxt = env.transition(state, a, key=ks[0])
                r = env.reward(state, a, nxt, key=ks[1])
                term = env.terminal(nxt, key=ks[2])
                trunc = env.truncate(nxt)
                obs = env.observation(nxt, key=ks[3])
                # keep walking from the successor unless the episode ended (reachable states only)
                nstate = jax.lax.cond(term | trunc, lambda: env.initial(key=ks[4]), lambda: nxt)
                return nstate, (obs, r, term, trunc)
            nstate, obs, r, term, trunc, _ = env.step(state, a, key=k)
            return nstate, (obs, r, term, trunc)

        _, out = jax.lax.scan(body, state, (actions, jr.split(k1, actions.shape[0])))
        return obs0, out

    case = {"kind": "rollout", "env": name, "actions": kind, "horizon": H, "functional_api": functional}
    try:
        obs0, (obs, rew, term, trunc) = roll(actions, k_run)
        jax.block_until_ready(rew)
    except Exception as e:  # noqa: BLE001 - in-space actions from a reset state must be accepted
        ctx.case({**case, "idx": idx}, True)
        ctx.phi_fail("sampled_actions_are_accepted", {**case, "error": f"{type(e).__name__}: {e}"[:400]},
                     key=f"c02:rollout-raised:{name.split('(')[-1].rstrip(')')}")
        return
    sp = env.observation_space
    ctx.case({**case, "idx": idx}, True, sample=case if idx < 2 else None)
    ctx.count(f"rollout:{kind}")
    ctx.count("steps", H)
    ctx.count("episode-ends", int(np.asarray(term | trunc).sum()))
    leaves = jax.tree.leaves(obs)
    o = np.asarray(leaves[0]) if len(leaves) == 1 else None
    fail = None
    if o is not None and isinstance(sp, Box):
        allobs = np.concatenate([np.asarray(obs0)[None], o], axis=0)
        if allobs.shape[1:] != tuple(sp.shape):
            fail = ("observation_shape_is_declared_shape", {"shape": allobs.shape[1:], "declared": sp.shape})
        elif allobs.dtype != np.asarray(sp.low).dtype:
            fail = ("observation_dtype_is_declared_dtype", {"dtype": str(allobs.dtype), "declared": str(np.asarray(sp.low).dtype)})
        elif not np.isfinite(allobs).all():
            t = int(np.argmax(~np.isfinite(allobs).reshape(len(allobs), -1).all(axis=1)))
            fail = ("observation_is_finite_not_nan", {"t": t, "obs": allobs[t]})
        else:
            inside = (allobs >= np.asarray(sp.low)) & (allobs <= np.asarray(sp.high))
            if not inside.all():
                t = int(np.argmax(~inside.reshape(len(allobs), -1).all(axis=1)))
                fail = ("observation_within_declared_bounds", {"t": t, "obs": allobs[t], "low": np.asarray(sp.low),
                                                              "high": np.asarray(sp.high)})
            else:
                for t in sorted(set([0, 1, len(allobs) // 2, len(allobs) - 1])):
                    if not bool(sp.contains(jnp.asarray(allobs[t]))):
                        fail = ("observation_space_contains_observation", {"t": t, "obs": allobs[t]})
                        break
    r = np.asarray(rew)
    if fail is None:
        if r.shape != (H,) or r.dtype.kind != "f":
            fail = ("reward_is_float_scalar", {"shape": r.shape, "dtype": str(r.dtype)})
        elif not np.isfinite(r).all():
            fail = ("reward_is_finite", {"t": int(np.argmax(~np.isfinite(r)))})
        elif np.asarray(term).dtype != np.bool_ or np.asarray(term).shape != (H,):
            fail = ("terminal_is_boolean_scalar", {"dtype": str(np.asarray(term).dtype)})
        elif np.asarray(trunc).dtype != np.bool_ or np.asarray(trunc).shape != (H,):
            fail = ("truncated_is_boolean_scalar", {"dtype": str(np.asarray(trunc).dtype)})
    if fail is not None:
        ctx.phi_fail(fail[0], {**case, **fail[1]}, key=f"c02:{fail[0]}:{name.split('(')[-1].rstrip(')')}")
    # no dependence on Python-side state: the same call again returns the same bits
    obs0b, (obsb, rewb, termb, truncb) = roll(actions, k_run)
    same = all(np.array_equal(np.asarray(x), np.asarray(y), equal_nan=True)
               for x, y in zip(jax.tree.leaves((obs0, obs, rew, term, trunc)),
                               jax.tree.leaves((obs0b, obsb, rewb, termb, truncb))))
    if not same:
        ctx.phi_fail("signals_do_not_depend_on_python_side_state", case, key="c02:impure")


def _check_action_space(ctx, name, env, idx):
    sp = env.action_space
    keys = jr.split(jr.key(int(ctx.rng.integers(0, 2**31))), ctx.budget(16, 64))
    samples = jax.vmap(lambda k: sp.sample(key=k))(keys)
    ok = all(bool(sp.contains(samples[i])) for i in range(0, len(keys), 4))
    case = {"kind": "action-samples", "env": name, "n": len(keys)}
    ctx.case({**case, "idx": idx}, True)
    ctx.count("action-sample-batches")
    if not ok:
        ctx.phi_fail("sampled_actions_are_members", case, key="c02:action-sample")
    state = env.initial(key=keys[0])
    try:
        nxt = eqx.filter_jit(lambda s, a, k: env.transition(s, a, key=k))(state, samples[0], keys[1])
        jax.block_until_ready(jax.tree.leaves(nxt))
    except Exception as e:  # noqa: BLE001
        ctx.phi_fail("sampled_actions_are_accepted", {**case, "error": f"{type(e).__name__}: {e}"[:200]},
                     key="c02:action-rejected")


# (index of a velocity coordinate in the base state y, sign): push with / against the motion
PUMPS = {"CartPole": [(1, +1), (3, +1)], "MountainCar": [(1, +1), (1, -1)], "Pendulum": [(1, +1), (1, -1)],
         "Acrobot": [(2, +1), (3, +1)], "ContinuousMountainCar": [(1, +1), (1, -1)]}


def _abstract_signals(ctx):
    """Every MuJoCo and Unitree G1 environment (documented observation options on and off), without
    compiling any physics: `jax.eval_shape` of reset and of one step gives the shape and dtype of the
    observation, reward and flags, which must be those of the declared observation space, a float scalar
    and boolean scalars.  (Value-level membership, finiteness and rollouts: thorough tier.)"""
    from lerax.env import mujoco as M
    cfgs = [(n, getattr(M, n), {}) for n in ["InvertedPendulum", "InvertedDoublePendulum", "Reacher", "Pusher",
                                             "HalfCheetah", "Hopper", "Walker2d", "Swimmer", "Ant", "Humanoid",
                                             "HumanoidStandup"]]
    cfgs += [("HalfCheetah[pos]", M.HalfCheetah, {"exclude_current_positions_from_observation": False}),
             ("Ant[no-cfrc,pos]", M.Ant, {"include_cfrc_ext_in_observation": False,
                                          "exclude_current_positions_from_observation": False}),
             ("Humanoid[no-cinert,no-cvel]", M.Humanoid, {"include_cinert_in_observation": False,
                                                          "include_cvel_in_observation": False}),
             ("Humanoid[no-qfrc,no-cfrc,pos]", M.Humanoid, {"include_qfrc_actuator_in_observation": False,
                                                            "include_cfrc_ext_in_observation": False,
                                                            "exclude_current_positions_from_observation": False}),
             ("HumanoidStandup[no-cfrc]", M.HumanoidStandup, {"include_cfrc_ext_in_observation": False})]
    try:
        from lerax.env.unitree.g1 import G1Locomotion, G1Standing, G1Standup
        cfgs += [("G1Locomotion", G1Locomotion, {}), ("G1Standing", G1Standing, {}), ("G1Standup", G1Standup, {})]
    except Exception as e:  # noqa: BLE001
        ctx.note(f"Unitree G1 environments not importable: {type(e).__name__}"[:120])
    for name, cls, kw in cfgs:
        try:
            env = cls(**kw)
        except TypeError as e:
            ctx.note(f"{name}: constructor option not supported: {e}"[:160])
            continue
        variant = bool(kw)

        def both(k):
            s, o, _ = env.reset(key=k)
            if variant:
                return o, None
            return o, env.step(s, env.action_space.sample(key=k), key=k)

        obs0, stepped = jax.eval_shape(both, jr.key(0))
        sp = env.observation_space
        case = {"kind": "abstract-signals", "env": name, "options": {k_: v for k_, v in kw.items()},
                "declared_shape": list(sp.shape), "declared_dtype": str(np.asarray(sp.low).dtype),
                "reset_observation": [list(obs0.shape), str(obs0.dtype)]}
        ctx.case(case, True)
        ctx.count("abstract-signals:" + ("option-variant" if variant else "default"))
        key_ = f"c02:abstract:{name}"
        if tuple(obs0.shape) != tuple(sp.shape):
            ctx.phi_fail("observation_shape_is_declared_shape", case, key=key_)
            continue
        if str(obs0.dtype) != str(np.asarray(sp.low).dtype):
            ctx.phi_fail("observation_dtype_is_declared_dtype", case, key=key_)
            continue
        if stepped is None:
            continue
        _, o1, r, te, tr, _ = stepped
        case["step"] = {"observation": [list(o1.shape), str(o1.dtype)], "reward": [list(r.shape), str(r.dtype)],
                        "terminal": [list(te.shape), str(te.dtype)], "truncate": [list(tr.shape), str(tr.dtype)]}
        if tuple(o1.shape) != tuple(sp.shape) or str(o1.dtype) != str(np.asarray(sp.low).dtype):
            ctx.phi_fail("observation_shape_is_declared_shape", case, key=key_)
        elif r.shape != () or not jnp.issubdtype(r.dtype, jnp.floating):
            ctx.phi_fail("reward_is_float_scalar", case, key=key_)
        elif te.shape != () or te.dtype != jnp.bool_:
            ctx.phi_fail("terminal_is_boolean_scalar", case, key=key_)
        elif tr.shape != () or tr.dtype != jnp.bool_:
            ctx.phi_fail("truncated_is_boolean_scalar", case, key=key_)
        a = jax.eval_shape(lambda k: env.action_space.sample(key=k), jr.key(0))
        if tuple(a.shape) != tuple(env.action_space.shape):
            ctx.phi_fail("sampled_actions_are_members", {**case, "action": [list(a.shape), str(a.dtype)]}, key=key_)
        ctx.gc(6)


def _g1_configured(ctx):
    """Unitree G1 with NON-default configuration: command ranges that exclude zero (the zero command that
    `sample_command` substitutes with probability 0.1 must still be a member of the declared space) — reset
    observations over many keys; thorough: also a push magnitude range starting at 0, three steps, finite."""
    if ctx.x64:
        return
    try:
        from lerax.env.unitree.g1 import G1Locomotion
    except Exception as e:  # noqa: BLE001
        ctx.note(f"Unitree G1 environments not importable: {type(e).__name__}"[:120])
        return
    try:
        env = G1Locomotion(lin_vel_x_range=(0.3, 1.0), lin_vel_y_range=(0.1, 0.4), ang_vel_yaw_range=(0.2, 1.0))
    except TypeError as e:
        ctx.note(f"G1Locomotion: command-range options not supported: {e}"[:160])
        return
    n = ctx.budget(48, 128)
    keys = jr.split(jr.key(int(ctx.rng.integers(0, 2**31))), n)
    obs = np.asarray(eqx.filter_jit(jax.vmap(lambda k: env.reset(key=k)[1]))(keys))
    sp = env.observation_space
    lo, hi = np.asarray(sp.low), np.asarray(sp.high)
    inside = ((obs >= lo) & (obs <= hi) & np.isfinite(obs)).all(axis=1)
    case = {"kind": "g1-configured-reset", "env": "G1Locomotion[command ranges exclude 0]", "keys": n,
            "resets_outside_declared_space": int((~inside).sum())}
    ctx.case(case, True)
    ctx.count("g1-configured:reset-observations", n)
    if not inside.all():
        i = int(np.argmax(~inside))
        j = int(np.argmax(~((obs[i] >= lo) & (obs[i] <= hi) & np.isfinite(obs[i]))))
        ctx.phi_fail("observation_within_declared_bounds",
                     {**case, "key_index": i, "entry": j, "value": float(obs[i, j]), "low": float(lo[j]), "high": float(hi[j])},
                     key="c02:g1-configured:bounds")
    ctx.gc(1)
    if ctx.quick:
        return
    env2 = G1Locomotion(push_magnitude_range=(0.0, 2.0))

    def roll(k):
        s, _o, _ = env2.reset(key=k)

        def body(s, kk):
            ns, o, r, _te, _tr, _ = env2.step(s, jnp.zeros(env2.action_space.shape), key=kk)
            return ns, (o, r)
        return jax.lax.scan(body, s, jr.split(k, 3))[1]

    o, r = eqx.filter_jit(roll)(jr.key(1))
    case = {"kind": "g1-configured-steps", "env": "G1Locomotion[push_magnitude_range=(0, 2)]", "steps": 3,
            "nan_observation_entries": int((~np.isfinite(np.asarray(o))).sum()), "rewards": np.asarray(r)}
    ctx.case(case, True)
    ctx.count("g1-configured:steps", 3)
    if not (np.isfinite(np.asarray(o)).all() and np.isfinite(np.asarray(r)).all()):
        ctx.phi_fail("observation_is_finite_not_nan", case, key="c02:g1-configured:finite")
    ctx.gc(1)


def _fingerprint(x, path="", out=None, depth=0):
    """every array and every plain Python value reachable through dataclass fields / containers of an
    environment object (opaque simulator handles are skipped)"""
    import dataclasses
    out = {} if out is None else out
    if depth > 6:
        return out
    if isinstance(x, (bool, int, float, str, type(None))):
        out[path] = repr(x)
    elif isinstance(x, (np.ndarray, jax.Array, np.generic)):
        a = np.asarray(x)
        out[path] = (str(a.dtype), a.shape, a.tobytes())
    elif isinstance(x, dict):
        for k, v in x.items():
            _fingerprint(v, f"{path}[{k!r}]", out, depth + 1)
    elif isinstance(x, (list, tuple)):
        for i, v in enumerate(x):
            _fingerprint(v, f"{path}[{i}]", out, depth + 1)
    elif dataclasses.is_dataclass(x) and not isinstance(x, type):
        for f in dataclasses.fields(x):
            try:
                v = getattr(x, f.name)
            except Exception:  # noqa: BLE001
                continue
            _fingerprint(v, f"{path}.{f.name}", out, depth + 1)
    return out


def _perturbed_kwargs(cls, only_simple):
    import inspect
    kw = {}
    for n, p in inspect.signature(cls.__init__).parameters.items():
        d = p.default
        if n == "self" or d is inspect.Parameter.empty:
            continue
        if isinstance(d, bool):
            kw[n] = not d
        elif n == "reward_weights":
            kw[n] = {"alive": 0.5, "torques": -0.01}
        elif only_simple:
            continue
        elif isinstance(d, float) and np.isfinite(d) and d > 0:
            kw[n] = d * 1.25
        elif isinstance(d, tuple) and len(d) == 2 and all(isinstance(v, float) for v in d) and d[0] < d[1]:
            kw[n] = (d[0] + 0.25 * (d[1] - d[0]), d[1])
    return kw


def _construction_isolated(ctx):
    """'none of these depends on Python-side state': an environment constructed with default arguments is the
    same object (every parameter array, every static setting) whether or not differently configured
    environments of the same class were constructed earlier in the process."""
    import lerax.env.mujoco as M
    classes = [CartPole, MountainCar, Pendulum, Acrobot, ContinuousMountainCar]
    classes += [getattr(M, n) for n in ("Ant", "HalfCheetah", "Hopper", "Humanoid", "HumanoidStandup", "InvertedPendulum",
                                        "InvertedDoublePendulum", "Pusher", "Reacher", "Swimmer", "Walker2d")]
    try:
        from lerax.env.unitree.g1 import G1Locomotion, G1Standing, G1Standup
        classes += [G1Locomotion, G1Standing, G1Standup]
    except Exception as e:  # noqa: BLE001
        ctx.note(f"G1 not importable: {type(e).__name__}"[:100])
    for cls in classes:
        first = _fingerprint(cls())
        used = None
        for simple in (False, True):
            kw = _perturbed_kwargs(cls, simple)
            try:
                other = _fingerprint(cls(**kw))
                used = kw
                break
            except Exception:  # noqa: BLE001  (an argument combination the class rejects)
                continue
        again = _fingerprint(cls())
        diff = sorted(k for k in first if first[k] != again.get(k)) + sorted(k for k in again if k not in first)
        case = {"kind": "construction-isolated", "env": cls.__name__,
                "non_default_arguments_of_the_instance_built_in_between": {k: repr(v) for k, v in (used or {}).items()}}
        ctx.case(case, used is not None and other != first)
        ctx.count("construction-isolated:" + cls.__name__)
        if diff:
            ctx.phi_fail("signals_do_not_depend_on_python_side_state",
                         {**case, "fields_that_differ_between_two_default_instances": diff[:12]},
                         key="c02:construction-not-isolated")


def run(ctx):
    _construction_isolated(ctx)
    _abstract_signals(ctx)
    _g1_configured(ctx)
    classic = [("CartPole", CartPole), ("MountainCar", MountainCar), ("Pendulum", Pendulum),
               ("Acrobot", Acrobot), ("ContinuousMountainCar", ContinuousMountainCar)]
    H = ctx.budget(64, 512)
    idx = 0
    for cname, cls in classic:
        variants = _variants(cls(), cname)
        if ctx.quick:
            pick = [v for v in variants[1:] if "RescaleObservation" in v[0]] or \
                   [variants[int(ctx.rng.integers(1, len(variants)))]]
            variants = [variants[0]] + pick
        for name, env in variants:
            _check_action_space(ctx, name, env, idx)
            kinds = ["random", "low", "high", "alternate"]
            if ctx.quick:
                kinds = ["random", str(ctx.rng.choice(["low", "high", "alternate"]))]
            for kind in kinds:
                _check_rollout(ctx, name, env, kind, H, functional=False, idx=idx)
                idx += 1
            _check_rollout(ctx, name, env, "random", H, functional=True, idx=idx)
            idx += 1
            # resonant action sequences reach the walls / limits that random actions never do
            for (vi, sg) in PUMPS[cname]:
                _check_rollout(ctx, name, env, f"pump(y[{vi}],{sg:+d})", max(H, 256), functional=bool(vi % 2 == 0) or True,
                               idx=idx, pump=(vi, sg))
                idx += 1
    # constructor configurations under which passing the goal does not end the episode
    for cname, cls, kw in [("MountainCar[goal_velocity]", MountainCar, {"goal_velocity": 0.065}),
                           ("ContinuousMountainCar[goal_velocity]", ContinuousMountainCar, {"goal_velocity": 0.065})]:
        try:
            env = cls(**kw)
        except TypeError as e:
            ctx.note(f"{cname}: option not supported: {e}"[:120])
            continue
        for name, e2 in ([(cname, env)] if ctx.quick else _variants(env, cname)):
            for (vi, sg) in [(1, +1), (1, -1)]:
                _check_rollout(ctx, name, e2, f"pump(y[{vi}],{sg:+d})", 400, functional=False, idx=idx, pump=(vi, sg))
                idx += 1
    # documented constructor options of the ODE integration: an adaptive step-size controller with a tight
    # tolerance, driven to high-energy states by resonant pumping (many solver steps per control step)
    import diffrax
    adaptive = [("Acrobot", Acrobot), ("Pendulum", Pendulum), ("CartPole", CartPole)]
    if not ctx.quick:
        adaptive += [("MountainCar", MountainCar), ("ContinuousMountainCar", ContinuousMountainCar)]
    for cname, cls in adaptive:
        for tol_ in ctx.budget([1e-6, 1e-8], [1e-4, 1e-6, 1e-7, 1e-8]):
            try:
                env = cls(solver=diffrax.Tsit5(), stepsize_controller=diffrax.PIDController(rtol=tol_, atol=tol_))
            except TypeError as e:
                ctx.note(f"{cname}: solver options not supported: {e}"[:120])
                continue
            nm = f"{cname}[Tsit5,PID({tol_:g})]"
            for (vi, sg) in PUMPS[cname]:
                _check_rollout(ctx, nm, env, f"pump(y[{vi}],{sg:+d})", 400, functional=False, idx=idx, pump=(vi, sg))
                idx += 1
            _check_rollout(ctx, nm, env, "random", 64, functional=False, idx=idx)
            idx += 1
        ctx.gc(1)
    if ctx.quick:
        ctx.note("MuJoCo and Unitree G1 environments are rolled out in the thorough tier only (MJX compile time)")
        return
    from lerax.env import mujoco as M
    mj = [("InvertedPendulum", M.InvertedPendulum, {}), ("InvertedDoublePendulum", M.InvertedDoublePendulum, {}),
          ("Reacher", M.Reacher, {}), ("Pusher", M.Pusher, {}), ("HalfCheetah", M.HalfCheetah, {}),
          ("HalfCheetah[pos]", M.HalfCheetah, {"exclude_current_positions_from_observation": False}),
          ("Hopper", M.Hopper, {}), ("Walker2d", M.Walker2d, {}), ("Swimmer", M.Swimmer, {}),
          ("Ant", M.Ant, {}), ("Ant[no-cfrc,pos]", M.Ant, {"include_cfrc_ext_in_observation": False,
                                                        "exclude_current_positions_from_observation": False}),
          ("Humanoid", M.Humanoid, {}), ("HumanoidStandup", M.HumanoidStandup, {})]
    for name, cls, kw in mj:
        try:
            env = cls(**kw)
        except TypeError as e:
            ctx.note(f"{name}: constructor option not supported: {e}"[:160])
            continue
        _check_action_space(ctx, name, env, idx)
        for kind in ["random", "alternate"]:
            _check_rollout(ctx, name, env, kind, 8, functional=False, idx=idx)
            idx += 1
        ctx.gc(1)          # every MJX environment compiles large programs: release them before the next one
    try:
        from lerax.env.unitree.g1 import G1Locomotion, G1Standing, G1Standup
        for name, cls in [("G1Locomotion", G1Locomotion), ("G1Standing", G1Standing), ("G1Standup", G1Standup)]:
            env = cls()
            _check_action_space(ctx, name, env, idx)
            _check_rollout(ctx, name, env, "random", 8, functional=False, idx=idx)
            idx += 1
            ctx.gc(1)
    except Exception as e:  # noqa: BLE001
        ctx.note(f"G1 rollouts skipped: {type(e).__name__}: {e}"[:200])
