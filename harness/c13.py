"""C13 — wrappers change only what they declare; TimeLimit exact; adapters reproduce
trajectories.  Real wrapper / adapter code vs lean/LeraxModel/{Env,Rescale}.lean."""
from __future__ import annotations

import warnings

import equinox as eqx
import jax
import numpy as np
from jax import numpy as jnp
from jax import random as jr

from lerax import wrapper as W
from lerax.env.classic_control import (Acrobot, CartPole, ContinuousMountainCar, MountainCar,
                                       Pendulum)
from lerax.space import Box, Discrete
from lerax.wrapper.utils import rescale_box

from .common.stacks import build_stack, sample_action
from .common.tabular import enc_state, peel, random_tabular

DOCUMENTED = ["Identity", "TimeLimit", "TransformAction", "ClipAction", "RescaleAction",
              "ClipObservation", "FlattenObservation", "RescaleObservation",
              "TransformObservation", "ClipReward", "TransformReward"]


def _close_tree(ctx, a, b, scale=4.0):
    la, lb = jax.tree.leaves(a), jax.tree.leaves(b)
    return len(la) == len(lb) and all(ctx.close(x, y, scale) for x, y in zip(la, lb))


def _first(x):
    return float(np.asarray(x, dtype=np.float64).ravel()[0])


# ------------------------------------------------------------------ constructibility

def check_constructible(ctx):
    base_box = random_tabular(ctx.rng, box=True)
    cp = CartPole()
    makers = {
        "Identity": lambda: W.Identity(cp),
        "TimeLimit": lambda: W.TimeLimit(cp, 5),
        "TransformAction": lambda: W.TransformAction(cp, lambda a: a, cp.action_space),
        "ClipAction": lambda: W.ClipAction(base_box),
        "RescaleAction": lambda: W.RescaleAction(base_box),
        "ClipObservation": lambda: W.ClipObservation(cp),
        "FlattenObservation": lambda: W.FlattenObservation(cp),
        "RescaleObservation": lambda: W.RescaleObservation(base_box),
        "TransformObservation": lambda: W.TransformObservation(cp, lambda o: o, cp.observation_space),
        "ClipReward": lambda: W.ClipReward(cp, -0.5, 0.5),
        "TransformReward": lambda: W.TransformReward(cp, lambda r: 2 * r),
    }
    for name in DOCUMENTED:
        case = {"kind": "construct", "wrapper": name}
        ctx.case(case, True)
        try:
            env = makers[name]()
            _ = env.action_space, env.observation_space
            s = env.initial(key=jr.key(0))
            assert env.unwrapped is (base_box if name in ("ClipAction", "RescaleAction",
                                                         "RescaleObservation") else cp)
            assert s.unwrapped is not None
            ctx.count("constructible")
        except Exception as e:  # noqa: BLE001
            ctx.phi_fail("constructible:" + name, {**case, "error": f"{type(e).__name__}: {e}"[:200]})


# ------------------------------------------------------------------ layer-wise semantics

def check_layers(ctx, env0, label, idx, kinds=None, depth=None):
    rng = ctx.rng
    depth = int(rng.integers(1, 5)) if depth is None else depth
    env, desc, names, skipped, layers = build_stack(rng, env0, depth, kinds=kinds)
    for s in skipped:
        ctx.count("wrapper-not-constructible:" + s)
    if not desc:
        return
    # unwrapped access for arbitrary stacks
    case0 = {"kind": "unwrapped", "env": label, "stack": names}
    key = jr.key(int(rng.integers(0, 2**31)))
    state = env.initial(key=key)
    ctx.case({**case0, "idx": idx}, True)
    if env.unwrapped is not env0:
        ctx.phi_fail("unwrapped_env_is_base", case0)
    if not _close_tree(ctx, state.unwrapped, env0.initial(key=key), 1.0):
        ctx.phi_fail("unwrapped_state_is_base_initial", case0)

    # declared spaces, layer by layer (the model's `SpacedStack.obsSpace / actSpace`): a layer that does not
    # transform observations advertises exactly the observation space of the environment it wraps (NOT
    # the base environment's), a layer that does not transform actions exactly its action space
    for i in range(len(desc)):
        wrapped, inner, d = layers[i + 1], layers[i], desc[i]
        obs_layer = d["w"] in ("clipObs", "affineObs", "flattenObs", "scaleObs")
        act_layer = d["w"] in ("clipAction", "affineAction", "scaleAction")
        casesp = {"kind": "declared-spaces", "env": label, "stack": names, "layer": names[i]}
        ctx.count("layer:declared-spaces")
        try:
            if not obs_layer and not (wrapped.observation_space == inner.observation_space):
                ctx.phi_fail("observation_space_passes_through_non_observation_layers",
                             {**casesp, "declared": repr(wrapped.observation_space)[:200],
                              "inner": repr(inner.observation_space)[:200]}, key="layer-obs-space:" + names[i])
            if not act_layer and not (wrapped.action_space == inner.action_space):
                ctx.phi_fail("action_space_passes_through_non_action_layers",
                             {**casesp, "declared": repr(wrapped.action_space)[:200],
                              "inner": repr(inner.action_space)[:200]}, key="layer-act-space:" + names[i])
        except Exception as e:  # noqa: BLE001 - a space that cannot be compared is reported, not fatal
            ctx.note(f"declared-space comparison raised {type(e).__name__} for {names[i]}")

    step = eqx.filter_jit(lambda s, a, k: env.step(s, a, key=k))
    n = ctx.budget(6, 12)
    for t in range(n):
        key, ka, ks, kc = jr.split(key, 4)
        action = sample_action(rng, env, ka)
        # walk the layers from the outside in
        ws, a = state, action
        for i in range(len(desc) - 1, -1, -1):
            wrapped, inner, d = layers[i + 1], layers[i], desc[i]
            is_ = ws.env_state
            counters = [int(ws.step_count)] if d["w"] == "timeLimit" else []
            o_in = inner.observation(is_, key=kc)
            exp0 = ctx.drv.call("wrap_expect", w=d, obs=np.asarray(o_in, np.float64).ravel(),
                                reward=0.0, truncate=False, action=_first(a), counters=counters)
            if d["w"] in ("clipAction", "affineAction", "scaleAction"):
                a_in = jnp.full(np.shape(a), exp0["action"], dtype=float)
                if not ctx.close(exp0["action"], _first(a)) :
                    ctx.count("layer:action-changed")
            else:
                a_in = a
            nxt_in = inner.transition(is_, a_in, key=kc)
            r_in = inner.reward(is_, a_in, nxt_in, key=kc)
            term_in = inner.terminal(nxt_in, key=kc)
            trunc_in = inner.truncate(nxt_in)
            mask_in = inner.action_mask(is_, key=kc)
            nxt_w = wrapped.transition(ws, a, key=kc)
            r_w = wrapped.reward(ws, a, nxt_w, key=kc)
            o_w = wrapped.observation(ws, key=kc)
            term_w = wrapped.terminal(nxt_w, key=kc)
            trunc_w = wrapped.truncate(nxt_w)
            mask_w = wrapped.action_mask(ws, key=kc)
            cnt_next = [int(nxt_w.step_count)] if d["w"] == "timeLimit" else []
            exp = ctx.drv.call("wrap_expect", w=d, obs=np.asarray(o_in, np.float64).ravel(),
                               reward=float(r_in), truncate=bool(trunc_in), action=_first(a),
                               counters=cnt_next)
            case = {"kind": "layer", "env": label, "stack": names, "layer": names[i], "desc": d,
                    "action": np.asarray(a), "inner": {"obs": o_in, "reward": float(r_in),
                                                       "terminal": bool(term_in), "truncate": bool(trunc_in)},
                    "wrapped": {"obs": o_w, "reward": float(r_w), "terminal": bool(term_w),
                                "truncate": bool(trunc_w)}, "expected": exp}
            ctx.case({"k": "layer", "env": label, "idx": idx, "t": t, "i": i}, True,
                     sample=case if (t == 1 and i == 0) else None)
            ctx.count("layer:" + names[i])
            if not _close_tree(ctx, nxt_w.env_state, nxt_in):
                ctx.phi_fail("inner_driven_with_mapped_action", case, key="layer-transition:" + names[i])
            if not ctx.close(float(r_w), exp["reward"], 4.0):
                ctx.phi_fail("reward_is_declared_map_of_inner_reward_of_mapped_action", case,
                             key="layer-reward:" + names[i])
            if not ctx.close(np.asarray(o_w, np.float64).ravel(), exp["obs"], 4.0):
                ctx.phi_fail("observation_is_declared_map_of_inner_observation", case,
                             key="layer-obs:" + names[i])
            if bool(term_w) != bool(term_in):
                ctx.phi_fail("terminal_passes_through", case)
            if bool(trunc_w) != exp["truncate"]:
                ctx.phi_fail("truncate_is_inner_or_limit", case, key="layer-truncate:" + names[i])
            if d["w"] == "timeLimit" and cnt_next != [counters[0] + 1]:
                ctx.phi_fail("timelimit_counter_increments", case)
            info_w = wrapped.transition_info(ws, a, nxt_w)
            info_in = inner.transition_info(is_, a_in, nxt_in)
            if not (sorted(info_w) == sorted(info_in) and all(
                    ctx.close(np.asarray(info_w[k_], np.float64), np.asarray(info_in[k_], np.float64), 4.0)
                    for k_ in info_in)):
                ctx.phi_fail("transition_info_is_inner_info_of_mapped_action",
                             {**case, "wrapped_info": {k_: np.asarray(v) for k_, v in info_w.items()},
                              "inner_info": {k_: np.asarray(v) for k_, v in info_in.items()}},
                             key="layer-info:" + names[i])
            if sorted(wrapped.state_info(ws)) != sorted(inner.state_info(is_)):
                ctx.phi_fail("state_info_passes_through", case, key="layer-state-info:" + names[i])
            if (mask_in is None) != (mask_w is None) or (
                    mask_in is not None and not np.array_equal(np.asarray(mask_in), np.asarray(mask_w))):
                ctx.phi_fail("action_mask_passes_through", case)
            # advertised spaces
            sp_ok = True
            if d["w"] in ("clipObs",):
                sp_ok = wrapped.observation_space == inner.observation_space
            elif d["w"] == "flattenObs":
                sp_ok = wrapped.observation_space.shape == (int(inner.observation_space.flat_size),)
            elif d["w"] in ("identity", "timeLimit", "affineReward", "clipReward"):
                sp_ok = (wrapped.observation_space == inner.observation_space
                         and wrapped.action_space == inner.action_space)
            if d["w"] in ("clipObs", "affineObs", "flattenObs", "scaleObs"):
                sp_ok = sp_ok and wrapped.action_space == inner.action_space
                if bool(inner.observation_space.contains(o_in)) and not bool(
                        wrapped.observation_space.contains(o_w)):
                    # float rounding at the bounds of a rescaled box is not a violation
                    lo = np.asarray(wrapped.observation_space.low); hi = np.asarray(wrapped.observation_space.high)
                    ow = np.asarray(o_w)
                    if not (np.all(ow >= lo - 1e-4 * (1 + np.abs(lo))) and np.all(ow <= hi + 1e-4 * (1 + np.abs(hi)))):
                        sp_ok = False
            if d["w"] in ("clipAction", "affineAction", "scaleAction"):
                sp_ok = sp_ok and wrapped.observation_space == inner.observation_space
            if not sp_ok:
                ctx.phi_fail("advertised_space_matches", case, key="layer-space:" + names[i])
            ws, a = is_, a_in
        state = step(state, action, ks)[0]


# ------------------------------------------------------------------ rescale_box

def check_rescale(ctx):
    rng = ctx.rng
    n = ctx.budget(60, 600)
    for i in range(n):
        low = float(rng.integers(-8, 8)) / 2
        high = low + float(rng.integers(1, 12)) / 2
        kind = str(rng.choice(["both", "both", "both", "min-only", "max-only", "neither"]))
        mn = float(rng.integers(-6, 6)) / 2
        mx = mn + float(rng.integers(1, 10)) / 2
        jmin = mn if kind in ("both", "min-only") else -np.inf
        jmax = mx if kind in ("both", "max-only") else np.inf
        # the new bounds as a user may write them: JAX / NumPy floats, Python floats, Python or NumPy integers
        # (`RescaleAction(env, 0, 1)`) — the rescale is about their values
        form = str(rng.choice(["jnp", "jnp", "float", "int", "np-int", "np-float64"]))
        if form in ("int", "np-int"):
            mn = float(int(rng.integers(-3, 3)))
            mx = mn + float(int(rng.integers(1, 5)))
            kind = "both"
            jmin, jmax = mn, mx
        conv = {"jnp": jnp.array, "float": float, "int": int, "np-int": lambda v: np.asarray(int(v)),
                "np-float64": np.float64}[form]
        box = Box(jnp.array([low]), jnp.array([high]))
        xs = np.array([low, high, mn, mx, (low + high) / 2, float(rng.uniform(-10, 10))])
        with warnings.catch_warnings():
            warnings.simplefilter("ignore")
            new_box, fwd, bwd = rescale_box(box, conv(jmin), conv(jmax))
        f_impl = np.array([float(fwd(jnp.array([x]))[0]) for x in xs])
        b_impl = np.array([float(bwd(jnp.array([x]))[0]) for x in xs])
        m = ctx.drv.call("rescale", low=low, high=high, min=(None if not np.isfinite(jmin) else mn),
                         max=(None if not np.isfinite(jmax) else mx), xs=xs)
        case = {"kind": "rescale", "low": low, "high": high, "min": jmin, "max": jmax, "bounds_given_as": form, "xs": xs,
                "impl_forward": f_impl, "impl_backward": b_impl}
        ctx.case(case, True, sample=case if i == 0 else None)
        ctx.count("rescale:" + kind)
        ctx.count("rescale-bounds-as:" + form)
        # Φ on the implementation: endpoints / translation, inverse
        if kind == "both":
            if not (ctx.close(b_impl[2], low, 8) and ctx.close(b_impl[3], high, 8)
                    and ctx.close(f_impl[0], mn, 8) and ctx.close(f_impl[1], mx, 8)):
                ctx.phi_fail("rescale_endpoints", case)
            if not (ctx.close(float(new_box.low[0]), mn) and ctx.close(float(new_box.high[0]), mx)):
                ctx.phi_fail("rescale_new_box", case)
        elif kind == "max-only" and not ctx.close(f_impl[1], mx, 8):
            ctx.phi_fail("rescale_half_infinite", case)
        elif kind == "min-only" and not ctx.close(f_impl[0], mn, 8):
            ctx.phi_fail("rescale_half_infinite", case)
        back = np.array([float(bwd(fwd(jnp.array([x])))[0]) for x in xs])
        if not ctx.close(back, xs, 16):
            ctx.phi_fail("rescale_inverse", case)
        if not (ctx.close(m["forward"], f_impl, 8) and ctx.close(m["backward"], b_impl, 8)):
            ctx.disagree("rescale_box", case, impl={"f": f_impl, "b": b_impl}, model=m)


# ------------------------------------------------------------------ TimeLimit exactness

def check_timelimit(ctx, idx):
    rng = ctx.rng
    N = int(rng.integers(1, 9))
    never = bool(rng.random() < 0.4)
    env0 = random_tabular(rng, p_term=0.0 if never else 0.12, p_trunc=0.0 if never else 0.08)
    if never:
        env0 = eqx.tree_at(lambda e: (e.term, e.trunc), env0,
                           (jnp.zeros_like(env0.term), jnp.zeros_like(env0.trunc)))
    env = W.TimeLimit(env0, N)
    tab = env0.describe()
    desc = [{"w": "timeLimit", "n": N}]
    key = jr.key(int(rng.integers(0, 2**31)))
    state, _, _ = env.reset(key=key)
    j = 0
    if int(state.step_count) != 0:
        ctx.phi_fail("timelimit_reset_counter_zero", {"N": N})
    steps = ctx.budget(5 * N + 10, 12 * N + 30)
    ep_lengths = []
    for t in range(steps):
        key, ka, ks = jr.split(key, 3)
        a = int(rng.integers(0, env0.action_space.n))
        pre = enc_state(state)
        nstate, _obs, _r, term, trunc, _ = env.step(state, jnp.asarray(a), key=ks)
        post = enc_state(nstate)
        # inner truncation of the successor, from the model's tables (noise read back / enumerated)
        done = bool(term) or bool(trunc)
        noises = [post["noise"]] if not done else list(range(int(env0.T.shape[2])))
        ok = False
        for nz in noises:
            comp = ctx.drv.call("tab_components", tab=tab, stack=[], state={**pre, "counters": []},
                                action=float(a), noise=nz)
            exp = ctx.drv.call("wrap_expect", w=desc[0], obs=[0.0, 0.0], reward=0.0,
                               truncate=comp["truncate"], action=0.0, counters=[j + 1])
            if exp["truncate"] == bool(trunc) and comp["terminal"] == bool(term):
                ok = True
                break
        case = {"kind": "timelimit", "N": N, "episode_step": j + 1, "pre": pre, "action": a,
                "impl": {"terminal": bool(term), "truncate": bool(trunc), "post": post}}
        ctx.case({"k": "tl", "idx": idx, "t": t}, True, sample=case if t == N - 1 else None)
        ctx.count("timelimit:limit-hit" if (j + 1 >= N and bool(trunc)) else "timelimit:step")
        if pre["counters"] != [j]:
            ctx.phi_fail("timelimit_counter_is_episode_step", case)
        if not ok:
            ctx.phi_fail("timelimit_truncates_exactly_at_N", case)
        if done:
            ep_lengths.append(j + 1)
            if post["counters"] != [0]:
                ctx.phi_fail("timelimit_restarts_on_reset", case)
            j = 0
        else:
            j += 1
        state = nstate
    if never and any(L != N for L in ep_lengths):
        ctx.phi_fail("timelimit_episode_has_exactly_N_steps", {"N": N, "lengths": ep_lengths})


def check_declared_spaces_order(ctx):
    """every non-observation wrapper ABOVE an observation-space-changing wrapper advertises that wrapper's
    observation space (and every non-action wrapper above an action-space-changing one its action space)"""
    envs = [("TabularBox", random_tabular(ctx.rng, box=True)), ("Tabular", random_tabular(ctx.rng)),
            ("Pendulum", Pendulum()), ("ContinuousMountainCar", ContinuousMountainCar()), ("MountainCar", MountainCar())]
    for label, env0 in envs:
        inners = [("FlattenObservation", W.FlattenObservation(env0))]
        osp = env0.observation_space
        if bool(np.isfinite(np.asarray(osp.low)).all() and np.isfinite(np.asarray(osp.high)).all()):
            inners.append(("RescaleObservation", W.RescaleObservation(env0)))
        for iname, inner in inners:
            outers = [("Identity", W.Identity(inner)), ("TimeLimit", W.TimeLimit(inner, 5)),
                      ("ClipReward", W.ClipReward(inner, -1.0, 1.0)),
                      ("TransformAction", W.TransformAction(inner, lambda a: a, inner.action_space))]
            if hasattr(inner.action_space, "low") and bool(np.isfinite(np.asarray(inner.action_space.low)).all()):
                outers += [("ClipAction", W.ClipAction(inner)), ("RescaleAction", W.RescaleAction(inner))]
            for oname, outer in outers:
                case = {"kind": "declared-spaces-order", "env": label, "stack": f"{oname}({iname}({label}))"}
                ctx.case(case, True)
                ctx.count("declared-spaces:action-or-passthrough-layer-above-observation-layer")
                if not (outer.observation_space == inner.observation_space):
                    ctx.phi_fail("observation_space_passes_through_non_observation_layers",
                                 {**case, "declared": repr(outer.observation_space)[:200],
                                  "inner": repr(inner.observation_space)[:200]}, key="layer-obs-space:" + oname)
        if hasattr(env0.action_space, "low") and bool(np.isfinite(np.asarray(env0.action_space.low)).all()):
            inner = W.RescaleAction(env0, -3.0, 5.0) if label != "TabularBox" else W.RescaleAction(env0)
            for oname, outer in [("Identity", W.Identity(inner)), ("TimeLimit", W.TimeLimit(inner, 5)),
                                 ("FlattenObservation", W.FlattenObservation(inner)), ("ClipReward", W.ClipReward(inner, -1.0, 1.0))]:
                case = {"kind": "declared-spaces-order", "env": label, "stack": f"{oname}(RescaleAction({label}))"}
                ctx.case(case, True)
                ctx.count("declared-spaces:observation-or-passthrough-layer-above-action-layer")
                if not (outer.action_space == inner.action_space):
                    ctx.phi_fail("action_space_passes_through_non_action_layers",
                                 {**case, "declared": repr(outer.action_space)[:200],
                                  "inner": repr(inner.action_space)[:200]}, key="layer-act-space:" + oname)


def check_timelimit_coincidence(ctx):
    """the limit placed ON, one before and one after the step at which the inner episode terminates by itself:
    find an inner episode (random finite MDP, recorded actions and keys) that terminates at its L-th step, then replay
    exactly that episode under TimeLimit(N) for N in {L-1, L, L+1}: the truncation flag after step k is k >= N —
    also on the step on which the inner environment terminates — and the termination flag is the inner one."""
    rng = ctx.rng
    found = 0
    for attempt in range(ctx.budget(40, 160)):
        if found >= ctx.budget(6, 24):
            break
        env0 = random_tabular(rng, p_term=0.3, p_trunc=0.0)
        env0 = eqx.tree_at(lambda e: e.trunc, env0, jnp.zeros_like(env0.trunc))
        key = jr.key(int(rng.integers(0, 2**31)))
        kreset, key = jr.split(key)
        state, _, _ = env0.reset(key=kreset)
        actions, keys, L = [], [], None
        for t in range(10):
            key, ks = jr.split(key)
            a = int(rng.integers(0, env0.action_space.n))
            actions.append(a); keys.append(ks)
            state, _o, _r, term, _tr, _ = env0.step(state, jnp.asarray(a), key=ks)
            if bool(term):
                L = t + 1
                break
        if L is None:
            continue
        found += 1
        for N in sorted({max(1, L - 1), L, L + 1}):
            env = W.TimeLimit(env0, N)
            st, _, _ = env.reset(key=kreset)
            for k in range(1, min(L, N) + 1):
                st, _o, _r, term, trunc, _ = env.step(st, jnp.asarray(actions[k - 1]), key=keys[k - 1])
                case = {"kind": "timelimit-coincides-with-inner-termination", "N": N, "inner_episode_length": L,
                        "step": k, "impl": {"terminal": bool(term), "truncate": bool(trunc)},
                        "expected": {"terminal": k == L, "truncate": k >= N}}
                ctx.case({"k": "tlc", "a": attempt, "N": N, "step": k}, True, sample=case if (found == 1 and k == N) else None)
                ctx.count("timelimit:limit-on-termination-step" if (k == L and k == N) else "timelimit:coincidence-steps")
                if bool(trunc) != (k >= N) or bool(term) != (k == L):
                    ctx.phi_fail("timelimit_truncates_exactly_at_N", case, key="timelimit:coincidence")
                if bool(term) or bool(trunc):
                    break


def check_timelimit_large(ctx):
    """exactness for very long limits (beyond float32's 2^24 integer range): the limit's truncation is
    raised at count N and not at N-1, for states placed directly at those counts and reached by one
    real transition"""
    rng = ctx.rng
    env0 = random_tabular(rng, p_term=0.0, p_trunc=0.0)
    env0 = eqx.tree_at(lambda e: (e.term, e.trunc), env0, (jnp.zeros_like(env0.term), jnp.zeros_like(env0.trunc)))
    for N in [2**24 + 1, 2**24 + 3, 2**25 + 1, 2**30 + 1, 2**31 - 2]:
        env = W.TimeLimit(env0, N)
        s0 = env.initial(key=jr.key(0))
        for count in (N - 2, N - 1):
            st = eqx.tree_at(lambda s: s.step_count, s0, jnp.asarray(count, dtype=jnp.int32))
            nxt = env.transition(st, jnp.asarray(0), key=jr.key(1))
            got_here, got_next = bool(env.truncate(st)), bool(env.truncate(nxt))
            exp = ctx.drv.call("wrap_expect", w={"w": "timeLimit", "n": N}, obs=[0.0, 0.0], reward=0.0,
                               truncate=False, action=0.0, counters=[count + 1])
            case = {"kind": "timelimit-large", "N": N, "count": count, "impl": {"truncate_at_count": got_here,
                    "truncate_after_one_more_step": got_next, "next_count": int(nxt.step_count)},
                    "expected": {"truncate_at_count": count >= N, "truncate_after_one_more_step": count + 1 >= N}}
            ctx.case(case, True)
            ctx.count("timelimit:large-N")
            if got_here != (count >= N) or got_next != (count + 1 >= N) or exp["truncate"] != (count + 1 >= N) \
                    or int(nxt.step_count) != count + 1:
                ctx.phi_fail("timelimit_truncates_exactly_at_N", case, key="timelimit:large_N")


# ------------------------------------------------------------------ adapters

def check_adapters(ctx):
    from lerax.compatibility.gym import GymToLeraxEnv, LeraxToGymEnv
    rng = ctx.rng
    # LeraxToGymEnv over a deterministic finite MDP: trajectory must equal the model's replay
    for rep in range(ctx.budget(2, 8)):
        env0 = random_tabular(rng, n_noise=1, p_term=0.15, p_trunc=0.1)
        env0 = eqx.tree_at(lambda e: e.inits, env0, env0.inits[:1])
        tab = env0.describe()
        g = LeraxToGymEnv(env0)
        obs, _ = g.reset(seed=int(rng.integers(0, 1000)))
        st = {"s": int(env0.inits[0]), "clock": 0, "noise": 0, "counters": []}
        case = {"kind": "lerax-to-gym", "tab_inits": tab["inits"]}
        if not ctx.close(np.asarray(obs, np.float64), [float(st["s"]), 0.0]):
            ctx.phi_fail("adapter_reset_observation", case)
        for t in range(ctx.budget(25, 80)):
            a = int(rng.integers(0, env0.action_space.n))
            o, r, term, trunc, _ = g.step(a)
            m = ctx.drv.call("tab_step", tab=tab, stack=[], state=st, action=float(a),
                             init=int(env0.inits[0]), noise=0)
            c = {**case, "t": t, "state": st, "action": a,
                 "impl": {"obs": o, "reward": r, "terminal": term, "truncate": trunc}, "model": m}
            ctx.case({"k": "l2g", "rep": rep, "t": t}, True, sample=c if t == 0 else None)
            ctx.count("adapter:lerax-to-gym")
            if not (ctx.close(np.asarray(o, np.float64), m["obs"]) and ctx.close(r, m["reward"])
                    and bool(term) == m["terminal"] and bool(trunc) == m["truncate"]):
                ctx.phi_fail("adapter_trajectory_lerax_to_gym", c)
            st = m["state"]
    # GymToLeraxEnv over gymnasium CartPole-v1 vs a twin gymnasium env (same seed, same actions)
    import gymnasium
    for rep in range(ctx.budget(2, 5)):
        seed = 0 if rep == 0 else int(rng.integers(0, 10_000))      # 0 is a legal explicit seed
        ad = GymToLeraxEnv(gymnasium.make("CartPole-v1"))
        twin = gymnasium.make("CartPole-v1")
        state = ad.initial(key=jr.key(int(rng.integers(0, 1000))), seed=seed)
        tobs, _ = twin.reset(seed=seed)
        case = {"kind": "gym-to-lerax", "seed": seed}
        if not ctx.close(np.asarray(ad.observation(state, key=jr.key(0))), tobs, 4):
            ctx.phi_fail("adapter_reset_observation", case)
        for t in range(ctx.budget(30, 120)):
            a = int(rng.integers(0, 2))
            nxt = ad.transition(state, jnp.asarray(a), key=jr.key(t))
            o = np.asarray(ad.observation(nxt, key=jr.key(t)))
            r = float(ad.reward(state, jnp.asarray(a), nxt, key=jr.key(t)))
            term = bool(ad.terminal(nxt, key=jr.key(t))); trunc = bool(ad.truncate(nxt))
            to, tr, tt, ttr, _ = twin.step(a)
            c = {**case, "t": t, "action": a, "impl": {"obs": o, "reward": r, "terminal": term,
                 "truncate": trunc}, "twin": {"obs": to, "reward": float(tr), "terminal": bool(tt),
                                                "truncate": bool(ttr)}}
            ctx.case({"k": "g2l", "rep": rep, "t": t}, True)
            ctx.count("adapter:gym-to-lerax")
            if not (ctx.close(o, to, 4) and ctx.close(r, tr) and term == bool(tt) and trunc == bool(ttr)):
                ctx.phi_fail("adapter_trajectory_gym_to_lerax", c)
            state = nxt
            if tt or ttr:
                break
        ad.env.close(); twin.close()
    # Gymnax adapters
    try:
        import gymnax
        from lerax.compatibility.gymnax import GymnaxToLeraxEnv, LeraxEnvParams, LeraxToGymnaxEnv
    except Exception as e:  # noqa: BLE001
        ctx.note(f"gymnax adapters not importable: {e}")
        return
    # several Gymnax environments, among them ones whose emitted observation is NOT `get_obs` of the
    # post-transition state (MemoryChain shows its context cue for one extra step)
    for gname in ctx.budget(["CartPole-v1", "MemoryChain-bsuite", "Catch-bsuite"],
                            ["CartPole-v1", "MemoryChain-bsuite", "Catch-bsuite", "DeepSea-bsuite", "Pendulum-v1",
                             "DiscountingChain-bsuite", "Acrobot-v1", "MountainCar-v0", "MountainCarContinuous-v0",
                             "UmbrellaChain-bsuite", "FourRooms-misc", "PointRobot-misc", "Reacher-misc",
                             "BernoulliBandit-misc", "Breakout-MinAtar"]):
        try:
            genv, gparams = gymnax.make(gname)
            ad = GymnaxToLeraxEnv(genv, gparams)
        except Exception as e:  # noqa: BLE001
            ctx.note(f"gymnax {gname} not constructible here: {type(e).__name__}"[:120])
            continue
        for rep in range(ctx.budget(1, 3)):
            key = jr.key(int(rng.integers(0, 10_000)))
            state = ad.initial(key=key)
            tobs, tstate = genv.reset_env(key, gparams)
            case = {"kind": "gymnax-to-lerax", "env": gname}
            if not ctx.close(np.asarray(ad.observation(state, key=key), np.float64), np.asarray(tobs, np.float64), 4):
                ctx.phi_fail("adapter_reset_observation", case)
            for t in range(ctx.budget(20, 80)):
                key, k, ka = jr.split(key, 3)
                a = ad.action_space.sample(key=ka)     # the adapter's advertised action space (Discrete or Box)
                nxt = ad.transition(state, a, key=k)
                to, tstate, tr, td, _ = genv.step_env(k, tstate, a, gparams)
                o = np.asarray(ad.observation(nxt, key=k), np.float64)
                r = float(ad.reward(state, a, nxt, key=k)); term = bool(ad.terminal(nxt, key=k))
                c = {**case, "t": t, "impl": {"obs": o, "reward": r, "terminal": term},
                     "twin": {"obs": np.asarray(to), "reward": float(tr), "done": bool(td)}}
                ctx.case({"k": "gx2l", "env": gname, "rep": rep, "t": t}, True)
                ctx.count("adapter:gymnax-to-lerax:" + gname)
                if not (ctx.close(o, np.asarray(to, np.float64), 4) and ctx.close(r, float(tr)) and term == bool(td)):
                    ctx.phi_fail("adapter_trajectory_gymnax_to_lerax", c)
                    break
                state = nxt
                if td:
                    break
    for rep in range(ctx.budget(1, 4)):
        env0 = random_tabular(rng, n_noise=1, p_term=0.15, p_trunc=0.1)
        env0 = eqx.tree_at(lambda e: e.inits, env0, env0.inits[:1])
        tab = env0.describe()
        gx = LeraxToGymnaxEnv(env0)
        params = LeraxEnvParams()
        key = jr.key(int(rng.integers(0, 10_000)))
        obs, gstate = gx.reset_env(key, params)
        st = {"s": int(env0.inits[0]), "clock": 0, "noise": 0, "counters": []}
        case = {"kind": "lerax-to-gymnax"}
        if not ctx.close(np.asarray(obs, np.float64), [float(st["s"]), 0.0]):
            ctx.phi_fail("adapter_reset_observation", case)
        for t in range(ctx.budget(20, 60)):
            key, k = jr.split(key)
            a = int(rng.integers(0, env0.action_space.n))
            o, gstate, r, done, _ = gx.step_env(k, gstate, jnp.asarray(a), params)
            m = ctx.drv.call("tab_step", tab=tab, stack=[], state=st, action=float(a),
                             init=int(env0.inits[0]), noise=0)
            c = {**case, "t": t, "state": st, "action": a,
                 "impl": {"obs": np.asarray(o), "reward": float(r), "done": bool(done)}, "model": m}
            ctx.case({"k": "l2gx", "rep": rep, "t": t}, True)
            ctx.count("adapter:lerax-to-gymnax")
            if not (ctx.close(np.asarray(o, np.float64), m["obs"]) and ctx.close(float(r), m["reward"])
                    and bool(done) == (m["terminal"] or m["truncate"])):
                ctx.phi_fail("adapter_trajectory_lerax_to_gymnax", c)
            st = m["state"]


def run(ctx):
    check_constructible(ctx)
    check_rescale(ctx)
    classic = [CartPole, MountainCar, Pendulum, Acrobot, ContinuousMountainCar]
    for i in range(ctx.budget(10, 30)):
        box = bool(ctx.rng.random() < 0.5)
        check_layers(ctx, random_tabular(ctx.rng, box=box, masks=not box), "tabular", i)
        ctx.gc()
    # every action-transforming layer at least once per run over a bounded-action finite MDP whose info and reward
    # depend on the action (random stacks may happen to contain none): alone and under / over a time limit
    for i, kinds in enumerate([["RescaleAction"], ["TransformAction"], ["ClipAction"], ["RescaleAction", "TimeLimit"],
                               ["TransformAction", "ClipReward"]]):
        check_layers(ctx, random_tabular(ctx.rng, box=True), "tabular-box[action-layers]", 500 + i, kinds=kinds,
                     depth=2 * len(kinds))
        ctx.gc()
    for i in range(ctx.budget(5, 12)):
        cls = classic[i % len(classic)]
        check_layers(ctx, cls(), cls.__name__, 1000 + i)
        ctx.gc(4)
    for i in range(ctx.budget(6, 24)):
        check_timelimit(ctx, i)
        ctx.gc()
    check_timelimit_coincidence(ctx)
    check_timelimit_large(ctx)
    check_declared_spaces_order(ctx)
    check_adapters(ctx)
