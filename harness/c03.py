"""C03 — GAE: RolloutBuffer.compute_returns_and_advantages vs lean/LeraxModel/Gae.lean."""
from __future__ import annotations

import itertools

import jax
import numpy as np
from jax import numpy as jnp

from lerax.buffer import RolloutBuffer


def _impl(rewards, values, dones, last, lam, gamma):
    T = rewards.shape[0]
    buf = RolloutBuffer(
        observations=jnp.zeros((T, 1)), actions=jnp.zeros((T,), dtype=int), rewards=rewards,
        dones=dones, log_probs=jnp.zeros((T,)), values=values, states=None)
    out = buf.compute_returns_and_advantages(last, lam, gamma)
    return out.advantages, out.returns


_impl_v = jax.jit(jax.vmap(_impl))


def _draw(rng, n, T, dyadic):
    if dyadic:
        r = rng.integers(-16, 17, size=(n, T)) / 4.0
        v = rng.integers(-16, 17, size=(n, T)) / 4.0
        last = rng.integers(-16, 17, size=(n,)) / 4.0
    else:
        r = rng.uniform(-4, 4, size=(n, T))
        v = rng.uniform(-4, 4, size=(n, T))
        last = rng.uniform(-4, 4, size=(n,))
    return r, v, last


def _coeffs(rng, n):
    special = [0.0, 1.0, 0.5, 0.99, 0.95]
    g = np.where(rng.random(n) < 0.4, rng.choice(special, n), rng.uniform(0, 1, n))
    l = np.where(rng.random(n) < 0.4, rng.choice(special, n), rng.uniform(0, 1, n))
    return g, l


def _check_batch(ctx, r, v, d, last, lam, gam, kind):
    adv, ret = _impl_v(jnp.asarray(r), jnp.asarray(v), jnp.asarray(d), jnp.asarray(last),
                       jnp.asarray(lam), jnp.asarray(gam))
    adv = np.asarray(adv, dtype=np.float64)
    ret = np.asarray(ret, dtype=np.float64)
    # the implementation sees the inputs after conversion to its float type
    ft = np.float64 if ctx.x64 else np.float32
    r, v, last, lam, gam = (np.asarray(x, dtype=ft).astype(np.float64) for x in (r, v, last, lam, gam))
    for i in range(r.shape[0]):
        case = {"kind": kind, "gamma": gam[i], "lam": lam[i], "rewards": r[i], "values": v[i],
                "dones": d[i], "last": last[i]}
        out = ctx.drv.call("gae", gamma=gam[i], lam=lam[i], rewards=r[i], values=v[i],
                           dones=d[i], last=last[i], impl={"adv": adv[i], "ret": ret[i]},
                           tol=ctx.tol(8.0))
        nontrivial = bool(d[i].any()) or r.shape[1] > 1
        ctx.case(case, nontrivial, sample={**case, "impl_adv": adv[i], "impl_ret": ret[i]})
        ctx.count(f"{kind}:T={r.shape[1]}" if r.shape[1] <= 10 else f"{kind}:T>10")
        ctx.count("done_steps", int(d[i].sum()))
        if gam[i] in (0.0, 1.0) or lam[i] in (0.0, 1.0):
            ctx.count("gamma_or_lambda_in_{0,1}")
        if not out["phi"]:
            ctx.phi_fail("gae_recurrence", {**case, "impl_adv": adv[i], "impl_ret": ret[i]},
                         detail={"model_adv": out["adv"], "model_ret": out["ret"]})
        if not (ctx.close(out["adv"], adv[i], 8.0) and ctx.close(out["ret"], ret[i], 8.0)):
            ctx.disagree("advantages/returns", case, impl={"adv": adv[i], "ret": ret[i]},
                         model={"adv": out["adv"], "ret": out["ret"]})


def check_end_to_end(ctx, idx):
    """GAE of a rollout collected by the real collect_rollout, with the episode ends established
    independently (Lean replay of the finite MDP from the recorded actions), the recorded rewards
    and values, and the bootstrap value of the post-rollout state."""
    import jax
    from jax import random as jr
    from lerax.algorithm import A2C, PPO, REINFORCE
    from lerax.wrapper import TimeLimit
    from .common.collect import clip_desc, collect, impl_rows, policy_desc, replay_env, slice_env
    from .common.tabular import enc_state, random_ac_policy, random_tabular
    rng = ctx.rng
    env0 = random_tabular(rng, p_term=0.15, p_trunc=0.1)
    n = int(rng.integers(2, 6))
    env, desc = TimeLimit(env0, n), [{"w": "timeLimit", "n": n}]
    policy = random_ac_policy(rng, env0)
    E, T = int(rng.choice([1, 2])), int(rng.integers(6, 20))
    gamma, lam = float(rng.choice([0.9, 0.99, 1.0])), float(rng.choice([0.0, 0.8, 0.95, 1.0]))
    if idx % 3 == 0:
        algo = PPO(num_envs=E, num_steps=T, gamma=gamma, gae_lambda=lam, num_batches=1, num_epochs=1)
    elif idx % 3 == 1:
        algo = A2C(num_envs=E, num_steps=T, gamma=gamma, gae_lambda=lam)
    else:       # REINFORCE: Monte-Carlo returns are GAE(lambda = 1), bootstrapped like the others
        algo = REINFORCE(num_envs=E, num_steps=T, gamma=gamma)
        lam = float(algo.gae_lambda)
    ctx.count("end-to-end:" + type(algo).__name__)
    pre, post, buf, _ = collect(algo, env, policy, jr.key(int(rng.integers(0, 2**31))))
    tab, pol = env0.describe(), policy_desc(policy)
    for e in range(E):
        pre_e, post_e, buf_e = slice_env(pre, e, E), slice_env(post, e, E), slice_env(buf, e, E)
        rows = impl_rows(buf_e, T)
        model_rows, failures, _ = replay_env(ctx, tab, desc, pol, gamma, clip_desc(env), int(env0.T.shape[2]),
                                             enc_state(pre_e.env_state), int(pre_e.policy_state.count), rows,
                                             enc_state(post_e.env_state), int(post_e.policy_state.count))
        if any(f in ("obs", "next_env_state") for _, f in failures):
            ctx.note("end-to-end GAE skipped: the rollout's state sequence could not be replayed")
            continue
        true_dones = [mr["done"] for mr in model_rows]
        last = float(policy.value(post_e.policy_state, env.observation(post_e.env_state, key=jr.key(0)))[1])
        # rewards as the environment and the critic determine them (model replay of the finite MDP: table
        # reward, plus gamma * V(pre-reset successor observation) on steps ended only by truncation) — not
        # the recorded ones, so that nothing recorded after an episode end can leak into the reference
        rew = [mr["reward"] for mr in model_rows] if len(model_rows) == len(rows) else [r["reward"] for r in rows]
        val = [r["value"] for r in rows]
        adv, ret = np.asarray(buf_e.advantages, np.float64), np.asarray(buf_e.returns, np.float64)
        out = ctx.drv.call("gae", gamma=gamma, lam=lam, rewards=rew, values=val, dones=true_dones, last=last,
                           impl={"adv": adv, "ret": ret}, tol=ctx.tol(16.0))
        case = {"kind": "collected-rollout", "algo": type(algo).__name__, "time_limit": n, "T": T, "gamma": gamma,
                "lam": lam, "rewards": rew, "values": val, "episode_ends": true_dones, "bootstrap": last,
                "recorded_dones": [r["done"] for r in rows], "impl_adv": adv, "impl_ret": ret}
        ctx.case({"k": "e2e", "idx": idx, "e": e, "rew": rew}, any(true_dones), sample=case if idx == 0 else None)
        ctx.count("end-to-end:rollouts")
        ctx.count("end-to-end:episode-ends", int(sum(true_dones)))
        if not out["phi"]:
            ctx.phi_fail("gae_of_collected_rollout_cut_at_true_episode_ends",
                         {**case, "reference_adv": out["adv"], "reference_ret": out["ret"]}, key="gae:end-to-end")


def run(ctx):
    rng = ctx.rng
    for i in range(ctx.budget(6, 18)):
        check_end_to_end(ctx, i)
    # (1) every done pattern for short rollouts
    maxT = ctx.budget(6, 10)
    for T in range(1, maxT + 1):
        pats = np.array(list(itertools.product([False, True], repeat=T)), dtype=bool)
        reps = ctx.budget(2, 3) if T <= 8 else 1
        for rep in range(reps):
            n = pats.shape[0]
            r, v, last = _draw(rng, n, T, dyadic=(rep == 0))
            g, l = _coeffs(rng, n)
            _check_batch(ctx, r, v, pats, last, l, g, "all-patterns")
    # (2) long random rollouts
    for T in ctx.budget([17, 64, 256], [17, 64, 100, 256, 1000]):
        n = ctx.budget(24, 64)
        r, v, last = _draw(rng, n, T, dyadic=False)
        r, v, last = r / 4, v / 4, last / 4
        p = rng.choice([0.0, 0.02, 0.2, 0.9], size=(n, 1))
        d = rng.random((n, T)) < p
        g, l = _coeffs(rng, n)
        _check_batch(ctx, r, v, d, last, l, g, "random-long")
