"""C18 — Serializable.serialize / deserialize vs lean/LeraxModel/Serial.lean.

Every scenario runs in its own fresh directory under <verif>/.work/c18_<pid>/ (made the current
directory, so relative spellings are exercised), as a short sequence of real `policy.serialize`
and `PolicyClass.deserialize` calls.  The same sequence is replayed by the driver on the model
file system (`serial_session`); compared: where each file went, the final directory listing,
ok / error class of every load, the loaded leaves (bit patterns).  Φ is decided by the driver on
the implementation's outcomes (`phi_path`, `phi_roundtrip`, `phi_mismatch`) and, for the
"identical actions / values / log-probabilities" clause, here on the policies' outputs.
"""
from __future__ import annotations

import os
import pathlib
import shutil
from collections import OrderedDict
from typing import ClassVar

import equinox as eqx
import jax
import numpy as np
from equinox._filters import is_array_like
from jax import numpy as jnp
from jax import random as jr

from lerax.env import AbstractEnv, AbstractEnvState
from lerax.policy import MLPActorCriticPolicy, MLPQPolicy, MLPSACPolicy
from lerax.space import Box, Dict, Discrete, MultiBinary, MultiDiscrete, Tuple

from .common.proto import VERIF

# ----------------------------------------------------------------------------- tiny environments


class _S(AbstractEnvState):
    t: jax.Array


class SpaceEnv(AbstractEnv):
    """A real `AbstractEnv` whose only interesting content is its pair of spaces."""

    name: ClassVar[str] = "SpaceEnv"
    action_space: Box | Discrete | MultiDiscrete | MultiBinary
    observation_space: Box | Dict | Tuple | Discrete | MultiDiscrete | MultiBinary

    def __init__(self, action_space, observation_space):
        self.action_space = action_space
        self.observation_space = observation_space

    def initial(self, *, key):
        return _S(jnp.array(0))

    def action_mask(self, state, *, key):
        return None

    def transition(self, state, action, *, key):
        return _S(state.t + 1)

    def observation(self, state, *, key):
        return self.observation_space.sample(key=key)

    def reward(self, state, action, next_state, *, key):
        return jnp.array(0.0)

    def terminal(self, state, *, key):
        return jnp.array(False)

    def truncate(self, state):
        return state.t >= 3

    def state_info(self, state):
        return {}

    def transition_info(self, state, action, next_state):
        return {}

    def default_renderer(self):
        raise NotImplementedError

    def render(self, state, renderer):
        raise NotImplementedError


# ----------------------------------------------------------------------------- space descriptions
# a space description is a nested tuple that can be rebuilt, flattened into the model's atoms,
# and printed in a replay:  ("box", shape) ("discrete", n) ("multidiscrete", nvec)
# ("multibinary", shape) ("dict", [(key, desc), ...]) ("tuple", [desc, ...])


def build_space(d):
    k = d[0]
    if k == "box":
        shape = tuple(d[1])
        return Box(-jnp.ones(shape), 2.0 * jnp.ones(shape)) if shape else Box(-1.0, 2.0)
    if k == "discrete":
        return Discrete(int(d[1]))
    if k == "multidiscrete":
        return MultiDiscrete(tuple(int(n) for n in d[1]))
    if k == "multibinary":
        return MultiBinary(tuple(int(n) for n in d[1]))
    if k == "dict":
        return Dict(OrderedDict((name, build_space(s)) for name, s in d[1]))
    if k == "tuple":
        return Tuple(tuple(build_space(s) for s in d[1]))
    raise ValueError(k)


def atoms(d):
    k = d[0]
    if k == "box":
        return [{"k": "box", "shape": list(d[1])}]
    if k == "discrete":
        return [{"k": "discrete", "n": int(d[1])}]
    if k == "multidiscrete":
        return [{"k": "multidiscrete", "nvec": list(d[1])}]
    if k == "multibinary":
        return [{"k": "multibinary", "shape": list(d[1])}]
    if k == "dict":
        return [a for _n, s in d[1] for a in atoms(s)]
    if k == "tuple":
        return [a for s in d[1] for a in atoms(s)]
    raise ValueError(k)


def rand_atom_obs(rng):
    r = rng.integers(0, 7)
    if r == 0:
        return ("box", ())
    if r in (1, 2):
        return ("box", (int(rng.integers(1, 5)),))
    if r == 3:
        return ("box", (int(rng.integers(1, 3)), int(rng.integers(1, 4))))
    if r == 4:
        return ("discrete", int(rng.integers(2, 6)))
    if r == 5:
        return ("multidiscrete", tuple(int(n) for n in rng.integers(1, 4, size=rng.integers(1, 4))))
    return ("multibinary", (int(rng.integers(1, 4)),))


def rand_obs(rng, kind=None):
    kind = kind or rng.choice(["box", "box", "dict", "tuple", "nested"])
    if kind == "box":
        return [("box", (int(rng.integers(1, 6)),)), ("box", (2, int(rng.integers(1, 4)))),
                ("box", ())][int(rng.choice([0, 0, 0, 1, 2]))]
    names = ["pos", "vel", "b", "a", "goal"]
    if kind == "dict":
        n = int(rng.integers(1, 4))
        ks = list(rng.permutation(names)[:n])
        return ("dict", [(str(k), rand_atom_obs(rng)) for k in ks])
    if kind == "tuple":
        return ("tuple", [rand_atom_obs(rng) for _ in range(int(rng.integers(1, 4)))])
    return ("tuple", [rand_atom_obs(rng), ("dict", [("z", rand_atom_obs(rng)), ("y", ("box", (2,)))])])


def rand_act(rng, kind):
    if kind == "discrete":
        return ("discrete", int(rng.integers(2, 6)))
    if kind == "box":
        return [("box", ()), ("box", (int(rng.integers(1, 4)),)), ("box", (2, 2))][int(rng.choice([0, 1, 1, 2]))]
    if kind == "multidiscrete":
        return ("multidiscrete", tuple(int(n) for n in rng.integers(1, 4, size=rng.integers(1, 4))))
    if kind == "multibinary":
        return [("multibinary", (int(rng.integers(1, 4)),)), ("multibinary", (2, 2))][int(rng.choice([0, 0, 1]))]
    raise ValueError(kind)


# ----------------------------------------------------------------------------- policy configurations

CLASSES = {"ac": MLPActorCriticPolicy, "q": MLPQPolicy, "sac": MLPSACPolicy}


class Cfg:
    """One policy configuration: class, spaces, architecture arguments."""

    def __init__(self, cls, act, obs, **kw):
        self.cls, self.act, self.obs, self.kw = cls, act, obs, dict(kw)

    def with_(self, act=None, obs=None, **kw):
        return Cfg(self.cls, act or self.act, obs or self.obs, **{**self.kw, **kw})

    def env(self):
        return SpaceEnv(build_space(self.act), build_space(self.obs))

    def build(self, key):
        return CLASSES[self.cls](self.env(), key=key, **self.kw)

    def load(self, path, key):
        return CLASSES[self.cls].deserialize(path, self.env(), key=key, **self.kw)

    def skeleton(self):
        return eqx.filter_eval_shape(CLASSES[self.cls], self.env(), key=jr.key(0), **self.kw)

    def describe(self):
        return {"cls": self.cls, "act": self.act, "obs": self.obs, **self.kw}

    def model_args(self, x64):
        a = {"cls": self.cls, "float": "float64" if x64 else "float32",
             "act": atoms(self.act)[0], "obs": atoms(self.obs)}
        a.update({k: v for k, v in self.kw.items() if k != "epsilon"})
        if self.cls == "q":
            eps = self.kw.get("epsilon", 0.1)
            a["eps"] = "bool" if isinstance(eps, bool) else "int" if isinstance(eps, int) else "float"
            a.setdefault("width_size", 64), a.setdefault("depth", 2)
        return a


def rand_cfg(rng, cls=None, act_kind=None, obs_kind=None):
    cls = cls or str(rng.choice(["ac", "ac", "q", "sac"]))
    sz = lambda: int(rng.integers(1, 7))
    dp = lambda: int(rng.integers(0, 4))
    obs = rand_obs(rng, obs_kind)
    if cls == "ac":
        act = rand_act(rng, act_kind or str(rng.choice(["discrete", "box", "multidiscrete", "multibinary"])))
        return Cfg("ac", act, obs, feature_size=sz(), feature_width=sz(), feature_depth=dp(),
                   value_width=sz(), value_depth=dp(), action_width=sz(), action_depth=dp())
    if cls == "q":
        eps = [0.1, 0.25, 0.0, 1, 0.5][int(rng.integers(0, 5))]
        return Cfg("q", rand_act(rng, "discrete"), obs, epsilon=eps, width_size=sz(), depth=dp())
    return Cfg("sac", rand_act(rng, "box"), obs, feature_size=sz(), width_size=sz(), depth=dp())


# ----------------------------------------------------------------------------- leaves and outputs


def wire_leaves(tree, data=True):
    """Serialisable leaves in tree order, as the driver's wire format."""
    out = []
    for leaf in jax.tree.leaves(tree):
        if isinstance(leaf, (jax.Array, np.ndarray, jax.ShapeDtypeStruct)):
            d = {"k": "arr", "shape": [int(n) for n in leaf.shape], "dtype": str(leaf.dtype)}
            if data:
                d["data"] = list(np.asarray(leaf).tobytes())
        elif isinstance(leaf, bool):
            d = {"k": "bool", "data": list(np.asarray(leaf).tobytes())}
        elif isinstance(leaf, int):
            d = {"k": "int", "data": list(np.asarray(leaf, dtype=np.int64).tobytes())}
        elif isinstance(leaf, float):
            d = {"k": "float", "data": list(np.asarray(leaf, dtype=np.float64).tobytes())}
        elif is_array_like(leaf):
            raise TypeError(f"unexpected serialisable leaf {type(leaf)}")
        else:
            continue
        if not data:
            d.pop("data", None)
        out.append(d)
    return out


def sig(leaves):
    return [(l["k"], tuple(l.get("shape", ())), l.get("dtype", "")) for l in leaves]


def _canon(x):
    if isinstance(x, BaseException):
        return ("raised", type(x).__name__)
    leaves = jax.tree.leaves(x)
    return [(str(np.asarray(l).dtype), np.asarray(l).shape, np.asarray(l).tobytes()) for l in leaves]


def outputs(cfg, policy, observations, key):
    """Actions with key=None, values, log-probabilities (and the keyed variants) on the given
    observations, as bit patterns; an exception counts as its type name."""
    out = []

    def rec(f):
        try:
            out.append(_canon(f()))
        except Exception as e:  # same exception before and after counts as identical
            out.append(_canon(e))

    for obs in observations:
        rec(lambda: policy(None, obs)[1])
        rec(lambda: policy(None, obs, key=key)[1])
        if cfg.cls == "ac":
            rec(lambda: policy.value(None, obs)[1])
            rec(lambda: policy.action_and_value(None, obs, key=key)[1:])
            try:
                a = policy(None, obs)[1]
                rec(lambda: policy.evaluate_action(None, obs, a)[1:])
            except Exception as e:
                out.append(_canon(e))
        elif cfg.cls == "q":
            rec(lambda: policy.q_values(None, obs)[1])
        else:
            rec(lambda: policy.action_and_log_prob(None, obs, key=key)[1:])
    return out


def err_class(e):
    """Implementation exception → the model's error names."""
    if isinstance(e, FileNotFoundError):
        return "notFound"
    cause = e.__cause__
    while type(cause).__name__ == "TreePathError":  # one per nesting level of the tree map
        cause = cause.__cause__
    if type(e).__name__ == "TreePathError":
        if isinstance(cause, EOFError):
            return "eof"
        if isinstance(cause, ValueError):
            return "scalarSize"
        return "TreePathError:" + type(cause).__name__
    if isinstance(e, RuntimeError):
        msg = str(e)
        if "changed shape" in msg:
            return "shape"
        if "changed dtype" in msg:
            return "dtype"
        if "more leaves" in msg:
            return "trailing"
        return "RuntimeError"
    return type(e).__name__


# ----------------------------------------------------------------------------- sessions


def listing(root):
    out = []
    for r, _d, fs in os.walk(root):
        out += [os.path.join(r, f) for f in fs]
    return sorted(out)


class Session:
    """Real calls in a fresh directory + the same calls recorded for the model."""

    def __init__(self, ctx, root, name):
        self.ctx = ctx
        self.dir = os.path.join(root, name)
        os.makedirs(self.dir)
        os.chdir(self.dir)
        self.trees, self.skels, self.ops, self.impl, self.meta = [], [], [], [], []

    def spell(self, rel, absolute):
        return os.path.join(self.dir, rel) if absolute else rel

    def save(self, cfg, policy, path, no_suffix, how="str"):
        before = set(listing(self.dir))
        arg = pathlib.Path(path) if how == "Path" else path
        try:
            if how == "jit":
                eqx.filter_jit(lambda p: p.serialize(path, no_suffix))(policy)
            elif no_suffix is None:
                policy.serialize(arg)
            else:
                policy.serialize(arg, no_suffix=no_suffix)
            jax.effects_barrier()
            new = sorted(set(listing(self.dir)) - before)
            res = {"ok": True, "new": new}
        except Exception as e:
            res = {"ok": False, "err": type(e).__name__}
        self.trees.append(wire_leaves(policy))
        op = {"op": "save", "path": path, "no_suffix": bool(no_suffix), "tree": len(self.trees) - 1}
        if res["ok"] and len(res["new"]) == 1:
            op["impl_file"] = res["new"][0]
        self.ops.append(op)
        self.impl.append(res)
        self.meta.append({"cfg": cfg.describe(), "how": how})
        return len(self.trees) - 1

    def load(self, cfg, path, saved=None, expect=None):
        try:
            loaded = cfg.load(path, jr.key(int(self.ctx.rng.integers(1, 1 << 30))))
            res = {"ok": True, "policy": loaded, "leaves": wire_leaves(loaded)}
        except Exception as e:
            res = {"ok": False, "err": err_class(e), "exc": f"{type(e).__name__}: {str(e)[:160]}"}
        self.skels.append(wire_leaves(cfg.skeleton(), data=False))
        op = {"op": "load", "path": path, "skel": len(self.skels) - 1}
        if res["ok"]:
            op["impl_leaves"] = res["leaves"]
        if saved is not None:
            op["saved"] = saved
        self.ops.append(op)
        self.impl.append(res)
        self.meta.append({"cfg": cfg.describe(), "expect": expect})
        return res

    def replay(self, step):
        """Readable recipe of the session up to and including `step`."""
        rec = []
        for o, m in list(zip(self.ops, self.meta))[: step + 1]:
            path = o["path"].replace(self.dir, "<cwd>")  # absolute spelling of the fresh directory
            if o["op"] == "save":
                rec.append(f"save {m['cfg']} -> serialize({path!r}, no_suffix={o['no_suffix']}) [{m['how']}]")
            else:
                rec.append(f"load {m['cfg']} <- deserialize({path!r})")
        return rec

    def check(self, kind):
        """Replay on the model; compare; decide Φ."""
        ctx = self.ctx
        out = ctx.drv.call("serial_session", cwd=self.dir, trees=self.trees, skeletons=self.skels,
                           ops=self.ops)
        for i, (o, m, impl, mod) in enumerate(zip(self.ops, self.meta, self.impl, out["outcomes"])):
            case = {"kind": kind, "step": i, "session": self.replay(i), "cwd": "<fresh directory>"}
            if o["op"] == "save":
                ctx.count(f"save:suffix={mod['suffix'] or 'none'}:no_suffix={o['no_suffix']}"
                          if mod["suffix"] in ("", ".eqx") else f"save:suffix=other:no_suffix={o['no_suffix']}")
                impl_file = impl["new"][0] if impl["ok"] and len(impl["new"]) == 1 else None
                if not impl["ok"] or (impl_file is None and mod["kind"] == "saved" and
                                      mod["file"] not in listing(self.dir)):
                    ctx.disagree("save-outcome", case, impl=impl, model=mod)
                elif impl_file is not None and mod.get("file") != impl_file:
                    ctx.disagree("saved-file-name", case, impl=os.path.relpath(impl_file, self.dir),
                                 model=os.path.relpath(mod.get("file", "?"), self.dir))
                if "phi_path" in mod and not mod["phi_path"]:
                    ctx.phi_fail("path_roundtrip", {**case, "written": os.path.relpath(impl_file, self.dir),
                                                    "deserialize_opens": os.path.relpath(mod["load_file"], self.dir)},
                                 key="saved-file-not-where-load-looks")
                continue
            # ---- load
            ctx.count(f"load:{m['expect']}:" + ("ok" if impl["ok"] else impl["err"]))
            impl_kind = "loaded" if impl["ok"] else "failed"
            if not impl["ok"] and impl["err"] != mod.get("err"):
                # WHICH exception reports the mismatch is not part of the property ("fails loudly"): e.g. a
                # reader that validates each leaf as it is read reports a shape error where one that reads
                # all leaves first reports a premature end of file
                ctx.count("load:failed-with-a-different-exception-than-the-model's")
            if impl_kind != mod["kind"]:
                ctx.disagree("load-outcome", case,
                             impl=impl_kind if impl["ok"] else impl["err"] + " (" + impl["exc"] + ")",
                             model=mod["kind"] if mod["kind"] == "loaded" else mod["err"])
            elif impl["ok"] and not mod.get("same", True) and m["expect"] != "coercion":
                ctx.disagree("loaded-leaves", case, impl=sig(impl["leaves"]), model="different leaves")
            if "saved" in o:
                ctx.count(f"pair:differ={mod['differ']}:no_coercion={mod['no_coercion']}")
                if m["expect"] == "mismatch" and impl["ok"]:
                    ctx.note(f"a pair generated as a mismatch loaded without error (differ={mod['differ']}, "
                             f"no_coercion={mod['no_coercion']}): " + " | ".join(self.replay(i)[-2:]))
                if m["expect"] == "roundtrip" and not mod["phi_roundtrip"]:
                    key, detail = "roundtrip-load-fails", impl.get("exc")
                    if impl["ok"]:
                        bad = [(a["k"], a.get("shape"), bytes(a["data"]).hex(), bytes(b["data"]).hex())
                               for a, b in zip(self.trees[o["saved"]], impl["leaves"]) if a != b]
                        only_py = all(b[0] != "arr" for b in bad) and \
                            len(self.trees[o["saved"]]) == len(impl["leaves"])
                        key = "roundtrip-python-scalar-changed" if only_py else "roundtrip-not-exact"
                        detail = {"differing_leaves(kind, shape, saved bytes, loaded bytes)": bad[:4]}
                    ctx.phi_fail("leaf_roundtrip", {**case, "impl": detail}, key=key)
                if not mod["phi_mismatch"]:
                    longer = len(self.trees[o["saved"]]) > len(self.skels[o["skel"]])
                    ctx.phi_fail("mismatch_fails",
                                 {**case, "saved_leaves": sig(self.trees[o["saved"]]),
                                  "skeleton_leaves": sig(self.skels[o["skel"]]),
                                  "impl": "returned a policy without error"},
                                 key="silent-load-longer-file" if longer else "silent-load-mismatch")
        want = sorted(out["listing"])
        have = listing(self.dir)
        if want != have:
            ctx.disagree("directory-listing", {"kind": kind, "session": self.replay(len(self.ops))},
                         impl=[os.path.relpath(p, self.dir) for p in have],
                         model=[os.path.relpath(p, self.dir) for p in want])
        return out


# ----------------------------------------------------------------------------- path spellings

ROUNDTRIP_NAMES = ["model", "model.eqx", "policy_final", ".hidden", "model.", "a.b.", "model.v1.eqx",
                   "..eqx", "m", "x.eqx", "ckpt-12.eqx", "name with space", "UPPER.eqx"]
OTHER_NAMES = ["model.ckpt", "model.v1.5", "model.EQX", "model.pkl", "model.eqx.bak", "step.100",
               "a.eqx2", ".hidden.npz"]
DIRS = ["", "", "sub", "a/b/c", "v1.2", "run.3/out.d", "./here", "x//y", "deep/er/./and/deeper", ".dot/dir.eqx"]


def rand_path(rng, names):
    d = DIRS[int(rng.integers(0, len(DIRS)))]
    n = names[int(rng.integers(0, len(names)))]
    return (d + "/" + n) if d else n


def rand_name(rng):
    alphabet = list("ab.X_-1 ") + ["."] * 3 + ["eqx", ".eqx", "model"]
    return "".join(rng.choice(alphabet, size=int(rng.integers(1, 6))))


def check_paths(ctx):
    """pathlib split / model split on many names (no I/O)."""
    rng = ctx.rng
    paths = []
    for _ in range(ctx.budget(150, 600)):
        comps = [rand_name(rng) for _ in range(int(rng.integers(1, 4)))]
        p = "/".join(comps)
        if rng.random() < 0.3:
            p = "/" + p
        if pathlib.PurePosixPath(p).name in ("", "..") or ".." in pathlib.PurePosixPath(p).parts:
            continue
        paths.append(p)
    paths += [d + "/" + n if d else n for d in DIRS for n in ROUNDTRIP_NAMES + OTHER_NAMES]
    out = ctx.drv.call("serial_paths", paths=paths)
    for p, m in zip(paths, out):
        pp = pathlib.PurePosixPath(p)
        impl = {"parsed": str(pp), "stem": pp.stem, "suffix": pp.suffix}
        ctx.case({"path-split": p}, True, sample={"path": p, "model": m})
        ctx.count("split:suffix=" + ("none" if pp.suffix == "" else "eqx" if pp.suffix == ".eqx" else "other"))
        if any(impl[k] != m[k] for k in impl):
            ctx.disagree("pathlib-split", {"path": p}, impl=impl, model={k: m[k] for k in impl})
        # the theorem's statement, on the model's own answers (sanity of the driver wiring)
        if m["roundtrip"] and not (m["agree"] and m["agree_no_suffix"]):
            ctx.disagree("path_roundtrip-on-model", {"path": p}, impl=None, model=m)


# ----------------------------------------------------------------------------- streams


def observations(cfg, rng, n):
    sp = build_space(cfg.obs)
    return [sp.sample(key=jr.key(int(rng.integers(0, 1 << 30)))) for _ in range(n)]


def try_build(ctx, cfg, key):
    try:
        return cfg.build(key)
    except Exception as e:
        ctx.case({"construct": cfg.describe()}, True)
        ctx.phi_fail("constructible", {"construct": cfg.describe(),
                                       "raised": f"{type(e).__name__}: {str(e)[:200]}"},
                     key=f"constructible:{CLASSES[cfg.cls].__name__}[{cfg.act[0]}]")
        return None


def check_skeleton(ctx, cfg, policy):
    """constructor arguments → leaf list: model (`acSpecs`/`qSpecs`/`sacSpecs`) vs real policy."""
    model = ctx.drv.call("serial_specs", **cfg.model_args(ctx.x64))
    real = wire_leaves(policy, data=False)
    if sig(model) != sig(real):
        ctx.disagree("skeleton-from-constructor-arguments", cfg.describe(), impl=sig(real), model=sig(model))


def roundtrip_scenario(ctx, root, idx, cfg, how="str"):
    rng = ctx.rng
    policy = try_build(ctx, cfg, jr.key(int(rng.integers(0, 1 << 30))))
    if policy is None:
        return
    check_skeleton(ctx, cfg, policy)
    s = Session(ctx, root, f"r{idx}")
    other = rng.random() < 0.3
    path = s.spell(rand_path(rng, OTHER_NAMES if other else ROUNDTRIP_NAMES), rng.random() < 0.35)
    no_suffix = [None, False, True][int(rng.integers(0, 3))]
    t = s.save(cfg, policy, path, no_suffix, how=how)
    expect = "roundtrip" if (not other or no_suffix) else "not-found"
    res = s.load(cfg, path, saved=t if expect == "roundtrip" else None, expect=expect)
    if other and not no_suffix:
        # the file is under <stem>.eqx: loading that spelling restores the policy
        p2 = str(pathlib.PurePosixPath(path).with_suffix(".eqx"))
        res = s.load(cfg, p2, saved=t, expect="roundtrip")
    s.check("roundtrip")
    ctx.case({"roundtrip": cfg.describe(), "path": path, "no_suffix": no_suffix, "how": how}, True,
             sample={"cfg": cfg.describe(), "path": path, "no_suffix": no_suffix,
                     "leaves": sig(s.trees[t])})
    ctx.count(f"class:{cfg.cls}:act={cfg.act[0]}:obs={cfg.obs[0]}")
    ctx.count("how:" + how)
    if res["ok"]:
        obs = observations(cfg, rng, 2)
        key = jr.key(int(rng.integers(0, 1 << 30)))
        if outputs(cfg, policy, obs, key) != outputs(cfg, res["policy"], obs, key):
            ctx.phi_fail("outputs_identical", {"cfg": cfg.describe(), "path": path},
                         key="outputs-differ-after-roundtrip")
        ctx.count("outputs-compared")


def variations(rng, cfg):
    """Configurations whose parameter shapes differ from `cfg` (label, other)."""
    out = []
    bump = lambda k: {k: cfg.kw[k] + int(rng.integers(1, 3))}
    if cfg.cls == "ac":
        used = {"feature_size": True, "feature_width": cfg.kw["feature_depth"] > 0,
                "value_width": cfg.kw["value_depth"] > 0, "action_width": cfg.kw["action_depth"] > 1}
        for k in ["feature_size", "feature_width", "value_width", "action_width"]:
            if used[k]:  # a width is unused (no parameter depends on it) when there is no hidden layer
                out.append(("width:" + k, cfg.with_(**bump(k))))
        for k in ["feature_depth", "value_depth", "action_depth"]:
            up = cfg.kw[k] + int(rng.integers(1, 3))
            if k == "action_depth":  # ActionLayer uses max(0, depth - 1) hidden layers
                up = max(up, 2)
            out.append(("depth:" + k, cfg.with_(**{k: up})))
            if cfg.kw[k] > (1 if k == "action_depth" else 0):
                out.append(("depth-:" + k, cfg.with_(**{k: cfg.kw[k] - 1})))
    elif cfg.cls == "q":
        if cfg.kw["depth"] > 0:
            out.append(("width", cfg.with_(**bump("width_size"))))
        out.append(("depth", cfg.with_(**bump("depth"))))
        if cfg.kw["depth"] > 0:
            out.append(("depth-", cfg.with_(depth=cfg.kw["depth"] - 1)))
    else:
        if cfg.kw["depth"] > 0:
            out.append(("width", cfg.with_(**bump("width_size"))))
        out.append(("feature", cfg.with_(**bump("feature_size"))))
        out.append(("depth", cfg.with_(**bump("depth"))))
    # observation dimension
    if cfg.obs[0] == "box" and len(cfg.obs[1]) == 1:
        out.append(("obs-dim", cfg.with_(obs=("box", (cfg.obs[1][0] + 1,)))))
        n = cfg.obs[1][0]
        if n >= 2:  # same flat size, different space leaves
            out.append(("obs-kind", cfg.with_(obs=("tuple", [("box", (1,)), ("box", (n - 1,))]))))
    else:
        out.append(("obs-extra", cfg.with_(obs=("tuple", [cfg.obs, ("box", (2,))]))))
    # action dimension
    a = cfg.act
    if a[0] == "discrete":
        out.append(("act-dim", cfg.with_(act=("discrete", a[1] + 1))))
    elif a[0] == "box":
        out.append(("act-dim", cfg.with_(act=("box", (2,) if a[1] == () else (a[1][0] + 1,) + tuple(a[1][1:])))))
    elif a[0] == "multidiscrete":
        out.append(("act-dim", cfg.with_(act=("multidiscrete", tuple(a[1]) + (2,)))))
    else:
        out.append(("act-dim", cfg.with_(act=("multibinary", (a[1][0] + 1,) + tuple(a[1][1:])))))
    return out


def prefix_pairs(rng):
    """Pairs whose leaf signature lists are strict prefixes of one another: all layer sizes
    coincide, only a depth differs (label, shorter, longer)."""
    out = []
    n = int(rng.integers(2, 6))
    d = int(rng.integers(0, 3))
    obs = rand_obs(rng)
    q = Cfg("q", ("discrete", n), obs, epsilon=0.1, width_size=n, depth=d)
    out.append(("q:width=n_actions", q, q.with_(depth=d + int(rng.integers(1, 3)))))
    # Q with depth 0 -> 1 needs width = n as well (first layer (n, obs))
    ac = Cfg("ac", ("discrete", n), obs, feature_size=n, feature_width=int(rng.integers(1, 5)),
             feature_depth=int(rng.integers(0, 3)), value_width=int(rng.integers(1, 5)),
             value_depth=int(rng.integers(0, 3)), action_width=n, action_depth=1 + d)
    out.append(("ac:feature=action_width=n", ac, ac.with_(action_depth=2 + d + int(rng.integers(0, 2)))))
    mb = ac.with_(act=("multidiscrete", (n,)))  # ends with Python ints: not a prefix, but close
    out.append(("ac-multidiscrete:near-prefix", mb, mb.with_(action_depth=2 + d)))
    bx = Cfg("ac", ("box", (1,)), obs, feature_size=1, feature_width=2, feature_depth=1, value_width=2,
             value_depth=0, action_width=1, action_depth=1 + d)
    out.append(("ac-box:all-sizes-1", bx, bx.with_(action_depth=2 + d)))
    return out


def mismatch_scenario(ctx, root, idx, label, saved_cfg, load_cfg, expect="mismatch"):
    rng = ctx.rng
    policy = try_build(ctx, saved_cfg, jr.key(int(rng.integers(0, 1 << 30))))
    if policy is None:
        return
    try:
        load_cfg.skeleton()
    except Exception as e:
        ctx.phi_fail("constructible", {"construct": load_cfg.describe(), "raised": type(e).__name__},
                     key=f"constructible:{CLASSES[load_cfg.cls].__name__}[{load_cfg.act[0]}]")
        return
    s = Session(ctx, root, f"m{idx}")
    path = s.spell(rand_path(rng, ROUNDTRIP_NAMES), rng.random() < 0.3)
    t = s.save(saved_cfg, policy, path, None)
    s.load(load_cfg, path, saved=t, expect=expect)
    if rng.random() < 0.5:  # and the file itself is fine
        s.load(saved_cfg, path, saved=t, expect="roundtrip")
    s.check(expect + ":" + label)
    ctx.case({"mismatch": label, "saved": saved_cfg.describe(), "load": load_cfg.describe()}, True)
    ctx.count(f"{expect}:{label.split(':')[0]}:{saved_cfg.cls}")


def overwrite_scenario(ctx, root, idx):
    """Several saves that land on the same file; stale files; what a later load sees."""
    rng = ctx.rng
    a = rand_cfg(rng, cls=str(rng.choice(["q", "sac", "ac"])), act_kind=None)
    b = variations(rng, a)[int(rng.integers(0, 3))][1]
    pa = try_build(ctx, a, jr.key(1))
    pb = try_build(ctx, b, jr.key(2))
    if pa is None or pb is None:
        return
    s = Session(ctx, root, f"o{idx}")
    d = DIRS[int(rng.integers(2, len(DIRS)))]
    ta = s.save(a, pa, f"{d}/model.ckpt", False)      # -> model.eqx
    s.load(a, f"{d}/model", saved=ta, expect="roundtrip")
    tb = s.save(b, pb, f"{d}/model", None)            # overwrites model.eqx
    s.load(b, f"{d}/model.eqx", saved=tb, expect="roundtrip")
    s.load(a, f"{d}/model", saved=tb, expect="mismatch")
    tc = s.save(a, pa, f"{d}/model.v1.5", None)       # -> model.v1.eqx
    s.save(b, pb, f"{d}/model.v1.6", None)            # -> model.v1.eqx as well
    s.load(b, f"{d}/model.v1", saved=None, expect="not-found")   # model.v1 has suffix ".v1"
    s.load(b, f"{d}/model.v1.eqx", saved=len(s.trees) - 1, expect="roundtrip")
    s.save(a, pa, f"{d}/keep.ckpt", True)             # kept as is
    s.load(a, f"{d}/keep.ckpt", saved=len(s.trees) - 1, expect="roundtrip")
    s.check("overwrite")
    ctx.case({"overwrite": a.describe(), "b": b.describe(), "dir": d}, True)
    ctx.count("overwrite-sessions")


def coercion_scenarios(ctx, root, idx):
    """Pairs that differ only at Python-scalar leaves, where Equinox converts silently — the
    hypothesis `noCoercion` of `mismatch_fails` is false; model and implementation must agree."""
    rng = ctx.rng
    k = int(rng.integers(1, 4))
    f = int(rng.integers(1, 5))
    arch = dict(feature_size=f, feature_width=3, feature_depth=1, value_width=2, value_depth=1,
                action_width=3, action_depth=int(rng.integers(0, 3)))
    a = Cfg("ac", ("box", (1,)), ("tuple", [("discrete", 3), ("box", (k,))]), **arch)
    b = Cfg("ac", ("multidiscrete", (1,)), ("tuple", [("box", (1,)), ("box", (k,))]), **arch)
    mismatch_scenario(ctx, root, f"c{idx}a", "python-scalar-conversion", a, b, expect="coercion")
    q = Cfg("q", ("discrete", 3), ("box", (k,)), epsilon=1, width_size=f, depth=1)
    mismatch_scenario(ctx, root, f"c{idx}b", "epsilon-int-vs-float", q, q.with_(epsilon=0.5), expect="coercion")
    # a Python-scalar leaf whose VALUE differs between the saved policy and the constructor arguments used for
    # loading (e.g. a Q-policy saved with epsilon = 0 for greedy deployment): loading restores the saved value
    q0 = Cfg("q", ("discrete", 3), ("box", (k,)), epsilon=[0.0, 0.25, 0.75][idx % 3], width_size=f, depth=1)
    mismatch_scenario(ctx, root, f"c{idx}c", "python-scalar-value-restored", q0, q0.with_(epsilon=0.5), expect="roundtrip")


def same_signature_scenario(ctx, root, idx):
    """Constructor arguments differ only in static (unsaved) fields: same leaf signatures, the
    load succeeds (nothing in the property forbids it) — exactness of the acceptance rule."""
    rng = ctx.rng
    k = int(rng.integers(1, 4))
    a = Cfg("q", ("discrete", 3), ("tuple", [("discrete", 3), ("box", (k,))]), epsilon=0.1,
            width_size=int(rng.integers(1, 5)), depth=int(rng.integers(0, 3)))
    b = a.with_(obs=("tuple", [("discrete", 7), ("box", (k,))]))
    mismatch_scenario(ctx, root, f"e{idx}", "static-field-only", a, b, expect="same-signature")


# ----------------------------------------------------------------------------- entry point


def run(ctx):
    rng = ctx.rng
    root = os.path.join(VERIF, ".work", f"c18_{os.getpid()}")
    shutil.rmtree(root, ignore_errors=True)
    os.makedirs(root)
    cwd0 = os.getcwd()
    try:
        check_paths(ctx)
        # (1) round trips: every class x action kind x observation kind at least once, then random
        grid = [("ac", a, o) for a in ["discrete", "box", "multidiscrete", "multibinary"]
                for o in ["box", "dict", "tuple"]]
        grid += [("q", "discrete", o) for o in ["box", "dict", "tuple"]]
        grid += [("sac", "box", o) for o in ["box", "dict", "tuple", "nested"]]
        idx = 0
        for cls, a, o in grid:
            roundtrip_scenario(ctx, root, idx, rand_cfg(rng, cls, a, o))
            idx += 1
        for _ in range(ctx.budget(20, 120)):
            how = str(rng.choice(["str", "str", "str", "Path"]))
            roundtrip_scenario(ctx, root, idx, rand_cfg(rng), how=how)
            idx += 1
        for _ in range(ctx.budget(1, 4)):  # serialize called from inside jit
            roundtrip_scenario(ctx, root, idx, rand_cfg(rng, "q"), how="jit")
            idx += 1
        # (2) mismatching parameter shapes
        idx = 0
        for _ in range(ctx.budget(8, 40)):
            cfg = rand_cfg(rng)
            vs = variations(rng, cfg)
            for j in rng.permutation(len(vs))[: ctx.budget(3, 6)]:
                label, other = vs[int(j)]
                if rng.random() < 0.5:
                    mismatch_scenario(ctx, root, idx, label, cfg, other)
                else:
                    mismatch_scenario(ctx, root, idx, label + ":reversed", other, cfg)
                idx += 1
        # (3) shape-compatible prefixes, both directions
        for _ in range(ctx.budget(2, 10)):
            for label, short, long in prefix_pairs(rng):
                mismatch_scenario(ctx, root, idx, "prefix-longer-file:" + label, long, short)
                idx += 1
                mismatch_scenario(ctx, root, idx, "prefix-shorter-file:" + label, short, long)
                idx += 1
        # (4) overwrites / stale files, scalar conversions, static-only differences
        for i in range(ctx.budget(2, 10)):
            overwrite_scenario(ctx, root, i)
            coercion_scenarios(ctx, root, i)
            same_signature_scenario(ctx, root, i)
        ctx.note("files written only under .work/c18_<pid>/ (removed at the end); every scenario "
                 "starts in a fresh directory")
    finally:
        os.chdir(cwd0)
        shutil.rmtree(root, ignore_errors=True)
