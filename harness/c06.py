"""C06 — ReplayBuffer.add / current_size / sample vs lean/LeraxModel/Replay.lean.

Every field of insertion number i (per environment e) is tagged with tag = e*100000 + i + 1, so
that field alignment ("all fields from the same insertion") is observable."""
from __future__ import annotations

from collections import OrderedDict

import equinox as eqx
import jax
import numpy as np
from jax import numpy as jnp
from jax import random as jr

from lerax.buffer import ReplayBuffer
from lerax.space import Box, Dict, Discrete

from .common.tabular import CountState

CANON = -6.0   # canonical() of Box(-10, -2): never a tag


def _spaces(pytree_obs):
    if pytree_obs:
        obs = Dict({"a": Box(-10.0 * jnp.ones(2), -2.0 * jnp.ones(2)), "b": Box(-10.0, -2.0, shape=())})
    else:
        obs = Box(-10.0 * jnp.ones(2), -2.0 * jnp.ones(2))
    return obs, Box(-10.0, -2.0, shape=(1,))


def _row(tag, pytree_obs):
    t = jnp.asarray(tag, dtype=float)
    if pytree_obs:
        obs = OrderedDict(a=jnp.stack([t, t + 0.25]), b=t + 0.125)
        nobs = OrderedDict(a=jnp.stack([t + 0.5, t + 0.75]), b=t + 0.625)
    else:
        obs = jnp.stack([t, t + 0.25])
        nobs = jnp.stack([t + 0.5, t + 0.75])
    ti = jnp.asarray(tag, dtype=int)
    return dict(observation=obs, next_observation=nobs, action=jnp.stack([t + 0.0625]),
                reward=t, done=(ti % 2) == 1, timeout=(ti % 3) == 0,
                state=CountState(ti), next_state=CountState(ti + 1))


def _tags_of(buf, pytree_obs):
    """per-slot tag recovered from every field; returns (tags or None for unwritten, aligned?)"""
    o = buf.observations["a"] if pytree_obs else buf.observations
    no = buf.next_observations["a"] if pytree_obs else buf.next_observations
    o = np.asarray(o, dtype=np.float64); no = np.asarray(no, dtype=np.float64)
    rew = np.asarray(buf.rewards, dtype=np.float64)
    act = np.asarray(buf.actions, dtype=np.float64)[..., 0]
    done = np.asarray(buf.dones); tmo = np.asarray(buf.timeouts)
    st = np.asarray(buf.states.count); nst = np.asarray(buf.next_states.count)
    tags = o[..., 0]
    written = tags != CANON
    t = np.where(written, tags, 0.0)
    ti = t.astype(np.int64)
    aligned = (
        (o[..., 1] == t + 0.25) & (no[..., 0] == t + 0.5) & (no[..., 1] == t + 0.75)
        & (rew == t) & (act == t + 0.0625) & (done == (ti % 2 == 1)) & (tmo == (ti % 3 == 0))
        & (st == ti) & (nst == ti + 1))
    if pytree_obs:
        aligned &= (np.asarray(buf.observations["b"], dtype=np.float64) == t + 0.125)
        aligned &= (np.asarray(buf.next_observations["b"], dtype=np.float64) == t + 0.625)
    aligned = np.where(written, aligned, True)
    return tags, written, aligned


def _case(ctx, cap, ns, pytree_obs, idx, full_batches=False):
    obs_space, act_space = _spaces(pytree_obs)
    E = len(ns)

    @eqx.filter_jit
    def add(buf, tag):
        return buf.add(**_row(tag, pytree_obs))

    @eqx.filter_jit
    def add_many(buf, tags):
        return jax.lax.scan(lambda b, t: (b.add(**_row(t, pytree_obs)), None), buf, tags)[0]

    bufs = []
    for e, n in enumerate(ns):
        b = ReplayBuffer(cap, obs_space, act_space, CountState(jnp.array(0, dtype=int)))
        if n > 64:
            b = add_many(b, e * 100000 + 1 + jnp.arange(n))
        else:
            for i in range(n):
                b = add(b, e * 100000 + i + 1)
        bufs.append(b)
    stacked = bufs[0] if E == 1 else jax.tree.map(lambda *xs: jnp.stack(xs), *bufs)

    tags, written, aligned = _tags_of(stacked, pytree_obs)
    tags = tags.reshape(E, cap); written = written.reshape(E, cap); aligned = aligned.reshape(E, cap)
    slot_tags = [[(int(tags[e, j]) - e * 100000 - 1) if written[e, j] else None for j in range(cap)]
                 for e in range(E)]
    pos = np.asarray(stacked.position).reshape(E).tolist()
    cur = np.asarray(stacked.current_size).reshape(E).tolist()

    # sampling
    stored_total = int(sum(min(n, cap) for n in ns))
    samples, sample_rows = [], []
    flat_tags = tags.reshape(-1)
    if stored_total > 0:
        for _ in range(ctx.budget(6, 24)):
            # large sparse buffers: batches as large as the stored count leave no slack for a sampler
            # that gives unwritten slots a tiny but non-zero weight
            bs = stored_total if full_batches else int(ctx.rng.integers(1, stored_total + 1))
            key = jr.key(int(ctx.rng.integers(0, 2**31)))
            batch = stacked.sample(bs, key=key)
            bt, bw, ba = _tags_of(batch, pytree_obs)
            idxs = []
            for k in range(bs):
                if not bw[k]:
                    idxs.append(int(np.argmin(written.reshape(-1))))  # an unwritten slot
                else:
                    hit = np.nonzero(flat_tags == bt[k])[0]
                    idxs.append(int(hit[0]) if len(hit) else E * cap + 7)
            samples.append(idxs)
            sample_rows.append({"batch_size": bs, "aligned": bool(ba.all()), "idx": idxs})
            ctx.case({"cap": cap, "ns": ns, "idx": idx, "sample": len(samples), "rows": idxs}, bs > 0)

    case = {"kind": "replay", "cap": cap, "ns": ns, "pytree_obs": pytree_obs, "slot_tags": slot_tags,
            "position": pos, "current_size": cur, "samples": sample_rows[:4]}
    ctx.case({"cap": cap, "ns": ns, "py": pytree_obs, "idx": idx}, True, sample=case if idx < 2 else None)
    ctx.count(f"envs={E}")
    ctx.count("wrap-arounds", int(sum(max(0, (n - 1) // cap) for n in ns)))
    ctx.count("unequal-fill" if len(set(min(n, cap) for n in ns)) > 1 else "equal-fill")
    ctx.count("samples", len(samples))

    r = ctx.drv.call("replay_phi", cap=cap, ns=ns, slot_tags=slot_tags, samples=samples)
    if not r["phi"]:
        ctx.phi_fail(r["clause"], case)
    if not bool(aligned.all()):
        ctx.phi_fail("fields_from_same_insertion", case)
    if any(not s["aligned"] for s in sample_rows):
        ctx.phi_fail("sampled_row_fields_from_same_insertion", case)
    for e, n in enumerate(ns):
        ctx.case({"cap": cap, "n": n, "e": e, "idx": idx, "history": True}, n > 0)
        m = ctx.drv.call("replay_model", cap=cap, n=n)
        if not (m["slots"] == slot_tags[e] and m["pos"] == pos[e] and m["current_size"] == cur[e]):
            ctx.disagree("slots/position/current_size", case,
                         impl={"slots": slot_tags[e], "pos": pos[e], "cur": cur[e]}, model=m)


def check_full_batches_many_keys(ctx):
    """a stacked per-environment buffer whose FIRST environment is almost empty, sampled with batch size =
    number of stored transitions under very many keys: there is exactly one admissible batch (all stored
    rows), so a sampler in which a stored row can tie with the unwritten ones on a rare draw (an exact 0.0
    of a uniform variate has probability 2^-23) hands out an unwritten row.  Counted per key on device."""
    cap = 2048
    obs_space, act_space = _spaces(False)
    ns = [1, cap + 3]

    @eqx.filter_jit
    def add_many(buf, tags):
        return jax.lax.scan(lambda b, t: (b.add(**_row(t, False)), None), buf, tags)[0]

    bufs = [add_many(ReplayBuffer(cap, obs_space, act_space, CountState(jnp.array(0, dtype=int))),
                     e * 100000 + 1 + jnp.arange(n)) for e, n in enumerate(ns)]
    stacked = jax.tree.map(lambda *xs: jnp.stack(xs), *bufs)
    stored = 1 + cap
    stored_tags = np.sort(np.asarray(stacked.rewards, np.float64).reshape(-1))[-stored:]

    @eqx.filter_jit
    def unwritten_in_batches(keys):
        def one(k):
            b = stacked.sample(stored, key=k)
            # tags are >= 1 in written slots and 0 in never-written ones; every stored tag exactly once
            return jnp.sum(b.rewards == 0), jnp.sum(b.rewards)
        return jax.vmap(one)(keys)

    chunk, chunks = 1024, ctx.budget(32, 256)
    want_sum = float(stored_tags.sum())
    base = jr.key(int(ctx.rng.integers(0, 2**31)))
    for c in range(chunks):
        keys = jr.split(jr.fold_in(base, c), chunk)
        zeros, sums = unwritten_in_batches(keys)
        zeros = np.asarray(zeros); sums = np.asarray(sums, np.float64)
        ctx.count("full-batch-keys", chunk)
        ctx.case({"many-keys-chunk": c}, True)
        bad = np.nonzero(zeros > 0)[0]
        if len(bad):
            j = int(bad[0])
            ctx.phi_fail("sampled_rows_were_inserted",
                         {"kind": "replay-many-keys", "cap": cap, "ns": ns, "batch_size": stored, "chunk": c, "key_index": j,
                          "unwritten_rows_in_batch": int(zeros[j]),
                          "replay": "jr.split(jr.fold_in(base, chunk), 1024)[key_index]"},
                         key="replay:unwritten-row-sampled")
            break


def check_late_history(ctx):
    """the ring index and the stored-row count late in a long history: `position` is an int32 counter, so a
    buffer that has already received p0 insertions (state built by setting the counter; older rows are not
    tracked) is compared with the int32 model `Buf32` (LeraxProofs/C06Int32.lean: it refines the Nat model for
    every history below 2^31 insertions).  p0 sits beyond float32's exact-integer range and just below 2^31;
    histories stay below 2^31 insertions, where the property is claimed."""
    obs_space, act_space = _spaces(False)

    @eqx.filter_jit
    def add_many(buf, tags):
        return jax.lax.scan(lambda b, t: (b.add(**_row(t, False)), None), buf, tags)[0]

    for rep in range(ctx.budget(8, 32)):
        cap = int(ctx.rng.choice([1, 2, 3, 5, 7, 8, 12, 16, 31]))
        k = int(ctx.rng.integers(1, 3 * cap + 2))
        p0 = int(ctx.rng.choice([2**24 + 1, 2**24 + int(ctx.rng.integers(0, 2**24)), 2**30 + 3,
                                 int(ctx.rng.integers(2**24, 2**31 - k)), 2**31 - 1 - k]))
        b = ReplayBuffer(cap, obs_space, act_space, CountState(jnp.array(0, dtype=int)))
        b = eqx.tree_at(lambda rb: rb.position, b, jnp.asarray(p0, dtype=b.position.dtype))
        b = add_many(b, 1 + jnp.arange(k))
        tags, written, aligned = _tags_of(b, False)
        slot_tags = [(int(tags[j]) - 1) if written[j] else None for j in range(cap)]
        pos, cur = int(b.position), int(b.current_size)
        mask = (np.arange(cap) < cur).tolist()
        case = {"kind": "replay-late-history", "cap": cap, "p0": p0, "k": k, "slot_tags": slot_tags,
                "position": pos, "current_size": cur}
        ctx.case({"late": True, "cap": cap, "p0": p0, "k": k}, True, sample=case if rep < 1 else None)
        ctx.count("late-history-cases")
        stored = sorted(t for t in slot_tags if t is not None)
        if stored != list(range(max(0, k - cap), k)) or cur != min(p0 + k, cap) or not bool(aligned.all()):
            ctx.phi_fail("contents_are_last_min_n_C", case, key="late-history:contents_are_last_min_n_C")
            continue
        m = ctx.drv.call("replay_model32", cap=cap, p0=p0, k=k)
        if not (m["slots"] == slot_tags and m["pos"] == pos and m["current_size"] == cur and m["mask"] == mask):
            ctx.disagree("late-history slots/position/current_size", case,
                         impl={"slots": slot_tags, "pos": pos, "cur": cur}, model=m)


def run(ctx):
    check_full_batches_many_keys(ctx)
    check_late_history(ctx)
    rng = ctx.rng
    caps = ctx.budget([1, 2, 3, 5, 8, 16], [1, 2, 3, 4, 5, 7, 8, 13, 16, 32, 64, 128])
    idx = 0
    for cap in caps:
        for rep in range(ctx.budget(2, 3)):
            E = int(rng.choice([1, 1, 2, 3]))
            max_n = (5 * cap if cap <= 16 else 2 * cap + 3)
            ns = [int(rng.choice([0, 1, cap - 1, cap, cap + 1, int(rng.integers(0, max_n + 1))]))
                  for _ in range(E)]
            ns = [max(0, n) for n in ns]
            if rep == 0:
                ns[0] = max_n
            _case(ctx, cap, ns, bool(rng.random() < 0.5), idx)
            ctx.gc(4)
            idx += 1
    # large, partly filled buffers sampled with batch size = number of stored transitions
    for cap, ns in ctx.budget([(4096, [2048]), (2048, [1024, 300])],
                              [(4096, [2048]), (2048, [1024, 300]), (8192, [4096]), (4096, [4095]), (1024, [512, 512, 100])]):
        _case(ctx, cap, ns, False, idx, full_batches=True)
        ctx.count("large-sparse-buffers")
        ctx.gc(1)
        idx += 1
