"""C05 — off-policy collection stores exactly what happened: real DQN / SAC reset (warm-up),
collect_rollout and iteration on finite MDPs vs lean/LeraxModel/OffPolicy.lean."""
from __future__ import annotations

import equinox as eqx
import jax
import numpy as np
from jax import numpy as jnp
from jax import random as jr

from lerax.algorithm import DQN, SAC
from lerax.callback import CallbackList
from lerax.wrapper import TimeLimit

from .common.collect import clip_desc, slice_env
from .common.tabular import TabularQPolicy, TabularSACPolicy, enc_state, random_tabular


def _stored_rows(buf_e, cap):
    """rows of one environment's buffer in insertion order: [(insertion index, row dict)]"""
    n = int(buf_e.position)
    out = []
    for i in range(max(0, n - cap), n):
        j = i % cap
        out.append((i, {
            "obs": np.asarray(buf_e.observations[j], np.float64).ravel(),
            "next_obs": np.asarray(buf_e.next_observations[j], np.float64).ravel(),
            "action": float(np.asarray(buf_e.actions[j], np.float64).ravel()[0]),
            "reward": float(buf_e.rewards[j]), "done": bool(buf_e.dones[j]),
            "timeout": bool(buf_e.timeouts[j]), "policy_state": int(buf_e.states.count[j]),
            "next_policy_state": int(buf_e.next_states.count[j])}))
    return n, out


def _check_env(ctx, slim, tab, desc, clip, n_noise, inits, expected_pos, cap, step_state_e):
    n, rows = _stored_rows(step_state_e.buffer, cap)
    case = {**slim, "position": n, "expected_position": expected_pos, "capacity": cap}
    ctx.case({**case, "rows": [(r["obs"], r["action"]) for _, r in rows]}, n > 0,
             sample={**case, "rows": [r for _, r in rows[:2]]})
    ctx.count("buffers-checked")
    ctx.count("rows-checked", len(rows))
    if n != expected_pos:
        ctx.phi_fail("insertion_count_is_learning_starts_plus_k_num_steps", case, key="offpolicy:count")
    tl = bool(desc)
    prev = None
    for i, r in rows:
        s, clock = int(r["obs"][0]), int(r["obs"][1])
        pre = {"s": s, "clock": clock, "noise": 0, "counters": [clock] if tl else []}
        best = None
        for nz in range(n_noise):
            m = ctx.drv.call("offpolicy_step", tab=tab, stack=desc, clip=clip, state=pre,
                             policy_state=r["policy_state"], action=r["action"], noise=nz, init=0)
            bad = []
            if not ctx.close(m["obs"], r["obs"]):
                bad.append("obs")
            if not ctx.close(m["next_obs"], r["next_obs"]):
                bad.append("next_obs")
            if not ctx.close(m["reward"], r["reward"], 4.0):
                bad.append("reward")
            if m["done"] != r["done"]:
                bad.append("done")
            if m["timeout"] != r["timeout"]:
                bad.append("timeout")
            if m["next_policy_state"] != r["next_policy_state"]:
                bad.append("next_policy_state")
            if best is None or len(bad) < len(best[0]):
                best = (bad, m)
            if not bad:
                break
        ctx.count("rows:done" if r["done"] else "rows:continue")
        if r["timeout"]:
            ctx.count("rows:timeout")
        if r["done"] and not r["timeout"] and best[1]["done"] and tl:
            ctx.count("rows:terminated")
        if abs(r["action"]) > 1.0 and clip is not None:
            ctx.count("rows:action-clipped")
        if best[0]:
            f = best[0][0]
            clause = {"reward": "reward_of_executed_clipped_action",
                      "next_obs": "successor_observation_is_pre_reset_successor",
                      "done": "done_is_terminal_or_truncated",
                      "timeout": "timeout_iff_truncated_without_terminating",
                      "next_policy_state": "policy_state_after_recorded",
                      "obs": "observation_acted_on"}[f]
            ctx.phi_fail(clause, {**case, "insertion": i, "impl_row": r, "model_row": best[1], "tab": tab},
                         key="offpolicy:" + f)
            return
        # chain with the previous stored row
        if prev is not None:
            p = prev
            if p["done"]:
                ok = (s in inits and clock == 0 and r["policy_state"] == 0)
                if not ok:
                    ctx.phi_fail("env_and_policy_restart_after_done", {**case, "insertion": i, "prev": p, "row": r},
                                 key="offpolicy:restart")
                    return
            else:
                ok = ctx.close(p["next_obs"], r["obs"]) and p["next_policy_state"] == r["policy_state"]
                if not ok:
                    ctx.phi_fail("consecutive_transitions_chain", {**case, "insertion": i, "prev": p, "row": r},
                                 key="offpolicy:chain")
                    return
        prev = r
    # carried step state continues the last stored transition
    if prev is not None:
        st = enc_state(step_state_e.env_state)
        cnt = int(step_state_e.policy_state.count)
        if prev["done"]:
            ok = st["s"] in inits and st["clock"] == 0 and cnt == 0 and all(c == 0 for c in st["counters"])
        else:
            ok = (st["s"], st["clock"]) == (int(prev["next_obs"][0]), int(prev["next_obs"][1])) and \
                cnt == prev["next_policy_state"]
        if not ok:
            ctx.phi_fail("carried_state_continues_last_transition", {**case, "carried": st, "count": cnt, "last": prev},
                         key="offpolicy:carried")


def _config(ctx, idx):
    rng = ctx.rng
    box = (idx % 2 == 0)
    env0 = random_tabular(rng, box=box, p_term=0.15, p_trunc=0.12)
    desc, env = [], env0
    if rng.random() < 0.7:
        n = int(rng.integers(1, 6))
        env, desc = TimeLimit(env0, n), [{"w": "timeLimit", "n": n}]
    E = int(rng.choice([1, 2, 3]))
    cap = int(rng.integers(3, 25))
    buffer_size = cap * E + int(rng.integers(0, E))      # exercises buffer_size // num_envs
    LS = int(rng.integers(1, cap + 1)) if rng.random() < 0.6 else cap + int(rng.integers(1, 8))
    T = int(rng.integers(1, 9))
    gamma = 0.9
    # minibatch sizes incl. ones larger than the warm-up (learning_starts * num_envs < batch_size): what is
    # collected does not depend on the minibatch size
    B = int(rng.choice([1, 1, 3, cap * E]))
    nS = int(env0.T.shape[0])
    if box:
        policy = TabularSACPolicy(env0, loc=rng.uniform(-1.5, 1.5, nS), log_std=rng.uniform(-1.0, 0.0, nS),
                                  scale_out=2.0)
        algo = SAC(buffer_size=buffer_size, learning_starts=LS, num_envs=E, num_steps=T, batch_size=B,
                   gamma=gamma, q_width_size=4, q_depth=1)
        which = "SAC"
    else:
        policy = TabularQPolicy(env0, q=rng.uniform(-1, 1, (nS, int(env0.T.shape[1]))), epsilon=0.4)
        algo = DQN(buffer_size=buffer_size, learning_starts=LS, num_envs=E, num_steps=T, batch_size=B,
                   gamma=gamma, target_update_interval=2)
        which = "DQN"
    cb = CallbackList(callbacks=[])
    key = jr.key(int(rng.integers(0, 2**31)))
    k0, k1 = jr.split(key)
    state = eqx.filter_jit(lambda k: algo.reset(env, policy, key=k, callback=cb))(k0)
    tab, clip = env0.describe(), clip_desc(env)
    n_noise, inits = int(env0.T.shape[2]), set(np.asarray(env0.inits).tolist())
    slim = {"kind": "offpolicy", "algo": which, "stack": desc, "E": E, "buffer_size": buffer_size,
            "learning_starts": LS, "num_steps": T, "batch_size": B}
    ctx.count(f"{which}:configs")
    ctx.count("batch_size>warm-up" if B > LS * E else "batch_size<=warm-up")
    ctx.count("wraps" if LS > cap else "no-wrap")
    for e in range(E):
        _check_env(ctx, {**slim, "phase": "after-reset", "env_index": e}, tab, desc, clip, n_noise, inits,
                   LS, cap, slice_env(state.step_state, e, E))
    iters = ctx.budget(2, 4)
    it = eqx.filter_jit(lambda s, k: algo.iteration(s, key=k, callback=cb))
    for k in range(1, iters + 1):
        k1, kk = jr.split(k1)
        state = it(state, kk)
        for e in range(E):
            _check_env(ctx, {**slim, "phase": f"after-iteration-{k}", "env_index": e}, tab, desc, clip,
                       n_noise, inits, LS + k * T, cap, slice_env(state.step_state, e, E))
        if int(state.iteration_count) != k:
            ctx.phi_fail("iteration_counter", {**slim, "k": k, "count": int(state.iteration_count)})


def run(ctx):
    for i in range(ctx.budget(10, 50)):
        _config(ctx, i)
        ctx.gc(4)
