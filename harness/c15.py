"""C15 — action distributions are coherent probability laws.

Drives the seven real lerax distribution classes on generated parameters and compares every
public observable (`log_prob`, `prob`, `entropy`, `mode`, `mean`, `sample`,
`sample_and_log_prob`) with lean/LeraxModel/Dist.lean; Φ (lean/LeraxModel/Dist.lean `phi…`,
assembled in lean/Driver/Dist.lean) is decided by the driver on the implementation's outputs.
Discrete samples are constrained, never predicted; the noise of the continuous laws is read back
from the sample.  Supporting searches (Python only): quadrature of exp(log_prob), a
Kolmogorov–Smirnov statistic and category frequencies.
"""
from __future__ import annotations

import functools
import math

import jax
import numpy as np
from jax import numpy as jnp

from lerax.distribution import (Bernoulli, Categorical, MultiCategorical, MultivariateNormalDiag,
                                Normal, SquashedMultivariateNormalDiag, SquashedNormal)

NEG_INF = float("-inf")
INT8_KEY = "int8-categorical-index"


def _f(ctx):
    return np.float64 if ctx.x64 else np.float32


def _eps(ctx):
    return 2.3e-16 if ctx.x64 else 1.2e-7


def _cast(ctx, x):
    """the value the implementation sees (its float type), as float64"""
    return np.asarray(x, dtype=_f(ctx)).astype(np.float64)


def _np(x, dtype=np.float64):
    return np.asarray(x).astype(dtype)


def _close_pt(ctx, a, b, extra, scale=8.0):
    """per-point closeness: the usual tolerance plus the point's own conditioning bound"""
    a = np.asarray(a, dtype=np.float64)
    b = np.asarray(b, dtype=np.float64)
    if a.shape != b.shape:
        return False
    if (np.isnan(a) != np.isnan(b)).any():
        return False
    extra = np.asarray(extra, dtype=np.float64).reshape(-1, *([1] * (a.ndim - 1)))
    lim = scale * (ctx.atol + ctx.rtol * np.maximum(np.abs(a), np.abs(b))) + 4.0 * extra
    d = np.abs(np.where(np.isnan(a), 0, a) - np.where(np.isnan(b), 0, b))
    return bool((d <= lim).all())


def _fail_key(clause, n, ints):
    """stable classification of a Φ failure"""
    ints = [int(v) for v in np.asarray(ints).ravel()]
    if n > 127 and any(v < 0 for v in ints) and clause in (
            "mode_in_support", "sample_in_support", "sample_and_logprob_consistent",
            "masked_mode_allowed", "masked_sample_allowed", "action_is_valid_index"):
        return INT8_KEY
    return clause


# --------------------------------------------------------------------------- categorical

def _cat_outs(n):
    return np.array([-1, -3, n, n + 2], dtype=np.int64)


@functools.lru_cache(maxsize=None)
def _cat_fn(n, form, masked, K):
    outs = jnp.asarray(_cat_outs(n))

    def one(params, mask, keys):
        d = Categorical(**{form: params})
        vals = jnp.arange(n)
        base_probs = jax.vmap(d.prob)(vals)
        base_logps = jax.vmap(d.log_prob)(vals)
        if masked:
            d = d.mask(mask)
        s2, lp2 = jax.vmap(d.sample_and_log_prob)(keys[K:])
        return {
            "probs": jax.vmap(d.prob)(vals), "logps": jax.vmap(d.log_prob)(vals),
            "out_probs": jax.vmap(d.prob)(outs), "out_logps": jax.vmap(d.log_prob)(outs),
            "entropy": d.entropy(), "mode": d.mode(), "samples": jax.vmap(d.sample)(keys[:K]),
            "slp_samples": s2, "slp_logps": lp2, "base_probs": base_probs, "base_logps": base_logps,
            "logits_prop": d.logits, "probs_prop": d.probs,
        }

    return jax.jit(jax.vmap(one))


def _gen_logits(rng, n, B):
    out = np.empty((B, n))
    for b in range(B):
        style = rng.integers(0, 6)
        s = float(rng.choice([0.1, 1.0, 5.0, 20.0]))
        x = rng.normal(0, s, size=n)
        if style == 1:                      # one sharp peak (late index: exercises wide indices)
            x[int(rng.integers(n // 2, n))] += 10.0 + s
        elif style == 2:                    # exact ties
            x = np.round(x)
        elif style == 3 and n > 1:          # some categories excluded by -inf logits
            k = int(rng.integers(1, n))
            x[rng.choice(n, size=k, replace=False)] = NEG_INF
            if not np.isfinite(x).any():
                x[int(rng.integers(n))] = 0.0
        elif style == 4:                    # dyadic
            x = rng.integers(-8, 9, size=n) / 4.0
        elif style == 5:                    # a few dominating entries, far beyond exp underflow
            k = int(rng.integers(1, max(2, n // 2 + 1)))
            x[rng.choice(n, size=min(k, n), replace=False)] += float(rng.choice([100.0, 300.0]))
        out[b] = x
    return out


def _gen_probs(rng, n, B):
    out = np.empty((B, n))
    for b in range(B):
        style = rng.integers(0, 4)
        p = rng.gamma(float(rng.choice([0.3, 1.0, 5.0])), size=n) + 1e-6
        if style == 1 and n > 1:            # exact zeros
            k = int(rng.integers(1, n))
            p[rng.choice(n, size=k, replace=False)] = 0.0
            if p.sum() == 0:
                p[int(rng.integers(n))] = 1.0
        if style == 2:                      # unnormalised
            p = p * float(rng.choice([0.25, 3.0, 10.0]))
        else:
            p = p / p.sum()
        if style == 3:
            p = np.round(p * 64) / 64.0 + (1.0 / 64 if p.max() < 1 / 128 else 0)
        out[b] = p
    return out


def _gen_masks(rng, n, B, valid_for=None):
    """random masks with at least one allowed entry (on an entry of non-zero probability)"""
    m = rng.random((B, n)) < rng.choice([0.1, 0.5, 0.9], size=(B, 1))
    for b in range(B):
        ok = np.ones(n, bool) if valid_for is None else valid_for[b]
        style = rng.integers(0, 5)
        if style == 0:
            m[b] = True
        elif style == 1:
            m[b] = False
        if not (m[b] & ok).any():
            idx = np.flatnonzero(ok)
            m[b, int(rng.choice(idx))] = True
    return m


def _check_cat(ctx, n, form, masked, B, K):
    rng = ctx.rng
    fn = _cat_fn(n, form, masked, K)
    raw = _gen_logits(rng, n, B) if form == "logits" else _gen_probs(rng, n, B)
    params = _cast(ctx, raw)
    valid = np.isfinite(params) if form == "logits" else params > 0
    mask = _gen_masks(rng, n, B, valid) if masked else np.ones((B, n), bool)
    keys = jax.random.split(jax.random.key(int(rng.integers(2 ** 31))), B * 2 * K).reshape(B, 2 * K)
    out = jax.tree.map(np.asarray, fn(jnp.asarray(params, dtype=_f(ctx)), jnp.asarray(mask), keys))
    outs = _cat_outs(n)
    for b in range(B):
        impl = {
            "probs": _np(out["probs"][b]), "logps": _np(out["logps"][b]),
            "out_probs": _np(out["out_probs"][b]), "out_logps": _np(out["out_logps"][b]),
            "entropy": float(out["entropy"][b]), "mode": int(out["mode"][b]),
            "samples": np.concatenate([out["samples"][b], out["slp_samples"][b]]).astype(np.int64),
            "sample_logps": None, "base_probs": _np(out["base_probs"][b]),
            "base_logps": _np(out["base_logps"][b]),
        }
        # log-probability reported with each sample: `sample` has none; look the table up so
        # that only the `sample_and_log_prob` half carries information
        tab = impl["logps"]
        first = [tab[s] if 0 <= s < n else NEG_INF for s in out["samples"][b].astype(np.int64)]
        impl["sample_logps"] = np.array(first + list(_np(out["slp_logps"][b])))
        args = dict(form=form, params=params[b], outs=outs, mask=(mask[b] if masked else None))
        res = ctx.drv.call("cat", impl=impl, tol=ctx.tol(8.0), **args)
        case = {"law": "Categorical", "n": n, **args}
        nontrivial = n > 1
        ctx.case(case, nontrivial, sample={**case, "impl": impl})
        bucket = "n=1" if n == 1 else "n<=8" if n <= 8 else "n<=127" if n <= 127 else "n>127"
        ctx.count(f"cat:{form}:{'masked' if masked else 'plain'}:{bucket}")
        if not res["phi"]:
            ints = [impl["mode"]] + list(impl["samples"])
            ctx.phi_fail(res["clause"], {**case, "impl": impl}, key=_fail_key(res["clause"], n, ints),
                         detail={"model_mode": res["mode"]})
        # correspondence: tables, entropy, mode
        ok = (ctx.close(res["probs"], impl["probs"], 8.0) and ctx.close(res["logps"], impl["logps"], 8.0)
              and ctx.close(res["out_probs"], impl["out_probs"], 8.0)
              and ctx.close(res["out_logps"], impl["out_logps"], 8.0)
              and ctx.close(res["entropy"], impl["entropy"], 8.0))
        if not ok:
            ctx.disagree("categorical tables/entropy", case, impl=impl,
                         model={k: res[k] for k in ("probs", "logps", "out_probs", "out_logps", "entropy")})
        lp_m = np.asarray(res["logps"], dtype=np.float64)
        well_separated = res["gap"] > 200 * _eps(ctx) * max(1.0, float(np.max(np.abs(lp_m[np.isfinite(lp_m)]))))
        if well_separated:
            ctx.count("cat:mode-well-separated")
            if int(res["mode"]) != impl["mode"]:
                ctx.disagree("categorical mode", case, impl=impl["mode"], model=res["mode"])
        # properties `logits` / `probs` agree with the tables
        if not (ctx.close(_np(out["probs_prop"][b]), impl["probs"], 8.0)
                and ctx.close(_np(out["logits_prop"][b]), impl["logps"], 8.0)):
            ctx.disagree("categorical .probs/.logits properties", case,
                         impl={"probs": out["probs_prop"][b], "logits": out["logits_prop"][b]},
                         model={"probs": res["probs"], "logits": res["logps"]})


def _categorical(ctx):
    sizes = ctx.budget([1, 2, 3, 5, 17, 127, 128, 200, 300],
                       [1, 2, 3, 4, 5, 6, 8, 13, 17, 33, 64, 100, 127, 128, 129, 150, 200, 256, 300])
    extra = [int(v) for v in ctx.rng.integers(2, 301, size=ctx.budget(1, 6))]
    for n in sizes + extra:
        for form in ("logits", "probs"):
            for masked in (False, True):
                _check_cat(ctx, n, form, masked, B=ctx.budget(12, 32), K=ctx.budget(12, 48))


# --------------------------------------------------------------------------- Bernoulli

@functools.lru_cache(maxsize=None)
def _bern_fn(n, form, masked, K):
    def one(params, mask, keys):
        d = Bernoulli(**{form: params})
        if masked:
            d = d.mask(mask)
        zeros = jnp.zeros(n, dtype=bool)
        ones = jnp.ones(n, dtype=bool)
        s2, lp2 = jax.vmap(d.sample_and_log_prob)(keys[K:])
        s1 = jax.vmap(d.sample)(keys[:K])
        return {
            "p0": d.prob(zeros), "p1": d.prob(ones), "logp0": d.log_prob(zeros), "logp1": d.log_prob(ones),
            "p1_int": d.prob(jnp.ones(n, dtype=int)), "entropy": d.entropy(), "mode": d.mode(),
            "mean": d.mean(), "samples": s1, "lp_of_samples": jax.vmap(d.log_prob)(s1),
            "slp_samples": s2, "slp_logps": lp2, "probs_prop": d.probs,
        }

    return jax.jit(jax.vmap(one))


def _check_bern(ctx, n, form, masked, B, K):
    rng = ctx.rng
    fn = _bern_fn(n, form, masked, K)
    if form == "logits":
        raw = rng.normal(0, rng.choice([0.3, 2.0, 8.0], size=(B, 1)), size=(B, n))
        raw[rng.random((B, n)) < 0.1] = 0.0
    else:
        raw = rng.uniform(0.02, 0.98, size=(B, n))
        raw[rng.random((B, n)) < 0.15] = 0.5
        if not masked:                      # certain outcomes (0·log 0 = 0 in the entropy)
            edge = rng.random((B, n)) < 0.08
            raw[edge] = rng.integers(0, 2, size=int(edge.sum())).astype(float)
    params = _cast(ctx, raw)
    mask = rng.random((B, n)) < rng.choice([0.2, 0.5, 0.9], size=(B, 1)) if masked else np.ones((B, n), bool)
    keys = jax.random.split(jax.random.key(int(rng.integers(2 ** 31))), B * 2 * K).reshape(B, 2 * K)
    out = jax.tree.map(np.asarray, fn(jnp.asarray(params, dtype=_f(ctx)), jnp.asarray(mask), keys))
    for b in range(B):
        impl = {
            "p0": _np(out["p0"][b]), "p1": _np(out["p1"][b]), "logp0": _np(out["logp0"][b]),
            "logp1": _np(out["logp1"][b]), "entropy": _np(out["entropy"][b]),
            "mode": out["mode"][b].astype(bool), "mean": _np(out["mean"][b]),
            "samples": [s.astype(bool) for s in out["samples"][b]] + [s.astype(bool) for s in out["slp_samples"][b]],
            "sample_logps": [_np(v) for v in out["lp_of_samples"][b]] + [_np(v) for v in out["slp_logps"][b]],
        }
        args = dict(form=form, params=params[b], mask=(mask[b] if masked else None))
        res = ctx.drv.call("bern", impl=impl, tol=ctx.tol(8.0), **args)
        case = {"law": "Bernoulli", "n": n, **args}
        ctx.case(case, True, sample={**case, "impl": impl})
        ctx.count(f"bern:{form}:{'masked' if masked else 'plain'}")
        if masked:
            ctx.count("bern:masked-bits", int((~mask[b]).sum()))
        raw_vals = np.concatenate([out["samples"][b].ravel(), out["slp_samples"][b].ravel(), out["mode"][b].ravel()])
        if not set(np.unique(raw_vals).tolist()) <= {0, 1}:
            ctx.phi_fail("sample_in_support", {**case, "values": np.unique(raw_vals)}, key="bernoulli-not-a-bit")
        if not res["phi"]:
            ctx.phi_fail(res["clause"], {**case, "impl": impl}, key=res["clause"])
        ok = all(ctx.close(res[k], impl[k], 8.0) for k in ("p0", "p1", "logp0", "logp1", "entropy", "mean"))
        ok = ok and ctx.close(out["p1_int"][b], impl["p1"], 1.0) and ctx.close(out["probs_prop"][b], impl["p1"], 1.0)
        if not ok:
            ctx.disagree("bernoulli tables/entropy/mean", case, impl=impl,
                         model={k: res[k] for k in ("p0", "p1", "logp0", "logp1", "entropy", "mean")})
        sep = np.abs(np.asarray(res["p1"]) - 0.5) > 200 * _eps(ctx)
        if (np.asarray(res["mode"], bool)[sep] != impl["mode"][sep]).any():
            ctx.disagree("bernoulli mode", case, impl=impl["mode"], model=res["mode"])


def _bernoulli(ctx):
    for n in ctx.budget([1, 3, 40], [1, 2, 3, 5, 8, 16, 40, 300]):
        for form in ("logits", "probs"):
            for masked in (False, True):
                _check_bern(ctx, n, form, masked, B=ctx.budget(16, 32), K=ctx.budget(10, 40))


# --------------------------------------------------------------------------- multi-categorical

def _tuples(dims):
    grids = np.meshgrid(*[np.arange(d) for d in dims], indexing="ij")
    return np.stack([g.ravel() for g in grids], axis=-1)


@functools.lru_cache(maxsize=None)
def _mc_fn(dims, form, masked, K, n_values, enumerate_all, jit=True):
    dims_t = tuple(dims)
    split = np.cumsum(dims_t)[:-1]
    all_t = jnp.asarray(_tuples(dims_t)) if enumerate_all else None

    def one(flat, mask, values, keys):
        pieces = jnp.split(flat, split)
        dseq = MultiCategorical(**{form: [p for p in pieces]})
        d = MultiCategorical(**{form: flat}, action_dims=dims_t)
        comps = [Categorical(**{form: p}) for p in pieces]
        if masked:
            mpieces = jnp.split(mask, split)
            dseq = dseq.mask([m for m in mpieces])
            d = d.mask(mask)
            comps = [c.mask(m) for c, m in zip(comps, mpieces)]
        s2, lp2 = jax.vmap(d.sample_and_log_prob)(keys[K:])
        res = {
            "logps": jax.vmap(d.log_prob)(values), "logps_seq": jax.vmap(dseq.log_prob)(values),
            "probs": jax.vmap(d.prob)(values), "entropy": d.entropy(), "entropy_seq": dseq.entropy(),
            "mode": d.mode(), "samples": jax.vmap(d.sample)(keys[:K]), "slp_samples": s2, "slp_logps": lp2,
            "comp_logps": [jax.vmap(c.log_prob)(jnp.arange(k)) for c, k in zip(comps, dims_t)],
            "comp_entropies": jnp.stack([c.entropy() for c in comps]),
            "logits_prop": d.logits, "mode_seq": dseq.mode(),
        }
        if enumerate_all:
            res["total_mass"] = jnp.sum(jax.vmap(d.prob)(all_t))
        return res

    return jax.jit(jax.vmap(one)) if jit else jax.vmap(one)


def _check_mc(ctx, dims, form, masked, B, K):
    rng = ctx.rng
    dims = tuple(int(d) for d in dims)
    total = sum(dims)
    n_values = 10
    enumerate_all = int(np.prod(dims)) <= 600
    fn = _mc_fn(dims, form, masked, K, n_values, enumerate_all)
    split = np.cumsum(dims)[:-1]
    if form == "logits":
        raw = np.concatenate([_gen_logits(rng, d, B) for d in dims], axis=1)
        raw = np.where(np.isfinite(raw), raw, -30.0) if rng.random() < 0.5 else raw
    else:
        raw = np.concatenate([_gen_probs(rng, d, B) for d in dims], axis=1)
    params = _cast(ctx, raw)
    valid = np.isfinite(params) if form == "logits" else params > 0
    if masked:
        mask = np.concatenate([_gen_masks(rng, d, B, v) for d, v in zip(dims, np.split(valid, split, axis=1))], axis=1)
    else:
        mask = np.ones((B, total), bool)
    values = np.stack([np.stack([rng.integers(0, d, size=n_values) for d in dims], axis=-1) for _ in range(B)])
    # a few points outside the support
    for b in range(B):
        j = int(rng.integers(len(dims)))
        values[b, 0, j] = dims[j] + int(rng.integers(0, 3))
        values[b, 1, j] = -1 - int(rng.integers(0, 2))
    keys = jax.random.split(jax.random.key(int(rng.integers(2 ** 31))), B * 2 * K).reshape(B, 2 * K)
    jargs = (jnp.asarray(params, dtype=_f(ctx)), jnp.asarray(mask), jnp.asarray(values), keys)
    try:
        out = fn(*jargs)
    except (jax.errors.ConcretizationTypeError, jax.errors.TracerArrayConversionError) as e:
        # the flat constructor cannot be traced by jax.jit: a Φ failure of "flat or as a sequence";
        # go on eagerly (fewer cases) so that everything else is still checked
        ctx.phi_fail("flat_eq_sequence",
                     {"law": "MultiCategorical", "form": form, "dims": list(dims), "params": params[0],
                      "under": "jax.jit", "error": type(e).__name__},
                     key="multicat-flat-not-jittable")
        B = min(B, 2)
        jargs = tuple(a[:B] for a in jargs)
        out = _mc_fn(dims, form, masked, K, n_values, enumerate_all, False)(*jargs)
    out = jax.tree.map(np.asarray, out)
    for b in range(B):
        impl = {
            "logps": _np(out["logps"][b]), "logps_seq": _np(out["logps_seq"][b]), "probs": _np(out["probs"][b]),
            "entropy": float(out["entropy"][b]), "entropy_seq": float(out["entropy_seq"][b]),
            "mode": out["mode"][b].astype(np.int64),
            "samples": np.concatenate([out["slp_samples"][b]]).astype(np.int64),
            "sample_logps": _np(out["slp_logps"][b]),
            "comp_logps": [_np(c[b]) for c in out["comp_logps"]],
            "comp_entropies": _np(out["comp_entropies"][b]),
            "total_mass": float(out["total_mass"][b]) if enumerate_all else None,
        }
        plain_samples = out["samples"][b].astype(np.int64)
        args = dict(form=form, dims=list(dims), params=params[b], values=values[b],
                    mask=(mask[b] if masked else None))
        res = ctx.drv.call("multicat", impl=impl, tol=ctx.tol(16.0), **args)
        case = {"law": "MultiCategorical", **args}
        ctx.case(case, True, sample={**case, "impl": impl})
        ctx.count(f"multicat:{form}:{'masked' if masked else 'plain'}:k={len(dims)}"
                  + (":enumerated" if enumerate_all else ""))
        ints = list(impl["mode"].ravel()) + list(impl["samples"].ravel()) + list(plain_samples.ravel())
        if not res["phi"]:
            ctx.phi_fail(res["clause"], {**case, "impl": impl}, key=_fail_key(res["clause"], max(dims), ints))
        # `sample` (without log-prob) must also stay in the support / respect the mask
        ms = np.split(mask[b], split)
        for s in plain_samples:
            for j, d in enumerate(dims):
                v = int(s[j])
                bad = not (0 <= v < d) or not np.isfinite(impl["comp_logps"][j][v])
                if bad or (masked and not ms[j][v]):
                    ctx.phi_fail("sample_in_support", {**case, "sample": s, "component": j},
                                 key=_fail_key("sample_in_support", d, [v]))
                    break
        if (out["mode_seq"][b].astype(np.int64) != impl["mode"]).any():
            ctx.phi_fail("flat_eq_sequence", {**case, "mode_flat": impl["mode"], "mode_seq": out["mode_seq"][b]},
                         key="flat_eq_sequence")
        ok = (ctx.close(res["logps"], impl["logps"], 16.0) and ctx.close(res["probs"], impl["probs"], 16.0)
              and ctx.close(res["entropy"], impl["entropy"], 16.0)
              and ctx.close(res["logps_seq"], impl["logps_seq"], 16.0)
              and all(ctx.close(a, c, 16.0) for a, c in zip(res["comp_logps"], impl["comp_logps"])))
        if not ok:
            ctx.disagree("multicategorical log_prob/prob/entropy", case, impl=impl,
                         model={k: res[k] for k in ("logps", "probs", "entropy", "logps_seq")})
        lp_c = np.concatenate([np.asarray(c, dtype=np.float64) for c in res["comp_logps"]])
        scale = max(1.0, float(np.max(np.abs(lp_c[np.isfinite(lp_c)]))))
        for j, g in enumerate(res["gaps"]):
            if g > 200 * _eps(ctx) * scale and int(res["mode"][j]) != int(impl["mode"][j]):
                ctx.disagree("multicategorical mode", case, impl=impl["mode"], model=res["mode"])
                break


def _multicat(ctx):
    shapes = ctx.budget([(2, 3), (3, 1, 4), (5, 5, 5), (2, 2, 2, 2, 2), (130, 3)],
                        [(1,), (2,), (2, 3), (3, 1, 4), (5, 5, 5), (2, 2, 2, 2, 2), (4, 6, 3, 2), (130, 3),
                         (3, 200), (128, 129), (300,), (7, 11, 13)])
    for dims in shapes:
        for form in ("logits", "probs"):
            for masked in (False, True):
                _check_mc(ctx, dims, form, masked, B=ctx.budget(8, 16), K=ctx.budget(8, 32))


# --------------------------------------------------------------------------- continuous laws

_CLASSES = {"normal": Normal, "diag": MultivariateNormalDiag, "sq": SquashedNormal,
            "sqdiag": SquashedMultivariateNormalDiag}


def _make(kind, loc, scale, lo, hi):
    if kind == "normal":
        return Normal(loc, scale)
    if kind == "diag":
        return MultivariateNormalDiag(loc, scale)
    if kind == "sq":
        return SquashedNormal(loc, scale, high=hi, low=lo)
    return SquashedMultivariateNormalDiag(loc, scale, high=hi, low=lo)


def _components(kind, loc, scale, lo, hi, D):
    """the scalar laws a product law is made of (real lerax classes)"""
    if kind == "diag":
        return [Normal(loc[i], scale[i]) for i in range(D)]
    return [SquashedNormal(loc[i], scale[i], high=hi[i], low=lo[i]) for i in range(D)]


def _try(f):
    try:
        return f()
    except NotImplementedError:
        return None


@functools.lru_cache(maxsize=None)
def _gauss_fn(kind, D, V, K):
    def one(loc, scale, lo, hi, values, keys):
        d = _make(kind, loc, scale, lo, hi)
        s1 = jax.vmap(d.sample)(keys[:K])
        s2, lp2 = jax.vmap(d.sample_and_log_prob)(keys[K:])
        res = {
            "logps": jax.vmap(d.log_prob)(values), "probs": jax.vmap(d.prob)(values),
            "samples": s1, "slp_samples": s2, "slp_logps": lp2,
            "logp_of_slp_samples": jax.vmap(d.log_prob)(s2), "mode": d.mode(),
        }
        ent = _try(d.entropy)
        mean = _try(d.mean)
        if ent is not None:
            res["entropy"] = ent
        if mean is not None:
            res["mean"] = mean
        if kind in ("diag", "sqdiag"):
            comps = _components(kind, loc, scale, lo, hi, D)
            res["comp_sums"] = jax.vmap(lambda v: sum(c.log_prob(v[i]) for i, c in enumerate(comps)))(values)
            if kind == "diag":
                res["comp_entropy_sum"] = sum(c.entropy() for c in comps)
        return res

    return jax.jit(jax.vmap(one))


def _sigmoid(x):
    return np.where(x < -9, np.exp(x), 1.0 / (1.0 + np.exp(-x)))


def _gen_gauss(ctx, kind, D, B):
    rng = ctx.rng
    squashed = kind in ("sq", "sqdiag")
    wide = ctx.x64
    if squashed:
        loc = rng.uniform(-6, 6, size=(B, D)) * rng.choice([0.1, 1.0], size=(B, 1))
        smax = (8.5 - np.abs(loc)) / 6.0
        smin = 1e-2 if wide else 5e-2
        scale = np.exp(rng.uniform(np.log(smin), np.log(smax)))
        default = rng.random(B) < 0.25
        lo = rng.uniform(-10, 10, size=(B, D))
        width = np.exp(rng.uniform(np.log(1e-2 if wide else 0.5), np.log(1e2), size=(B, D)))
        lo = np.where(default[:, None], -1.0, np.round(lo, 2))
        hi = np.where(default[:, None], 1.0, lo + width)
        # narrow intervals anchored at 0 (where the float type still resolves them): anything that treats
        # the bounds with an ABSOLUTE margin shows up here
        narrow = (rng.random(B) < 0.2) & ~default
        nwidth = rng.choice([1e-5, 1e-4, 1e-3], size=(B, 1)) * np.ones((B, D))
        lo = np.where(narrow[:, None], 0.0, lo)
        hi = np.where(narrow[:, None], nwidth, hi)
        ctx.count("squashed:narrow-intervals", int(narrow.sum()))
    else:
        loc = rng.uniform(-1, 1, size=(B, D)) * rng.choice([0.0, 1.0, 50.0], size=(B, 1))
        scale = np.exp(rng.uniform(np.log(1e-2), np.log(1e2), size=(B, D)))
        if not wide:
            scale = np.maximum(scale, 1e-4 * np.abs(loc) * 50)
        lo = np.zeros((B, D))
        hi = np.ones((B, D))
    return tuple(_cast(ctx, a) for a in (loc, scale, lo, hi))


def _cond(ctx, kind, loc, scale, lo, hi, y):
    """bound on the log-density error caused by rounding the point `y` to the implementation's
    float type (per point; summed over dimensions)"""
    eps = _eps(ctx)
    if kind in ("sq", "sqdiag"):
        u = np.clip((y - lo) / (hi - lo), 1e-300, 1 - 1e-17)
        x = np.log(u) - np.log1p(-u)
        z = (x - loc) / scale
        dy = eps * (np.maximum(np.abs(lo), np.abs(hi)) + (hi - lo))
        dx = dy / ((hi - lo) * np.maximum(u * (1 - u), 1e-300)) + eps * (np.abs(x) + 1)
        return x, z, ((np.abs(z) / scale + 2) * dx).sum(-1)
    z = (y - loc) / scale
    dx = eps * (np.abs(y) + np.abs(loc))
    return y, z, ((np.abs(z) / scale) * dx + eps).sum(-1)


def _check_gauss(ctx, kind, D, B, V, K):
    rng = ctx.rng
    squashed = kind in ("sq", "sqdiag")
    summed = kind in ("diag", "sqdiag")
    fn = _gauss_fn(kind, D, V, K)
    Dm = max(D, 1)
    loc, scale, lo, hi = _gen_gauss(ctx, kind, Dm, B)
    # query points inside the support: y = g(loc + scale * t)
    t = rng.choice([0.0, 0.5, -0.5, 1.0, -2.0, 3.0, -3.0], size=(B, V, Dm)) + rng.normal(0, 0.3, size=(B, V, Dm))
    t[:, 0] = 0.0
    x = loc[:, None, :] + scale[:, None, :] * t
    values = lo[:, None, :] + (hi - lo)[:, None, :] * _sigmoid(x) if squashed else x
    values = _cast(ctx, values)
    keys = jax.random.split(jax.random.key(int(rng.integers(2 ** 31))), B * 2 * K).reshape(B, 2 * K)
    ft = _f(ctx)
    j = lambda a: jnp.asarray(a, dtype=ft)
    if D == 0:      # scalar event (shape ()) laws
        sq = lambda a: a[..., 0]
        out = fn(j(sq(loc)), j(sq(scale)), j(sq(lo)), j(sq(hi)), j(sq(values)), keys)
    else:
        out = fn(j(loc), j(scale), j(lo), j(hi), j(values), keys)
    out = jax.tree.map(np.asarray, out)
    vec = (lambda a: _np(a).reshape(a.shape[0], -1)) if not summed else (lambda a: _np(a).reshape(-1, 1))
    budget = 50.0 * ctx.atol
    for b in range(B):
        lb, sb, lob, hib = loc[b], scale[b], lo[b], hi[b]
        # noise read back from the samples
        s_all = _np(np.concatenate([out["slp_samples"][b].reshape(K, Dm), out["samples"][b].reshape(K, Dm)]))
        _, z_all, c_all = _cond(ctx, kind, lb, sb, lob, hib, s_all)
        _, _, c_val = _cond(ctx, kind, lb, sb, lob, hib, values[b])
        inside = np.ones(len(s_all), bool)
        if squashed:
            inside = ((s_all > lob) & (s_all < hib)).all(-1)
        well = (c_all <= budget) & inside & np.isfinite(z_all).all(-1)
        wellv = c_val <= budget
        scale_tol = 8.0 + float(max(np.max(c_all[well], initial=0.0), np.max(c_val[wellv], initial=0.0))) / ctx.atol
        impl = {
            "logps": vec(out["logps"][b]), "probs": vec(out["probs"][b]),
            "samples": s_all, "sample_logps": vec(out["slp_logps"][b]),
            "logp_of_samples": vec(out["logp_of_slp_samples"][b]),
            "well_conditioned": well[:K], "mode": _np(out["mode"][b]).reshape(-1),
            "comp_sums": _np(out["comp_sums"][b]) if summed else np.zeros(V),
        }
        args = dict(kind=kind, loc=lb, scale=sb, values=values[b], zs=np.where(np.isfinite(z_all), z_all, 0.0)[:K])
        if squashed:
            args.update(lo=lob, hi=hib)
        res = ctx.drv.call("gauss", impl=impl, tol=ctx.tol(scale_tol), **args)
        case = {"law": _CLASSES[kind].__name__, "dims": D, **args}
        ctx.case(case, True, sample={**case, "impl": impl})
        ctx.count(f"{kind}:D={D}")
        ctx.count(f"{kind}:points-well-conditioned", int(wellv.sum()))
        ctx.count(f"{kind}:points-ill-conditioned(skipped)", int((~wellv).sum()))
        ctx.count(f"{kind}:samples-well-conditioned", int(well[:K].sum()))
        ctx.count(f"{kind}:samples-ill-conditioned(skipped)", int((~well[:K]).sum()))
        if not res["phi"]:
            ctx.phi_fail(res["clause"], {**case, "impl": impl}, key=res["clause"])
        m_logps = np.asarray(res["logps"], dtype=np.float64).reshape(V, -1)
        if not _close_pt(ctx, m_logps[wellv], impl["logps"][wellv], c_val[wellv]):
            ctx.disagree(f"{kind} log_prob", case, impl=impl["logps"], model=m_logps)
        m_slp = np.asarray(res["sample_logps"], dtype=np.float64).reshape(K, -1)
        if not _close_pt(ctx, m_slp[well[:K]], impl["sample_logps"][well[:K]], c_all[:K][well[:K]]):
            ctx.disagree(f"{kind} sample_and_log_prob log-density", case, impl=impl["sample_logps"], model=m_slp)
        m_samples = np.asarray(res["samples"], dtype=np.float64).reshape(K, -1)
        if not ctx.close(m_samples[well[:K]], s_all[:K][well[:K]], 8.0):
            ctx.disagree(f"{kind} sample = g(loc + scale*z)", case, impl=s_all[:K], model=m_samples)
        if not ctx.close(res["mode"], impl["mode"], 8.0):
            ctx.disagree(f"{kind} mode", case, impl=impl["mode"], model=res["mode"])
        if "mean" in out:
            if not ctx.close(res["mean"], _np(out["mean"][b]).reshape(-1), 8.0):
                ctx.disagree(f"{kind} mean", case, impl=out["mean"][b], model=res["mean"])
        elif not squashed:
            ctx.phi_fail("mean_defined", case, key="mean-not-implemented")
        if "entropy" in out:
            if not ctx.close(res["entropy"], _np(out["entropy"][b]).reshape(-1), 8.0):
                ctx.disagree(f"{kind} entropy", case, impl=out["entropy"][b], model=res["entropy"])
            if kind == "diag" and not ctx.close(out["comp_entropy_sum"][b], out["entropy"][b], 8.0):
                ctx.phi_fail("entropy_sum_of_components", {**case, "entropy": out["entropy"][b],
                                                           "sum": out["comp_entropy_sum"][b]})
        elif not squashed:
            ctx.phi_fail("entropy_defined", case, key="entropy-not-implemented")
        else:
            ctx.count(f"{kind}:entropy-not-defined(NotImplementedError)")


def _outside_points(ctx):
    """at and outside the bounds of a squashed law the density must not be a positive number"""
    rng = ctx.rng
    for _ in range(ctx.budget(6, 20)):
        lo = float(np.round(rng.uniform(-5, 5), 2))
        hi = lo + float(np.round(rng.uniform(0.1, 10), 2))
        mu, sg = float(rng.uniform(-2, 2)), float(rng.uniform(0.1, 1.0))
        ft = _f(ctx)
        d = SquashedNormal(jnp.asarray(mu, ft), jnp.asarray(sg, ft), high=jnp.asarray(hi, ft), low=jnp.asarray(lo, ft))
        dm = SquashedMultivariateNormalDiag(jnp.asarray([mu, mu], ft), jnp.asarray([sg, sg], ft),
                                           high=jnp.asarray([hi, hi], ft), low=jnp.asarray([lo, lo], ft))
        mid = 0.5 * (lo + hi)
        for y in (lo, hi, lo - 0.5, hi + 1.0, lo - 100.0):
            p = float(d.prob(jnp.asarray(y, ft)))
            pm = float(dm.prob(jnp.asarray([y, mid], ft)))
            case = {"law": "SquashedNormal", "loc": mu, "scale": sg, "lo": lo, "hi": hi, "y": y}
            ctx.case(case, True)
            ctx.count("squashed:point-at-or-outside-bounds")
            if np.isfinite(p) and p > 0:
                ctx.phi_fail("outside_support_zero", {**case, "prob": p}, key="outside_support_zero")
            if np.isfinite(pm) and pm > 0:
                ctx.phi_fail("outside_support_zero", {**case, "law": "SquashedMultivariateNormalDiag", "prob": pm},
                             key="outside_support_zero")


def _gauss(ctx):
    for kind in ("normal", "diag", "sq", "sqdiag"):
        dims = [0, 1, 3] if kind in ("normal", "sq") else [1, 2, 5]
        if not ctx.quick:
            dims = dims + [8]
        for D in dims:
            _check_gauss(ctx, kind, D, B=ctx.budget(16, 40), V=8, K=ctx.budget(12, 40))
    _outside_points(ctx)


# --------------------------------------------------------------------------- supporting searches

def _ks_stat(samples, cdf):
    s = np.sort(samples)
    n = len(s)
    c = cdf(s)
    return max(np.max(np.arange(1, n + 1) / n - c), np.max(c - np.arange(0, n) / n))


def _norm_cdf(x):
    return 0.5 * (1.0 + np.vectorize(math.erf)(x / math.sqrt(2.0)))


def _statistical(ctx):
    """quadrature of exp(log_prob), KS statistic of 4096 samples, category frequencies"""
    rng = ctx.rng
    ft = _f(ctx)
    N = 4096
    ks_limit = 2.2 / math.sqrt(N)       # P(KS > 2.2/sqrt N) ~ 1e-4 ... combined with a re-draw below
    for _ in range(ctx.budget(4, 12)):
        mu = float(rng.uniform(-2, 2))
        sg = float(np.exp(rng.uniform(np.log(0.2), np.log(1.2))))
        lo = float(np.round(rng.uniform(-5, 5), 1))
        hi = lo + float(np.round(rng.uniform(0.5, 8), 1))
        laws = {
            "Normal": (Normal(jnp.asarray(mu, ft), jnp.asarray(sg, ft)), mu - 10 * sg, mu + 10 * sg,
                       lambda y: _norm_cdf((y - mu) / sg)),
            "SquashedNormal": (SquashedNormal(jnp.asarray(mu, ft), jnp.asarray(sg, ft), high=jnp.asarray(hi, ft),
                                              low=jnp.asarray(lo, ft)), lo, hi,
                               lambda y: _norm_cdf((np.log((y - lo) / (hi - lo)) - np.log1p(-(y - lo) / (hi - lo)) - mu) / sg)),
        }
        for name, (d, a, b, cdf) in laws.items():
            case = {"law": name, "loc": mu, "scale": sg, "lo": lo, "hi": hi}
            # quadrature (midpoint rule in the base coordinate for the squashed law)
            if name == "Normal":
                ys = np.linspace(a, b, 20001)
                w = np.full_like(ys, (b - a) / 20000.0)
                w[0] = w[-1] = w[0] / 2
            else:
                xs = np.linspace(mu - 10 * sg, mu + 10 * sg, 20001)
                ys = lo + (hi - lo) * _sigmoid(xs)
                w = np.gradient(ys)
                w[0] = w[-1] = w[0] / 2
            p = np.asarray(jax.vmap(d.prob)(jnp.asarray(ys, ft)), dtype=np.float64)
            mass = float(np.nansum(p * w))
            ctx.case({**case, "search": "quadrature"}, True)
            ctx.count("search:quadrature")
            if abs(mass - 1.0) > (2e-3 if not ctx.x64 else 1e-5):
                ctx.phi_fail("mass_one(quadrature)", {**case, "mass": mass}, key="mass_one")
            # Kolmogorov–Smirnov against the law implied by the density
            ks = 1.0
            for attempt in range(2):
                keys = jax.random.split(jax.random.key(int(rng.integers(2 ** 31))), N)
                s = np.asarray(jax.vmap(d.sample)(keys), dtype=np.float64)
                ks = min(ks, _ks_stat(s, cdf))
                if ks <= ks_limit:
                    break
            ctx.case({**case, "search": "ks"}, True)
            ctx.count("search:ks")
            if ks > ks_limit:
                ctx.phi_fail("samples_follow_density(KS)", {**case, "ks": ks, "limit": ks_limit}, key="samples_follow_density")
    for n in ctx.budget([3, 150], [3, 7, 150, 300]):
        logits = _cast(ctx, rng.normal(0, 1.0, size=n))
        d = Categorical(logits=jnp.asarray(logits, ft))
        probs = np.asarray(d.probs, dtype=np.float64)
        worst = 0.0
        for attempt in range(2):
            keys = jax.random.split(jax.random.key(int(rng.integers(2 ** 31))), N)
            s = np.asarray(jax.vmap(d.sample)(keys)).astype(np.int64)
            cnt = np.bincount(np.clip(s, 0, n - 1), minlength=n) if ((s >= 0) & (s < n)).all() else None
            if cnt is None:
                worst = float("inf")
                break
            zscore = np.abs(cnt - N * probs) / np.sqrt(N * probs * (1 - probs) + 1.0)
            worst = float(np.max(zscore))
            if worst <= 5.0:
                break
        case = {"law": "Categorical", "n": n, "logits": logits, "search": "frequencies"}
        ctx.case(case, True)
        ctx.count("search:category-frequencies")
        if worst > 5.0:
            ctx.phi_fail("samples_follow_density(frequencies)", {**case, "worst_z": worst},
                         key=INT8_KEY if (n > 127 and not np.isfinite(worst)) else "samples_follow_density")


def _joint_independence(ctx):
    """product laws: the components of a sample are independent — also when components have the same
    size / the same parameters (pairwise coincidence frequency and joint frequencies vs the product)"""
    from lerax.distribution import MultiCategorical, MultivariateNormalDiag
    rng = ctx.rng
    ft = _f(ctx)
    N = 4096
    for dims in ctx.budget([(3, 3), (2, 3), (4, 2, 4)], [(3, 3), (2, 3), (4, 2, 4), (2, 2, 2), (5, 5), (3, 4, 3)]):
        base = _cast(ctx, rng.normal(0, 1.0, size=max(dims)))
        same = bool(rng.random() < 0.7)
        parts = [base[:n] if same else _cast(ctx, rng.normal(0, 1.0, size=n)) for n in dims]
        d = MultiCategorical(logits=jnp.asarray(np.concatenate(parts), ft), action_dims=dims)
        probs = [np.exp(p - p.max()) / np.exp(p - p.max()).sum() for p in parts]
        worst, detail = 0.0, None
        for attempt in range(2):
            keys = jax.random.split(jax.random.key(int(rng.integers(2 ** 31))), N)
            smp = np.asarray(jax.vmap(d.sample)(keys)).astype(np.int64)
            worst, detail = 0.0, None
            for i in range(len(dims)):
                for j in range(i + 1, len(dims)):
                    joint = np.zeros((dims[i], dims[j]))
                    np.add.at(joint, (np.clip(smp[:, i], 0, dims[i] - 1), np.clip(smp[:, j], 0, dims[j] - 1)), 1)
                    exp = N * np.outer(probs[i], probs[j])
                    z = np.abs(joint - exp) / np.sqrt(exp * (1 - exp / N) + 1.0)
                    if z.max() > worst:
                        worst, detail = float(z.max()), {"components": [i, j], "observed": joint, "expected": exp}
            if worst <= 5.5:
                break
        case = {"law": "MultiCategorical", "action_dims": list(dims), "identical_components": same,
                "logits": [p for p in parts], "search": "joint-frequencies"}
        ctx.case(case, True)
        ctx.count("search:joint-independence")
        if worst > 5.5:
            ctx.phi_fail("samples_follow_product_density(joint frequencies)", {**case, "worst_z": worst, **(detail or {})},
                         key="joint_sample_law")
    for D in ctx.budget([2], [2, 3]):
        loc = _cast(ctx, np.zeros(D)); scale = _cast(ctx, np.ones(D))
        d = MultivariateNormalDiag(jnp.asarray(loc, ft), jnp.asarray(scale, ft))
        keys = jax.random.split(jax.random.key(int(rng.integers(2 ** 31))), N)
        smp = np.asarray(jax.vmap(d.sample)(keys), dtype=np.float64)
        corr = np.corrcoef(smp.T)
        off = np.abs(corr - np.eye(D)).max()
        case = {"law": "MultivariateNormalDiag", "D": D, "search": "component-correlation", "max_abs_corr": float(off)}
        ctx.case(case, True)
        ctx.count("search:joint-independence")
        if off > 6.0 / math.sqrt(N):
            ctx.phi_fail("samples_follow_product_density(correlation)", case, key="joint_sample_law")


def run(ctx):
    _joint_independence(ctx)
    _categorical(ctx)
    _bernoulli(ctx)
    _multicat(ctx)
    _gauss(ctx)
    _statistical(ctx)
    ctx.note("continuous laws: points/samples whose log-density is ill-conditioned in the "
             "implementation's float type (inverse sigmoid near saturation, |loc| >> scale) are "
             "counted and skipped; parameters keep |loc| + 6*scale <= 8.5 for squashed laws")
