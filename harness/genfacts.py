"""Regenerate, from the CURRENT source, the Lean facts that depend on constants the code ships with.

This is the "model regenerated from the source on every run" tie for the part of the model where it
is robust: default parameters and hyper-parameters.  The values are read from the live objects
(default-constructed lerax environments / algorithms, `inspect.signature` defaults, the installed
Gymnasium's reference environments), converted to exact rationals (the shortest decimal that
round-trips the value at float32 precision, e.g. 9.8 -> 49/5) and written as Lean definitions together with the
theorems that must hold of them:

  C17  lerax's default classic-control parameters, mapped by `cartG/mcG/cmcG/acroG`, ARE the parameters
       of Gymnasium's reference environments (so the `*_field_eq/_limits_eq/_reward_eq` theorems, which
       hold for every parameter set, relate the two *shipped* MDPs);
  C08  the shipped PPO/A2C/REINFORCE hyper-parameters satisfy the hypotheses of
       `on_policy_ratio_one` (0 <= clip coefficient) and `clip_global_norm_bound` (0 <= max_grad_norm);
  C10  the shipped DQN/SAC schedule parameters satisfy `1 <= target_update_interval`,
       `0 <= tau <= 1`, `1 <= policy_frequency`;
  C20  the shipped G1 randomisation ranges are well-ordered with non-negative scale factors, i.e. the
       range hypotheses under which `randomized_in_range` is non-vacuous.

The generated file is compiled by `check` (lake env lean).  A fact that no longer compiles is a broken
proof obligation: `check` reports it as a broken tie and the harness searches for a failing input.
An attribute that can no longer be read (renamed field, changed signature) is *skipped with a note*,
never an alarm.

usage: python -m harness.genfacts C17 out.lean   (prints a JSON summary on stdout)
"""
from __future__ import annotations

import inspect
import json
import sys
from fractions import Fraction


def q(x) -> str:
    """exact rational literal of the shortest decimal that round-trips the value AT FLOAT32 PRECISION
    (lerax stores its constants as float32 arrays, Gymnasium as Python floats: both sides are
    canonicalised the same way, e.g. 9.800000190734863 and 9.8 both become 49/5)"""
    import numpy as np
    f = Fraction(str(np.float32(x))) if not isinstance(x, int) else Fraction(x)
    if f.denominator == 1:
        return f"({f.numerator} : ℚ)" if f.numerator >= 0 else f"(-{-f.numerator} : ℚ)"
    if f.numerator < 0:
        return f"(-{-f.numerator} / {f.denominator} : ℚ)"
    return f"({f.numerator} / {f.denominator} : ℚ)"


def getattrs(obj, names, notes, label):
    out = {}
    for n in names:
        try:
            v = getattr(obj, n)
            out[n] = float(v) if not isinstance(v, (list, tuple)) and getattr(v, "ndim", 0) == 0 else [float(t) for t in v]
        except Exception as exc:  # renamed / removed attribute: skip, never alarm
            notes.append(f"{label}.{n} not readable ({type(exc).__name__}); fact skipped")
            return None
    return out


def sig_defaults(fn, names, notes, label):
    try:
        params = inspect.signature(fn).parameters
    except Exception as exc:
        notes.append(f"{label}: signature not readable ({type(exc).__name__}); facts skipped")
        return None
    out = {}
    for n in names:
        p = params.get(n)
        if p is None or p.default is inspect.Parameter.empty:
            notes.append(f"{label}.{n}: no default; fact skipped")
            return None
        out[n] = p.default
    return out


def facts_c17(lines, notes):
    import gymnasium as gym

    from lerax.env.classic_control import Acrobot, CartPole, ContinuousMountainCar, MountainCar

    lines.append("open Lerax.Classic Lerax.GymRef Lerax.C17")
    n = 0
    # --- CartPole
    lx = getattrs(CartPole(), ["gravity", "cart_mass", "pole_mass", "length", "force_mag",
                               "theta_threshold_radians", "x_threshold", "dt"], notes, "CartPole")
    g = gym.make("CartPole-v1").unwrapped
    gx = getattrs(g, ["gravity", "masscart", "masspole", "length", "force_mag", "tau",
                      "theta_threshold_radians", "x_threshold"], notes, "gym CartPole-v1")
    if lx and gx:
        lines.append(f"""def leraxCartPole : CartPoleP ℚ :=
  {{ gravity := {q(lx['gravity'])}, cartMass := {q(lx['cart_mass'])}, poleMass := {q(lx['pole_mass'])},
    length := {q(lx['length'])}, forceMag := {q(lx['force_mag'])}, thetaThreshold := {q(lx['theta_threshold_radians'])},
    xThreshold := {q(lx['x_threshold'])}, dt := {q(lx['dt'])} }}
def gymCartPole : CartPoleG ℚ :=
  {{ gravity := {q(gx['gravity'])}, masscart := {q(gx['masscart'])}, masspole := {q(gx['masspole'])},
    length := {q(gx['length'])}, forceMag := {q(gx['force_mag'])}, tau := {q(gx['tau'])},
    thetaThreshold := {q(gx['theta_threshold_radians'])}, xThreshold := {q(gx['x_threshold'])} }}
/-- the shipped CartPole has Gymnasium CartPole-v1's constants (θ threshold compared as float32-rounded decimals) -/
theorem cartpole_defaults_eq_gym : cartG leraxCartPole = gymCartPole := by
  norm_num [cartG, leraxCartPole, gymCartPole]""")
        n += 1
    # --- MountainCar
    lx = getattrs(MountainCar(), ["min_position", "max_position", "max_speed", "goal_position",
                                  "goal_velocity", "force", "gravity"], notes, "MountainCar")
    g = gym.make("MountainCar-v0").unwrapped
    gx = getattrs(g, ["min_position", "max_position", "max_speed", "goal_position", "goal_velocity",
                      "force", "gravity"], notes, "gym MountainCar-v0")
    if lx and gx:
        def rec(d):
            return (f"{{ minPosition := {q(d['min_position'])}, maxPosition := {q(d['max_position'])}, "
                    f"maxSpeed := {q(d['max_speed'])}, goalPosition := {q(d['goal_position'])}, "
                    f"goalVelocity := {q(d['goal_velocity'])}, force := {q(d['force'])}, gravity := {q(d['gravity'])}")
        lines.append(f"""def leraxMountainCar : MountainCarP ℚ :=
  {rec(lx)}, dt := 1 }}
def gymMountainCar : MountainCarG ℚ :=
  {rec(gx)} }}
theorem mountaincar_defaults_eq_gym : mcG leraxMountainCar = gymMountainCar := by
  norm_num [mcG, leraxMountainCar, gymMountainCar]""")
        n += 1
    # --- ContinuousMountainCar
    lx = getattrs(ContinuousMountainCar(), ["min_action", "max_action", "min_position", "max_position",
                                            "max_speed", "goal_position", "goal_velocity", "power"],
                  notes, "ContinuousMountainCar")
    g = gym.make("MountainCarContinuous-v0").unwrapped
    gx = getattrs(g, ["min_action", "max_action", "min_position", "max_position", "max_speed",
                      "goal_position", "goal_velocity", "power"], notes, "gym MountainCarContinuous-v0")
    if lx and gx:
        def rec2(d):
            return (f"{{ minAction := {q(d['min_action'])}, maxAction := {q(d['max_action'])}, "
                    f"minPosition := {q(d['min_position'])}, maxPosition := {q(d['max_position'])}, "
                    f"maxSpeed := {q(d['max_speed'])}, goalPosition := {q(d['goal_position'])}, "
                    f"goalVelocity := {q(d['goal_velocity'])}, power := {q(d['power'])}")
        lines.append(f"""def leraxCmc : CmcP ℚ :=
  {rec2(lx)}, dt := 1 }}
def gymCmc : CmcG ℚ :=
  {rec2(gx)} }}
theorem cmc_defaults_eq_gym : cmcG leraxCmc = gymCmc := by
  norm_num [cmcG, leraxCmc, gymCmc]""")
        n += 1
    # --- Acrobot
    lx = getattrs(Acrobot(), ["gravity", "link_length_1", "link_length_2", "link_mass_1", "link_mass_2",
                              "link_com_pos_1", "link_com_pos_2", "link_moi", "max_vel_1", "max_vel_2",
                              "torques", "dt"], notes, "Acrobot")
    g = gym.make("Acrobot-v1").unwrapped
    gx = getattrs(g, ["LINK_LENGTH_1", "LINK_MASS_1", "LINK_MASS_2", "LINK_COM_POS_1", "LINK_COM_POS_2",
                      "LINK_MOI", "MAX_VEL_1", "MAX_VEL_2", "AVAIL_TORQUE", "dt"], notes, "gym Acrobot-v1")
    if lx and gx:
        pi = 3.141592653589793
        # MAX_VEL are multiples of pi on both sides: compare the multiples
        def lst(xs):
            return "[" + ", ".join(q(x) for x in xs) + "]"
        lines.append(f"""def leraxAcrobot : AcrobotP ℚ :=
  {{ gravity := {q(lx['gravity'])}, l1 := {q(lx['link_length_1'])}, l2 := {q(lx['link_length_2'])},
    m1 := {q(lx['link_mass_1'])}, m2 := {q(lx['link_mass_2'])}, lc1 := {q(lx['link_com_pos_1'])},
    lc2 := {q(lx['link_com_pos_2'])}, moi := {q(lx['link_moi'])},
    maxVel1 := {q(round(lx['max_vel_1'] / pi, 5))}, maxVel2 := {q(round(lx['max_vel_2'] / pi, 5))},
    torques := {lst(lx['torques'])}, dt := {q(lx['dt'])} }}
def gymAcrobot : AcrobotG ℚ :=
  {{ l1 := {q(gx['LINK_LENGTH_1'])}, m1 := {q(gx['LINK_MASS_1'])}, m2 := {q(gx['LINK_MASS_2'])},
    lc1 := {q(gx['LINK_COM_POS_1'])}, lc2 := {q(gx['LINK_COM_POS_2'])}, moi := {q(gx['LINK_MOI'])},
    g := (49 / 5 : ℚ), maxVel1 := {q(round(gx['MAX_VEL_1'] / pi, 5))}, maxVel2 := {q(round(gx['MAX_VEL_2'] / pi, 5))},
    availTorque := {lst(gx['AVAIL_TORQUE'])}, dt := {q(gx['dt'])} }}
/-- velocity limits are compared as multiples of π; Gymnasium hard-codes g = 9.8 inside `_dsdt` -/
theorem acrobot_defaults_eq_gym : acroG leraxAcrobot = gymAcrobot := by
  norm_num [acroG, leraxAcrobot, gymAcrobot]""")
        n += 1
    return n


def facts_c08(lines, notes):
    from lerax.algorithm import A2C, PPO, REINFORCE
    n = 0
    d = sig_defaults(PPO.__init__, ["clip_coefficient", "max_grad_norm", "gamma", "gae_lambda"], notes, "PPO")
    if d:
        lines.append(f"""/-- shipped PPO defaults meet the hypotheses of `on_policy_ratio_one` (0 ≤ ε) and
    `clip_global_norm_bound` (0 ≤ max_grad_norm); γ, λ ∈ [0, 1] -/
theorem ppo_defaults_ok : (0 : ℚ) ≤ {q(d['clip_coefficient'])} ∧ (0 : ℚ) ≤ {q(d['max_grad_norm'])} ∧
    (0 : ℚ) ≤ {q(d['gamma'])} ∧ {q(d['gamma'])} ≤ 1 ∧ (0 : ℚ) ≤ {q(d['gae_lambda'])} ∧ {q(d['gae_lambda'])} ≤ 1 := by norm_num""")
        n += 1
    for cls in (A2C, REINFORCE):
        d = sig_defaults(cls.__init__, ["max_grad_norm", "gamma"], notes, cls.__name__)
        if d:
            lines.append(f"""theorem {cls.__name__.lower()}_defaults_ok : (0 : ℚ) ≤ {q(d['max_grad_norm'])} ∧ (0 : ℚ) ≤ {q(d['gamma'])} ∧ {q(d['gamma'])} ≤ 1 := by norm_num""")
            n += 1
    return n


def facts_c10(lines, notes):
    from lerax.algorithm import DQN, SAC
    n = 0
    d = sig_defaults(DQN.__init__, ["target_update_interval", "num_envs", "num_steps", "gamma"], notes, "DQN")
    if d:
        lines.append(f"""/-- shipped DQN defaults: `1 ≤ target_update_interval` (hypothesis of `dqn_target_is_last_multiple`),
    `0 < num_envs·num_steps` (hypothesis of `iterations_floor`) -/
theorem dqn_defaults_ok : 1 ≤ ({int(d['target_update_interval'])} : Nat) ∧ 0 < ({int(d['num_envs'])} : Nat) * {int(d['num_steps'])} ∧
    (0 : ℚ) ≤ {q(d['gamma'])} ∧ {q(d['gamma'])} ≤ 1 := by norm_num""")
        n += 1
    d = sig_defaults(SAC.__init__, ["tau", "policy_frequency", "num_envs", "num_steps", "gamma"], notes, "SAC")
    if d:
        lines.append(f"""/-- shipped SAC defaults: Polyak factor in [0, 1], `1 ≤ policy_frequency`, non-empty iterations -/
theorem sac_defaults_ok : (0 : ℚ) ≤ {q(d['tau'])} ∧ {q(d['tau'])} ≤ 1 ∧ 1 ≤ ({int(d['policy_frequency'])} : Nat) ∧
    0 < ({int(d['num_envs'])} : Nat) * {int(d['num_steps'])} ∧ (0 : ℚ) ≤ {q(d['gamma'])} ∧ {q(d['gamma'])} ≤ 1 := by norm_num""")
        n += 1
    return n


def facts_c20(lines, notes):
    from lerax.env.unitree.g1 import randomize
    n = 0
    d = sig_defaults(randomize.randomize_model, ["friction_range", "friction_loss_scale_range",
                                                 "armature_scale_range", "mass_scale_range",
                                                 "torso_offset_range"], notes, "randomize_model")
    if d:
        def pair(t):
            return f"({q(t[0])}, {q(t[1])})"
        lines.append(f"""open Lerax.G1 in
def shippedRanges : RandRanges ℚ :=
  {{ friction := {pair(d['friction_range'])}, floss := {pair(d['friction_loss_scale_range'])},
    armature := {pair(d['armature_scale_range'])}, mass := {pair(d['mass_scale_range'])},
    torso_offset := {pair(d['torso_offset_range'])} }}
/-- the shipped randomisation ranges are well-ordered, the multiplicative factors non-negative (so a
    non-negative nominal value stays non-negative and `nominal·lo ≤ nominal·hi`), friction positive -/
theorem shipped_ranges_ok :
    shippedRanges.friction.1 ≤ shippedRanges.friction.2 ∧ 0 < shippedRanges.friction.1 ∧
    shippedRanges.floss.1 ≤ shippedRanges.floss.2 ∧ 0 ≤ shippedRanges.floss.1 ∧
    shippedRanges.armature.1 ≤ shippedRanges.armature.2 ∧ 0 ≤ shippedRanges.armature.1 ∧
    shippedRanges.mass.1 ≤ shippedRanges.mass.2 ∧ 0 ≤ shippedRanges.mass.1 ∧
    shippedRanges.torso_offset.1 ≤ shippedRanges.torso_offset.2 := by
  simp only [shippedRanges]; norm_num""")
        n += 1
    return n


GEN = {"C17": (["LeraxProofs.C17"], facts_c17), "C08": (["LeraxProofs.C08"], facts_c08),
       "C10": (["LeraxProofs.C10"], facts_c10), "C20": (["LeraxProofs.C20"], facts_c20)}


def main():
    pid, out = sys.argv[1], sys.argv[2]
    imports, fn = GEN[pid]
    notes, lines = [], []
    n = fn(lines, notes)
    with open(out, "w") as fh:
        fh.write("-- GENERATED by harness/genfacts.py from the live default objects of /repo on every run; do not edit\n")
        for m in imports:
            fh.write(f"import {m}\n")
        fh.write("import Mathlib.Tactic.NormNum\n")
        fh.write(f"namespace Lerax.GeneratedFacts.{pid}\n")
        fh.write("\n\n".join(lines))
        fh.write(f"\nend Lerax.GeneratedFacts.{pid}\n")
    print(json.dumps({"facts": n, "notes": notes}))


if __name__ == "__main__":
    main()
