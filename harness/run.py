"""Run one property's correspondence harness in this process and write its result JSON.

usage: python -m harness.run C03 --tier quick --seed 0 --x64 0 --out result.json
(JAX_ENABLE_X64 must already be set in the environment by the caller for --x64 1.)
"""
from __future__ import annotations

import argparse
import importlib
import json
import os
import sys
import traceback

sys.path.insert(0, os.path.dirname(os.path.dirname(os.path.abspath(__file__))))


def main():
    ap = argparse.ArgumentParser()
    ap.add_argument("pid")
    ap.add_argument("--tier", default="quick")
    ap.add_argument("--seed", type=int, default=0)
    ap.add_argument("--x64", type=int, default=0)
    ap.add_argument("--out", required=True)
    ns = ap.parse_args()

    from harness.common.ctx import Ctx

    ctx = Ctx(ns.pid, ns.tier, ns.seed, bool(ns.x64))
    status = "ok"
    err = None
    try:
        mod = importlib.import_module(f"harness.{ns.pid.lower()}")
        mod.run(ctx)
    except Exception:
        status = "error"
        err = traceback.format_exc()
    finally:
        ctx.drv.close()
    res = ctx.result()
    res["status"] = status
    res["error"] = err
    with open(ns.out, "w") as fh:
        json.dump(res, fh, indent=1)
    if err:
        sys.stderr.write(err)
        sys.exit(3)


if __name__ == "__main__":
    main()
