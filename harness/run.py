"""Run one property's correspondence harness in this process and write its result JSON.

usage: python -m harness.run C03 --tier quick --seed 0 --x64 0 --out result.json
(JAX_ENABLE_X64 must already be set in the environment by the caller for --x64 1.)
"""
from __future__ import annotations

import argparse
import importlib
import json
import os
import sys
import traceback

sys.path.insert(0, os.path.dirname(os.path.dirname(os.path.abspath(__file__))))


def main():
    ap = argparse.ArgumentParser()
    ap.add_argument("pid")
    ap.add_argument("--tier", default="quick")
    ap.add_argument("--seed", type=int, default=0)
    ap.add_argument("--x64", type=int, default=0)
    ap.add_argument("--out", required=True)
    ns = ap.parse_args()

    from harness.common.ctx import Ctx

    ctx = Ctx(ns.pid, ns.tier, ns.seed, bool(ns.x64))
    status = "ok"
    err = None
    try:
        mod = importlib.import_module(f"harness.{ns.pid.lower()}")
        mod.run(ctx)
    except Exception as exc:
        err = traceback.format_exc()
        status = "error"
        # An exception raised from lerax's own code while a property scenario is being driven is a
        # failure of the implementation on that scenario (the property says the call returns
        # something), not of the machinery: report it as a Φ-failure with the traceback as replay.
        # Exceptions whose innermost non-library frame is harness code stay machinery failures.
        frames = [f for f in traceback.extract_tb(exc.__traceback__)
                  if "site-packages" not in f.filename and not f.filename.startswith("<")]
        deepest = frames[-1] if frames else None
        verif_root = os.path.dirname(os.path.dirname(os.path.abspath(__file__)))
        if (deepest is not None and "/lerax/" in deepest.filename
                and not os.path.abspath(deepest.filename).startswith(verif_root)):
            harness_frames = [f for f in frames if os.path.abspath(f.filename).startswith(verif_root)]
            ctx.phi_fail(
                "implementation_raised",
                {"exception": type(exc).__name__, "message": str(exc)[:600],
                 "raised_at": f"{deepest.filename}:{deepest.lineno} in {deepest.name}",
                 "driven_from": (f"{harness_frames[-1].filename}:{harness_frames[-1].lineno} in "
                                 f"{harness_frames[-1].name}") if harness_frames else None,
                 "traceback_tail": err[-1500:]},
                key=f"implementation_raised:{type(exc).__name__}")
            status = "ok"
            err = None
    finally:
        ctx.drv.close()
    res = ctx.result()
    res["status"] = status
    res["error"] = err
    with open(ns.out, "w") as fh:
        json.dump(res, fh, indent=1)
    if err:
        sys.stderr.write(err)
        sys.exit(3)


if __name__ == "__main__":
    main()
