"""C20 — Unitree G1: randomisation within range, gait phase coherent.

Real code driven: `lerax.env.unitree.g1.{gait,randomize}` helpers, `initial()` and `transition()`
of G1Locomotion / G1Standing / G1Standup, against lean/LeraxModel/G1.lean.

Sections
  (1) gait helpers on phase / frequency / dt grids            (g1_advance, g1_foot)
  (2) long phase histories (10 000 steps)                      (g1_history)
  (3) randomize_* / randomize_model on the real base model     (g1_randomize)
  (4) per-episode model, command, frequency, phase of `initial()` for many keys, all tasks
      (physics is dead code for these outputs, XLA drops it)   (g1_randomize, g1_initial)
  (5) full `initial()` with kinematics + short rollouts through `transition()`
      (MJX compile; float32 mode only; quick: one task chosen by the seed, thorough: all)
"""
from __future__ import annotations

import hashlib
import inspect
import math

import equinox as eqx
import jax
import numpy as np
from jax import numpy as jnp
from jax import random as jr
from mujoco import mjx

from lerax.env.unitree.g1 import G1Locomotion, G1Standing, G1Standup, gait, randomize

PI = math.pi
TWO_PI = 2 * math.pi
FIELDS = ("pair_friction", "dof_frictionloss", "dof_armature", "body_mass")
TASKS = (("locomotion", G1Locomotion), ("standing", G1Standing), ("standup", G1Standup))
CLEARANCE = 0.005


# ------------------------------------------------------------------ small helpers

def _ft(ctx):
    return np.float64 if ctx.x64 else np.float32


def _eps(ctx):
    return float(np.finfo(_ft(ctx)).eps)


def _circ(a, b):
    """circular distance modulo 2*pi"""
    d = np.asarray(a, dtype=np.float64) - np.asarray(b, dtype=np.float64)
    return np.abs((d + PI) % TWO_PI - PI)


def _circ_close(ctx, a, b, scale=4.0):
    a = np.asarray(a, dtype=np.float64)
    b = np.asarray(b, dtype=np.float64)
    lim = ctx.atol * scale + ctx.rtol * scale * np.maximum(np.abs(a), np.abs(b))
    return _circ(a, b) <= lim


def _f64(x):
    return np.asarray(x, dtype=np.float64)


# ------------------------------------------------------------------ (1) gait helpers on grids

_adv_v = jax.jit(jax.vmap(gait.advance_gait_phase))
_foot_v = jax.jit(jax.vmap(gait.desired_foot_height))


def _phase_grid(ctx, n):
    ft = _ft(ctx)
    pi_t = float(ft(np.pi))          # what `jnp.pi` becomes in the implementation's dtype
    special = [-pi_t, pi_t, 0.0, -PI / 2, PI / 2, np.nextafter(ft(pi_t), ft(0)),
               np.nextafter(ft(-pi_t), ft(0)), 1e-6, -1e-6]
    g = np.concatenate([np.linspace(-pi_t, pi_t, max(n - len(special), 2)), special])
    return np.clip(g.astype(ft).astype(np.float64), -pi_t, pi_t)


def _gait_grid(ctx):
    rng = ctx.rng
    ft = _ft(ctx)
    n = ctx.budget(600, 6000)
    left = _phase_grid(ctx, n)
    right = rng.permutation(left)
    m = left.shape[0]
    f_special = np.array([0.0, 1.25, 1.5, 1.0, 2.0, 50.0, 0.5])
    dt_special = np.array([0.02, 0.04, 0.0, 0.01, 1.0])
    f = np.where(rng.random(m) < 0.5, rng.choice(f_special, m), rng.uniform(0, 4, m))
    dt = np.where(rng.random(m) < 0.6, rng.choice(dt_special, m), rng.uniform(0, 0.1, m))
    # a share of large increments so that several whole cycles are wrapped at once
    big = rng.random(m) < 0.1
    dt = np.where(big, rng.uniform(0.5, 3.0, m), dt)
    f, dt = f.astype(ft).astype(np.float64), dt.astype(ft).astype(np.float64)
    phase = np.stack([left, right], axis=1)
    nxt = _f64(_adv_v(jnp.asarray(phase, dtype=ft), jnp.asarray(f, dtype=ft),
                      jnp.asarray(dt, dtype=ft)))
    for side in (0, 1):
        out = ctx.drv.call("g1_advance", phase=phase[:, side], f=f, dt=dt, impl=nxt[:, side],
                           tol=ctx.tol(4.0))
        model = np.asarray(out["next"])
        ok = _circ_close(ctx, model, nxt[:, side])
        for i in range(m):
            case = {"fn": "advance_gait_phase", "phase": phase[i, side], "frequency": f[i],
                    "dt": dt[i]}
            wraps = int(round((phase[i, side] + TWO_PI * f[i] * dt[i] - nxt[i, side]) / TWO_PI))
            ctx.case(case, True, sample={**case, "impl_next": nxt[i, side], "model_next": model[i]})
            ctx.count(f"advance:wraps={min(wraps, 3)}" + ("+" if wraps > 3 else ""))
            if abs(abs(phase[i, side]) - PI) < 1e-6:
                ctx.count("advance:phase_at_±pi")
            if f[i] == 0 or dt[i] == 0:
                ctx.count("advance:zero_increment")
            if not out["range"][i]:
                ctx.phi_fail("phase_in_range", {**case, "impl_next": nxt[i, side]},
                             key="gait:phase_in_range")
            if not out["advance"][i]:
                ctx.phi_fail("phase_advance", {**case, "impl_next": nxt[i, side]},
                             key="gait:phase_advance")
            if not ok[i]:
                ctx.disagree("advance_gait_phase (mod 2pi)", case, impl=nxt[i, side], model=model[i])


def _foot(ctx):
    rng = ctx.rng
    ft = _ft(ctx)
    n = ctx.budget(400, 4000)
    ph = _phase_grid(ctx, n)
    m = ph.shape[0]
    swing = np.where(rng.random(m) < 0.5, rng.choice([0.15, 0.0, 0.08, 1.0], m),
                     rng.uniform(0, 0.5, m)).astype(ft).astype(np.float64)
    phase = np.stack([ph, rng.permutation(ph)], axis=1)
    h = _f64(_foot_v(jnp.asarray(phase, dtype=ft), jnp.asarray(swing, dtype=ft)))
    pi_t = float(ft(np.pi))
    for side in (0, 1):
        out = ctx.drv.call("g1_foot", phase=phase[:, side], swing=swing, impl=h[:, side],
                           tol=ctx.tol(4.0))
        model = np.asarray(out["h"])
        for i in range(m):
            p = phase[i, side]
            case = {"fn": "desired_foot_height", "phase": p, "swing_height": swing[i]}
            ctx.case(case, True, sample={**case, "impl": h[i, side], "model": model[i]})
            ctx.count("foot:stance_half" if p <= 0 else "foot:swing_half")
            if not out["bounds"][i]:
                ctx.phi_fail("foot_height_bounds", {**case, "impl": h[i, side]},
                             key="gait:foot_height_bounds")
            if p == -pi_t:
                ctx.count("foot:at_-pi")
                if not ctx.close(h[i, side], 0.0, 4.0):
                    ctx.phi_fail("foot_height_at_minus_pi", {**case, "impl": h[i, side]},
                                 key="gait:foot_height_at_minus_pi")
            if p == 0.0:
                ctx.count("foot:at_0")
                if not ctx.close(h[i, side], swing[i], 4.0):
                    ctx.phi_fail("foot_height_at_zero", {**case, "impl": h[i, side]},
                                 key="gait:foot_height_at_zero")
            if not ctx.close(model[i], h[i, side], 4.0):
                ctx.disagree("desired_foot_height", case, impl=h[i, side], model=model[i])


# ------------------------------------------------------------------ (2) long histories

def _hist_impl(f, dt, n):
    def step(p, _):
        q = gait.advance_gait_phase(p, f, dt)
        return q, q

    p0 = gait.initial_gait_phase()
    _, tr = jax.lax.scan(step, p0, None, length=n)
    return jnp.concatenate([p0[None], tr], axis=0)


_hist_j = jax.jit(_hist_impl, static_argnums=2)


def _check_history(ctx, trace, f, dt, origin, extra=None):
    """trace: (n+1, 2) visited phases of the implementation, constant f and dt."""
    trace = _f64(trace)
    n = trace.shape[0] - 1
    eps = _eps(ctx)
    half = {"atol": ctx.atol + 32.0 * math.sqrt(max(n, 1)) * eps, "rtol": ctx.rtol}
    out = ctx.drv.call("g1_history", f=f, dt=dt, left=trace[:, 0], right=trace[:, 1],
                       tol=ctx.tol(4.0), tol_half=half)
    case = {"origin": origin, "frequency": f, "dt": dt, "steps": n, **(extra or {})}
    ctx.case(case, n > 0, sample={**case, "first": trace[:3], "last": trace[-1]})
    ctx.count(f"history:{origin}:steps", n)
    d = trace[:, 1] - trace[:, 0]
    ctx.count(f"history:{origin}:right-left=+pi", int((d > 0).sum()))
    ctx.count(f"history:{origin}:right-left=-pi", int((d < 0).sum()))
    if not out["phi"]:
        i = out["index"]
        ctx.phi_fail(out["clause"], {**case, "index": i, "phases": trace[max(i - 1, 0):i + 2]},
                     key="gait:" + out["clause"])
    if not ctx.close(out["initial"], trace[0], 4.0):
        ctx.disagree("initial_gait_phase", case, impl=trace[0], model=out["initial"])
    if n:
        okl = _circ_close(ctx, out["left"], trace[1:, 0])
        okr = _circ_close(ctx, out["right"], trace[1:, 1])
        if not (okl.all() and okr.all()):
            i = int(np.argmin(okl & okr))
            ctx.disagree("advance_gait_phase along history (mod 2pi)", {**case, "index": i},
                         impl=trace[i + 1], model=[out["left"][i], out["right"][i]])
        # the model's own free run agrees with the implementation's up to accumulated rounding
        drift = _circ(out["final"], trace[-1]).max()
        if drift > ctx.atol * 4 + 64.0 * max(n, 1) * eps:
            ctx.disagree("phase after whole history (mod 2pi)", case, impl=trace[-1],
                         model=out["final"])


def _histories(ctx):
    rng = ctx.rng
    ft = _ft(ctx)
    n = 10_000
    k = ctx.budget(6, 40)
    fs = [0.0, 1.25, 1.5] + list(rng.uniform(1.25, 1.5, max(k - 4, 1))) + [float(rng.uniform(0, 4))]
    for f in fs:
        dt = float(rng.choice([0.02, 0.02, 0.04, float(rng.uniform(0.005, 0.05))]))
        f, dt = float(ft(f)), float(ft(dt))
        tr = _hist_j(jnp.asarray(f, dtype=ft), jnp.asarray(dt, dtype=ft), n)
        _check_history(ctx, tr, f, dt, "helper")


# ------------------------------------------------------------------ (3)/(4) randomised models

def _leafmap(model):
    """{name: leaf} of an mjx.Model"""
    return {jax.tree_util.keystr(p): v for p, v in jax.tree_util.tree_leaves_with_path(model)}


def _base_digest(leaves):
    h = hashlib.sha1()
    for name in sorted(leaves):
        if name.lstrip(".") in FIELDS:
            continue
        a = np.asarray(leaves[name])
        h.update(name.encode() + str(a.dtype).encode() + str(a.shape).encode() + a.tobytes())
    return h.hexdigest()[:16]


def _rest_digests(base_model, out_model, n):
    """per-key digest of every leaf other than the four named fields, bit-for-bit against the
    base model: the base digest when all of them are identical, else `changed:<leaf>`."""
    base = _leafmap(base_model)
    digest = _base_digest(base)
    if jax.tree_util.tree_structure(base_model) != jax.tree_util.tree_structure(out_model):
        return digest, ["treedef-changed"] * n
    out = _leafmap(out_model)
    res = [digest] * n
    for name in sorted(base):
        if name.lstrip(".") in FIELDS:
            continue
        b = np.asarray(base[name])
        o = np.asarray(out[name])
        if o.dtype != b.dtype or o.shape != (n,) + b.shape:
            res = [f"changed:{name}:shape/dtype"] * n
            break
        if b.size == 0:
            continue
        ob = np.ascontiguousarray(o.reshape(n, -1)).view(np.uint8)
        bb = np.ascontiguousarray(b.reshape(1, -1)).view(np.uint8)
        same = (ob == bb).all(axis=1)
        for i in np.nonzero(~same)[0]:
            if not res[i].startswith("changed"):
                res[i] = f"changed:{name}"
    return digest, res


def _model_dict(fields, i, rest):
    d = {k: _f64(fields[k] if i is None else fields[k][i]) for k in FIELDS}
    d["rest"] = rest
    return d


def _read_draws(which, base, nominal, ranges, out):
    """read the uniform factors back from the implementation's output (ratio to nominal)"""
    def ratio(o, nom, lo):
        with np.errstate(divide="ignore", invalid="ignore"):
            return np.where(nom != 0, o / np.where(nom != 0, nom, 1.0), lo)

    pairs = nominal["foot_pair_ids"]
    friction = float(out["pair_friction"][pairs[0], 0]) if pairs else float(ranges["friction"][0])
    fl = ratio(out["dof_frictionloss"][6:], nominal["friction_loss"], ranges["floss"][0])
    ar = ratio(out["dof_armature"][6:], nominal["armature"], ranges["armature"][0])
    nm = nominal["body_mass"]
    t = nominal["torso_body_id"]
    if which in ("all", "body_mass"):
        ms = ratio(out["body_mass"], nm, ranges["mass"][0])
        lo, hi = ranges["mass"]
        olo, ohi = ranges["torso_offset"]
        if nm[t] != 0:
            s = min(hi, (out["body_mass"][t] - olo) / nm[t])
            s = max(s, lo)
        else:
            s = lo
        ms[t] = s
        off = float(out["body_mass"][t] - nm[t] * s)
    else:
        ms = np.full(nm.shape, ranges["mass"][0])
        off = 0.0
    return {"friction": friction, "floss_scales": fl, "armature_scales": ar, "mass_scales": ms,
            "torso_offset": off}


def _check_models(ctx, which, origin, base_model, out_model, n, nominal, ranges, keyinfo,
                  key_prefix):
    """Φ + correspondence for n randomised models (leading axis n) against the base model."""
    digest, rests = _rest_digests(base_model, out_model, n)
    base_f = {k: _f64(getattr(base_model, k)) for k in FIELDS}
    out_f = {k: _f64(getattr(out_model, k)) for k in FIELDS}
    base_d = _model_dict(base_f, None, digest)
    rr = {k: list(map(float, v)) for k, v in ranges.items()}
    nom = {"friction_loss": nominal["friction_loss"], "armature": nominal["armature"],
           "body_mass": nominal["body_mass"], "torso_body_id": int(nominal["torso_body_id"]),
           "foot_pair_ids": [int(p) for p in nominal["foot_pair_ids"]]}
    for i in range(n):
        impl = _model_dict(out_f, i, rests[i])
        draws = _read_draws(which, base_d, nominal, ranges, impl)
        out = ctx.drv.call("g1_randomize", which=which, base=base_d, nominal=nom, ranges=rr,
                           draws=draws, impl=impl, tol=ctx.tol(2.0))
        case = {"origin": origin, "which": which, **keyinfo, "index": i, "ranges": rr,
                "friction_pair_ids": nom["foot_pair_ids"]}
        ctx.case(case, True, sample={**case, "friction": draws["friction"],
                                     "torso_mass": impl["body_mass"][nom["torso_body_id"]]})
        ctx.count(f"randomize:{origin}:{which}")
        if not out["phi"]:
            changed_rows = np.nonzero((impl["pair_friction"] != base_d["pair_friction"]).any(axis=1))[0]
            names = nominal.get("pair_names") or []
            nm = lambda rows: [names[r] if r < len(names) else str(r) for r in rows]
            ctx.phi_fail(out["clause"],
                         {**case, "clause": out["clause"], "rest": impl["rest"],
                          "pair_rows_changed": changed_rows.tolist(),
                          "pairs_changed": nm(changed_rows.tolist()),
                          "pairs_expected": nm(nom["foot_pair_ids"]),
                          "how": "compare the four randomised fields (and every other leaf) of "
                                 "the returned mjx.Model with env.base_model"},
                         key=f"{key_prefix}:{out['clause']}")
        m = out["model"]
        for k in FIELDS:
            a = np.asarray(m[k], dtype=np.float64).reshape(impl[k].shape) if len(m[k]) else np.zeros(impl[k].shape)
            if not ctx.close(a, impl[k], 2.0):
                ctx.disagree(f"randomize[{which}].{k}", case, impl=impl[k], model=a)
        if m["rest"] != impl["rest"]:
            ctx.disagree(f"randomize[{which}].rest", case, impl=impl["rest"], model=m["rest"])


def _nominal(env, pair_ids):
    mj = env.mujoco_model
    return {"friction_loss": _f64(env.nominal_friction_loss), "armature": _f64(env.nominal_armature),
            "body_mass": _f64(env.nominal_body_mass), "torso_body_id": int(env.torso_body_id),
            "foot_pair_ids": list(pair_ids),
            "pair_names": [mj.pair(i).name for i in range(mj.npair)]}


def _foot_pairs(env):
    mj = env.mujoco_model
    return [int(mj.pair("left_foot_floor").id), int(mj.pair("right_foot_floor").id)]


DEFAULT_RANGES = {"friction": (0.4, 1.0), "floss": (0.5, 2.0), "armature": (1.0, 1.05),
                  "mass": (0.9, 1.1), "torso_offset": (-1.0, 1.0)}


def _random_ranges(rng):
    def rng_pair(lo, hi):
        a, b = sorted(rng.uniform(lo, hi, 2))
        return (float(a), float(b) + 1e-3)
    return {"friction": rng_pair(0.1, 2.0), "floss": rng_pair(0.0, 3.0), "armature": rng_pair(0.5, 2.0),
            "mass": rng_pair(0.5, 1.5), "torso_offset": rng_pair(-2.0, 2.0)}


def _randomize_direct(ctx, env):
    """the randomize_* functions called directly on the real base model"""
    rng = ctx.rng
    base = env.base_model
    has_pairs = "pair_ids" in inspect.signature(randomize.randomize_friction).parameters
    npair = int(base.pair_friction.shape[0])
    configs = [("default", DEFAULT_RANGES, _foot_pairs(env) if has_pairs else [0, 1],
                ctx.budget(200, 5000))]
    for c in range(ctx.budget(2, 6)):
        pairs = sorted(rng.choice(npair, size=int(rng.integers(1, 4)), replace=False).tolist()) \
            if has_pairs else [0, 1]
        configs.append((f"custom{c}", _random_ranges(rng), pairs, ctx.budget(40, 400)))
    # ranges that START AT ZERO ("between a frictionless joint / massless payload and nominal"): legal, and
    # exactly where a multiplicative (log-space) sampler breaks
    configs.append(("from-zero", {"friction": (0.0, 1.0), "floss": (0.0, 1.0), "armature": (0.0, 1.05),
                                  "mass": (0.0, 1.1), "torso_offset": (0.0, 1.0)},
                    _foot_pairs(env) if has_pairs else [0, 1], ctx.budget(40, 400)))
    configs.append(("degenerate", {"friction": (0.7, 0.7), "floss": (1.0, 1.0), "armature": (1.0, 1.0),
                                   "mass": (1.0, 1.0), "torso_offset": (0.0, 0.0)},
                    _foot_pairs(env) if has_pairs else [0, 1], ctx.budget(16, 64)))
    if not has_pairs:
        ctx.note("randomize_friction has no pair_ids parameter: direct calls randomise the first "
                 "two compiled pairs")
    for name, rg, pairs, n in configs:
        nominal = _nominal(env, pairs)
        seed = int(rng.integers(0, 2**31 - 1))
        keys = jr.split(jr.key(seed), n)
        pkw = {"pair_ids": tuple(pairs)} if has_pairs else {}
        mkw = {"friction_pair_ids": tuple(pairs)} if has_pairs else {}
        fns = {
            "all": lambda k: randomize.randomize_model(
                base, key=k, nominal_friction_loss=env.nominal_friction_loss,
                nominal_armature=env.nominal_armature, nominal_body_mass=env.nominal_body_mass,
                torso_body_id=env.torso_body_id, friction_range=rg["friction"],
                friction_loss_scale_range=rg["floss"], armature_scale_range=rg["armature"],
                mass_scale_range=rg["mass"], torso_offset_range=rg["torso_offset"], **mkw),
            "friction": lambda k: randomize.randomize_friction(
                base, key=k, friction_range=rg["friction"], **pkw),
            "friction_loss": lambda k: randomize.randomize_friction_loss(
                base, key=k, nominal_friction_loss=env.nominal_friction_loss,
                scale_range=rg["floss"]),
            "armature": lambda k: randomize.randomize_armature(
                base, key=k, nominal_armature=env.nominal_armature, scale_range=rg["armature"]),
            "body_mass": lambda k: randomize.randomize_body_mass(
                base, key=k, nominal_body_mass=env.nominal_body_mass, scale_range=rg["mass"],
                torso_body_id=env.torso_body_id, torso_offset_range=rg["torso_offset"]),
        }
        for which, fn in fns.items():
            m = n if which == "all" else max(n // 8, 8)
            out = jax.jit(jax.vmap(fn))(keys[:m])
            _check_models(ctx, which, f"direct:{name}", base, out, m, nominal, rg,
                          {"key": f"jr.split(jr.key({seed}), {n})[index]"}, "randomize")


def _env_ranges(env):
    return {"friction": env.friction_range, "floss": env.friction_loss_scale_range,
            "armature": env.armature_scale_range, "mass": env.mass_scale_range,
            "torso_offset": env.torso_offset_range}


def _cmd_ranges(env, task):
    if task == "locomotion":
        return {"vx": _f64(env.lin_vel_x_range), "vy": _f64(env.lin_vel_y_range),
                "yaw": _f64(env.ang_vel_yaw_range), "freq": _f64(env.gait_frequency_range)}
    z = np.zeros(2)
    return {"vx": z, "vy": z, "yaw": z, "freq": z}


def _cmd_draws(cmd, freq, cr):
    zero = bool((cmd == 0).all())
    mid = [float(np.mean(cr[k])) for k in ("vx", "vy", "yaw")]
    v = mid if zero else [float(x) for x in cmd]
    return {"vx": v[0], "vy": v[1], "yaw": v[2], "zero": zero, "freq": float(freq)}


def _check_starts(ctx, task, env, cfgname, keyinfo, cmd, freq, phase, kin=None):
    """command / frequency / initial phase (and kinematics when given) of n initial states"""
    cr = _cmd_ranges(env, task)
    n = cmd.shape[0]
    for i in range(n):
        draws = _cmd_draws(cmd[i], freq[i], cr)
        impl = {"command": cmd[i], "frequency": float(freq[i]), "phase": phase[i]}
        args = dict(task=task, cmd_ranges=cr, cmd_draws=draws, impl=impl, tol=ctx.tol(2.0))
        if kin is not None:
            args["kin"] = {k: (v[i] if isinstance(v, np.ndarray) and v.ndim > 1 else v)
                           for k, v in kin.items() if k != "qpos_impl"}
        out = ctx.drv.call("g1_initial", **args)
        case = {"task": task, "config": cfgname, **keyinfo, "index": i, "command": cmd[i],
                "frequency": float(freq[i]), "cmd_ranges": cr}
        ctx.case(case, True, sample={**case, "phase": phase[i]})
        ctx.count(f"initial:{task}:{cfgname}" + (":kin" if kin is not None else ""))
        if draws["zero"]:
            ctx.count(f"initial:{task}:zero_command")
        if not out["phi"]:
            ctx.phi_fail(out["clause"], {**case, "phase": phase[i], "clause": out["clause"]},
                         key=f"initial:{task}:{out['clause']}")
        if not ctx.close(out["command"], cmd[i], 2.0):
            ctx.disagree("initial.command", case, impl=cmd[i], model=out["command"])
        if not ctx.close(out["frequency"], freq[i], 2.0):
            ctx.disagree("initial.gait_frequency", case, impl=freq[i], model=out["frequency"])
        if not ctx.close(out["phase"], phase[i], 2.0):
            ctx.disagree("initial.gait_phase", case, impl=phase[i], model=out["phase"])
        if kin is not None:
            q = kin["qpos_impl"][i]
            if not ctx.close(out["qpos"], q, 4.0):
                ctx.disagree("initial.qpos (snap to ground)", case, impl=q, model=out["qpos"])


def _episode_models(ctx, task, env, cfgname, n):
    """per-episode randomised model / command / frequency / phase of `initial()` for n keys;
    nothing of the physics is requested, so XLA removes it"""
    seed = int(ctx.rng.integers(0, 2**31 - 1))
    keys = jr.split(jr.key(seed), n)

    def f(key):
        s = env.initial(key=key)
        return s.model, s.command, s.gait_frequency, s.gait_phase

    model, cmd, freq, phase = jax.jit(jax.vmap(f))(keys)
    keyinfo = {"key": f"jr.split(jr.key({seed}), {n})[index]",
               "replay": f"{type(env).__name__}(...).initial(key=key)"}
    _check_models(ctx, "all", f"initial:{task}:{cfgname}", env.base_model, model, n,
                  _nominal(env, _foot_pairs(env)), _env_ranges(env), keyinfo,
                  f"initial_model:{task}")
    _check_starts(ctx, task, env, cfgname, keyinfo, _f64(cmd), _f64(freq), _f64(phase))
    if task == "locomotion" and n >= 50:
        c = _f64(cmd)
        if len(np.unique(c[:, 0])) < 3 or len(np.unique(_f64(freq))) < 3:
            ctx.disagree("initial: draws do not depend on the key", {"task": task}, impl=c[:5])


# ------------------------------------------------------------------ (5) physics

def _fwd(model, qpos, qvel, ctrl):
    d = mjx.make_data(model).replace(qpos=qpos, qvel=qvel, ctrl=ctrl)
    d = mjx.forward(model, d)
    return d.xpos, d.xquat, d.site_xpos


_fwd_v = jax.jit(jax.vmap(_fwd))


def _low(xpos, site_xpos, feet):
    """positions seen by `_snap_to_ground`: bodies 1.. and the two foot sites, flattened"""
    n = xpos.shape[0]
    return np.concatenate([xpos[:, 1:].reshape(n, -1), site_xpos[:, feet[0]].reshape(n, -1),
                           site_xpos[:, feet[1]].reshape(n, -1)], axis=1)


def _physics(ctx, task, env, nkeys, nsteps):
    seed = int(ctx.rng.integers(0, 2**31 - 1))
    keys = jr.split(jr.key(seed), nkeys)
    init_v = jax.jit(jax.vmap(lambda k: env.initial(key=k)))
    s = init_v(keys)
    d = s.sim_state
    keyinfo = {"key": f"jr.split(jr.key({seed}), {nkeys})[index]",
               "replay": f"{type(env).__name__}().initial(key=key)"}
    qF = _f64(d.qpos)
    # pre-snap configuration: the returned one at the keyframe height (the result of the snap
    # does not depend on the height it starts from)
    z0 = float(env.init_qpos[2])
    q0 = qF.copy()
    q0[:, 2] = z0
    ft = d.qpos.dtype
    x0, _, sx0 = _fwd_v(s.model, jnp.asarray(q0, dtype=ft), d.qvel, d.ctrl)
    xF, xqF, sxF = _fwd_v(s.model, d.qpos, d.qvel, d.ctrl)
    feet = env.feet_site_ids
    kin_impl = np.concatenate([_f64(d.xpos).reshape(nkeys, -1), _f64(d.xquat).reshape(nkeys, -1),
                               _f64(d.site_xpos).reshape(nkeys, -1)], axis=1)
    kin_fk = np.concatenate([_f64(xF).reshape(nkeys, -1), _f64(xqF).reshape(nkeys, -1),
                             _f64(sxF).reshape(nkeys, -1)], axis=1)
    kin = {"q0": q0, "x0_low": _low(_f64(x0), _f64(sx0), feet),
           "xF_low": _low(_f64(xF), _f64(sxF), feet), "clearance": CLEARANCE,
           "kin_impl": kin_impl, "kin_fk": kin_fk, "tol_kin": ctx.tol(2.0), "qpos_impl": qF}
    _check_starts(ctx, task, env, "default", keyinfo, _f64(s.command), _f64(s.gait_frequency),
                  _f64(s.gait_phase), kin=kin)
    if np.abs(kin_impl).max() == 0:
        ctx.note("derived kinematics all zero")

    # rollouts through transition(): phases, carried fields
    def roll(s0, key):
        ka, kt = jr.split(key)
        acts = jr.uniform(ka, (nsteps, 29), minval=-0.3, maxval=0.3)

        def step(st, xs):
            a, k = xs
            st2 = env.transition(st, a, key=k)
            return st2, (st2.gait_phase, st2.gait_frequency, st2.command, st2.step_count)

        sT, tr = jax.lax.scan(step, s0, (acts, jr.split(kt, nsteps)))
        same = jax.tree.reduce(
            jnp.logical_and,
            jax.tree.map(lambda a, b: jnp.all(a == b), sT.model, s0.model), jnp.array(True))
        return tr, same

    nroll = min(nkeys, ctx.budget(2, 4))
    s_roll = jax.tree.map(lambda x: x[:nroll], s)
    if task == "locomotion":
        # a zero-command episode (drawn with probability zero_command_probability) must be among
        # the rolled ones: stand-still handling is where the gait clock is most easily broken
        s_roll = eqx.tree_at(lambda t: t.command, s_roll, s_roll.command.at[0].set(0.0))
        s = eqx.tree_at(lambda t: t.command, s, s.command.at[0].set(0.0))
        ctx.count("transition:locomotion:zero-command-episode")
    (ph, fr, cm, sc), same = jax.jit(jax.vmap(roll))(s_roll, jr.split(jr.key(seed + 1), nroll))
    ph, fr, cm, sc = _f64(ph), _f64(fr), _f64(cm), _f64(sc)
    dt = float(env.dt)
    for i in range(nroll):
        f0 = float(_f64(s.gait_frequency)[i])
        trace = np.concatenate([_f64(s.gait_phase)[i][None], ph[i]], axis=0)
        _check_history(ctx, trace, f0, dt, f"transition:{task}", extra={**keyinfo, "index": i})
        case = {"task": task, **keyinfo, "index": i, "steps": nsteps}
        if not (fr[i] == f0).all():
            ctx.disagree("transition: gait_frequency carried", case, impl=fr[i][:5], model=f0)
        if not (cm[i] == _f64(s.command)[i][None]).all():
            ctx.disagree("transition: command carried", case, impl=cm[i][:3],
                         model=_f64(s.command)[i])
        if not (sc[i] == np.arange(1, nsteps + 1)).all():
            ctx.disagree("transition: step_count", case, impl=sc[i][:5], model=[1, 2, 3, 4, 5])
        if not bool(np.asarray(same)[i]):
            ctx.disagree("transition: randomised model carried", case, impl=False, model=True)


# ------------------------------------------------------------------ entry point

def run(ctx):
    _gait_grid(ctx)
    _foot(ctx)
    _histories(ctx)

    envs = {}
    for task, cls in TASKS:
        envs[task] = cls()
    _randomize_direct(ctx, envs["locomotion"])

    n_ep = ctx.budget(200, 2000)
    for task, _cls in TASKS:
        _episode_models(ctx, task, envs[task], "default", n_ep)

    # non-default configuration: command ranges that exclude zero, other randomisation ranges
    rng = ctx.rng
    rg = _random_ranges(rng)
    custom = G1Locomotion(
        friction_range=rg["friction"], friction_loss_scale_range=rg["floss"],
        armature_scale_range=rg["armature"], mass_scale_range=rg["mass"],
        torso_offset_range=rg["torso_offset"], lin_vel_x_range=(0.3, 1.2),
        lin_vel_y_range=(-0.2, 0.4), ang_vel_yaw_range=(-2.0, -0.5),
        gait_frequency_range=(1.3, 1.45), zero_command_probability=0.5,   # (1/dt)/lo is not an integer
        control_frequency_hz=25.0)
    _episode_models(ctx, "locomotion", custom, "custom", ctx.budget(100, 1000))
    if not ctx.quick:
        for task, cls in TASKS[1:]:
            rg = _random_ranges(rng)
            e = cls(friction_range=rg["friction"], friction_loss_scale_range=rg["floss"],
                    armature_scale_range=rg["armature"], mass_scale_range=rg["mass"],
                    torso_offset_range=rg["torso_offset"])
            _episode_models(ctx, task, e, "custom", 500)

    if ctx.x64:
        ctx.note("x64 mode: MJX physics sections (kinematic coherence, transition rollouts) run "
                 "in the float32 mode only")
        return
    if ctx.quick:
        chosen = ["locomotion"]
        ctx.note("quick tier: full initial()+transition() physics for the locomotion task only; "
                 "thorough runs all three")
    else:
        chosen = [t for t, _ in TASKS]
    for task in chosen:
        _physics(ctx, task, envs[task], ctx.budget(4, 16), ctx.budget(25, 150))
