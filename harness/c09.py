"""C09 — flatten_axes / batch_indices / gather / batches / sample and the PPO.train epoch loop
vs lean/LeraxModel/Batching.lean.  Every leaf of sample (e, t) carries the tag e*T + t."""
from __future__ import annotations

from collections import OrderedDict

import equinox as eqx
import jax
import numpy as np
import optax
from jax import numpy as jnp
from jax import random as jr

from lerax.algorithm import PPO
from lerax.buffer import RolloutBuffer

from .common.tabular import CountState, TabularACPolicy, TabularEnv


def _tagged_buffer(E, T):
    tag = jnp.arange(E * T).reshape(E, T)
    tf = tag.astype(float)
    obs = OrderedDict(a=jnp.stack([tf, tf + 0.25], axis=-1),
                      b=(tf[..., None, None] + jnp.zeros((E, T, 2, 3))))
    return RolloutBuffer(
        observations=obs, actions=jnp.stack([tf + 0.5], axis=-1), rewards=tf,
        dones=(tag % 2) == 1, log_probs=tf + 0.125, values=tf + 0.375,
        states=CountState(tag), action_masks=(tag[..., None] % jnp.array([2, 3, 5])) == 0,
        returns=tf + 0.625, advantages=tf + 0.75)


def _tags(buf):
    """(tags from `rewards`, every leaf consistent with that tag?) for a buffer of any batch shape;
    leaves whose batch shape no longer matches the rewards' count as misaligned"""
    t = np.asarray(buf.rewards, dtype=np.float64)
    ti = t.astype(np.int64)
    try:
        return ti, _aligned(buf, t, ti)
    except (ValueError, IndexError):   # some leaf was flattened over other axes
        return ti, np.zeros(t.shape, dtype=bool)


def _aligned(buf, t, ti):
    ok = (
        (np.asarray(buf.observations["a"])[..., 0] == t) & (np.asarray(buf.observations["a"])[..., 1] == t + 0.25)
        & (np.asarray(buf.observations["b"]) == t[..., None, None]).all(axis=(-1, -2))
        & (np.asarray(buf.actions)[..., 0] == t + 0.5) & (np.asarray(buf.dones) == (ti % 2 == 1))
        & (np.asarray(buf.log_probs) == t + 0.125) & (np.asarray(buf.values) == t + 0.375)
        & (np.asarray(buf.states.count) == ti)
        & (np.asarray(buf.action_masks) == ((ti[..., None] % np.array([2, 3, 5])) == 0)).all(axis=-1)
        & (np.asarray(buf.returns) == t + 0.625) & (np.asarray(buf.advantages) == t + 0.75))
    return np.broadcast_to(ok, t.shape)


def check_buffer_api(ctx, E, T, Bs):
    buf = _tagged_buffer(E, T)
    N = E * T
    m = ctx.drv.call("flatten_model", E=E, T=T)
    # flatten, default axes and (1, 0)
    flat = buf.flatten_axes()
    ft, ok = _tags(flat)
    case = {"kind": "flatten", "E": E, "T": T, "flat_tags": ft}
    ctx.case(case, E > 1 and T > 1, sample=case if (E, T) == (2, 3) else None)
    ctx.count("flatten")
    r = ctx.drv.call("flatten_phi", E=E, T=T, tags=ft)
    if not r["phi"] or not ok.all() or ft.shape != (N,):
        ctx.phi_fail("flatten_bijective", case)
    if ft.tolist() != m["default"]:
        ctx.disagree("flatten_axes(default)", case, impl=ft, model=m["default"])
    ft2, ok2 = _tags(buf.flatten_axes((1, 0)))
    if sorted(ft2.tolist()) != list(range(N)) or not ok2.all():
        ctx.phi_fail("flatten_bijective", {**case, "axes": [1, 0], "flat_tags": ft2})
    if ft2.tolist() != m["transposed"]:
        ctx.disagree("flatten_axes((1,0))", case, impl=ft2, model=m["transposed"])
    # negative axes must address the same buffer axes as their non-negative spelling, for every leaf
    for axes, ref in [((-2, -1), (0, 1)), ((-1, -2), (1, 0)), ((0, -1), (0, 1)), (-1, 1)]:
        fa, oka = _tags(buf.flatten_axes(axes))
        fr, _ = _tags(buf.flatten_axes(ref))
        ctx.case({"kind": "flatten-negative-axes", "axes": axes if isinstance(axes, int) else list(axes), "E": E, "T": T}, True)
        ctx.count("flatten:negative-axes")
        if not oka.all() or fa.shape != fr.shape or (fa != fr).any():
            ctx.phi_fail("fields_stay_together_under_negative_batch_axes",
                         {**case, "axes": axes if isinstance(axes, int) else list(axes), "flat_tags": fa,
                          "leaves_aligned": bool(oka.all())}, key="c09:negative-axes")
    if N >= 2:
        bt, bok = _tags(buf.batches(2, key=jr.key(3), batch_axes=(-2, -1)))
        if not bok.all():
            ctx.phi_fail("batches_rows_intact_under_negative_batch_axes", {**case, "batches_tags": bt},
                         key="c09:negative-axes-batches")
    # sampling whole rows along ONE buffer axis (trajectories of an environment / time slices): distinct rows,
    # every row an intact slice of the buffer
    for axis, nrows in ((0, E), (1, T), (-1, T), (-2, E)):
        if nrows < 2:
            continue
        for bs in sorted({1, nrows - 1, nrows}):
            key = jr.key(int(ctx.rng.integers(0, 2**31)))
            st, sok = _tags(buf.sample(bs, key=key, batch_axes=axis))
            rows_ = [tuple(np.asarray(st[i]).ravel().tolist()) for i in range(st.shape[0])]
            casep = {"kind": "sample-partial-axes", "E": E, "T": T, "batch_axes": axis, "batch_size": bs,
                     "sampled_rows(tags)": [list(r[:6]) for r in rows_[:6]]}
            ctx.case(casep, True)
            ctx.count("sample:partial-axes")
            if st.shape[0] != bs or len(set(rows_)) != bs or not sok.all():
                ctx.phi_fail("sample_distinct_intact", casep, key="c09:sample-partial-axes")
    # resolve_axes
    for axes in [None, 0, 1, -1, -2, (0, 1), (1, 0), (-1, 0), (0, 0), (0, -2), (2,), (-3,), (0, 1, 1)]:
        try:
            got = list(buf.resolve_axes(axes))
        except ValueError:
            got = None
        lst = None if axes is None else ([axes] if isinstance(axes, int) else list(axes))
        exp = ctx.drv.call("resolve_axes", ndim=2, axes=lst)
        ctx.case({"kind": "resolve_axes", "axes": lst, "E": E, "T": T}, True)
        ctx.count("resolve_axes:" + ("reject" if exp is None else "accept"))
        if got != exp:
            ctx.disagree("resolve_axes", {"axes": lst}, impl=got, model=exp)
    # batch_indices / gather / batches / sample
    for B in Bs:
        for rep in range(2):
            key = None if rep == 0 else jr.key(int(ctx.rng.integers(0, 2**31)))
            rows = np.asarray(flat.batch_indices(B, key=key))
            case = {"kind": "batch_indices", "N": N, "B": B, "keyed": key is not None, "rows": rows}
            ctx.case(case, True, sample=case if (N, B, rep) == (6, 4, 1) else None)
            ctx.count("batch_indices:" + ("drops-some" if N % B else "exact"))
            r = ctx.drv.call("partition_phi", N=N, B=B, rows=rows.reshape(-1, B).tolist())
            if not r["phi"] or rows.ndim != 2:
                ctx.phi_fail("partition", case)
            if key is None:
                exp = ctx.drv.call("batch_indices", perm=list(range(N)), B=B)
                if rows.tolist() != exp:
                    ctx.disagree("batch_indices(key=None)", case, impl=rows, model=exp)
            # gather each row: every leaf of a gathered row belongs to the indexed sample
            for i in range(rows.shape[0]):
                gt, gok = _tags(flat.gather(jnp.asarray(rows[i])))
                if gt.tolist() != rows[i].tolist() or not gok.all():
                    ctx.phi_fail("gather_rows_intact", {**case, "row": i, "gathered_tags": gt})
            if key is not None:
                bt, bok = _tags(buf.batches(B, key=key))
                r = ctx.drv.call("partition_phi", N=N, B=B, rows=bt.reshape(-1, B).tolist())
                if not r["phi"] or not bok.all():
                    ctx.phi_fail("batches_partition_intact", {**case, "batches_tags": bt})
                st, sok = _tags(buf.sample(B, key=key))
                if len(set(st.tolist())) != B or not sok.all() or not all(0 <= x < N for x in st.tolist()):
                    ctx.phi_fail("sample_distinct_intact", {**case, "sample_tags": st})


def check_train_visits(ctx, E, T, num_batches, epochs, trials):
    """Recover per-sample visit counts of PPO.train from how far each value-table entry moved."""
    N = E * T
    B = N // num_batches
    lr, coef = 0.5 * B, 1.0
    env = TabularEnv(T=np.zeros((N, 1, 1), dtype=int), Rw=np.zeros((N, 1, N)), term=np.zeros(N, bool),
                     trunc=np.zeros(N, bool), inits=[0])
    policy = TabularACPolicy(env, logits=np.zeros((N, 1)), values=np.zeros((N, 1)))
    algo = PPO(num_envs=E, num_steps=T, num_epochs=epochs, num_batches=num_batches,
               value_loss_coefficient=coef, entropy_loss_coefficient=0.0, normalize_advantages=False)
    algo = eqx.tree_at(lambda a: a.optimizer, algo, optax.sgd(lr))
    assert algo.batch_size == B
    tag = jnp.arange(N).reshape(E, T)
    buf = RolloutBuffer(
        observations=jnp.stack([tag.astype(float), jnp.zeros((E, T))], axis=-1),
        actions=jnp.zeros((E, T), dtype=int), rewards=jnp.zeros((E, T)), dones=jnp.zeros((E, T), bool),
        log_probs=jnp.zeros((E, T)), values=jnp.zeros((E, T)), states=CountState(jnp.zeros((E, T), dtype=int)),
        returns=jnp.ones((E, T)), advantages=jnp.ones((E, T)))
    opt_state = algo.optimizer.init(eqx.filter(policy, eqx.is_inexact_array))
    train = eqx.filter_jit(lambda p, o, k: algo.train(p, o, buf, key=k))
    dropped_sets_identical = []
    for trial in range(trials):
        key = jr.key(int(ctx.rng.integers(0, 2**31)))
        new_policy, _, _ = train(policy, opt_state, key)
        d = 1.0 - np.asarray(new_policy.values, dtype=np.float64)[:, 0]     # = 2^-k
        k = np.rint(-np.log2(np.maximum(d, 1e-12))).astype(int)
        exact = bool(np.allclose(d, 2.0 ** (-k), rtol=1e-4))
        case = {"kind": "ppo-train-visits", "E": E, "T": T, "B": B, "epochs": epochs, "visit_counts": k,
                "residual": d}
        ctx.case({**case, "trial": trial}, True, sample=case if trial == 0 else None)
        ctx.count("train-visits")
        r = ctx.drv.call("visits_phi", N=N, B=B, epochs=epochs, counts=k.tolist())
        if not exact:
            ctx.note("visit count not recoverable exactly (value moved by a non power of two)")
            ctx.phi_fail("visit_counts_recoverable", case)
        elif not r["phi"]:
            ctx.phi_fail(r["clause"], case)
        if N % B >= 2 and epochs >= 2:
            dropped_sets_identical.append(bool(set(k.tolist()) <= {0, epochs}))
    if len(dropped_sets_identical) >= 3 and all(dropped_sets_identical):
        ctx.phi_fail("fresh_shuffle_each_epoch", {"E": E, "T": T, "B": B, "epochs": epochs,
                                                  "note": "every trial dropped the same samples in every epoch"})


def run(ctx):
    grid = ctx.budget([(1, 5), (2, 3), (3, 4), (5, 12)], [(e, t) for e in (1, 2, 3, 5) for t in (1, 4, 7, 12)])
    for E, T in grid:
        N = E * T
        Bs = list(range(1, N + 1)) if N <= 12 else sorted({1, 2, 7, 8, N // 2, N - 1, N} | set(
            int(x) for x in ctx.rng.integers(1, N + 1, size=ctx.budget(4, 10))))
        check_buffer_api(ctx, E, T, Bs)
        ctx.gc(2)
    # (E, T, num_batches, epochs).  The last quick entries have floor(N / B) > num_batches with
    # B = N // num_batches (N=16, nb=6: B=2, 8 minibatches; N=15, nb=6: B=2, 7 minibatches): the epoch must
    # run floor(N/B) minibatches, not `num_batches` of them.
    for (E, T, nb, ep) in ctx.budget([(2, 7, 3, 3), (3, 5, 2, 3), (2, 8, 6, 2), (3, 5, 6, 1)],
                                     [(2, 7, 3, 3), (3, 5, 2, 3), (2, 8, 6, 2), (3, 5, 6, 1), (2, 4, 4, 2), (1, 7, 3, 4),
                                      (4, 5, 3, 5), (5, 3, 7, 2), (2, 11, 4, 3), (4, 16, 24, 2), (5, 20, 30, 1)]):
        ctx.count("train-visits:floor(N/B)>num_batches" if (E * T) // ((E * T) // nb) > nb else "train-visits:floor(N/B)==num_batches")
        check_train_visits(ctx, E, T, nb, ep, trials=ctx.budget(3, 6))
