"""Random wrapper stacks over an environment, with the descriptor the Lean driver needs."""
from __future__ import annotations

import numpy as np
from jax import numpy as jnp

from lerax.space import Box, Discrete
from lerax import wrapper as W


def _finite_box(space):
    return isinstance(space, Box) and bool(np.isfinite(np.asarray(space.low)).all()
                                           and np.isfinite(np.asarray(space.high)).all()
                                           and (np.asarray(space.low) < np.asarray(space.high)).all())


def _rescale_params(space, lo, hi):
    """independent re-derivation of the affine map new∈[lo,hi] <-> original∈[low,high]"""
    low = np.asarray(space.low, dtype=np.float64)
    high = np.asarray(space.high, dtype=np.float64)
    gradient = (hi - lo) / (high - low)
    intercept = lo - low * gradient
    return gradient, intercept


# functions used by Transform* wrappers (module level so that jit caches by identity)
def _double(o):
    return o * 2.0


def _reward_affine(r):
    return 0.5 * r + 1.0


def _act_scale(a):
    return a * 0.5


def build_stack(rng, env, depth, allow_obs=True, kinds=None):
    """Returns (wrapped_env, descriptor list innermost first, names, skipped, layers)."""
    desc, names, skipped, layers = [], [], [], [env]
    choices = kinds or ["Identity", "TimeLimit", "ClipAction", "RescaleAction", "TransformAction",
                        "ClipObservation", "RescaleObservation", "FlattenObservation",
                        "TransformObservation", "TransformReward", "ClipReward"]
    for _ in range(depth):
        k = str(rng.choice(choices))
        try:
            if k == "Identity":
                env2, d = W.Identity(env), {"w": "identity"}
            elif k == "TimeLimit":
                n = int(rng.integers(1, 7))
                env2, d = W.TimeLimit(env, n), {"w": "timeLimit", "n": n}
            elif k == "ClipAction":
                if not isinstance(env.action_space, Box):
                    continue
                sp = env.action_space
                env2 = W.ClipAction(env)
                d = {"w": "clipAction", "lo": float(np.asarray(sp.low).ravel()[0]),
                     "hi": float(np.asarray(sp.high).ravel()[0])}
            elif k == "RescaleAction":
                if not _finite_box(env.action_space):
                    continue
                lo, hi = float(rng.choice([-1.0, 0.0, -3.0])), float(rng.choice([1.0, 2.0, 5.0]))
                g, i = _rescale_params(env.action_space, lo, hi)
                env2 = W.RescaleAction(env, jnp.array(lo), jnp.array(hi))
                d = {"w": "affineAction", "gradient": float(g.ravel()[0]), "intercept": float(i.ravel()[0])}
            elif k == "TransformAction":
                if not isinstance(env.action_space, Box):
                    continue
                sp = env.action_space
                env2 = W.TransformAction(env, _act_scale, Box(sp.low * 2, sp.high * 2, shape=sp.shape))
                d = {"w": "scaleAction", "c": 0.5}
            elif k == "ClipObservation":
                if not allow_obs or not isinstance(env.observation_space, Box):
                    continue
                sp = env.observation_space
                env2 = W.ClipObservation(env)
                d = {"w": "clipObs", "lo": np.asarray(sp.low, dtype=np.float64).ravel(),
                     "hi": np.asarray(sp.high, dtype=np.float64).ravel()}
            elif k == "RescaleObservation":
                if not allow_obs or not _finite_box(env.observation_space):
                    continue
                lo, hi = float(rng.choice([-1.0, 0.0])), float(rng.choice([1.0, 4.0]))
                g, i = _rescale_params(env.observation_space, lo, hi)
                env2 = W.RescaleObservation(env, jnp.array(lo), jnp.array(hi))
                d = {"w": "affineObs", "gradient": g.ravel(), "intercept": i.ravel()}
            elif k == "FlattenObservation":
                if not allow_obs:
                    continue
                env2, d = W.FlattenObservation(env), {"w": "flattenObs"}
            elif k == "TransformObservation":
                if not allow_obs or not isinstance(env.observation_space, Box):
                    continue
                sp = env.observation_space
                env2 = W.TransformObservation(env, _double, Box(sp.low * 2, sp.high * 2, shape=sp.shape))
                d = {"w": "scaleObs", "c": 2.0}
            elif k == "TransformReward":
                env2, d = W.TransformReward(env, _reward_affine), {"w": "affineReward", "a": 0.5, "b": 1.0}
            elif k == "ClipReward":
                # incl. bounds that are exactly 0 (a one-sided-looking clip: "no negative rewards" / "no bonuses")
                lo, hi = [(-1.0, 1.0), (-0.25, 0.5), (0.0, 1.0), (-1.0, 0.0), (0.0, 0.5), (-0.25, 0.0)][int(rng.integers(6))]
                env2, d = W.ClipReward(env, lo, hi), {"w": "clipReward", "lo": lo, "hi": hi}
            else:
                continue
        except TypeError as e:  # not constructible (decided under C13); skip here, but count
            skipped.append(f"{k}: {type(e).__name__}")
            continue
        env = env2
        desc.append(d)
        names.append(k)
        layers.append(env)
    return env, desc, names, skipped, layers


def sample_action(rng, env, key):
    """in-space action of the (wrapped) env: random sample or a bound corner"""
    sp = env.action_space
    if isinstance(sp, Discrete):
        return jnp.asarray(int(rng.integers(0, sp.n)))
    low, high = np.asarray(sp.low), np.asarray(sp.high)
    u = rng.random()
    if u < 0.15 and np.isfinite(low).all():
        return jnp.asarray(low, dtype=float)
    if u < 0.3 and np.isfinite(high).all():
        return jnp.asarray(high, dtype=float)
    return sp.sample(key=key)
