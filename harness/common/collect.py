"""Drive lerax's real on-policy collection on finite MDPs and replay it in the Lean model."""
from __future__ import annotations

import equinox as eqx
import jax
import numpy as np
from jax import numpy as jnp
from jax import random as jr

from lerax.callback import CallbackList
from lerax.space import Box, Discrete

from .tabular import enc_state


def policy_desc(policy):
    disc = isinstance(policy.action_space, Discrete)
    return {"discrete": disc, "logits": np.asarray(policy.logits, np.float64),
            "loc": np.asarray(policy.loc, np.float64), "log_std": np.asarray(policy.log_std, np.float64),
            "values": np.asarray(policy.values, np.float64)}


def clip_desc(env):
    sp = env.action_space
    if isinstance(sp, Box):
        return {"lo": float(np.asarray(sp.low).ravel()[0]), "hi": float(np.asarray(sp.high).ravel()[0])}
    return None


def collect(algo, env, policy, key, callback=None):
    """reset + one collect_rollout, vectorised exactly as `iteration` does it"""
    callback = callback if callback is not None else CallbackList(callbacks=[])
    k_reset, k_roll = jr.split(key)
    state = algo.reset(env, policy, key=k_reset, callback=callback)
    E = algo.num_envs

    @eqx.filter_jit
    def run(step_state, k):
        if E == 1:
            return algo.collect_rollout(env, policy, step_state, callback, k)
        return eqx.filter_vmap(algo.collect_rollout, in_axes=(None, None, eqx.if_array(0), None, 0))(
            env, policy, step_state, callback, jr.split(k, E))

    step_state, buf = run(state.step_state, k_roll)
    return state.step_state, step_state, buf, run


def slice_env(tree, e, E):
    return tree if E == 1 else jax.tree.map(lambda x: x[e], tree)


ROW_FIELDS = ["obs", "reward", "done", "log_prob", "value", "policy_state", "mask"]
CLAUSE = {
    "obs": "row_observation_is_what_the_policy_saw",
    "reward": "reward_of_clipped_action_bootstrapped_only_on_pure_truncation",
    "done": "done_is_terminal_or_truncated",
    "log_prob": "log_prob_is_policys_for_stored_action",
    "value": "value_is_policys_for_stored_observation",
    "policy_state": "policy_state_recorded_and_reset_after_done",
    "mask": "mask_recorded_is_env_mask",
}


def impl_rows(buf_e, T):
    rows = []
    for t in range(T):
        m = None if buf_e.action_masks is None else np.asarray(buf_e.action_masks[t]).tolist()
        rows.append({
            "obs": np.asarray(buf_e.observations[t], np.float64).ravel(),
            "action": float(np.asarray(buf_e.actions[t], np.float64).ravel()[0]),
            "reward": float(buf_e.rewards[t]), "done": bool(buf_e.dones[t]),
            "log_prob": float(buf_e.log_probs[t]), "value": float(buf_e.values[t]),
            "policy_state": int(buf_e.states.count[t]), "mask": m})
    return rows


def row_mismatches(ctx, mrow, irow, scale=4.0):
    bad = []
    for f in ROW_FIELDS:
        a, b = mrow[f], irow[f]
        if f in ("obs", "reward", "log_prob", "value"):
            if not ctx.close(a, b, scale):
                bad.append(f)
        elif a != b:
            bad.append(f)
    return bad


def replay_env(ctx, tab, desc, pol, gamma, clip, n_noise, pre_state, pre_count, rows, final_state,
               final_count):
    """Replay one environment's rollout step by step in the Lean model, choosing for each step
    the transition-noise oracle that explains the implementation's row.  Returns
    (model_rows, failures[(t, field)], model_last_value)."""
    state, count = pre_state, pre_count
    failures, model_rows = [], []
    flags = {"terminated": 0, "truncated-only": 0, "terminal-and-truncated": 0}
    T = len(rows)
    last_value = None
    for t in range(T):
        nxt_obs = rows[t + 1]["obs"] if t + 1 < T else None
        nxt = {"s": int(nxt_obs[0]), "clock": int(nxt_obs[1])} if nxt_obs is not None else final_state
        init = nxt["s"]
        best = None
        for nz in range(n_noise):
            out = ctx.drv.call("onpolicy_rollout", tab=tab, stack=desc, policy=pol, gamma=gamma, clip=clip,
                               state=state, policy_state=count,
                               steps=[{"action": rows[t]["action"], "noise": nz, "init": init}])
            mrow = out["rows"][0]
            bad = row_mismatches(ctx, mrow, rows[t])
            fs = out["final_state"]
            if (fs["s"], fs["clock"]) != (nxt["s"], nxt["clock"]):
                bad.append("next_env_state")
            if t + 1 == T:
                if fs != final_state:
                    if "next_env_state" not in bad:
                        bad.append("next_env_state")
                if out["final_policy_state"] != final_count:
                    bad.append("next_policy_state")
            if best is None or len(bad) < len(best[0]):
                best = (bad, out)
            if not bad:
                break
        bad, out = best
        if rows[t]["done"] and not bad:
            # which kind of episode end was it? (functional components of the model at this step)
            for nz in range(n_noise):
                comp = ctx.drv.call("tab_components", tab=tab, stack=desc, state=state,
                                    action=(min(max(rows[t]["action"], clip["lo"]), clip["hi"]) if clip else rows[t]["action"]),
                                    noise=nz)
                if comp["terminal"] or comp["truncate"]:
                    k = ("terminal-and-truncated" if comp["terminal"] and comp["truncate"]
                         else "terminated" if comp["terminal"] else "truncated-only")
                    flags[k] += 1
                    break
        for f in bad:
            failures.append((t, f))
        model_rows.append(out["rows"][0])
        state, count = out["final_state"], out["final_policy_state"]
        last_value = out["last_value"]
    for k, v in flags.items():
        ctx.count("rows:" + k, v)
    return model_rows, failures, last_value
