"""Per-run context: counters, tolerance, case bookkeeping, failure records."""
from __future__ import annotations

import hashlib
import json
import os
import time
from collections import Counter

import numpy as np

from .proto import Driver, readable


class Ctx:
    def __init__(self, pid: str, tier: str, seed: int, x64: bool):
        self.pid = pid
        self.tier = tier
        self.seed = seed
        self.x64 = x64
        self.rng = np.random.default_rng([seed, int(x64), int(pid[1:])])
        self.drv = Driver()
        self.atol, self.rtol = (1e-9, 1e-9) if x64 else (1e-4, 1e-4)
        self.evaluations = 0
        self.distinct = set()
        self.distribution = Counter()
        self.samples = []
        self.disagreements = []
        self.phi_failures = []
        self.notes = []
        self.t0 = time.time()

    # ---- configuration helpers
    @property
    def quick(self) -> bool:
        return self.tier == "quick"

    def budget(self, quick, thorough):
        return quick if self.quick else thorough

    def tol(self, scale: float = 1.0):
        return {"atol": self.atol * scale, "rtol": self.rtol * scale}

    def close(self, a, b, scale: float = 1.0) -> bool:
        a = np.asarray(a, dtype=np.float64)
        b = np.asarray(b, dtype=np.float64)
        if a.shape != b.shape:
            return False
        nan_a, nan_b = np.isnan(a), np.isnan(b)
        if (nan_a != nan_b).any():
            return False
        a = np.where(nan_a, 0.0, a)
        b = np.where(nan_b, 0.0, b)
        inf = np.isinf(a) | np.isinf(b)
        if (a[inf] != b[inf]).any():
            return False
        a = np.where(inf, 0.0, a)
        b = np.where(inf, 0.0, b)
        lim = self.atol * scale + self.rtol * scale * np.maximum(np.abs(a), np.abs(b))
        return bool((np.abs(a - b) <= lim).all())

    # ---- bookkeeping
    def count(self, key: str, n: int = 1):
        self.distribution[key] += n

    def case(self, sig, nontrivial: bool = True, sample=None):
        """Register one evaluated case; `sig` identifies it for distinctness."""
        self.evaluations += 1
        if nontrivial:
            h = hashlib.sha1(json.dumps(readable(sig), sort_keys=True).encode()).hexdigest()[:16]
            self.distinct.add(h)
        if sample is not None and len(self.samples) < 3:
            self.samples.append(readable(sample))

    def disagree(self, observable: str, case, impl=None, model=None):
        self.count("disagreement:" + observable)
        if len(self.disagreements) < 20:
            self.disagreements.append(
                {"observable": observable, "case": readable(case),
                 "impl": readable(impl), "model": readable(model)})

    def phi_fail(self, clause: str, case, key: str | None = None, detail=None):
        """Φ decided false on an implementation output. `key` classifies the failure for
        known_findings matching (defaults to the clause name)."""
        self.count("phi_fail:" + clause)
        if len(self.phi_failures) < 20:
            self.phi_failures.append(
                {"clause": clause, "key": key or clause, "case": readable(case),
                 "detail": readable(detail)})

    def gc(self, every: int = 8):
        """Drop JAX's compiled-executable caches every `every` calls: long thorough runs compile a
        fresh program per configuration and would otherwise exhaust memory."""
        self._gc_n = getattr(self, "_gc_n", 0) + 1
        if self._gc_n % every == 0:
            import gc

            import jax
            jax.clear_caches()
            gc.collect()

    def note(self, text: str):
        if text not in self.notes:
            self.notes.append(text)

    def result(self):
        return {
            "property": self.pid, "tier": self.tier, "seed": self.seed, "x64": self.x64,
            "evaluations": self.evaluations,
            "distinct_nontrivial": len(self.distinct),
            "distribution": dict(sorted(self.distribution.items())),
            "samples": self.samples,
            "disagreements": self.disagreements,
            "phi_failures": self.phi_failures,
            "notes": self.notes,
            "driver_calls": self.drv.n,
            "wall_s": round(time.time() - self.t0, 2),
        }
