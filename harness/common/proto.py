"""Line protocol to the Lean model driver (see lean/LeraxModel/Proto.lean).

Floats cross the pipe as IEEE-754 bit patterns so nothing is lost either way.
"""
from __future__ import annotations

import json
import os
import struct
import subprocess

import numpy as np

VERIF = os.path.dirname(os.path.dirname(os.path.dirname(os.path.abspath(__file__))))
DRIVER = os.path.join(VERIF, "lean", ".lake", "build", "bin", "driver")


def f2b(x: float) -> int:
    return struct.unpack("<Q", struct.pack("<d", float(x)))[0]


def b2f(b: int) -> float:
    return struct.unpack("<d", struct.pack("<Q", int(b)))[0]


def enc(x):
    """Python / numpy / jax value -> wire JSON."""
    if x is None:
        return None
    if isinstance(x, (bool, np.bool_)):
        return bool(x)
    if isinstance(x, (int, np.integer)):
        return int(x)
    if isinstance(x, (float, np.floating)):
        return {"f": f2b(x)}
    if isinstance(x, str):
        return x
    if isinstance(x, dict):
        return {str(k): enc(v) for k, v in x.items()}
    if isinstance(x, (list, tuple)):
        return [enc(v) for v in x]
    if hasattr(x, "shape") and hasattr(x, "dtype"):
        a = np.asarray(x)
        if a.ndim == 0:
            return enc(a.item())
        if a.dtype.kind == "f":
            if a.ndim == 1:
                return {"F": [f2b(v) for v in a.astype(np.float64).tolist()]}
            return [enc(v) for v in a]
        if a.dtype.kind in "iu":
            return a.astype(np.int64).tolist()
        if a.dtype.kind == "b":
            return a.tolist()
        raise TypeError(f"cannot encode array dtype {a.dtype}")
    raise TypeError(f"cannot encode {type(x)}")


def dec(x):
    """wire JSON -> Python (floats decoded from bits)."""
    if isinstance(x, dict):
        if len(x) == 1 and "f" in x:
            return b2f(x["f"])
        if len(x) == 1 and "F" in x:
            return [b2f(v) for v in x["F"]]
        return {k: dec(v) for k, v in x.items()}
    if isinstance(x, list):
        return [dec(v) for v in x]
    return x


def readable(x):
    """Python / numpy value -> plain JSON for replay files and evidence samples."""
    if x is None or isinstance(x, (bool, int, str)):
        return x
    if isinstance(x, (np.bool_,)):
        return bool(x)
    if isinstance(x, np.integer):
        return int(x)
    if isinstance(x, (float, np.floating)):
        v = float(x)
        if v != v:
            return "nan"
        if v in (float("inf"), float("-inf")):
            return "inf" if v > 0 else "-inf"
        return v
    if isinstance(x, dict):
        return {str(k): readable(v) for k, v in x.items()}
    if isinstance(x, (list, tuple)):
        return [readable(v) for v in x]
    if hasattr(x, "shape") and hasattr(x, "dtype"):
        return readable(np.asarray(x).tolist())
    return repr(x)


class DriverError(RuntimeError):
    pass


class Driver:
    """Synchronous connection to the compiled Lean driver."""

    def __init__(self):
        if not os.path.exists(DRIVER):
            raise DriverError(f"driver not built: {DRIVER}")
        self.p = subprocess.Popen(
            [DRIVER], stdin=subprocess.PIPE, stdout=subprocess.PIPE, text=True, bufsize=1
        )
        self.n = 0

    def call(self, op: str, **args):
        self.n += 1
        line = json.dumps({"op": op, "id": self.n, "a": enc(args)}, separators=(",", ":"))
        self.p.stdin.write(line + "\n")
        self.p.stdin.flush()
        out = self.p.stdout.readline()
        if not out:
            raise DriverError(f"driver died on op {op}")
        r = json.loads(out)
        if "err" in r:
            raise DriverError(r["err"])
        return dec(r["ok"])

    def close(self):
        try:
            self.p.stdin.close()
            self.p.wait(timeout=10)
        except Exception:
            self.p.kill()
