"""Finite-MDP test doubles: real subclasses of lerax's environment and policy interfaces whose
behaviour is table look-ups, so that every observable of a rollout can be replayed by the Lean
model (lean/Driver/Tabular.lean) from the same tables.

TabularEnv   state = (s, clock, noise); observation = [s, clock] (float); transition table
             T[s, a, noise]; reward table Rw[s, a, s'] (+ coef*action for Box actions); terminal
             and env-level truncation sets (may overlap); several initial states; optional
             action masks per state.  Box actions are bucketed by boundaries that extend beyond
             the action bounds, so an unclipped out-of-range action lands in another bucket.
"""
from __future__ import annotations

from typing import ClassVar

import equinox as eqx
import jax
import numpy as np
from jax import numpy as jnp
from jax import random as jr
from jaxtyping import Array, Bool, Float, Int, Key

from lerax.distribution import Categorical, Normal, SquashedNormal
from lerax.env import AbstractEnv, AbstractEnvState
from lerax.policy import (AbstractActorCriticPolicy, AbstractPolicyState, AbstractQPolicy,
                          AbstractSACPolicy)
from lerax.space import Box, Discrete

MAX_CLOCK = 4095.0


class TabState(AbstractEnvState):
    s: Int[Array, ""]
    clock: Int[Array, ""]
    noise: Int[Array, ""]


class TabularEnv(AbstractEnv):
    name: ClassVar[str] = "Tabular"

    action_space: Box | Discrete
    observation_space: Box
    T: Int[Array, "s a n"]
    Rw: Float[Array, "s a s"]
    term: Bool[Array, " s"]
    trunc: Bool[Array, " s"]
    inits: Int[Array, " i"]
    bounds: Float[Array, " b"]
    coef: Float[Array, ""]
    masks: Bool[Array, "s a"] | None
    box: bool = eqx.field(static=True)

    def __init__(self, T, Rw, term, trunc, inits, box=False, bounds=(), coef=0.0, masks=None):
        self.T = jnp.asarray(T, dtype=int)
        self.Rw = jnp.asarray(Rw, dtype=float)
        self.term = jnp.asarray(term, dtype=bool)
        self.trunc = jnp.asarray(trunc, dtype=bool)
        self.inits = jnp.asarray(inits, dtype=int)
        self.box = bool(box)
        self.bounds = jnp.asarray(bounds, dtype=float)
        self.coef = jnp.asarray(coef, dtype=float)
        self.masks = None if masks is None else jnp.asarray(masks, dtype=bool)
        nS, nA = self.T.shape[0], self.T.shape[1]
        self.action_space = Box(-1.0, 1.0, shape=(1,)) if box else Discrete(nA)
        self.observation_space = Box(jnp.zeros(2), jnp.array([float(nS - 1), MAX_CLOCK]))

    # ---- functional API
    def initial(self, *, key):
        idx = jr.randint(key, (), 0, self.inits.shape[0])
        return TabState(self.inits[idx], jnp.array(0, dtype=int), jnp.array(0, dtype=int))

    def action_mask(self, state, *, key):
        return None if self.masks is None else self.masks[state.s]

    def _a(self, action):
        if self.box:
            a = jnp.asarray(action, dtype=float).reshape(())
            return jnp.sum(self.bounds <= a).astype(int), a
        return jnp.asarray(action, dtype=int).reshape(()), jnp.array(0.0)

    def transition(self, state, action, *, key):
        noise = jr.randint(key, (), 0, self.T.shape[2])
        a, _ = self._a(action)
        return TabState(self.T[state.s, a, noise], state.clock + 1, noise)

    def observation(self, state, *, key):
        return jnp.stack([state.s, state.clock]).astype(float)

    def reward(self, state, action, next_state, *, key):
        a, x = self._a(action)
        r = self.Rw[state.s, a, next_state.s]
        return r + self.coef * x if self.box else r

    def terminal(self, state, *, key):
        return self.term[state.s]

    def truncate(self, state):
        return self.trunc[state.s]

    def state_info(self, state):
        return {}

    def transition_info(self, state, action, next_state):
        # depends on the action it is handed, so wrappers that map actions are observable here too
        a, x = self._a(action)
        return {"action_bucket": a, "action_value": x, "s": state.s, "clock": state.clock, "next_s": next_state.s,
                "next_clock": next_state.clock}

    def default_renderer(self):
        raise NotImplementedError

    def render(self, state, renderer):
        raise NotImplementedError

    # ---- description for the Lean driver
    def describe(self):
        return {
            "T": np.asarray(self.T).tolist(),
            "Rw": [[np.asarray(r, dtype=np.float64) for r in row] for row in np.asarray(self.Rw)],
            "term": np.asarray(self.term).tolist(),
            "trunc": np.asarray(self.trunc).tolist(),
            "inits": np.asarray(self.inits).tolist(),
            "box": self.box,
            "bounds": np.asarray(self.bounds, dtype=np.float64),
            "coef": float(self.coef),
            "masks": None if self.masks is None else np.asarray(self.masks).tolist(),
        }


def random_tabular(rng, *, box=False, n_states=None, n_actions=None, n_noise=None, masks=False,
                   p_term=0.15, p_trunc=0.1, dyadic=True):
    """Random finite MDP; env-level truncation set may overlap the terminal set."""
    nS = n_states or int(rng.integers(3, 7))
    if box:
        bounds = np.array([-1.5, -0.5, 0.5, 1.5])
        nA = len(bounds) + 1
    else:
        bounds = np.zeros((0,))
        nA = n_actions or int(rng.integers(2, 5))
    nN = n_noise or int(rng.choice([1, 1, 2, 3]))
    T = rng.integers(0, nS, size=(nS, nA, nN))
    if dyadic:
        Rw = rng.integers(-8, 9, size=(nS, nA, nS)) / 4.0
    else:
        Rw = rng.uniform(-2, 2, size=(nS, nA, nS))
    term = rng.random(nS) < p_term
    trunc = rng.random(nS) < p_trunc
    if rng.random() < 0.5 and nS > 2:
        # make sure a state that is terminal AND truncated exists
        j = int(rng.integers(0, nS))
        term[j] = True
        trunc[j] = True
    n_init = int(rng.integers(1, 3))
    free = [i for i in range(nS) if not term[i] and not trunc[i]]
    if not free:
        term[0] = False
        trunc[0] = False
        free = [0]
    inits = rng.choice(free, size=min(n_init, len(free)), replace=False)
    m = None
    if masks and not box:
        m = rng.random((nS, nA)) < 0.6
        for i in range(nS):
            if not m[i].any():
                m[i, int(rng.integers(0, nA))] = True
    coef = float(rng.choice([0.25, 0.5, 1.0])) if box else 0.0
    return TabularEnv(T, Rw, term, trunc, inits, box=box, bounds=bounds, coef=coef, masks=m)


# --------------------------------------------------------------------------- policies

class CountState(AbstractPolicyState):
    count: Int[Array, ""]


def _obs_state(observation):
    return jnp.asarray(observation)[0].astype(int)


class TabularACPolicy(AbstractActorCriticPolicy):
    """Coherent tabular actor-critic: logits / (loc, log_std) and values are table rows;
    the policy state counts calls (so resets are observable) and indexes the value table."""
    name: ClassVar[str] = "TabularACPolicy"

    action_space: Box | Discrete
    observation_space: Box
    logits: Float[Array, "s a"]
    loc: Float[Array, " s"]
    log_std: Float[Array, " s"]
    values: Float[Array, "s c"]

    def __init__(self, env, logits=None, loc=None, log_std=None, values=None):
        self.action_space = env.action_space
        self.observation_space = env.observation_space
        nS = int(env.observation_space.high[0]) + 1
        self.logits = jnp.asarray(logits if logits is not None else jnp.zeros((nS, 1)), dtype=float)
        self.loc = jnp.asarray(loc if loc is not None else jnp.zeros((nS,)), dtype=float)
        self.log_std = jnp.asarray(log_std if log_std is not None else jnp.zeros((nS,)), dtype=float)
        self.values = jnp.asarray(values if values is not None else jnp.zeros((nS, 1)), dtype=float)

    def reset(self, *, key):
        return CountState(jnp.array(0, dtype=int))

    def _dist(self, s, action_mask):
        if isinstance(self.action_space, Discrete):
            d = Categorical(logits=self.logits[s])
            return d.mask(action_mask) if action_mask is not None else d
        return Normal(self.loc[s][None], jnp.exp(self.log_std[s])[None])

    def _value(self, state, s):
        return self.values[s, state.count % self.values.shape[1]]

    def __call__(self, state, observation, *, key=None, action_mask=None):
        d = self._dist(_obs_state(observation), action_mask)
        action = d.mode() if key is None else d.sample(key)
        return CountState(state.count + 1), action

    def action_and_value(self, state, observation, *, key, action_mask=None):
        s = _obs_state(observation)
        d = self._dist(s, action_mask)
        action, log_prob = d.sample_and_log_prob(key)
        return CountState(state.count + 1), action, self._value(state, s), log_prob.sum().squeeze()

    def evaluate_action(self, state, observation, action, *, action_mask=None):
        s = _obs_state(observation)
        d = self._dist(s, action_mask)
        log_prob = d.log_prob(action)
        return (CountState(state.count + 1), self._value(state, s), log_prob.sum().squeeze(),
                d.entropy().sum().squeeze())

    def value(self, state, observation):
        return state, self._value(state, _obs_state(observation))


def random_ac_policy(rng, env, n_counts=3, dyadic=True):
    nS = int(env.observation_space.high[0]) + 1
    if isinstance(env.action_space, Discrete):
        nA = env.action_space.n
        logits = rng.integers(-4, 5, size=(nS, nA)) / 2.0
        loc = log_std = None
    else:
        logits = None
        loc = rng.uniform(-1.2, 1.2, size=(nS,))
        log_std = rng.uniform(-1.0, 0.3, size=(nS,))
    values = rng.integers(-8, 9, size=(nS, n_counts)) / 4.0 if dyadic else rng.uniform(-2, 2, (nS, n_counts))
    return TabularACPolicy(env, logits=logits, loc=loc, log_std=log_std, values=values)


class TabularQPolicy(AbstractQPolicy):
    name: ClassVar[str] = "TabularQPolicy"

    action_space: Discrete
    observation_space: Box
    q: Float[Array, "s a"]
    epsilon: float

    def __init__(self, env, q, epsilon=0.3):
        self.action_space = env.action_space
        self.observation_space = env.observation_space
        self.q = jnp.asarray(q, dtype=float)
        self.epsilon = float(epsilon)

    def reset(self, *, key):
        return CountState(jnp.array(0, dtype=int))

    def q_values(self, state, observation):
        return CountState(state.count + 1), self.q[_obs_state(observation)]


class TabularSACPolicy(AbstractSACPolicy):
    name: ClassVar[str] = "TabularSACPolicy"

    action_space: Box
    observation_space: Box
    loc: Float[Array, " s"]
    log_std: Float[Array, " s"]
    scale_out: float

    def __init__(self, env, loc, log_std, scale_out=1.3):
        self.action_space = env.action_space
        self.observation_space = env.observation_space
        self.loc = jnp.asarray(loc, dtype=float)
        self.log_std = jnp.asarray(log_std, dtype=float)
        self.scale_out = float(scale_out)   # squashing range exceeds the action bounds on purpose

    def reset(self, *, key):
        return CountState(jnp.array(0, dtype=int))

    def action_distribution(self, state, observation):
        s = _obs_state(observation)
        d = SquashedNormal(self.loc[s][None], jnp.exp(self.log_std[s])[None],
                           high=jnp.array([self.scale_out]), low=jnp.array([-self.scale_out]))
        # SAC's training code evaluates the policy with state=None (stateless use)
        return (None if state is None else CountState(state.count + 1)), d

    def __call__(self, state, observation, *, key=None, action_mask=None):
        st, d = self.action_distribution(state, observation)
        return st, (d.mode() if key is None else d.sample(key))

    def action_and_log_prob(self, state, observation, *, key):
        st, d = self.action_distribution(state, observation)
        a, lp = d.sample_and_log_prob(key)
        return st, a, lp.sum().squeeze()


# --------------------------------------------------------------------------- state encoding

def peel(state):
    """wrapped state -> (base TabState-like, [TimeLimit counters outermost first])"""
    counters = []
    while hasattr(state, "env_state"):
        if hasattr(state, "step_count"):
            counters.append(int(state.step_count))
        state = state.env_state
    return state, counters


def enc_state(state):
    base, counters = peel(state)
    return {"s": int(base.s), "clock": int(base.clock), "noise": int(base.noise),
            "counters": counters}
