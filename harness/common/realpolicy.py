"""End-to-end re-evaluation with lerax's REAL `MLPActorCriticPolicy` (not a tabular test double):

collect a rollout through the real on-policy `collect_rollout` on a small environment whose action
space is one of {scalar bounded Box, vector bounded Box, Discrete, MultiDiscrete, MultiBinary}, then
re-evaluate every stored sample under the unchanged policy with `evaluate_action(state, observation,
stored action, mask)`.  C04 states that this reproduces the stored value and log-probability (so the
first PPO ratio is 1); C08 states that on such data every ratio is 1 and the approximate KL is 0.
The standard deviation of the continuous heads is varied (`log_std_init` in {0, -0.7, 0.6}) and the
Box bounds are tight, so that sampled actions regularly fall outside the bounds (clipping active).
"""
from __future__ import annotations

from typing import ClassVar

import equinox as eqx
import jax
import numpy as np
from jax import numpy as jnp
from jax import random as jr
from jaxtyping import Array, Float, Int

from lerax.algorithm import A2C, PPO
from lerax.env import AbstractEnv, AbstractEnvState
from lerax.policy import MLPActorCriticPolicy
from lerax.space import Box, Discrete, MultiBinary, MultiDiscrete
from lerax.wrapper import TimeLimit

from .collect import collect


class DriftState(AbstractEnvState):
    x: Float[Array, "3"]
    t: Int[Array, ""]


class DriftEnv(AbstractEnv):
    """x' = 0.9 x + 0.1 * embed(action) + noise; reward = -|x'|^2 + sum(embed(action)); terminal when
    |x'|_inf > 1.5.  The action enters dynamics and reward through its flattened float embedding, so
    every action-space kind is exercised with the same code."""
    name: ClassVar[str] = "Drift"
    action_space: Box | Discrete | MultiDiscrete | MultiBinary
    observation_space: Box
    masked: bool = eqx.field(static=True)

    def __init__(self, action_space, masked=False):
        self.action_space = action_space
        self.observation_space = Box(-2.0 * jnp.ones(3), 2.0 * jnp.ones(3))
        self.masked = bool(masked) and not isinstance(action_space, Box)

    def mask_of(self, x):
        """state-dependent action mask (a function of the observation, so that it can be recomputed from the
        recorded observation): Discrete(n) -> (n,), MultiDiscrete(nvec) -> (sum nvec,), at least one entry
        allowed per component; MultiBinary(n) -> (n,) bits that may be set"""
        sp = self.action_space
        h = jnp.floor(jnp.abs(x[0]) * 97.0).astype(int) + 3 * jnp.floor(jnp.abs(x[1]) * 89.0).astype(int)
        if isinstance(sp, Discrete):
            dims = [int(sp.n)]
        elif isinstance(sp, MultiDiscrete):
            dims = [int(d) for d in np.asarray(sp.nvec).ravel()]
        else:
            n = int(np.prod(sp.shape))
            return ((h + jnp.arange(n)) % 3 != 0)
        parts = []
        for j, d in enumerate(dims):
            m = ((h + 2 * j + jnp.arange(d)) % 3 != 0)
            m = m.at[(h + j) % d].set(True)            # never an empty component
            parts.append(m)
        return jnp.concatenate(parts)

    def _embed(self, action):
        a = jnp.ravel(jnp.asarray(action, dtype=float))
        return jnp.resize(a, (3,)) if a.shape[0] >= 1 else jnp.zeros(3)

    def initial(self, *, key):
        return DriftState(jr.uniform(key, (3,), minval=-0.5, maxval=0.5), jnp.array(0, dtype=int))

    def action_mask(self, state, *, key):
        return self.mask_of(state.x) if self.masked else None

    def transition(self, state, action, *, key):
        x = 0.9 * state.x + 0.1 * self._embed(action) + 0.05 * jr.normal(key, (3,))
        return DriftState(jnp.clip(x, -2.0, 2.0), state.t + 1)

    def observation(self, state, *, key):
        return state.x

    def reward(self, state, action, next_state, *, key):
        return -jnp.sum(next_state.x ** 2) + jnp.sum(self._embed(action))

    def terminal(self, state, *, key):
        return jnp.max(jnp.abs(state.x)) > 1.5

    def truncate(self, state):
        return jnp.array(False)

    def state_info(self, state):
        return {}

    def transition_info(self, state, action, next_state):
        return {}

    def default_renderer(self):
        raise NotImplementedError

    def render(self, state, renderer):
        raise NotImplementedError


def action_spaces():
    return [
        ("Box1[-0.5,0.5]", Box(-0.5, 0.5, shape=(1,)), False),
        ("Box3[-0.4,0.6]", Box(-0.4 * jnp.ones(3), 0.6 * jnp.ones(3)), False),
        ("Box2[-1,1]", Box(-jnp.ones(2), jnp.ones(2)), False),
        ("Discrete4", Discrete(4), False),
        ("MultiDiscrete(3,3)", MultiDiscrete((3, 3)), False),
        ("MultiDiscrete(2,4,3)", MultiDiscrete((2, 4, 3)), False),
        ("MultiBinary3", MultiBinary(3), False),
        ("Discrete5+masks", Discrete(5), True),
        ("MultiDiscrete(3,4)+masks", MultiDiscrete((3, 4)), True),
        ("MultiBinary4+masks", MultiBinary(4), True),
    ]


def mask_violations(env0, space, flat):
    """(recorded mask != mask the environment offers for the recorded observation, chosen action not allowed
    by that mask) counted over the rows of a flattened rollout"""
    obs = np.asarray(flat.observations, np.float64)
    offered = np.stack([np.asarray(env0.mask_of(jnp.asarray(o, dtype=flat.observations.dtype))) for o in obs])
    recorded = np.asarray(flat.action_masks).reshape(offered.shape)
    acts = np.asarray(flat.actions).reshape(len(obs), -1).astype(int)
    bad = 0
    for t in range(len(obs)):
        m = offered[t]
        if isinstance(space, Discrete):
            bad += int(not m[acts[t, 0]])
        elif isinstance(space, MultiDiscrete):
            off = 0
            for j, d in enumerate(int(x) for x in np.asarray(space.nvec).ravel()):
                bad += int(not m[off + acts[t, j]])
                off += d
        else:
            bad += int((acts[t].astype(bool) & ~m).any())
    return int((offered != recorded).any(axis=1).sum()), bad


def reevaluation_cases(ctx, n_cases):
    """yield dicts with the stored and the re-evaluated values / log-probs of real rollouts"""
    rng = ctx.rng
    spaces = action_spaces()
    order = list(range(len(spaces)))
    rng.shuffle(order)
    for i in range(n_cases):
        name, space, masked = spaces[order[i % len(spaces)]]
        limit = int(rng.integers(3, 7))
        env0 = DriftEnv(space, masked)
        env = TimeLimit(env0, limit)
        log_std = float(rng.choice([0.0, -0.7, 0.6]))
        E, T = int(rng.choice([1, 3])), int(rng.integers(6, 12))
        which = str(rng.choice(["PPO", "A2C"]))
        algo = PPO(num_envs=E, num_steps=T, num_epochs=1, num_batches=1) if which == "PPO" else A2C(num_envs=E, num_steps=T)
        key = jr.key(int(rng.integers(0, 2**31)))
        pk, ck = jr.split(key)
        policy = MLPActorCriticPolicy(env, feature_size=4, feature_width=8, feature_depth=1, value_width=8,
                                      value_depth=1, action_width=8, action_depth=1, log_std_init=log_std, key=pk)
        _, _, buf, _ = collect(algo, env, policy, ck)
        flat = buf if E == 1 else jax.tree.map(lambda x: x.reshape((E * T,) + x.shape[2:]), buf)

        def reeval(obs, act, mask, st):
            _, v, lp, _ = policy.evaluate_action(st, obs, act, action_mask=mask)
            return v, lp

        v, lp = eqx.filter_vmap(reeval)(flat.observations, flat.actions, flat.action_masks, flat.states)
        acts = np.asarray(flat.actions, np.float64).reshape(E * T, -1)
        clipped = 0
        if isinstance(space, Box):
            lo, hi = np.asarray(space.low, np.float64).ravel(), np.asarray(space.high, np.float64).ravel()
            clipped = int(((acts < lo) | (acts > hi)).any(axis=1).sum())
        mask_mismatch, mask_disobeyed = mask_violations(env0, space, flat) if masked else (0, 0)
        yield {"masked": masked, "recorded_mask_differs_from_offered": mask_mismatch,
               "actions_not_allowed_by_offered_mask": mask_disobeyed, "algo": which, "action_space": name, "log_std_init": log_std, "num_envs": E, "num_steps": T,
               "time_limit": limit, "stored_log_prob": np.asarray(flat.log_probs, np.float64),
               "reevaluated_log_prob": np.asarray(lp, np.float64), "stored_value": np.asarray(flat.values, np.float64),
               "reevaluated_value": np.asarray(v, np.float64), "actions": acts, "out_of_bounds_samples": clipped,
               "policy": policy, "flat": flat, "n": E * T}
