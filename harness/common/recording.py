"""A logging backend that records what it receives, and a step-callback that records the true
(reward, done) stream — both real lerax callback/backends subclasses."""
from __future__ import annotations

import equinox as eqx
import jax
import numpy as np
from jax import numpy as jnp

from lerax.callback import AbstractLoggingBackend


class RecordingBackend(AbstractLoggingBackend):
    records: list = eqx.field(static=True)
    hparams: list = eqx.field(static=True)

    def __init__(self):
        self.records = []
        self.hparams = []

    def open(self, name):
        pass

    def log_hparams(self, hparams):
        self.hparams.append(dict(hparams))

    def log_scalars(self, scalars, step):
        self.records.append((int(step), {k: float(np.asarray(v)) for k, v in scalars.items()}))

    def log_video(self, tag, frames, step, fps):
        pass

    def close(self):
        pass

    def __hash__(self):
        return id(self)

    def __eq__(self, other):
        return self is other
