"""C04 — on-policy rollout is a faithful record: real PPO/A2C/REINFORCE collect_rollout on finite
MDPs with tabular coherent policies vs lean/LeraxModel/OnPolicy.lean (+ GAE of C03 end to end)."""
from __future__ import annotations

import equinox as eqx
import jax
import numpy as np
from jax import numpy as jnp
from jax import random as jr

from lerax.algorithm import A2C, PPO, REINFORCE
from lerax.wrapper import TimeLimit

from .common.collect import (CLAUSE, clip_desc, collect, impl_rows, policy_desc, replay_env,
                             slice_env)
from .common.tabular import enc_state, random_ac_policy, random_tabular


def _config(ctx, idx):
    rng = ctx.rng
    box = bool(rng.random() < 0.45)
    env0 = random_tabular(rng, box=box, masks=(not box and rng.random() < 0.6), p_term=0.18, p_trunc=0.12)
    desc = []
    env = env0
    if rng.random() < 0.7:
        n = int(rng.integers(1, 6))
        env = TimeLimit(env0, n)
        desc = [{"w": "timeLimit", "n": n}]
    policy = random_ac_policy(rng, env0, n_counts=3)
    foreign_policy_space = None
    if box and rng.random() < 0.4:
        # a policy made for ANOTHER variant of the task (same action shape, other bounds — a wider or a narrower
        # actuator range): the environment being rolled out decides what its action is clipped to
        foreign_policy_space = [(-7.0, 7.0), (-0.05, 0.05), (-0.3, 9.0)][int(rng.integers(3))]
        from lerax.space import Box as _Box
        policy = eqx.tree_at(lambda p: p.action_space, policy,
                             _Box(foreign_policy_space[0], foreign_policy_space[1], shape=env0.action_space.shape))
        ctx.count("policy-advertises-other-action-bounds")
    E = int(rng.choice([1, 3]))
    T = int(rng.integers(4, ctx.budget(20, 48)))
    gamma = float(rng.choice([0.5, 0.9, 0.99, 1.0]))
    lam = float(rng.choice([0.0, 0.5, 0.95, 1.0]))
    which = str(rng.choice(["PPO", "A2C", "REINFORCE"]))
    if which == "PPO":
        algo = PPO(num_envs=E, num_steps=T, gamma=gamma, gae_lambda=lam, num_batches=1, num_epochs=1)
    elif which == "A2C":
        algo = A2C(num_envs=E, num_steps=T, gamma=gamma, gae_lambda=lam)
    else:
        algo = REINFORCE(num_envs=E, num_steps=T, gamma=gamma)
        lam = 1.0
    key = jr.key(int(rng.integers(0, 2**31)))
    tab, pol, clip = env0.describe(), policy_desc(policy), clip_desc(env)
    term_states = np.nonzero(np.asarray(env0.term))[0]
    if len(term_states) and rng.random() < 0.5:
        # a critic that is undefined (NaN / infinite) exactly on TERMINAL states — states nobody ever acts in, whose
        # value a faithful record never uses ("a true termination never bootstraps"); the model keeps the finite table
        poison = float(rng.choice([np.nan, np.inf, -np.inf]))
        policy = eqx.tree_at(lambda p: p.values, policy, policy.values.at[jnp.asarray(term_states)].set(poison))
        ctx.count("critic-undefined-on-terminal-states")
    pre, post, buf, _ = collect(algo, env, policy, key)

    n_noise = int(env0.T.shape[2])
    evaluate = jax.jit(jax.vmap(lambda st, o, a, m: policy.evaluate_action(st, o, a, action_mask=m)[1:3]))
    for e in range(E):
        pre_e, post_e, buf_e = slice_env(pre, e, E), slice_env(post, e, E), slice_env(buf, e, E)
        rows = impl_rows(buf_e, T)
        pre_state = enc_state(pre_e.env_state)
        final_state = enc_state(post_e.env_state)
        case = {"kind": "onpolicy-rollout", "algo": which, "box": box, "stack": desc, "E": E, "T": T,
                "gamma": gamma, "env_index": e, "pre_state": pre_state, "rows": rows,
                "final_state": final_state, "tab": tab, "policy": pol}
        slim = {k: case[k] for k in ("kind", "algo", "box", "stack", "T", "gamma", "pre_state", "final_state")}
        slim["rows"] = rows[:3]
        ctx.case({"idx": idx, "e": e, "rows": [(r["obs"], r["action"]) for r in rows]}, True,
                 sample=slim if e == 0 else None)
        nd = sum(r["done"] for r in rows)
        ctx.count(f"{which}:rollouts")
        ctx.count("rows", T)
        ctx.count("rows:done", nd)
        ctx.count("rows:box" if box else "rows:discrete", T)
        if box:
            ctx.count("rows:action-clipped", sum(abs(r["action"]) > 1.0 for r in rows))
        if buf_e.action_masks is not None:
            ctx.count("rows:masked", T)
        model_rows, failures, last_value = replay_env(
            ctx, tab, desc, pol, gamma, clip, n_noise, pre_state, int(pre_e.policy_state.count), rows,
            final_state, int(post_e.policy_state.count))
        if failures:
            t, f = failures[0]
            clause = CLAUSE.get(f, "after_done_env_and_policy_restart" if f.startswith("next_") else f)
            ctx.phi_fail(clause, {**slim, "step": t, "field": f, "impl_row": rows[t],
                                  "model_row": model_rows[t], "tab": tab, "policy": pol},
                         key="onpolicy:" + f)
        # ratio one, directly on the implementation: re-evaluate the stored sample
        mask = buf_e.action_masks
        v2, lp2 = evaluate(buf_e.states, buf_e.observations, buf_e.actions, mask) if mask is not None else \
            jax.jit(jax.vmap(lambda st, o, a: policy.evaluate_action(st, o, a)[1:3]))(
                buf_e.states, buf_e.observations, buf_e.actions)
        if not (ctx.close(v2, buf_e.values, 4.0) and ctx.close(lp2, buf_e.log_probs, 4.0)):
            bad = int(np.argmax(~np.isclose(np.asarray(lp2), np.asarray(buf_e.log_probs), atol=1e-3)))
            ctx.phi_fail("ratio_one_on_reevaluation", {**slim, "step": bad, "stored_log_prob": float(buf_e.log_probs[bad]),
                                                       "reevaluated_log_prob": float(lp2[bad]),
                                                       "stored_action": rows[bad]["action"]},
                         key="onpolicy:ratio_one")
        # mask applied: a masked action is never stored
        if mask is not None:
            acts = np.asarray(buf_e.actions).astype(int)
            if not all(np.asarray(mask)[t, acts[t]] for t in range(T)):
                ctx.phi_fail("mask_applied", slim, key="onpolicy:mask_applied")
        # GAE end to end (C03's model) with the bootstrap value of the post-rollout state
        if not failures:
            g = ctx.drv.call("gae", gamma=gamma, lam=lam, rewards=[r["reward"] for r in rows],
                             values=[r["value"] for r in rows], dones=[r["done"] for r in rows],
                             last=last_value,
                             impl={"adv": np.asarray(buf_e.advantages, np.float64),
                                   "ret": np.asarray(buf_e.returns, np.float64)}, tol=ctx.tol(16.0))
            ctx.count("gae-end-to-end")
            if not g["phi"]:
                ctx.phi_fail("gae_of_collected_rollout_with_post_rollout_bootstrap",
                             {**slim, "last_value_model": last_value,
                              "impl_adv": np.asarray(buf_e.advantages), "model_adv": g["adv"]},
                             key="onpolicy:gae")


def check_filter_cond(ctx):
    """lerax.utils.filter_cond (used for the env / policy-state resets of step) vs the Lean model"""
    from lerax.utils import filter_cond
    rng = ctx.rng
    for i in range(ctx.budget(12, 60)):
        n = int(rng.integers(1, 6))
        kinds = rng.random(n) < 0.6                       # array leaf?
        names = [str(rng.choice(["relu", "tanh", "id"])) for _ in range(n)]
        t = [float(rng.integers(-9, 10)) if kinds[j] else names[j] for j in range(n)]
        f = [float(rng.integers(-9, 10)) if kinds[j] else names[j] for j in range(n)]
        if rng.random() < 0.3 and (~kinds).any():
            j = int(np.argmax(~kinds)); f[j] = f[j] + "_other"      # static leaves differ
        pred = bool(rng.random() < 0.5)
        tt = [jnp.asarray(x) if isinstance(x, float) else x for x in t]
        ff = [jnp.asarray(x) if isinstance(x, float) else x for x in f]
        try:
            out = eqx.filter_jit(lambda p: filter_cond(p, lambda: tt, lambda: ff))(jnp.asarray(pred))
            impl = [float(x) if not isinstance(x, str) else x for x in out]
        except ValueError:
            impl = "ValueError"
        m = ctx.drv.call("filter_cond", pred=pred, **{"true": t, "false": f})
        case = {"kind": "filter_cond", "pred": pred, "true": t, "false": f, "impl": impl, "model": m}
        ctx.case(case, True, sample=case if i == 0 else None)
        ctx.count("filter_cond:" + ("raises" if impl == "ValueError" else "selects"))
        if impl != m:
            ctx.phi_fail("filter_cond_selects_whole_branch", case, key="onpolicy:filter_cond")


def check_real_policy_reevaluation(ctx):
    """the real MLPActorCriticPolicy on every action-space kind: every stored sample re-evaluates to its
    own stored value and log-probability (clipping active on the bounded boxes, non-unit std)"""
    from .common.realpolicy import reevaluation_cases
    for c in reevaluation_cases(ctx, ctx.budget(10, 30)):
        slim = {k: v for k, v in c.items() if k not in ("policy", "flat")}
        if c["masked"]:
            ctx.count("real-policy:masked-rollouts")
            if c["recorded_mask_differs_from_offered"] or c["actions_not_allowed_by_offered_mask"]:
                ctx.phi_fail("mask_recorded_is_env_mask", slim, key="onpolicy:real_policy_mask")
                continue
        ctx.case({"kind": "real-policy-reevaluation", **{k: slim[k] for k in ("algo", "action_space", "log_std_init",
                  "num_envs", "num_steps", "stored_log_prob")}}, True)
        ctx.count("real-policy:" + c["action_space"])
        ctx.count("real-policy:out-of-bounds-samples", c["out_of_bounds_samples"])
        if not ctx.close(c["stored_log_prob"], c["reevaluated_log_prob"], 16.0):
            ctx.phi_fail("log_prob_is_policys_for_stored_action", slim, key="onpolicy:real_policy_log_prob")
        elif not ctx.close(c["stored_value"], c["reevaluated_value"], 16.0):
            ctx.phi_fail("value_is_policys_for_stored_observation", slim, key="onpolicy:real_policy_value")
        ctx.gc(4)


def run(ctx):
    check_filter_cond(ctx)
    check_real_policy_reevaluation(ctx)
    for i in range(ctx.budget(10, 60)):
        _config(ctx, i)
        ctx.gc()
