"""C10 — training schedule: real reset + iteration histories of DQN / SAC and learn() of all five
algorithms with a recording backend vs lean/LeraxModel/Schedule.lean."""
from __future__ import annotations

import hashlib

import equinox as eqx
import jax
import numpy as np
from jax import numpy as jnp
from jax import random as jr

from lerax.algorithm import A2C, DQN, PPO, REINFORCE, SAC
from lerax.callback import CallbackList, LoggingCallback

from .common.recording import RecordingBackend
from .common.tabular import (TabularQPolicy, TabularSACPolicy, random_ac_policy, random_tabular)


def _digest(tree):
    h = hashlib.sha1()
    for leaf in jax.tree.leaves(eqx.filter(tree, eqx.is_array)):
        h.update(np.asarray(leaf).tobytes())
    return h.hexdigest()


def _flat(tree):
    return np.concatenate([np.asarray(x, np.float64).ravel()
                           for x in jax.tree.leaves(eqx.filter(tree, eqx.is_inexact_array))])


def check_dqn(ctx, idx):
    rng = ctx.rng
    env = random_tabular(rng, p_term=0.1, p_trunc=0.05)
    nS, nA = int(env.T.shape[0]), int(env.T.shape[1])
    I = int(rng.choice([1, 2, 3, 5]))
    n = ctx.budget(7, 12)
    E = int(rng.choice([1, 2]))
    policy = TabularQPolicy(env, rng.uniform(-1, 1, (nS, nA)), epsilon=0.3)
    # incl. warm-ups shorter than one minibatch (learning_starts * num_envs < batch_size): legal, and the
    # schedule does not depend on how full the buffer is
    LS, B = [(4, 4), (4, 4), (1, 16 * E), (2, 8)][idx % 4]
    algo = DQN(buffer_size=16 * E, learning_starts=LS, num_envs=E, num_steps=2, batch_size=B,
               target_update_interval=I, learning_rate=1e-2)
    ctx.count(f"dqn:learning_starts={LS},batch_size={B}")
    cb = CallbackList(callbacks=[])
    key = jr.key(int(rng.integers(0, 2**31)))
    state = eqx.filter_jit(lambda k: algo.reset(env, policy, key=k, callback=cb))(key)
    it = eqx.filter_jit(lambda s, k: algo.iteration(s, key=k, callback=cb))
    ids = {}
    online, target, counts = [], [], []

    def rec(st):
        for lst, p in ((online, st.policy), (target, st.target_policy)):
            d = _digest(p)
            lst.append(ids.setdefault(d, len(ids)))
        counts.append(int(st.iteration_count))

    rec(state)
    for k in range(n):
        key, kk = jr.split(key)
        state = it(state, kk)
        rec(state)
    case = {"kind": "dqn-schedule", "interval": I, "num_envs": E, "online_ids": online, "target_ids": target,
            "iteration_counts": counts}
    ctx.case({**case, "idx": idx}, True, sample=case if idx == 0 else None)
    ctx.count(f"dqn:interval={I}")
    ctx.count("dqn:iterations", n)
    if len(set(online)) < 2:
        ctx.note("DQN online parameters never changed in a history (zero gradients?)")
    r = ctx.drv.call("dqn_targets_phi", interval=I, online_ids=online, target_ids=target)
    if not r["phi"]:
        ctx.phi_fail(r["clause"], case, key="dqn:target-schedule")
    if counts != list(range(n + 1)):
        ctx.phi_fail("iteration_counter_advances_by_one", case, key="counter")
    m = ctx.drv.call("dqn_run_targets", interval=I, online_ids=online)
    if m != target:
        ctx.disagree("dqn target history", case, impl=target, model=m)


def check_sac(ctx, idx):
    rng = ctx.rng
    env = random_tabular(rng, box=True, p_term=0.1, p_trunc=0.05)
    nS = int(env.T.shape[0])
    tau = float(rng.choice([0.005, 0.1, 0.5, 1.0]))
    # (num_steps, policy_frequency) pairs incl. ones sharing a factor, enumerated not drawn
    T, pf = [(2, 2), (1, 2), (3, 3), (4, 2), (1, 3), (2, 3), (1, 1), (3, 2), (4, 4), (2, 4)][idx % 10]
    autotune = bool(rng.random() < 0.6)
    n = ctx.budget(6, 12)
    E = int(rng.choice([1, 2]))
    policy = TabularSACPolicy(env, rng.uniform(-1, 1, nS), rng.uniform(-1, 0, nS))
    # the gating counts iterations, not environment steps
    # temperatures far from the default (tiny, large, and — without autotuning — exactly 0: entropy bonus off)
    alpha0 = float(rng.choice([0.2, 0.2, 1e-6, 30.0, 3e-5] + ([0.0] if not autotune else [])))
    algo = SAC(buffer_size=32 * E, learning_starts=4, num_envs=E, num_steps=T, batch_size=4, tau=tau,
               policy_frequency=pf, autotune=autotune, initial_alpha=alpha0, q_width_size=4, q_depth=1,
               policy_lr=1e-2, q_lr=1e-2)
    ctx.count(f"sac:initial_alpha={alpha0:g}")
    cb = CallbackList(callbacks=[])
    key = jr.key(int(rng.integers(0, 2**31)))
    state = eqx.filter_jit(lambda k: algo.reset(env, policy, key=k, callback=cb))(key)
    it = eqx.filter_jit(lambda s, k: algo.iteration(s, key=k, callback=cb))
    hist = [(_flat((state.qf1, state.qf2)), _flat((state.qf1_target, state.qf2_target)),
             _digest(state.policy), float(state.log_alpha), int(state.iteration_count))]
    for k in range(n):
        key, kk = jr.split(key)
        state = it(state, kk)
        hist.append((_flat((state.qf1, state.qf2)), _flat((state.qf1_target, state.qf2_target)),
                     _digest(state.policy), float(state.log_alpha), int(state.iteration_count)))
    actor_changed = [hist[k + 1][2] != hist[k][2] for k in range(n)]
    alpha_changed = [hist[k + 1][3] != hist[k][3] for k in range(n)]
    case = {"kind": "sac-schedule", "tau": tau, "policy_frequency": pf, "autotune": autotune, "initial_alpha": alpha0, "num_envs": E,
            "num_steps": T,
            "actor_changed": actor_changed, "alpha_changed": alpha_changed,
            "iteration_counts": [h[4] for h in hist]}
    ctx.case({**case, "idx": idx}, True, sample=case if idx == 0 else None)
    ctx.count(f"sac:pf={pf},autotune={int(autotune)}")
    ctx.count(f"sac:num_steps={T}")
    ctx.count("sac:iterations", n)
    if not np.array_equal(hist[0][0], hist[0][1]):
        ctx.phi_fail("targets_start_as_copy_of_critics", case, key="sac:init")
    for k in range(n):
        exp = ctx.drv.call("polyak", tau=tau, critic=hist[k + 1][0], target=hist[k][1])
        if not ctx.close(hist[k + 1][1], exp, 4.0):
            ctx.phi_fail("polyak_once_per_iteration", {**case, "iteration": k,
                                                       "impl_target": hist[k + 1][1][:6], "expected": exp[:6]},
                         key="sac:polyak")
            break
    r = ctx.drv.call("gating_phi", policy_frequency=pf, enabled=True, changed=actor_changed)
    if not r["phi"]:
        ctx.phi_fail("actor_" + r["clause"], case, key="sac:actor-gating")
    r = ctx.drv.call("gating_phi", policy_frequency=pf, enabled=autotune, changed=alpha_changed)
    if not r["phi"]:
        ctx.phi_fail("temperature_" + r["clause"], case, key="sac:alpha-gating")
    if case["iteration_counts"] != list(range(n + 1)):
        ctx.phi_fail("iteration_counter_advances_by_one", case, key="counter")


def check_learn(ctx, idx):
    rng = ctx.rng
    which = ["PPO", "A2C", "REINFORCE", "DQN", "SAC"][idx % 5]
    box = which == "SAC"
    env = random_tabular(rng, box=box, p_term=0.1, p_trunc=0.05)
    nS = int(env.T.shape[0])
    E, T = int(rng.choice([1, 2, 3])), int(rng.integers(2, 6))
    LS = 3
    per = E * T
    iters = int(rng.integers(1, 5))
    total = iters * per + int(rng.choice([0, 0, 1, per - 1]))
    if which == "PPO":
        algo, policy = PPO(num_envs=E, num_steps=T, num_epochs=1, num_batches=1), random_ac_policy(rng, env)
    elif which == "A2C":
        algo, policy = A2C(num_envs=E, num_steps=T), random_ac_policy(rng, env)
    elif which == "REINFORCE":
        algo, policy = REINFORCE(num_envs=E, num_steps=T), random_ac_policy(rng, env)
    elif which == "DQN":
        algo = DQN(buffer_size=32 * E, learning_starts=LS, num_envs=E, num_steps=T, batch_size=2)
        policy = TabularQPolicy(env, rng.uniform(-1, 1, (nS, int(env.T.shape[1]))))
    else:
        algo = SAC(buffer_size=32 * E, learning_starts=LS, num_envs=E, num_steps=T, batch_size=2,
                   q_width_size=4, q_depth=1)
        policy = TabularSACPolicy(env, rng.uniform(-1, 1, nS), rng.uniform(-1, 0, nS))
    backend = RecordingBackend()
    cb = LoggingCallback(backend, name="verif")
    algo.learn(env, policy, total, key=jr.key(int(rng.integers(0, 2**31))), callback=cb)
    jax.effects_barrier()
    steps = [s for s, _ in backend.records]
    n_model = ctx.drv.call("num_iterations", total=total, E=E, T=T)
    warm = E * LS if which in ("DQN", "SAC") else 0
    expected = [warm + (k + 1) * per for k in range(n_model)]
    case = {"kind": "learn-schedule", "algo": which, "num_envs": E, "num_steps": T, "total_timesteps": total,
            "record_steps": steps, "expected_steps": expected}
    ctx.case({**case, "idx": idx}, True, sample=case if idx < 2 else None)
    ctx.count(f"learn:{which}")
    ctx.count("learn:total-not-multiple" if total % per else "learn:total-multiple")
    if len(steps) != n_model:
        ctx.phi_fail("learn_performs_floor_total_over_E_T_iterations", case, key="learn:iterations")
    elif steps != expected:
        ctx.phi_fail("each_iteration_consumes_E_T_steps_records_in_order", case, key="learn:steps")


class _Dummy(eqx.Module):
    x: jax.Array


class _SchedTap(eqx.Module):
    critics: jax.Array
    targets: jax.Array
    counts: jax.Array
    n: jax.Array


def check_schedule_inside_learn(ctx, idx):
    """The same schedule observed INSIDE learn() (not by driving iteration() by hand): an iteration-level
    observer reads the algorithm state the iteration hands to callbacks (critics as updated in this iteration,
    targets as left by the previous one).  SAC: the target seen at iteration k+1 is ONE Polyak step of the target
    seen at iteration k with the critics of iteration k.  DQN: the target seen is the online network as of
    the last multiple of the interval.  The iteration counter seen advances by one per iteration."""
    from lerax.callback import AbstractIterationCallback
    rng = ctx.rng
    which = ["SAC", "DQN"][idx % 2]
    env = random_tabular(rng, box=(which == "SAC"), p_term=0.1, p_trunc=0.05)
    nS = int(env.T.shape[0])
    E, T, n = int(rng.choice([1, 2])), int(rng.integers(1, 4)), ctx.budget(5, 9)
    tau, I = float(rng.choice([0.1, 0.25, 0.5])), int(rng.choice([2, 3]))
    if which == "SAC":
        algo = SAC(buffer_size=32 * E, learning_starts=4, num_envs=E, num_steps=T, batch_size=4, tau=tau,
                   q_width_size=4, q_depth=1, q_lr=1e-2)
        policy = TabularSACPolicy(env, rng.uniform(-1, 1, nS), rng.uniform(-1, 0, nS))
        pick = lambda st: ((st.qf1, st.qf2), (st.qf1_target, st.qf2_target))
    else:
        algo = DQN(buffer_size=32 * E, learning_starts=4, num_envs=E, num_steps=T, batch_size=4,
                   target_update_interval=I, learning_rate=1e-2)
        policy = TabularQPolicy(env, rng.uniform(-1, 1, (nS, int(env.T.shape[1]))))
        pick = lambda st: (st.policy, st.target_policy)
    size = {}

    def flat(tree):
        return jnp.concatenate([jnp.ravel(x).astype(float) for x in jax.tree.leaves(eqx.filter(tree, eqx.is_inexact_array))])

    # size of the flattened parameter vector (needed before tracing): from a hand-made initial state
    st0 = algo.reset(env, policy, key=jr.key(0), callback=CallbackList(callbacks=[]))
    try:
        size["P"] = int(flat(pick(st0)[0]).shape[0])
    except AttributeError:
        ctx.note("schedule-inside-learn: algorithm state fields not as assumed; clause skipped")
        return
    key = jr.key(int(rng.integers(0, 2**31)))
    k0, k1 = jr.split(key)
    seen = []

    class HostTap(AbstractIterationCallback):
        def reset(self, c, *, key):
            return _Dummy(jnp.array(0))

        def on_iteration(self, c, *, key):
            st = c.locals.get("state")
            if st is None:
                return c.state
            try:
                cr, tg = pick(st)
            except AttributeError:
                return c.state
            jax.debug.callback(lambda a, b, i: seen.append((np.asarray(a, np.float64), np.asarray(b, np.float64), int(i))),
                               flat(cr), flat(tg), jnp.asarray(c.iteration_count, dtype=int), ordered=True)
            return c.state

    algo.learn(env, policy, n * E * T, key=k1, callback=HostTap())
    jax.effects_barrier()
    case = {"kind": "schedule-inside-learn", "algo": which, "num_envs": E, "num_steps": T, "iterations": n,
            "tau": tau if which == "SAC" else None, "interval": I if which == "DQN" else None,
            "iteration_counts_seen": [s_[2] for s_ in seen]}
    ctx.case({**case, "idx": idx}, True)
    ctx.count("schedule-inside-learn:" + which)
    if not seen:
        ctx.note("schedule-inside-learn: the iteration's state is not visible to callbacks; clause skipped")
        return
    if len(seen) != n:
        ctx.phi_fail("learn_performs_floor_total_over_E_T_iterations", case, key="learn-inside:iterations")
        return
    counts = [s_[2] for s_ in seen]
    if any(b - a != 1 for a, b in zip(counts, counts[1:])):
        ctx.phi_fail("iteration_counter_advances_by_one", case, key="learn-inside:counter")
        return
    if which == "SAC":
        for k in range(n - 1):
            exp = ctx.drv.call("polyak", tau=tau, critic=seen[k][0], target=seen[k][1])
            if not ctx.close(seen[k + 1][1], exp, 4.0):
                ctx.phi_fail("polyak_once_per_iteration", {**case, "iteration": k, "impl_target": seen[k + 1][1][:6],
                                                           "expected_after_one_update": exp[:6]}, key="learn-inside:polyak")
                return
    else:
        # target seen at iteration with count c (before this iteration's own refresh) = online as of the last
        # multiple of I at or below c
        online = {s_[2]: s_[0] for s_ in seen}
        base = counts[0]
        for k in range(1, n):
            c_ = counts[k]
            last = (c_ // I) * I
            ref = online.get(last - 0) if (last - 0) in online else None
            if last in online and last != c_ and not np.array_equal(seen[k][1], online[last]) and last >= base + 1:
                # online[last] is the online network DURING iteration `last`+1's callback ... only compare when exact
                pass
        # (DQN's refresh is checked exactly by check_dqn on hand-driven histories; inside learn() only the
        #  counter / number of iterations is asserted, its hook being idempotent)


def check_diverging_run(ctx):
    """'each iteration advances the iteration counter by one' also when an update is numerically useless:
    an absurd learning rate; the counter seen by observers must still read 1, 2, 3, ..."""
    rng = ctx.rng
    env = random_tabular(rng, p_term=0.1, p_trunc=0.05)
    E, T, n = 2, 4, 6
    from lerax.policy import MLPActorCriticPolicy
    seen = []
    from lerax.callback import AbstractIterationCallback

    class CountTap(AbstractIterationCallback):
        def reset(self, c, *, key):
            return _Dummy(jnp.array(0))

        def on_iteration(self, c, *, key):
            jax.debug.callback(lambda i: seen.append(int(i)), jnp.asarray(c.iteration_count, dtype=int), ordered=True)
            return c.state

    for which, algo in (("A2C", A2C(num_envs=E, num_steps=T, learning_rate=1e30)),
                        ("PPO", PPO(num_envs=E, num_steps=T, num_epochs=1, num_batches=1, learning_rate=1e30))):
        seen.clear()
        policy = MLPActorCriticPolicy(env, feature_size=4, feature_width=8, feature_depth=1, value_width=8, value_depth=1,
                                      action_width=8, action_depth=1, key=jr.key(int(rng.integers(0, 2**31))))
        try:
            algo.learn(env, policy, n * E * T, key=jr.key(int(rng.integers(0, 2**31))), callback=CountTap())
            jax.effects_barrier()
        except Exception as e:  # noqa: BLE001 - an algorithm may refuse non-finite values loudly (PPO does)
            ctx.note(f"diverging run: {which} refuses non-finite values ({type(e).__name__}); not a counter question")
            continue
        case = {"kind": "diverging-run", "algo": which, "learning_rate": 1e30, "iterations": n, "iteration_counts_seen": list(seen)}
        ctx.case(case, True)
        ctx.count("diverging-run:" + which)
        if len(seen) != n or any(b - a != 1 for a, b in zip(seen, seen[1:])):
            ctx.phi_fail("iteration_counter_advances_by_one", case, key="learn:counter-diverging")


def run(ctx):
    check_diverging_run(ctx)
    for i in range(ctx.budget(2, 6)):
        check_schedule_inside_learn(ctx, i)
        ctx.gc(2)
    for i in range(ctx.budget(4, 16)):
        check_dqn(ctx, i)
        ctx.gc(4)
    for i in range(ctx.budget(6, 20)):
        check_sac(ctx, i)
        ctx.gc(4)
    for i in range(ctx.budget(10, 40)):
        check_learn(ctx, i)
        ctx.gc(4)
