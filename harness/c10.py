"""C10 — training schedule: real reset + iteration histories of DQN / SAC and learn() of all five
algorithms with a recording backend vs lean/LeraxModel/Schedule.lean."""
from __future__ import annotations

import hashlib

import equinox as eqx
import jax
import numpy as np
from jax import numpy as jnp
from jax import random as jr

from lerax.algorithm import A2C, DQN, PPO, REINFORCE, SAC
from lerax.callback import CallbackList, LoggingCallback

from .common.recording import RecordingBackend
from .common.tabular import (TabularQPolicy, TabularSACPolicy, random_ac_policy, random_tabular)


def _digest(tree):
    h = hashlib.sha1()
    for leaf in jax.tree.leaves(eqx.filter(tree, eqx.is_array)):
        h.update(np.asarray(leaf).tobytes())
    return h.hexdigest()


def _flat(tree):
    return np.concatenate([np.asarray(x, np.float64).ravel()
                           for x in jax.tree.leaves(eqx.filter(tree, eqx.is_inexact_array))])


def check_dqn(ctx, idx):
    rng = ctx.rng
    env = random_tabular(rng, p_term=0.1, p_trunc=0.05)
    nS, nA = int(env.T.shape[0]), int(env.T.shape[1])
    I = int(rng.choice([1, 2, 3, 5]))
    n = ctx.budget(7, 12)
    E = int(rng.choice([1, 2]))
    policy = TabularQPolicy(env, rng.uniform(-1, 1, (nS, nA)), epsilon=0.3)
    algo = DQN(buffer_size=16 * E, learning_starts=4, num_envs=E, num_steps=2, batch_size=4,
               target_update_interval=I, learning_rate=1e-2)
    cb = CallbackList(callbacks=[])
    key = jr.key(int(rng.integers(0, 2**31)))
    state = eqx.filter_jit(lambda k: algo.reset(env, policy, key=k, callback=cb))(key)
    it = eqx.filter_jit(lambda s, k: algo.iteration(s, key=k, callback=cb))
    ids = {}
    online, target, counts = [], [], []

    def rec(st):
        for lst, p in ((online, st.policy), (target, st.target_policy)):
            d = _digest(p)
            lst.append(ids.setdefault(d, len(ids)))
        counts.append(int(st.iteration_count))

    rec(state)
    for k in range(n):
        key, kk = jr.split(key)
        state = it(state, kk)
        rec(state)
    case = {"kind": "dqn-schedule", "interval": I, "num_envs": E, "online_ids": online, "target_ids": target,
            "iteration_counts": counts}
    ctx.case({**case, "idx": idx}, True, sample=case if idx == 0 else None)
    ctx.count(f"dqn:interval={I}")
    ctx.count("dqn:iterations", n)
    if len(set(online)) < 2:
        ctx.note("DQN online parameters never changed in a history (zero gradients?)")
    r = ctx.drv.call("dqn_targets_phi", interval=I, online_ids=online, target_ids=target)
    if not r["phi"]:
        ctx.phi_fail(r["clause"], case, key="dqn:target-schedule")
    if counts != list(range(n + 1)):
        ctx.phi_fail("iteration_counter_advances_by_one", case, key="counter")
    m = ctx.drv.call("dqn_run_targets", interval=I, online_ids=online)
    if m != target:
        ctx.disagree("dqn target history", case, impl=target, model=m)


def check_sac(ctx, idx):
    rng = ctx.rng
    env = random_tabular(rng, box=True, p_term=0.1, p_trunc=0.05)
    nS = int(env.T.shape[0])
    tau = float(rng.choice([0.005, 0.1, 0.5, 1.0]))
    # (num_steps, policy_frequency) pairs incl. ones sharing a factor, enumerated not drawn
    T, pf = [(2, 2), (1, 2), (3, 3), (4, 2), (1, 3), (2, 3), (1, 1), (3, 2), (4, 4), (2, 4)][idx % 10]
    autotune = bool(rng.random() < 0.6)
    n = ctx.budget(6, 12)
    E = int(rng.choice([1, 2]))
    policy = TabularSACPolicy(env, rng.uniform(-1, 1, nS), rng.uniform(-1, 0, nS))
    # the gating counts iterations, not environment steps
    algo = SAC(buffer_size=32 * E, learning_starts=4, num_envs=E, num_steps=T, batch_size=4, tau=tau,
               policy_frequency=pf, autotune=autotune, q_width_size=4, q_depth=1, policy_lr=1e-2, q_lr=1e-2)
    cb = CallbackList(callbacks=[])
    key = jr.key(int(rng.integers(0, 2**31)))
    state = eqx.filter_jit(lambda k: algo.reset(env, policy, key=k, callback=cb))(key)
    it = eqx.filter_jit(lambda s, k: algo.iteration(s, key=k, callback=cb))
    hist = [(_flat((state.qf1, state.qf2)), _flat((state.qf1_target, state.qf2_target)),
             _digest(state.policy), float(state.log_alpha), int(state.iteration_count))]
    for k in range(n):
        key, kk = jr.split(key)
        state = it(state, kk)
        hist.append((_flat((state.qf1, state.qf2)), _flat((state.qf1_target, state.qf2_target)),
                     _digest(state.policy), float(state.log_alpha), int(state.iteration_count)))
    actor_changed = [hist[k + 1][2] != hist[k][2] for k in range(n)]
    alpha_changed = [hist[k + 1][3] != hist[k][3] for k in range(n)]
    case = {"kind": "sac-schedule", "tau": tau, "policy_frequency": pf, "autotune": autotune, "num_envs": E,
            "num_steps": T,
            "actor_changed": actor_changed, "alpha_changed": alpha_changed,
            "iteration_counts": [h[4] for h in hist]}
    ctx.case({**case, "idx": idx}, True, sample=case if idx == 0 else None)
    ctx.count(f"sac:pf={pf},autotune={int(autotune)}")
    ctx.count(f"sac:num_steps={T}")
    ctx.count("sac:iterations", n)
    if not np.array_equal(hist[0][0], hist[0][1]):
        ctx.phi_fail("targets_start_as_copy_of_critics", case, key="sac:init")
    for k in range(n):
        exp = ctx.drv.call("polyak", tau=tau, critic=hist[k + 1][0], target=hist[k][1])
        if not ctx.close(hist[k + 1][1], exp, 4.0):
            ctx.phi_fail("polyak_once_per_iteration", {**case, "iteration": k,
                                                       "impl_target": hist[k + 1][1][:6], "expected": exp[:6]},
                         key="sac:polyak")
            break
    r = ctx.drv.call("gating_phi", policy_frequency=pf, enabled=True, changed=actor_changed)
    if not r["phi"]:
        ctx.phi_fail("actor_" + r["clause"], case, key="sac:actor-gating")
    r = ctx.drv.call("gating_phi", policy_frequency=pf, enabled=autotune, changed=alpha_changed)
    if not r["phi"]:
        ctx.phi_fail("temperature_" + r["clause"], case, key="sac:alpha-gating")
    if case["iteration_counts"] != list(range(n + 1)):
        ctx.phi_fail("iteration_counter_advances_by_one", case, key="counter")


def check_learn(ctx, idx):
    rng = ctx.rng
    which = ["PPO", "A2C", "REINFORCE", "DQN", "SAC"][idx % 5]
    box = which == "SAC"
    env = random_tabular(rng, box=box, p_term=0.1, p_trunc=0.05)
    nS = int(env.T.shape[0])
    E, T = int(rng.choice([1, 2, 3])), int(rng.integers(2, 6))
    LS = 3
    per = E * T
    iters = int(rng.integers(1, 5))
    total = iters * per + int(rng.choice([0, 0, 1, per - 1]))
    if which == "PPO":
        algo, policy = PPO(num_envs=E, num_steps=T, num_epochs=1, num_batches=1), random_ac_policy(rng, env)
    elif which == "A2C":
        algo, policy = A2C(num_envs=E, num_steps=T), random_ac_policy(rng, env)
    elif which == "REINFORCE":
        algo, policy = REINFORCE(num_envs=E, num_steps=T), random_ac_policy(rng, env)
    elif which == "DQN":
        algo = DQN(buffer_size=32 * E, learning_starts=LS, num_envs=E, num_steps=T, batch_size=2)
        policy = TabularQPolicy(env, rng.uniform(-1, 1, (nS, int(env.T.shape[1]))))
    else:
        algo = SAC(buffer_size=32 * E, learning_starts=LS, num_envs=E, num_steps=T, batch_size=2,
                   q_width_size=4, q_depth=1)
        policy = TabularSACPolicy(env, rng.uniform(-1, 1, nS), rng.uniform(-1, 0, nS))
    backend = RecordingBackend()
    cb = LoggingCallback(backend, name="verif")
    algo.learn(env, policy, total, key=jr.key(int(rng.integers(0, 2**31))), callback=cb)
    jax.effects_barrier()
    steps = [s for s, _ in backend.records]
    n_model = ctx.drv.call("num_iterations", total=total, E=E, T=T)
    warm = E * LS if which in ("DQN", "SAC") else 0
    expected = [warm + (k + 1) * per for k in range(n_model)]
    case = {"kind": "learn-schedule", "algo": which, "num_envs": E, "num_steps": T, "total_timesteps": total,
            "record_steps": steps, "expected_steps": expected}
    ctx.case({**case, "idx": idx}, True, sample=case if idx < 2 else None)
    ctx.count(f"learn:{which}")
    ctx.count("learn:total-not-multiple" if total % per else "learn:total-multiple")
    if len(steps) != n_model:
        ctx.phi_fail("learn_performs_floor_total_over_E_T_iterations", case, key="learn:iterations")
    elif steps != expected:
        ctx.phi_fail("each_iteration_consumes_E_T_steps_records_in_order", case, key="learn:steps")


def run(ctx):
    for i in range(ctx.budget(4, 16)):
        check_dqn(ctx, i)
        ctx.gc(4)
    for i in range(ctx.budget(6, 20)):
        check_sac(ctx, i)
        ctx.gc(4)
    for i in range(ctx.budget(10, 40)):
        check_learn(ctx, i)
        ctx.gc(4)
