"""C07 — TD targets: real DQN.dqn_loss / SAC.q_loss / SAC.actor_loss / SAC.sac_train on crafted
batches vs lean/LeraxModel/Td.lean (values and gradients)."""
from __future__ import annotations

from typing import ClassVar

import equinox as eqx
import jax
import numpy as np
from jax import numpy as jnp
from jax import random as jr

from lerax.algorithm import DQN, SAC
from lerax.buffer import ReplayBuffer
from lerax.policy import AbstractSACPolicy

from .common.tabular import CountState, TabularEnv, TabularQPolicy, random_tabular


class TabCritic(eqx.Module):
    """tabular critic callable like SoftQNetwork: Q(obs, a) = table[s, bucket(a)] + lin[s] * a"""
    table: jax.Array
    lin: jax.Array

    def __call__(self, observation, action):
        s = jnp.asarray(observation)[0].astype(int)
        a = jnp.asarray(action, dtype=float).reshape(())
        b = jnp.sum(jnp.array([-0.5, 0.5]) <= a).astype(int)
        return self.table[s, b] + self.lin[s] * a


class DetSACPolicy(AbstractSACPolicy):
    """deterministic SAC policy: action = loc[s], reported log-prob = lp[s] (keys ignored)"""
    name: ClassVar[str] = "DetSACPolicy"
    action_space: object
    observation_space: object
    loc: jax.Array
    lp: jax.Array

    def __init__(self, env, loc, lp):
        self.action_space, self.observation_space = env.action_space, env.observation_space
        self.loc, self.lp = jnp.asarray(loc, dtype=float), jnp.asarray(lp, dtype=float)

    def reset(self, *, key):
        return None

    def action_distribution(self, state, observation):
        raise NotImplementedError

    def __call__(self, state, observation, *, key=None, action_mask=None):
        return state, self.loc[jnp.asarray(observation)[0].astype(int)][None]

    def action_and_log_prob(self, state, observation, *, key):
        s = jnp.asarray(observation)[0].astype(int)
        return state, self.loc[s][None], self.lp[s]


def _batch(rng, env, B, nS, box, all_flags=True):
    """a genuine ReplayBuffer filled through add(), used as the batch"""
    buf = ReplayBuffer(B, env.observation_space, env.action_space, CountState(jnp.array(0, dtype=int)))
    rows = []
    flags = [(False, False), (True, False), (True, True), (False, True)]
    for i in range(B):
        s, s2 = int(rng.integers(0, nS)), int(rng.integers(0, nS))
        done, timeout = flags[i % 4] if all_flags else flags[int(rng.integers(0, 4))]
        a = float(rng.uniform(-1, 1)) if box else int(rng.integers(0, env.action_space.n))
        r = float(rng.integers(-8, 9)) / 4
        buf = buf.add(jnp.array([s, 0.0]), jnp.array([s2, 1.0]),
                      jnp.array([a]) if box else jnp.asarray(a), r, done, timeout,
                      CountState(jnp.array(i)), CountState(jnp.array(i + 1)))
        rows.append({"s": s, "s2": s2, "a": a, "r": r, "done": done, "timeout": timeout})
    return buf, rows


def check_dqn(ctx, idx):
    rng = ctx.rng
    env = random_tabular(rng)
    nS, nA = int(env.T.shape[0]), int(env.T.shape[1])
    B = int(rng.integers(4, ctx.budget(12, 40)))
    gamma = float(rng.choice([0.0, 0.5, 0.9, 0.99, 1.0]))
    q_on = rng.integers(-8, 9, (nS, nA)) / 4.0
    q_tg = rng.integers(-8, 9, (nS, nA)) / 4.0
    same = bool(rng.random() < 0.3)          # train(): the online policy is its own target
    online, target = TabularQPolicy(env, q_on), TabularQPolicy(env, q_on if same else q_tg)
    buf, rows = _batch(rng, env, B, nS, box=False)
    loss, grads = DQN.dqn_loss_grad(online, buf, target, gamma)
    batch = [{"s": r["s"], "q": q_on[r["s"]], "action": r["a"], "reward": r["r"], "done": r["done"],
              "timeout": r["timeout"], "online_next": q_on[r["s2"]],
              "target_next": (q_on if same else q_tg)[r["s2"]]} for r in rows]
    m = ctx.drv.call("dqn_loss", gamma=gamma, n_states=nS, n_actions=nA, batch=batch)
    case = {"kind": "dqn_loss", "gamma": gamma, "same_target": same, "rows": rows, "q_online": q_on,
            "q_target": q_on if same else q_tg, "impl_loss": float(loss), "impl_grad": np.asarray(grads.q),
            "model_loss": m["loss"], "model_targets": m["targets"]}
    ctx.case({"k": "dqn", "idx": idx, "rows": rows, "gamma": gamma}, True, sample=case if idx == 0 else None)
    ctx.count("dqn_loss")
    for r in rows:
        ctx.count(f"flags:done={int(r['done'])},timeout={int(r['timeout'])}")
    if not ctx.close(float(loss), m["loss"], 8.0):
        ctx.phi_fail("dqn_target_is_r_plus_gamma_not_terminated_double_q", case, key="dqn:loss")
    elif not ctx.close(np.asarray(grads.q, np.float64), np.asarray(m["grad"]), 8.0):
        ctx.phi_fail("semi_gradient_targets_constant", case, key="dqn:grad")
    # gradient structure: only the online policy is differentiated
    if jax.tree.structure(grads) != jax.tree.structure(eqx.filter(online, eqx.is_inexact_array)):
        ctx.phi_fail("only_online_policy_differentiated", case, key="dqn:grad-structure")


def check_sac(ctx, idx):
    rng = ctx.rng
    env = random_tabular(rng, box=True)
    nS = int(env.T.shape[0])
    B = int(rng.integers(4, ctx.budget(12, 32)))
    gamma = float(rng.choice([0.0, 0.5, 0.9, 0.99, 1.0]))
    alpha = float(rng.choice([0.0, 0.2, 1.0]))
    mk = lambda: TabCritic(jnp.asarray(rng.integers(-8, 9, (nS, 3)) / 4.0), jnp.asarray(rng.integers(-4, 5, nS) / 4.0))
    qf1, qf2, qf1t, qf2t = mk(), mk(), mk(), mk()
    policy = DetSACPolicy(env, rng.uniform(-1, 1, nS), rng.integers(-8, 1, nS) / 4.0)
    buf, rows = _batch(rng, env, B, nS, box=True)
    obs = lambda s, c: jnp.array([float(s), c])
    samples, q1v, q2v = [], [], []
    for r in rows:
        a2, lp2 = float(policy.loc[r["s2"]]), float(policy.lp[r["s2"]])
        samples.append({"q1": float(qf1(obs(r["s"], 0.0), r["a"])), "q2": float(qf2(obs(r["s"], 0.0), r["a"])),
                        "reward": r["r"], "done": r["done"], "timeout": r["timeout"],
                        "q1t": float(qf1t(obs(r["s2"], 1.0), a2)), "q2t": float(qf2t(obs(r["s2"], 1.0), a2)),
                        "logp": lp2})
    m = ctx.drv.call("sac_q", gamma=gamma, alpha=alpha, samples=samples)
    # (a) q_loss value and gradient w.r.t. the critic tables for the model's targets
    y = jnp.asarray(m["targets"])
    ql, qg = SAC.q_loss_grad((qf1, qf2), buf, y)
    case = {"kind": "sac", "gamma": gamma, "alpha": alpha, "rows": rows, "samples": samples,
            "model_targets": m["targets"], "model_q_loss": m["q_loss"], "impl_q_loss": float(ql)}
    ctx.case({"k": "sac", "idx": idx, "rows": rows}, True, sample=case if idx == 0 else None)
    ctx.count("sac_q_loss")
    if not ctx.close(float(ql), m["q_loss"], 8.0):
        ctx.phi_fail("q_loss_is_sum_of_half_mse", case, key="sac:q_loss")
    exp_g1 = np.zeros((nS, 3))
    for r, smp, t in zip(rows, samples, m["targets"]):
        b = int(np.sum(np.array([-0.5, 0.5]) <= r["a"]))
        exp_g1[r["s"], b] += (smp["q1"] - t) / B
    if not ctx.close(np.asarray(qg[0].table, np.float64), exp_g1, 8.0):
        ctx.phi_fail("critic_gradient_is_semi_gradient", {**case, "impl_grad": np.asarray(qg[0].table),
                                                          "expected": exp_g1}, key="sac:q_grad")
    # (b) sac_train end to end on the full buffer (batch = every stored row): reported q_loss must
    #     equal the model's loss for the model's targets; targets/actor gating observable
    algo = SAC(buffer_size=B, batch_size=B, gamma=gamma, num_envs=1, policy_frequency=2, autotune=False,
               q_width_size=4, q_depth=1)
    opt_state = algo.optimizer.init(eqx.filter(policy, eqx.is_inexact_array))
    q_opt = algo.q_optimizer.init((eqx.filter(qf1, eqx.is_inexact_array), eqx.filter(qf2, eqx.is_inexact_array)))
    log_alpha = jnp.log(jnp.asarray(alpha)) if alpha > 0 else jnp.asarray(-jnp.inf)
    if alpha > 0:
        a_opt = algo.alpha_optimizer.init(log_alpha)
        outs = {}
        train_key = jr.key(int(rng.integers(0, 2**31)))     # same key: same batch order in both runs
        for it in (0, 1):
            outs[it] = algo.sac_train(policy, opt_state, buf, qf1, qf2, qf1t, qf2t, q_opt, log_alpha, a_opt,
                                      jnp.asarray(-1.0), jnp.asarray(it), key=train_key)
        ctx.count("sac_train")
        rep = float(outs[0][7]["q_loss"])
        if not ctx.close(rep, m["q_loss"], 16.0):
            ctx.phi_fail("sac_target_is_r_plus_gamma_not_terminated_min_q_minus_alpha_logp",
                         {**case, "reported_q_loss": rep}, key="sac:target")
        # actor updated on iteration 0 (0 % 2 == 0) and not on iteration 1; critics identical either way
        c0 = jax.tree.leaves((outs[0][2], outs[0][3])); c1 = jax.tree.leaves((outs[1][2], outs[1][3]))
        if not all(np.array_equal(np.asarray(x), np.asarray(y_)) for x, y_ in zip(c0, c1)):
            ctx.phi_fail("actor_loss_does_not_move_critics", case, key="sac:critics-moved")
        if not np.array_equal(np.asarray(outs[1][0].loc), np.asarray(policy.loc)):
            ctx.phi_fail("actor_unchanged_off_frequency", case, key="sac:actor-gating")
        if len(outs[0]) != 8:
            ctx.phi_fail("targets_not_returned", case, key="sac:outputs")
        # the same with policy_frequency = 1 (actor updated in the very call): after one warm-up update without
        # actor step (so that Adam's state is no longer fresh), ONE further update with an actor step must leave the
        # critics exactly where the same update without actor step leaves them (the critic step comes first and
        # must not see the actor loss)
        algo1 = SAC(buffer_size=B, batch_size=B, gamma=gamma, num_envs=1, policy_frequency=1, autotune=False,
                    q_width_size=4, q_depth=1)
        try:
            w = algo.sac_train(policy, opt_state, buf, qf1, qf2, qf1t, qf2t, q_opt, log_alpha, a_opt,
                               jnp.asarray(-1.0), jnp.asarray(1), key=train_key)
            args = (w[0], w[1], buf, w[2], w[3], qf1t, qf2t, w[4], w[5], w[6], jnp.asarray(-1.0))
            k2 = jr.key(int(rng.integers(0, 2**31)))
            with_actor = algo1.sac_train(*args, jnp.asarray(0), key=k2)
            without_actor = algo.sac_train(*args, jnp.asarray(1), key=k2)
            ctx.count("sac_train:policy_frequency=1")
            la, lb = jax.tree.leaves((with_actor[2], with_actor[3])), jax.tree.leaves((without_actor[2], without_actor[3]))
            if not all(ctx.close(np.asarray(x, np.float64), np.asarray(y_, np.float64), 1.0) for x, y_ in zip(la, lb)):
                ctx.phi_fail("actor_loss_does_not_move_critics",
                             {**case, "policy_frequency": 1, "note": "critics after an update with an actor step differ "
                              "from the critics of the same update without actor step"}, key="sac:critics-moved-pf1")
        except (IndexError, TypeError) as e:        # return structure of sac_train not as assumed: skip, do not alarm
            ctx.note(f"sac_train policy_frequency=1 comparison skipped: {type(e).__name__}")
    # (c) actor loss value
    keys = jr.split(jr.key(0), B)
    al = SAC.actor_loss(policy, buf, qf1, qf2, jnp.asarray(alpha), keys)
    lp = [float(policy.lp[r["s"]]) for r in rows]
    q1a = [float(qf1(obs(r["s"], 0.0), float(policy.loc[r["s"]]))) for r in rows]
    q2a = [float(qf2(obs(r["s"], 0.0), float(policy.loc[r["s"]]))) for r in rows]
    ma = ctx.drv.call("actor_loss", alpha=alpha, logp=lp, q1=q1a, q2=q2a)
    ctx.count("sac_actor_loss")
    if not ctx.close(float(al), ma, 8.0):
        ctx.phi_fail("actor_loss_is_alpha_logp_minus_min_q", {**case, "impl": float(al), "model": ma},
                     key="sac:actor_loss")
    ag = SAC.actor_loss_grad(policy, buf, qf1, qf2, jnp.asarray(alpha), keys)[1]
    if jax.tree.structure(ag) != jax.tree.structure(eqx.filter(policy, eqx.is_inexact_array)):
        ctx.phi_fail("actor_gradient_only_for_policy", case, key="sac:actor-grad-structure")


def check_dqn_train_path(ctx, idx):
    """The generic entry point DQN.train(policy, opt_state, buffer) uses the online policy as its own
    target: the update must still be the semi-gradient (read off the parameter delta under plain SGD)."""
    import optax
    rng = ctx.rng
    env = random_tabular(rng)
    nS, nA = int(env.T.shape[0]), int(env.T.shape[1])
    B = int(rng.integers(4, 12))
    gamma = float(rng.choice([0.5, 0.9, 0.99]))
    q_on = rng.integers(-8, 9, (nS, nA)) / 4.0
    online = TabularQPolicy(env, q_on)
    buf, rows = _batch(rng, env, B, nS, box=False)
    algo = DQN(buffer_size=B, batch_size=B, gamma=gamma, num_envs=1)
    algo = eqx.tree_at(lambda a: a.optimizer, algo, optax.sgd(1.0))
    opt_state = algo.optimizer.init(eqx.filter(online, eqx.is_inexact_array))
    new_policy, _, log = algo.train(online, opt_state, buf, key=jr.key(int(rng.integers(0, 2**31))))
    implied_grad = np.asarray(online.q, np.float64) - np.asarray(new_policy.q, np.float64)
    batch = [{"s": r["s"], "q": q_on[r["s"]], "action": r["a"], "reward": r["r"], "done": r["done"],
              "timeout": r["timeout"], "online_next": q_on[r["s2"]], "target_next": q_on[r["s2"]]} for r in rows]
    m = ctx.drv.call("dqn_loss", gamma=gamma, n_states=nS, n_actions=nA, batch=batch)
    case = {"kind": "dqn.train", "gamma": gamma, "rows": rows, "q_online": q_on, "implied_grad": implied_grad,
            "model_semi_grad": m["grad"], "impl_loss": float(log["loss"]), "model_loss": m["loss"]}
    ctx.case({"k": "dqn-train", "idx": idx, "rows": rows}, True, sample=case if idx == 0 else None)
    ctx.count("dqn_train_path")
    if not ctx.close(float(log["loss"]), m["loss"], 8.0):
        ctx.phi_fail("dqn_target_is_r_plus_gamma_not_terminated_double_q", case, key="dqn-train:loss")
    elif not ctx.close(implied_grad, np.asarray(m["grad"]), 16.0):
        ctx.phi_fail("targets_are_constants_no_gradient_through_bootstrap", case, key="dqn-train:grad")


def check_dqn_train_with_target(ctx, idx):
    """`dqn_train(policy, opt_state, buffer, target_policy)` — what `iteration()` runs — with DIFFERENT online and
    target tables and plain SGD: the parameter delta of the online table is the semi-gradient of the model loss
    (online table for Q(s,a) and for the arg-max, target table for the bootstrap value), the target is untouched."""
    import optax
    rng = ctx.rng
    env = random_tabular(rng)
    nS, nA = int(env.T.shape[0]), int(env.T.shape[1])
    B = int(rng.integers(4, 12))
    gamma = float(rng.choice([0.5, 0.9, 0.99]))
    q_on, q_tg = rng.integers(-8, 9, (nS, nA)) / 4.0, rng.integers(-8, 9, (nS, nA)) / 4.0
    online, target = TabularQPolicy(env, q_on), TabularQPolicy(env, q_tg)
    buf, rows = _batch(rng, env, B, nS, box=False)
    algo = DQN(buffer_size=B, batch_size=B, gamma=gamma, num_envs=1)
    algo = eqx.tree_at(lambda a: a.optimizer, algo, optax.sgd(1.0))
    opt_state = algo.optimizer.init(eqx.filter(online, eqx.is_inexact_array))
    try:
        out = algo.dqn_train(online, opt_state, buf, target, key=jr.key(int(rng.integers(0, 2**31))))
    except (AttributeError, TypeError) as e:        # entry point renamed / re-shaped: not a verdict
        ctx.note(f"dqn_train(policy, opt_state, buffer, target_policy, key=) not callable as assumed: {type(e).__name__}")
        return
    new_policy, log = out[0], out[-1]
    implied_grad = np.asarray(online.q, np.float64) - np.asarray(new_policy.q, np.float64)
    batch = [{"s": r["s"], "q": q_on[r["s"]], "action": r["a"], "reward": r["r"], "done": r["done"],
              "timeout": r["timeout"], "online_next": q_on[r["s2"]], "target_next": q_tg[r["s2"]]} for r in rows]
    m = ctx.drv.call("dqn_loss", gamma=gamma, n_states=nS, n_actions=nA, batch=batch)
    case = {"kind": "dqn_train(target)", "gamma": gamma, "rows": rows, "q_online": q_on, "q_target": q_tg,
            "implied_grad": implied_grad, "model_semi_grad": m["grad"],
            "impl_loss": float(log["loss"]) if isinstance(log, dict) and "loss" in log else None, "model_loss": m["loss"]}
    ctx.case({"k": "dqn-train-target", "idx": idx, "rows": rows}, True)
    ctx.count("dqn_train_with_distinct_target")
    if case["impl_loss"] is not None and not ctx.close(case["impl_loss"], m["loss"], 8.0):
        ctx.phi_fail("dqn_target_is_r_plus_gamma_not_terminated_double_q", case, key="dqn-train-target:loss")
    elif not ctx.close(implied_grad, np.asarray(m["grad"]), 16.0):
        ctx.phi_fail("targets_are_constants_no_gradient_through_bootstrap", case, key="dqn-train-target:grad")


def check_dqn_end_to_end(ctx, idx):
    """Transitions stored by the real DQN.reset on a finite MDP under TimeLimit, then dqn_loss on the
    stored buffer: the target must use terminated as defined by the MDP (Lean replay of every stored
    row), so a step that both terminates and hits the time limit never bootstraps."""
    from lerax.callback import CallbackList
    from lerax.wrapper import TimeLimit
    rng = ctx.rng
    env0 = random_tabular(rng, p_term=0.25, p_trunc=0.0, n_noise=1)
    n = int(rng.integers(1, 5))
    env, desc = TimeLimit(env0, n), [{"w": "timeLimit", "n": n}]
    nS, nA = int(env0.T.shape[0]), int(env0.T.shape[1])
    q_on, q_tg = rng.integers(-8, 9, (nS, nA)) / 4.0, rng.integers(-8, 9, (nS, nA)) / 4.0
    policy, target = TabularQPolicy(env0, q_on, epsilon=0.5), TabularQPolicy(env0, q_tg)
    LS = int(rng.integers(8, 24))
    gamma = 0.9
    algo = DQN(buffer_size=LS, learning_starts=LS, num_envs=1, num_steps=1, batch_size=LS, gamma=gamma)
    state = algo.reset(env, policy, key=jr.key(int(rng.integers(0, 2**31))), callback=CallbackList(callbacks=[]))
    buf = state.step_state.buffer
    tab = env0.describe()
    batch, kinds = [], []
    for j in range(LS):
        s, clock = int(buf.observations[j][0]), int(buf.observations[j][1])
        a = int(buf.actions[j])
        comp = ctx.drv.call("tab_components", tab=tab, stack=desc,
                            state={"s": s, "clock": clock, "noise": 0, "counters": [clock]}, action=float(a), noise=0)
        term, trunc = comp["terminal"], comp["truncate"]
        s2 = int(comp["next"]["s"])
        kinds.append("both" if term and trunc else "terminated" if term else "truncated" if trunc else "running")
        batch.append({"s": s, "q": q_on[s], "action": a, "reward": comp["reward"], "done": term or trunc,
                      "timeout": trunc and not term, "online_next": q_on[s2], "target_next": q_tg[s2]})
    m = ctx.drv.call("dqn_loss", gamma=gamma, n_states=nS, n_actions=nA, batch=batch)
    loss = float(DQN.dqn_loss(policy, buf, target, gamma))
    case = {"kind": "dqn-end-to-end", "time_limit": n, "step_kinds": kinds, "impl_loss": loss, "model_loss": m["loss"],
            "stored_dones": np.asarray(buf.dones), "stored_timeouts": np.asarray(buf.timeouts)}
    ctx.case({"k": "dqn-e2e", "idx": idx, "kinds": kinds, "a": [b["action"] for b in batch]}, True,
             sample=case if idx == 0 else None)
    ctx.count("dqn_end_to_end")
    for k in kinds:
        ctx.count("e2e-step:" + k)
    if not ctx.close(loss, m["loss"], 8.0):
        ctx.phi_fail("stored_transitions_never_bootstrap_through_termination", case, key="dqn-e2e:loss")


def run(ctx):
    for i in range(ctx.budget(4, 20)):
        check_dqn_train_path(ctx, i)
        check_dqn_train_with_target(ctx, i)
    for i in range(ctx.budget(6, 30)):
        check_dqn_end_to_end(ctx, i)
    for i in range(ctx.budget(12, 80)):
        check_dqn(ctx, i)
    for i in range(ctx.budget(6, 40)):
        check_sac(ctx, i)
