"""C11 — training is reproducible, pure and unaffected by observers: repeated / re-keyed / observed
runs of the real learn().  Non-interference is a theorem on the model (LeraxProofs/C11.lean);
bit-identical repetition and key sensitivity are differential-only (XLA / jax.random)."""
from __future__ import annotations

import os
import shutil

import equinox as eqx
import jax
import numpy as np
from jax import numpy as jnp
from jax import random as jr

from lerax.algorithm import A2C, DQN, PPO, REINFORCE, SAC
from lerax.callback import CallbackList, LoggingCallback, ProgressBarCallback, TensorBoardBackend
from lerax.env.classic_control import CartPole, Pendulum
from lerax.policy import MLPActorCriticPolicy, MLPQPolicy, MLPSACPolicy

from .common.proto import VERIF
from .common.recording import RecordingBackend
from .common.tabular import random_tabular


def _leaves(tree):
    return [np.asarray(x) for x in jax.tree.leaves(eqx.filter(tree, eqx.is_array))]


def _same(a, b):
    la, lb = _leaves(a), _leaves(b)
    return len(la) == len(lb) and all(x.shape == y.shape and x.dtype == y.dtype and
                                      np.array_equal(x, y, equal_nan=True) for x, y in zip(la, lb))


def _close(a, b, rtol=1e-5, atol=1e-7):
    """equal up to compiler-level floating-point reassociation (attaching an observer changes the
    XLA program, so the last bits of float32 results may differ although no input of the training
    computation does)"""
    la, lb = _leaves(a), _leaves(b)
    return len(la) == len(lb) and all(
        x.shape == y.shape and x.dtype == y.dtype and
        (np.allclose(x, y, rtol=rtol, atol=atol, equal_nan=True) if x.dtype.kind == "f" else np.array_equal(x, y))
        for x, y in zip(la, lb))


def _configs(ctx):
    tab = random_tabular(ctx.rng, p_term=0.1, p_trunc=0.05)
    tabb = random_tabular(ctx.rng, box=True, p_term=0.1, p_trunc=0.05)
    ac = lambda env, k: MLPActorCriticPolicy(env, feature_size=4, feature_width=8, feature_depth=1, value_width=8,
                                             value_depth=1, action_width=8, action_depth=1, key=k)
    q = lambda env, k: MLPQPolicy(env, width_size=8, depth=1, key=k)
    sac = lambda env, k: MLPSACPolicy(env, feature_size=4, width_size=8, depth=1, key=k)
    cfgs = [
        # total_timesteps deliberately not a multiple of num_envs * num_steps
        ("PPO", "CartPole", PPO(num_envs=2, num_steps=8, num_epochs=2, num_batches=2), CartPole(), ac, 48 + 7),
        ("DQN", "CartPole", DQN(buffer_size=64, learning_starts=8, num_envs=1, num_steps=4, batch_size=4,
                                target_update_interval=2), CartPole(), q, 16 + 3),
    ]
    # an environment with host-side state (a Gymnasium simulator behind GymToLeraxEnv): the SAME env object is
    # used for every run below, so a run must neither depend on what earlier runs left in the simulator
    # nor be disturbed by an observer touching it (e.g. the logging callback's video recorder)
    try:
        import gymnasium
        from lerax.compatibility.gym import GymToLeraxEnv
        cfgs.append(("A2C", "GymToLerax(CartPole-v1)", A2C(num_envs=1, num_steps=8),
                     GymToLeraxEnv(gymnasium.make("CartPole-v1")), ac, 480 + 3))
    except Exception as e:  # noqa: BLE001
        ctx.note(f"Gymnasium adapter configuration skipped: {type(e).__name__}: {e}"[:160])
    if not ctx.quick:
        cfgs += [
            ("A2C", "Tabular", A2C(num_envs=2, num_steps=5), tab, ac, 30),
            ("REINFORCE", "CartPole", REINFORCE(num_envs=1, num_steps=16), CartPole(), ac, 48),
            ("SAC", "Pendulum", SAC(buffer_size=64, learning_starts=8, num_envs=2, num_steps=1, batch_size=4,
                                    q_width_size=8, q_depth=1), Pendulum(), sac, 12),
            ("PPO", "TabularBox", PPO(num_envs=1, num_steps=8, num_epochs=1, num_batches=2), tabb, ac, 24),
            ("DQN", "Tabular", DQN(buffer_size=32, learning_starts=4, num_envs=2, num_steps=2, batch_size=4), tab, q, 16),
        ]
    return cfgs


_CHILD = r"""
import hashlib, sys
import jax, numpy as np, equinox as eqx
from jax import random as jr
from lerax.algorithm import PPO, DQN
from lerax.env.classic_control import CartPole
from lerax.policy import MLPActorCriticPolicy, MLPQPolicy
which = sys.argv[1]
env = CartPole()
if which == "PPO":
    algo = PPO(num_envs=2, num_steps=8, num_epochs=1, num_batches=2)
    policy = MLPActorCriticPolicy(env, feature_size=4, feature_width=8, feature_depth=1, value_width=8, value_depth=1,
                                  action_width=8, action_depth=1, key=jr.key(3))
    total = 32
else:
    algo = DQN(buffer_size=64, learning_starts=8, num_envs=1, num_steps=4, batch_size=4)
    policy = MLPQPolicy(env, width_size=8, depth=1, key=jr.key(3))
    total = 16
callback = None
if len(sys.argv) > 2 and sys.argv[2] == "observed":
    # the FIRST training of this interpreter runs under a list of observers
    from lerax.callback import AbstractLoggingBackend, LoggingCallback, ProgressBarCallback
    class Null(AbstractLoggingBackend):
        def open(self, name): pass
        def log_hparams(self, hparams): pass
        def log_scalars(self, scalars, step): pass
        def log_video(self, tag, frames, step, fps): pass
        def close(self): pass
    callback = [LoggingCallback(Null(), name="child"), ProgressBarCallback()]
out = algo.learn(env, policy, total, key=jr.key(11), callback=callback)
jax.effects_barrier()
h = hashlib.sha1()
flat = []
for leaf in jax.tree.leaves(eqx.filter(out, eqx.is_array)):
    h.update(np.asarray(leaf).tobytes())
    flat += np.asarray(leaf, np.float64).ravel().tolist()
np.save(sys.argv[3], np.asarray(flat))       # not through stdout: a progress bar may be writing there
print("\nDIGEST", h.hexdigest())
"""


def check_across_processes(ctx):
    """'Training is a function of (environment, initial policy, hyper-parameters, key)': the same run in
    separate interpreter processes (different string-hash salts, as for any two runs of a script) yields
    bit-identical parameters; and a fresh interpreter whose FIRST training runs under a list of observers
    yields the parameters of the unobserved fresh interpreters (observers are passive whatever the process
    has or has not done before)."""
    import subprocess
    import sys

    def child(which, salt, mode="plain"):
        import re
        import tempfile
        env = dict(os.environ, PYTHONHASHSEED=salt)
        os.makedirs(os.path.join(VERIF, ".work"), exist_ok=True)
        with tempfile.TemporaryDirectory(dir=os.path.join(VERIF, ".work")) as tmp:
            out = os.path.join(tmp, "params.npy")
            p = subprocess.run([sys.executable, "-c", _CHILD, which, mode, out], env=env, capture_output=True,
                               text=True, timeout=900)
            dg = re.findall(r"DIGEST ([0-9a-f]+)", p.stdout)
            if p.returncode != 0 or not dg or not os.path.exists(out):
                ctx.note(f"cross-process run ({which}, PYTHONHASHSEED={salt}, {mode}) did not complete: rc={p.returncode} "
                         + p.stderr[-200:].replace("\n", " "))
                return None
            return dg[-1], np.load(out)

    for which in ["PPO", "DQN"]:
        digests, params = {}, None
        for salt in ctx.budget(("1", "2"), ("1", "2", "random")):
            r = child(which, salt)
            if r is None:
                digests = None
                break
            digests[salt], params = r
        if digests is None:
            continue
        case = {"kind": "across-processes", "algo": which, "digests_by_PYTHONHASHSEED": digests}
        ctx.case(case, True)
        ctx.count("across-processes:" + which)
        if len(set(digests.values())) != 1:
            ctx.phi_fail("repeat_same_inputs_bit_identical", case, key="c11:across-processes")
            continue
        r = child(which, "3", "observed")
        if r is None:
            continue
        ok = r[1].shape == params.shape and np.allclose(r[1], params, rtol=1e-5, atol=1e-7, equal_nan=True)
        case = {"kind": "fresh-process-observed-vs-unobserved", "algo": which, "bit_identical": r[0] == digests["1"],
                "max_abs_difference": float(np.nanmax(np.abs(np.where(np.isfinite(params), r[1] - params, 0.0))))
                if r[1].shape == params.shape else None}
        ctx.case(case, True)
        ctx.count("across-processes-observed:" + which)
        if not ok:
            ctx.phi_fail("observer_callback_list_same_policy", case, key="c11:fresh-process-observed")


def check_callback_list_members(ctx):
    """`CallbackList` (theorem `CallbackList.member_evolves_alone`): every member of a list of callbacks
    reports exactly what it reports when it is the only callback — wherever it stands in the list, whatever
    stands beside it (another logging callback with a different smoothing factor, a progress bar, a nested
    list).  Members are real `LoggingCallback`s with distinguishable smoothing factors, so handing one
    member another member's state would show in its records."""
    from lerax.wrapper import TimeLimit
    rng = ctx.rng
    for rep in range(ctx.budget(1, 3)):
        env = TimeLimit(random_tabular(rng, p_term=0.15, p_trunc=0.0), int(rng.integers(2, 5)))
        E, T = (2, 6) if rep % 2 == 0 else (1, 9)
        algo = [PPO(num_envs=E, num_steps=T, num_epochs=1, num_batches=1), A2C(num_envs=E, num_steps=T)][rep % 2]
        total = 5 * E * T
        seed = int(rng.integers(0, 2**31))
        kp, k0 = jr.split(jr.key(seed))
        policy = MLPActorCriticPolicy(env, feature_size=4, feature_width=8, feature_depth=1, value_width=8,
                                      value_depth=1, action_width=8, action_depth=1, key=kp)
        alphas = {"a": 0.3, "b": 0.85}

        def member(tag):
            rec = RecordingBackend()
            return rec, LoggingCallback(rec, name="m" + tag, alpha=alphas[tag])

        solo = {}
        for tag in alphas:
            rec, cb = member(tag)
            algo.learn(env, policy, total, key=k0, callback=cb)
            jax.effects_barrier()
            solo[tag] = list(rec.records)
        layouts = {
            "list[a,b]": lambda a, b: [a, b],
            "list[b,progress,a]": lambda a, b: [b, ProgressBarCallback(), a],
            "nested[[a],[b]]": lambda a, b: CallbackList(callbacks=[CallbackList(callbacks=[a]), CallbackList(callbacks=[b])]),
        }
        if ctx.quick:
            layouts.pop("list[b,progress,a]")
        for lname, mk in layouts.items():
            (ra, a), (rb, b) = member("a"), member("b")
            algo.learn(env, policy, total, key=k0, callback=mk(a, b))
            jax.effects_barrier()
            for tag, rec in (("a", ra), ("b", rb)):
                got, want = list(rec.records), solo[tag]
                same = len(got) == len(want) and all(
                    g[0] == w[0] and set(g[1]) == set(w[1]) and
                    all(np.isclose(g[1][k], w[1][k], rtol=1e-4, atol=1e-6, equal_nan=True) for k in w[1])
                    for g, w in zip(got, want))
                differs_between_members = solo["a"] != solo["b"]
                case = {"kind": "callback-list-member", "layout": lname, "member": tag, "alpha": alphas[tag],
                        "algo": type(algo).__name__, "num_envs": E, "num_steps": T, "seed": seed}
                ctx.case(case, differs_between_members, sample={**case, "records_alone": want[:3], "records_in_list": got[:3]}
                         if rep == 0 and tag == "a" else None)
                ctx.count("callback-list:" + lname)
                if not same:
                    ctx.phi_fail("callback_list_member_reports_as_when_alone",
                                 {**case, "records_alone": want, "records_in_list": got},
                                 key="c11:callback_list_member")
        ctx.gc(1)


def run(ctx):
    check_across_processes(ctx)
    check_callback_list_members(ctx)
    work = os.path.join(VERIF, ".work", f"c11_{os.getpid()}")
    os.makedirs(work, exist_ok=True)
    try:
        for name, envname, algo, env, mk, total in _configs(ctx):
            for rep in range(ctx.budget(1, 2)):
                seed = int(ctx.rng.integers(0, 2**31))
                k_pol, k0, k1 = jr.split(jr.key(seed), 3)
                policy = mk(env, k_pol)
                before = _leaves(policy)
                base = algo.learn(env, policy, total, key=k0)
                case0 = {"algo": name, "env": envname, "total_timesteps": total, "seed": seed}

                def observe(tag, ok):
                    ctx.case({**case0, "run": tag}, True, sample={**case0, "run": tag} if rep == 0 else None)
                    ctx.count(f"{name}:{tag}")
                    if not ok:
                        ctx.phi_fail(tag, {**case0, "run": tag}, key="c11:" + tag)

                observe("trained_policy_differs_from_input", not _same(base, policy))
                observe("repeat_same_inputs_bit_identical", _same(algo.learn(env, policy, total, key=k0), base))
                observe("different_key_different_run", not _same(algo.learn(env, policy, total, key=k1), base))
                # old-style uint32 keys are keys too
                l0 = algo.learn(env, policy, total, key=jax.random.PRNGKey(seed % 1000))
                l1 = algo.learn(env, policy, total, key=jax.random.PRNGKey(seed % 1000 + 1))
                observe("different_legacy_key_different_run", not _same(l0, l1))
                after = _leaves(policy)
                observe("input_policy_untouched", all(np.array_equal(a, b) for a, b in zip(before, after)))
                rec = RecordingBackend()
                cbs = {
                    "observer_empty_list": [],
                    "observer_logging_recording_backend": LoggingCallback(rec, name="verif"),
                    "observer_progress_bar": ProgressBarCallback(),
                    "observer_logging_tensorboard": LoggingCallback(TensorBoardBackend(work), name=f"tb{seed}"),
                }
                cbs["observer_callback_list"] = [LoggingCallback(RecordingBackend(), name="verif2"),
                                                 ProgressBarCallback()]
                # a progress bar that was told the run's total (what a user passes to get a percentage)
                cbs["observer_progress_bar_with_total"] = ProgressBarCallback(total_timesteps=total)
                cbs["observer_callback_list_with_total"] = [ProgressBarCallback(total_timesteps=total),
                                                            LoggingCallback(RecordingBackend(), name="verif4")]
                if ctx.quick:
                    cbs.pop("observer_logging_tensorboard")
                if envname.startswith("GymToLerax"):
                    # video recording requested for an environment lerax cannot render: still a passive observer
                    cbs["observer_logging_with_video_interval"] = LoggingCallback(
                        RecordingBackend(), name="verif3", video_interval=1, video_num_steps=16)
                for tag, cb in cbs.items():
                    out = algo.learn(env, policy, total, key=k0, callback=cb)
                    jax.effects_barrier()
                    observe(tag + "_same_policy", _close(out, base))
                    ctx.count("observed-run-bit-identical" if _same(out, base) else "observed-run-equal-up-to-last-bits")
                ctx.gc(1)
                if not rec.records:
                    ctx.note("recording backend received no records")
    finally:
        shutil.rmtree(work, ignore_errors=True)
