"""C16 — masked actions are never chosen; key-less policies act greedily.

Drives the real `MLPActorCriticPolicy` (Discrete / MultiDiscrete / MultiBinary action spaces),
`MLPQPolicy` and `MLPSACPolicy` with random parameters and observations, every non-empty mask for
small action counts and random masks up to 300 actions, many keys and `key=None`.  The law's
logits are taken from the policy's own `action_head`; lean/Driver/Dist.lean (`ac`, `q`, `cat`,
`multicat`, `bern`, `gauss`) runs lean/LeraxModel/{Dist,Policy}.lean on them and decides Φ on
what the policy returned.
"""
from __future__ import annotations

import functools
import itertools
import types

import equinox as eqx
import jax
import numpy as np
from jax import numpy as jnp
from jax import random as jr

from lerax.policy import MLPActorCriticPolicy, MLPQPolicy, MLPSACPolicy
from lerax.space import Box, Discrete, MultiBinary, MultiDiscrete

from .c15 import INT8_KEY, NEG_INF, _cast, _close_pt, _cond, _eps, _f, _fail_key, _np

OBS_DIM = 3


def _env(action_space):
    obs = Box(-jnp.ones(OBS_DIM), jnp.ones(OBS_DIM))
    return types.SimpleNamespace(action_space=action_space, observation_space=obs)


def _construct(ctx, cls, name, space, **kw):
    try:
        return cls(_env(space), **kw)
    except Exception as e:       # noqa: BLE001 - any construction failure is the finding
        ctx.phi_fail("policy_constructible", {"policy": cls.__name__, "action_space": name,
                                              "error": type(e).__name__, "message": str(e)[:200]},
                     key=f"constructible:{cls.__name__}[{type(space).__name__}]")
        return None


def _scale_head(policy, where, factor):
    return eqx.tree_at(where, policy, replace_fn=lambda w: w * factor)


def _all_masks(n):
    return [np.array(m, dtype=bool) for m in itertools.product([False, True], repeat=n) if any(m)]


def _random_masks(rng, n, B):
    m = rng.random((B, n)) < rng.choice([0.05, 0.5, 0.95], size=(B, 1))
    for b in range(B):
        style = rng.integers(0, 6)
        if style == 0:
            m[b] = True
        elif style == 1:
            m[b] = False
            m[b, int(rng.integers(n))] = True
        if not m[b].any():
            m[b, int(rng.integers(n))] = True
    return m


# --------------------------------------------------------------------------- actor-critic

def _law_tables(kind, dims, d):
    """tables of the law `d` (a real lerax distribution) the driver needs"""
    if kind == "cat":
        n = dims[0]
        vals = jnp.arange(n)
        outs = jnp.array([-1, n])
        return {"probs": jax.vmap(d.prob)(vals), "logps": jax.vmap(d.log_prob)(vals),
                "out_probs": jax.vmap(d.prob)(outs), "out_logps": jax.vmap(d.log_prob)(outs),
                "entropy": d.entropy(), "mode": d.mode()}
    if kind == "bern":
        n = dims[0]
        shape = d.probs.shape
        zeros, ones = jnp.zeros(shape, dtype=bool), jnp.ones(shape, dtype=bool)
        return {"p0": d.prob(zeros).reshape(n), "p1": d.prob(ones).reshape(n),
                "logp0": d.log_prob(zeros).reshape(n), "logp1": d.log_prob(ones).reshape(n),
                "entropy": d.entropy().reshape(n), "mode": d.mode().reshape(n), "mean": d.mean().reshape(n)}
    return {"probs": d.probs, "logps_flat": d.logits, "entropy": d.entropy(), "mode": d.mode()}


@functools.lru_cache(maxsize=None)
def _ac_fn(kind, dims, masked, K, shape, jit=True):
    def one(policy, obs, mask, keys):
        am = mask.reshape(shape) if (masked and kind == "bern") else (mask if masked else None)
        feats = policy.encoder(policy.observation_space.flatten_sample(obs))
        base = policy.action_head(feats)
        law = policy.action_head(feats, action_mask=am)
        nokey = policy(None, obs, key=None, action_mask=am)[1]
        keyed = jax.vmap(lambda k: policy(None, obs, key=k, action_mask=am)[1])(keys)
        _, acts, _vals, lps = jax.vmap(lambda k: policy.action_and_value(None, obs, key=k, action_mask=am))(keys)
        evals = jax.vmap(lambda a: policy.evaluate_action(None, obs, a, action_mask=am)[2])(acts)
        res = {"logits": base.logits.reshape(-1), "nokey": nokey.reshape(-1), "keyed": keyed.reshape(K, -1),
               "lp_actions": acts.reshape(K, -1), "logps": lps, "eval_logps": evals,
               "law": _law_tables(kind, dims, law), "base_probs": base.probs.reshape(-1),
               "base_logps": base.logits.reshape(-1)}
        return res

    f = jax.vmap(one, in_axes=(None, 0, 0, None))
    return eqx.filter_jit(f) if jit else f


def _gaps(kind, dims, logits, mask):
    ml = np.where(mask, logits, NEG_INF)
    if kind == "bern":
        return np.abs(np.where(mask, logits, 1e9))
    out, off = [], 0
    for d in dims:
        piece = np.sort(ml[off:off + d])[::-1]
        out.append(np.inf if d == 1 or not np.isfinite(piece[1]) else piece[0] - piece[1])
        off += d
    return np.array(out)


def _act_enc(kind, a):
    a = np.asarray(a)
    if kind == "cat":
        return int(a.reshape(-1)[0])
    if kind == "bern":
        return [bool(v) for v in a.reshape(-1)] if set(np.unique(a).tolist()) <= {0, 1} else [int(v) for v in a.reshape(-1)]
    return [int(v) for v in a.reshape(-1)]


def _check_ac(ctx, kind, name, space, dims, shape, masks, masked, K):
    rng = ctx.rng
    total = sum(dims)
    policy = _construct(ctx, MLPActorCriticPolicy, name, space, feature_size=4, feature_width=8, feature_depth=1,
                        value_width=4, value_depth=1, action_width=8, action_depth=2,
                        key=jax.random.key(int(rng.integers(2 ** 31))))
    if policy is None:
        return
    fn = _ac_fn(kind, tuple(dims), masked, K, tuple(shape))
    B = len(masks)
    for factor in ctx.budget([1.0, 12.0, 300.0], [1.0, 4.0, 12.0, 40.0, 300.0]):
        pol = _scale_head(policy, lambda p: p.action_head.action_dist.mapping.weight, factor)
        obs = _cast(ctx, rng.uniform(-1, 1, size=(B, OBS_DIM)))
        keys = jax.random.split(jax.random.key(int(rng.integers(2 ** 31))), K)
        jargs = (pol, jnp.asarray(obs, dtype=_f(ctx)), jnp.asarray(masks), keys)
        try:
            out = fn(*jargs)
        except (jax.errors.ConcretizationTypeError, jax.errors.TracerArrayConversionError) as e:
            # the policy cannot be traced by jax.jit (so no lerax algorithm can run it): a failure
            # of "holds end-to-end through actor-critic policies"; go on eagerly for the rest
            ctx.phi_fail("policy_usable_under_jit",
                         {"policy": "MLPActorCriticPolicy", "action_space": name, "under": "jax.jit",
                          "error": type(e).__name__},
                         key="multicat-flat-not-jittable" if kind == "multicat" else "policy-not-jittable")
            fn = _ac_fn(kind, tuple(dims), masked, K, tuple(shape), False)
            jargs = (pol, jargs[1][:4], jargs[2][:4], keys)
            masks, B = masks[:4], min(B, 4)
            out = fn(*jargs)
        out = jax.tree.map(np.asarray, out)
        for b in range(B):
            logits = _np(out["logits"][b])
            mask = masks[b]
            gaps = _gaps(kind, dims, logits, mask if masked else np.ones(total, bool))
            strict = bool((gaps > 200 * _eps(ctx) * (max(1.0, float(np.max(np.abs(logits)))) + np.log(total))).all())
            impl = {"nokey": _act_enc(kind, out["nokey"][b]),
                    "keyed": [_act_enc(kind, a) for a in out["keyed"][b]],
                    "lp_actions": [_act_enc(kind, a) for a in out["lp_actions"][b]],
                    "logps": _np(out["logps"][b]), "eval_logps": _np(out["eval_logps"][b])}
            args = dict(kind=kind, dims=list(dims), params=logits, mask=(mask if masked else None),
                        strict_mode=strict)
            case = {"policy": "MLPActorCriticPolicy", "action_space": name, "obs": obs[b], "head_scale": factor, **args}
            res = ctx.drv.call("ac", impl=impl, tol=ctx.tol(16.0), **args)
            ctx.case(case, True, sample={**case, "impl": impl})
            ctx.count(f"ac:{kind}:{'masked' if masked else 'no-mask'}:n={total if total <= 8 else '>8' if total <= 127 else '>127'}")
            if masked:
                ctx.count("ac:masked-entries", int((~mask).sum()))
            ctx.count("ac:strict-mode-compare" if strict else "ac:near-tie(mode compared by log-prob)")
            if not res["phi"]:
                ints = np.concatenate([np.asarray(out["nokey"][b]).ravel(), np.asarray(out["keyed"][b]).ravel(),
                                       np.asarray(out["lp_actions"][b]).ravel()])
                ctx.phi_fail(res["clause"], {**case, "impl": impl, "model_mode": res["mode"]},
                             key=_fail_key(res["clause"], max(dims), ints))
            # the masked law the head built: probabilities renormalised over the allowed actions
            law = out["law"]
            samples = np.concatenate([np.asarray(out["keyed"][b]), np.asarray(out["lp_actions"][b])]).astype(np.int64)
            if kind == "cat":
                tab = _np(law["logps"][b])
                slps = np.array([tab[s] if 0 <= s < total else NEG_INF for s in samples[:, 0]])
                limpl = {"probs": _np(law["probs"][b]), "logps": tab, "out_probs": _np(law["out_probs"][b]),
                         "out_logps": _np(law["out_logps"][b]), "entropy": float(law["entropy"][b]),
                         "mode": int(law["mode"][b]), "samples": samples[:, 0], "sample_logps": slps,
                         "base_probs": _np(out["base_probs"][b]), "base_logps": _np(out["base_logps"][b])}
                r2 = ctx.drv.call("cat", form="logits", params=logits, outs=[-1, total],
                                  mask=(mask if masked else None), impl=limpl, tol=ctx.tol(16.0))
                if not r2["phi"]:
                    ctx.phi_fail(r2["clause"], {**case, "law": limpl},
                                 key=_fail_key(r2["clause"], total, [limpl["mode"]] + list(samples[:, 0])))
                if not (ctx.close(r2["probs"], limpl["probs"], 16.0) and ctx.close(r2["logps"], tab, 16.0)):
                    ctx.disagree("masked categorical law of the action head", case, impl=limpl,
                                 model={"probs": r2["probs"], "logps": r2["logps"]})
            elif kind == "bern":
                limpl = {k: _np(law[k][b]) for k in ("p0", "p1", "logp0", "logp1", "entropy", "mean")}
                limpl["mode"] = np.asarray(law["mode"][b]).astype(bool)
                limpl["samples"] = [s.astype(bool) for s in samples]
                limpl["sample_logps"] = [np.where(s.astype(bool), limpl["logp1"], limpl["logp0"]) for s in samples]
                r2 = ctx.drv.call("bern", form="logits", params=logits, mask=(mask if masked else None),
                                  impl=limpl, tol=ctx.tol(16.0))
                if not r2["phi"]:
                    ctx.phi_fail(r2["clause"], {**case, "law": limpl}, key=r2["clause"])
                if not (ctx.close(r2["p1"], limpl["p1"], 16.0) and ctx.close(r2["logp1"], limpl["logp1"], 16.0)
                        and ctx.close(r2["logp0"], limpl["logp0"], 16.0)):
                    ctx.disagree("masked Bernoulli law of the action head", case, impl=limpl,
                                 model={k: r2[k] for k in ("p1", "logp0", "logp1")})
            else:
                probs = _np(law["probs"][b])
                base = _np(out["base_probs"][b])
                m = mask if masked else np.ones(total, bool)
                off, ok = 0, True
                for d in dims:
                    # p_i / sum_allowed p_j, evaluated in log-space (the unmasked probabilities of the
                    # allowed entries may all underflow when a masked entry dominates)
                    lg = np.where(m[off:off + d], logits[off:off + d], -np.inf)
                    e = np.exp(lg - lg.max())
                    want = e / e.sum()
                    z = float((base[off:off + d] * m[off:off + d]).sum())
                    if z > 1e-6:
                        ok = ok and ctx.close(np.where(m[off:off + d], base[off:off + d] / z, 0.0),
                                              probs[off:off + d], 16.0)
                    else:
                        ctx.count("ac:renormalisation-checked-in-log-space")
                    ok = ok and ctx.close(want, probs[off:off + d], 16.0)
                    off += d
                if not ok:
                    ctx.phi_fail("masked_renormalised", {**case, "base_probs": base, "masked_probs": probs},
                                 key="masked_renormalised")


def _actor_critic(ctx):
    rng = ctx.rng
    K = ctx.budget(24, 200)
    # Discrete: every non-empty mask for n <= 5, random masks beyond
    for n in ctx.budget([2, 3, 5], [1, 2, 3, 4, 5]):
        masks = np.stack(_all_masks(n))
        _check_ac(ctx, "cat", f"Discrete({n})", Discrete(n), [n], (n,), masks, True, K)
    for n in ctx.budget([3, 200, 300], [3, 17, 128, 200, 300]):
        masks = _random_masks(rng, n, ctx.budget(12, 32))
        _check_ac(ctx, "cat", f"Discrete({n})", Discrete(n), [n], (n,), masks, True, K)
        _check_ac(ctx, "cat", f"Discrete({n})", Discrete(n), [n], (n,), masks, False, K)
    # MultiDiscrete: every combination of non-empty component masks for small spaces
    for nvec in ctx.budget([(2, 3), (3, 2, 2)], [(2, 3), (3, 2, 2), (4, 3), (2, 2, 2, 2)]):
        combos = [np.concatenate(c) for c in itertools.product(*[_all_masks(d) for d in nvec])]
        sel = rng.choice(len(combos), size=min(len(combos), ctx.budget(40, 400)), replace=False)
        masks = np.stack([combos[i] for i in sorted(sel)])
        _check_ac(ctx, "multicat", f"MultiDiscrete({nvec})", MultiDiscrete(nvec), list(nvec), (sum(nvec),), masks, True, K)
    for nvec in ctx.budget([(3, 2), (150, 4)], [(3, 2), (150, 4), (5, 200, 3)]):
        total = sum(nvec)
        masks = np.concatenate([_random_masks(rng, d, ctx.budget(10, 24)) for d in nvec], axis=1)
        _check_ac(ctx, "multicat", f"MultiDiscrete({nvec})", MultiDiscrete(nvec), list(nvec), (total,), masks, True, K)
        _check_ac(ctx, "multicat", f"MultiDiscrete({nvec})", MultiDiscrete(nvec), list(nvec), (total,), masks, False, K)
    # MultiBinary: every mask (a masked bit is forced to 0; the all-False mask allows only zeros)
    for shape in ctx.budget([(3,), (2, 2)], [(1,), (3,), (4,), (2, 2)]):
        n = int(np.prod(shape))
        masks = np.array(list(itertools.product([False, True], repeat=n)), dtype=bool)
        _check_ac(ctx, "bern", f"MultiBinary({shape})", MultiBinary(shape if len(shape) > 1 else shape[0]), [n], shape, masks, True, K)
    n = 40
    masks = rng.random((ctx.budget(10, 24), n)) < 0.5
    _check_ac(ctx, "bern", f"MultiBinary({n})", MultiBinary(n), [n], (n,), masks, True, K)
    _check_ac(ctx, "bern", f"MultiBinary({n})", MultiBinary(n), [n], (n,), masks, False, K)


# --------------------------------------------------------------------------- Q policy

@functools.lru_cache(maxsize=None)
def _q_fn(n, masked, K):
    def one(policy, obs, mask, keys):
        am = mask if masked else None
        q = policy.q_values(None, obs)[1]
        nokey = policy(None, obs, action_mask=am)[1]
        keyed = jax.vmap(lambda k: policy(None, obs, action_mask=am, key=k)[1])(keys)
        return {"q": q, "nokey": nokey, "keyed": keyed}

    return eqx.filter_jit(jax.vmap(one, in_axes=(None, 0, 0, None)))


def _check_q(ctx, n, eps, masks, masked, K):
    rng = ctx.rng
    policy = _construct(ctx, MLPQPolicy, f"Discrete({n})", Discrete(n), epsilon=eps, width_size=8, depth=1,
                        key=jax.random.key(int(rng.integers(2 ** 31))))
    if policy is None:
        return
    fn = _q_fn(n, masked, K)
    B = len(masks)
    for factor in (1.0, 25.0, 500.0):   # |q| stays below ~300: exp() of the Float model must not overflow
        pol = _scale_head(policy, lambda p: p.q_network.layers[-1].weight, factor)
        obs = _cast(ctx, rng.uniform(-1, 1, size=(B, OBS_DIM)))
        keys = jax.random.split(jax.random.key(int(rng.integers(2 ** 31))), K)
        out = jax.tree.map(np.asarray, fn(pol, jnp.asarray(obs, dtype=_f(ctx)), jnp.asarray(masks), keys))
        for b in range(B):
            q = _np(out["q"][b])
            mask = masks[b]
            mq = np.sort(np.where(mask if masked else True, q, NEG_INF))[::-1]
            gap = np.inf if n == 1 or not np.isfinite(mq[1]) else mq[0] - mq[1]
            strict = bool(gap > 200 * _eps(ctx) * (max(1.0, float(np.max(np.abs(q)))) + np.log(n)))
            keyed = out["keyed"][b].astype(np.int64)
            impl = {"nokey": int(out["nokey"][b]), "keyed": keyed,
                    "keyed_greedy": keyed if eps <= 0 else np.zeros(0, dtype=np.int64)}
            args = dict(q=q, eps=float(eps), mask=(mask if masked else None), strict_mode=strict)
            case = {"policy": "MLPQPolicy", "n": n, "obs": obs[b], "q_scale": factor, **args}
            res = ctx.drv.call("q", impl=impl, tol=ctx.tol(16.0), **args)
            ctx.case(case, True, sample={**case, "impl": impl})
            mode_name = "greedy(eps<=0)" if eps <= 0 else "stochastic(eps>=1)" if eps >= 1 else "eps-greedy"
            ctx.count(f"q:{mode_name}:{'masked' if masked else 'no-mask'}:n={n if n <= 8 else '>8' if n <= 127 else '>127'}")
            ctx.count("q:departures-from-greedy", int(res.get("departures", 0)))
            ctx.count("q:keyed-actions", len(keyed))
            if not res["phi"]:
                ctx.phi_fail(res["clause"], {**case, "impl": impl, "model_mode": res["mode"],
                                             "departures": res.get("departures")},
                             key=_fail_key({"no_key_action_allowed": "masked_mode_allowed",
                                            "keyed_action_allowed": "masked_sample_allowed",
                                            "no_key_is_greedy": "masked_mode_allowed"}.get(res["clause"], res["clause"]),
                                           n, [impl["nokey"]] + list(keyed))
                             if (n > 127 and (impl["nokey"] < 0 or (keyed < 0).any())) else res["clause"])
            if strict and int(res["mode"]) != impl["nokey"]:
                ctx.disagree("q-policy greedy action", case, impl=impl["nokey"], model=res["mode"])


def _q_policy(ctx):
    rng = ctx.rng
    K = ctx.budget(200, 600)
    for eps in ctx.budget([0.0, 0.25, 1.0], [-0.5, 0.0, 0.05, 0.25, 1.0]):
        for n in ctx.budget([3, 5], [2, 3, 4, 5]):
            masks = np.stack(_all_masks(n))
            _check_q(ctx, n, eps, masks, True, K)
        for n in ctx.budget([200], [17, 200, 300]):
            masks = _random_masks(rng, n, ctx.budget(8, 16))
            _check_q(ctx, n, eps, masks, True, K)
            _check_q(ctx, n, eps, masks, False, K)


# --------------------------------------------------------------------------- SAC policy

@functools.lru_cache(maxsize=None)
def _sac_fn(D, K):
    def one(policy, obs, keys):
        dist = policy.action_distribution(None, obs)[1]
        nokey = policy(None, obs)[1]
        keyed = jax.vmap(lambda k: policy(None, obs, key=k)[1])(keys)
        _, acts, lps = jax.vmap(lambda k: policy.action_and_log_prob(None, obs, key=k))(keys)
        scale = dist.scale if D == 0 else dist.scale_diag
        return {"loc": dist.loc, "scale": scale, "nokey": nokey, "keyed": keyed, "acts": acts, "lps": lps,
                "lp_of_acts": jax.vmap(lambda a: dist.log_prob(a).sum())(acts), "mode": dist.mode()}

    return eqx.filter_jit(jax.vmap(one, in_axes=(None, 0, None)))


def _sac_policy(ctx):
    rng = ctx.rng
    K = ctx.budget(16, 64)
    B = ctx.budget(12, 32)
    for D in (0, 2):
        lo = np.round(rng.uniform(-3, 0, size=max(D, 1)), 1)
        hi = lo + np.round(rng.uniform(0.5, 4, size=max(D, 1)), 1)
        ft = _f(ctx)
        space = Box(float(lo[0]), float(hi[0])) if D == 0 else Box(jnp.asarray(lo, ft), jnp.asarray(hi, ft))
        name = f"Box(shape={'()' if D == 0 else (D,)})"
        policy = _construct(ctx, MLPSACPolicy, name, space, feature_size=8, width_size=8, depth=1,
                            key=jax.random.key(int(rng.integers(2 ** 31))))
        if policy is None:
            continue
        kind = "sq" if D == 0 else "sqdiag"
        fn = _sac_fn(D, K)
        obs = _cast(ctx, rng.uniform(-1, 1, size=(B, OBS_DIM)))
        keys = jax.random.split(jax.random.key(int(rng.integers(2 ** 31))), K)
        out = jax.tree.map(np.asarray, fn(policy, jnp.asarray(obs, dtype=ft), keys))
        lo64, hi64 = _cast(ctx, lo), _cast(ctx, hi)
        for b in range(B):
            loc = _np(out["loc"][b]).reshape(-1)
            scale = _np(out["scale"][b]).reshape(-1)
            acts = _np(out["acts"][b]).reshape(K, -1)
            keyed = _np(out["keyed"][b]).reshape(K, -1)
            _, z, c = _cond(ctx, kind, loc, scale, lo64, hi64, acts)
            inside = ((acts > lo64) & (acts < hi64)).all(-1)
            well = (c <= 50.0 * ctx.atol) & inside & np.isfinite(z).all(-1)
            tol_scale = 8.0 + float(np.max(c[well], initial=0.0)) / ctx.atol
            impl = {"logps": np.zeros((0, 1)), "probs": np.zeros((0, 1)),
                    "samples": np.concatenate([acts, keyed]),
                    "sample_logps": _np(out["lps"][b]).reshape(K, 1),
                    "logp_of_samples": _np(out["lp_of_acts"][b]).reshape(K, 1),
                    "well_conditioned": well, "mode": _np(out["nokey"][b]).reshape(-1), "comp_sums": np.zeros(0)}
            args = dict(kind="sqdiag", loc=loc, scale=scale, lo=lo64, hi=hi64, values=np.zeros((0, len(loc))),
                        zs=np.where(np.isfinite(z), z, 0.0))
            case = {"policy": "MLPSACPolicy", "action_space": name, "obs": obs[b], **args}
            res = ctx.drv.call("gauss", impl=impl, tol=ctx.tol(tol_scale), **args)
            ctx.case(case, True, sample={**case, "impl": impl})
            ctx.count(f"sac:{name}")
            ctx.count("sac:samples-well-conditioned", int(well.sum()))
            ctx.count("sac:samples-ill-conditioned(skipped)", int((~well).sum()))
            if not res["phi"]:
                ctx.phi_fail(res["clause"], {**case, "impl": impl}, key=res["clause"])
            # no key => the mode g(mean); with a key the reported log-density is the law's
            if not ctx.close(res["mode"], impl["mode"], 8.0):
                ctx.phi_fail("no_key_is_mode", {**case, "impl_action": impl["mode"], "model_mode": res["mode"]},
                             key="sac_no_key_is_mode")
            if not ctx.close(_np(out["mode"][b]).reshape(-1), impl["mode"], 1.0):
                ctx.phi_fail("no_key_is_mode", {**case, "impl_action": impl["mode"], "dist_mode": out["mode"][b]},
                             key="sac_no_key_is_mode")
            m_slp = np.asarray(res["sample_logps"], dtype=np.float64).reshape(K, -1)
            if not _close_pt(ctx, m_slp[well], impl["sample_logps"][well], c[well]):
                ctx.disagree("sac action_and_log_prob log-density", case, impl=impl["sample_logps"], model=m_slp)


def _policy_sample_law(ctx):
    """'With a key the policy samples from the same distribution whose log-probability it reports', on the
    JOINT law: empirical frequencies of the real policy's keyed actions over every joint action of a small
    MultiDiscrete / MultiBinary / Discrete space against exp(evaluate_action log-prob) of that action
    (components of equal size with shared noise would keep every marginal right and break the joint)."""
    rng = ctx.rng
    N = 4096
    spaces = [("MultiDiscrete((3, 3))", MultiDiscrete((3, 3)), [3, 3]), ("MultiDiscrete((2, 4, 2))", MultiDiscrete((2, 4, 2)), [2, 4, 2]),
              ("MultiBinary(3)", MultiBinary(3), [2, 2, 2]), ("Discrete(5)", Discrete(5), [5])]
    if not ctx.quick:
        spaces += [("MultiDiscrete((4, 4))", MultiDiscrete((4, 4)), [4, 4]), ("MultiDiscrete((2, 3))", MultiDiscrete((2, 3)), [2, 3])]
    for name, space, dims in spaces:
        policy = _construct(ctx, MLPActorCriticPolicy, name, space, key=jr.key(int(rng.integers(2**31))))
        if policy is None:
            continue
        obs = jnp.asarray(rng.uniform(-1, 1, OBS_DIM), dtype=float)
        joint = np.array(list(itertools.product(*[range(d) for d in dims])))
        scalar = isinstance(space, Discrete)

        def enc(a):
            return jnp.asarray(a[0]) if scalar else jnp.asarray(a).astype(bool if isinstance(space, MultiBinary) else int)

        logp = np.array([float(policy.evaluate_action(None, obs, enc(a))[2]) for a in joint], np.float64)
        p = np.exp(logp)
        worst, detail = 0.0, None
        for attempt in range(2):
            keys = jr.split(jr.key(int(rng.integers(2**31))), N)
            acts = np.asarray(eqx.filter_jit(jax.vmap(lambda k: policy(None, obs, key=k)[1]))(keys)).astype(np.int64).reshape(N, -1)
            counts = np.array([int((acts == a[None, :]).all(axis=1).sum()) for a in joint], np.float64)
            z = np.abs(counts - N * p) / np.sqrt(N * p * (1 - p) + 1.0)
            worst = float(z.max())
            detail = {"joint_action": joint[int(z.argmax())].tolist(), "observed_frequency": float(counts[int(z.argmax())] / N),
                      "reported_probability": float(p[int(z.argmax())])}
            if worst <= 5.5:
                break
        case = {"kind": "policy-sample-law", "action_space": name, "keys": N, "reported_mass": float(p.sum()),
                "worst_z": worst, **(detail or {})}
        ctx.case(case, True)
        ctx.count("policy-sample-law:" + name)
        if abs(p.sum() - 1.0) > 1e-3:
            ctx.phi_fail("reported_logprob_is_logprob_of_action", case, key="ac:reported-law-mass")
        elif worst > 5.5:
            ctx.phi_fail("keyed_samples_follow_the_reported_law", case, key="ac:joint-sample-law")


def _sac_saturated(ctx):
    """SAC with a key, far in the tail: the log-probability reported together with an action is the law's
    log-density of the pre-squash draw x = mu + sigma z — finite and exact also where the squashed action is
    (almost) at a bound.  z is read from an unsaturated twin policy (mean 0) driven with the same key."""
    rng = ctx.rng
    ft = jnp.float64 if ctx.x64 else jnp.float32
    for shape in [(), (2,)]:
        space = Box(-jnp.ones(shape, ft), jnp.ones(shape, ft)) if shape else Box(jnp.asarray(-1.0, ft), jnp.asarray(1.0, ft))
        policy = _construct(ctx, MLPSACPolicy, f"Box{shape}", space, feature_size=4, width_size=4, depth=1,
                            key=jr.key(int(rng.integers(2**31))))
        if policy is None:
            continue
        obs = jnp.asarray(rng.uniform(-1, 1, OBS_DIM), dtype=ft)

        def with_mean(m):
            return eqx.tree_at(lambda p: (p.mean_head.weight, p.mean_head.bias, p.log_std_head.weight), policy,
                               (jnp.zeros_like(policy.mean_head.weight), jnp.full_like(policy.mean_head.bias, m),
                                jnp.zeros_like(policy.log_std_head.weight)))

        twin = with_mean(0.0)
        _, dist0 = twin.action_distribution(None, obs)
        sigma = np.asarray(getattr(dist0, "scale", None) if shape == () else getattr(dist0, "scale_diag", None), np.float64).reshape(-1)
        if sigma.size == 0 or not np.isfinite(sigma).all():
            ctx.note("sac-saturated: scale of the action distribution not readable; clause skipped")
            return
        K = ctx.budget(48, 200)
        keys = jr.split(jr.key(int(rng.integers(2**31))), K)
        y0 = np.asarray(jax.vmap(lambda k: twin.action_and_log_prob(None, obs, key=k)[1])(keys), np.float64).reshape(K, -1)
        u0 = np.clip((y0 + 1.0) / 2.0, 1e-12, 1 - 1e-12)
        x0 = np.log(u0) - np.log1p(-u0)
        z = x0 / sigma
        good = (np.abs(x0) <= 4.0).all(axis=1)
        for mu in (12.0, 15.0, 18.0):
            pol = with_mean(mu)
            act, lp = jax.vmap(lambda k: pol.action_and_log_prob(None, obs, key=k)[1:])(keys)
            lp = np.asarray(lp, np.float64).reshape(K)
            x = mu + sigma * z
            ref = (-0.5 * z ** 2 - np.log(sigma) - 0.5 * np.log(2 * np.pi) - np.log(2.0)
                   + np.logaddexp(0.0, -x) + np.logaddexp(0.0, x)).sum(axis=1)
            err = np.abs(lp - ref)
            tol = 1e-6 if ctx.x64 else 5e-3
            bad = good & ~(np.isfinite(lp) & (err <= tol * (1 + np.abs(ref) * 0.0)))
            case = {"kind": "sac-saturated", "action_shape": list(shape), "pre_squash_mean": mu, "sigma": sigma,
                    "keys": int(good.sum()), "non_finite_logps": int((~np.isfinite(lp[good])).sum()),
                    "max_abs_error": float(np.nanmax(err[good])) if good.any() else 0.0}
            ctx.case(case, True)
            ctx.count("sac:saturated-draws", int(good.sum()))
            if bad.any():
                i = int(np.argmax(bad))
                ctx.phi_fail("reported_logprob_is_logprob_of_action",
                             {**case, "key_index": i, "reported": float(lp[i]), "log_density_of_pre_squash_draw": float(ref[i]),
                              "action": np.asarray(act)[i]}, key="sac:saturated-logprob")


def _q_exploration_many_keys(ctx):
    """epsilon-greedy with a mask over very many keys: an exploration step that ranks actions by a random
    priority can tie an allowed action with the masked ones for about one key in 2^23."""
    if ctx.x64:
        return
    rng = ctx.rng
    for n, mask in [(2, [False, True]), (3, [False, False, True])]:
        policy = _construct(ctx, MLPQPolicy, f"Discrete({n})", Discrete(n), width_size=4, depth=1, epsilon=0.5,
                            key=jr.key(int(rng.integers(2**31))))
        if policy is None:
            continue
        obs = jnp.asarray(rng.uniform(-1, 1, OBS_DIM), dtype=float)
        m = jnp.asarray(mask)
        f = jax.jit(jax.vmap(lambda k: policy(None, obs, key=k, action_mask=m)[1]))
        chunks, bad_key, total = ctx.budget(8, 32), None, 0
        for c in range(chunks):
            seed = int(rng.integers(0, 2**31))
            out = np.asarray(f(jr.split(jr.key(seed), 1 << 22)))
            total += out.size
            bad = np.nonzero(~np.asarray(mask)[np.clip(out, 0, n - 1)] | (out < 0) | (out >= n))[0]
            if len(bad) and bad_key is None:
                bad_key = {"seed": seed, "index_in_split": int(bad[0]), "action": int(out[bad[0]])}
        case = {"kind": "q-exploration-many-keys", "n_actions": n, "mask": mask, "epsilon": 0.5, "keys": total,
                "first_bad": bad_key}
        ctx.case(case, True)
        ctx.count("q:masked-exploration-keys", total)
        if bad_key is not None:
            ctx.phi_fail("action_is_allowed", case, key="q:masked-action-chosen-many-keys")


def run(ctx):
    _sac_saturated(ctx)
    _q_exploration_many_keys(ctx)
    _policy_sample_law(ctx)
    _actor_critic(ctx)
    _q_policy(ctx)
    _sac_policy(ctx)
    ctx.note("Q policy: the uniform draw u is not observable through the public API; the bound "
             "'departs from greedy with probability <= eps' is checked as #departures <= n*eps + 6 sd "
             "over the keys of each case (exact: 0 departures for eps <= 0 and for key=None)")
