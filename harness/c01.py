"""C01 — Gym-style step/reset contract: real env.step / env.reset on finite MDPs and classic
control environments under random wrapper stacks vs lean/LeraxModel/Env.lean."""
from __future__ import annotations

import equinox as eqx
import jax
import numpy as np
from jax import numpy as jnp
from jax import random as jr

from lerax.env.classic_control import (Acrobot, CartPole, ContinuousMountainCar, MountainCar,
                                       Pendulum)

from .common.stacks import build_stack, sample_action
from .common.tabular import enc_state, peel, random_tabular


def _tree_close(ctx, a, b):
    la, lb = jax.tree.leaves(a), jax.tree.leaves(b)
    if len(la) != len(lb):
        return False
    return all(ctx.close(x, y, 4.0) for x, y in zip(la, lb))


def _tab_config(ctx, idx):
    rng = ctx.rng
    box = bool(rng.random() < 0.4)
    env0 = random_tabular(rng, box=box, p_term=0.2, p_trunc=0.15)
    depth = int(rng.integers(0, 5))
    env, desc, names, skipped, _ = build_stack(rng, env0, depth)
    for s in skipped:
        ctx.count("wrapper-not-constructible:" + s)
    tab = env0.describe()
    n_noise = int(env0.T.shape[2])
    inits = set(np.asarray(env0.inits).tolist())
    key = jr.key(int(rng.integers(0, 2**31)))
    n_steps = ctx.budget(30, 120)

    # reset
    key, k = jr.split(key)
    state, obs, _info = env.reset(key=k)
    st = enc_state(state)
    out = ctx.drv.call("tab_reset", tab=tab, stack=desc, init=st["s"])
    case = {"kind": "tab-reset", "stack": names, "state": st, "obs": np.asarray(obs)}
    ctx.case(case, True)
    ctx.count("reset")
    ok = (st["s"] in inits and st["clock"] == 0 and all(c == 0 for c in st["counters"]))
    if not ok:
        ctx.phi_fail("reset_returns_fresh_initial", case)
    if not (out["state"] == st and ctx.close(out["obs"], np.asarray(obs).ravel())):
        if not ctx.close(out["obs"], np.asarray(obs).ravel()) and ok:
            ctx.phi_fail("reset_observation_of_returned_state", case, detail=out)
        ctx.disagree("reset", case, impl={"state": st, "obs": obs}, model=out)

    for t in range(n_steps):
        key, ka, ks = jr.split(key, 3)
        action = sample_action(rng, env, ka)
        pre = enc_state(state)
        nstate, nobs, reward, term, trunc, _ = env.step(state, action, key=ks)
        post = enc_state(nstate)
        a = float(np.asarray(action).ravel()[0])
        done = bool(term) or bool(trunc)
        impl = {"state": post, "obs": np.asarray(nobs, dtype=np.float64).ravel(),
                "reward": float(reward), "terminal": bool(term), "truncate": bool(trunc)}
        noises = [post["noise"]] if not done else list(range(n_noise))
        match, models = False, []
        for nz in noises:
            m = ctx.drv.call("tab_step", tab=tab, stack=desc, state=pre, action=a,
                             init=post["s"], noise=nz)
            models.append(m)
            if (m["state"] == post and ctx.close(m["obs"], impl["obs"])
                    and ctx.close(m["reward"], impl["reward"]) and m["terminal"] == impl["terminal"]
                    and m["truncate"] == impl["truncate"]):
                match = True
                break
        case = {"kind": "tab-step", "stack": names, "stack_desc": desc, "tab": tab, "pre": pre,
                "action": a, "impl": impl}
        ctx.case({"k": "tab", "idx": idx, "t": t, "pre": pre, "a": a, "stack": names}, True,
                 sample={k: case[k] for k in ("kind", "stack", "pre", "action", "impl")})
        ctx.count("step:done" if done else "step:continue")
        if bool(term) and bool(trunc):
            ctx.count("step:terminal-and-truncated")
        if any(d["w"] == "timeLimit" for d in desc) and bool(trunc):
            ctx.count("step:truncated")
        # Φ on the implementation's outputs, against the model's functional components
        phi_ok = False
        clause = None
        for nz in noises:
            comp = ctx.drv.call("tab_components", tab=tab, stack=desc, state=pre, action=a, noise=nz)
            fresh = (post["s"] in inits and post["clock"] == 0
                     and all(c == 0 for c in post["counters"]) and post["noise"] == 0)
            obs_model = ctx.drv.call("tab_step", tab=tab, stack=desc, state=pre, action=a,
                                     init=post["s"], noise=nz)["obs"] if fresh and done else comp["next_obs"]
            r = ctx.drv.call(
                "step_ok", tol=ctx.tol(), reward=comp["reward"], terminal=comp["terminal"],
                truncate=comp["truncate"], state_is_successor=(post == comp["next"]),
                state_is_fresh_initial=fresh,
                obs_of_returned_state=ctx.close(obs_model, impl["obs"]),
                out_reward=impl["reward"], out_terminal=impl["terminal"], out_truncate=impl["truncate"])
            if r["phi"]:
                phi_ok = True
                break
            # report the clause of the best-explaining noise candidate (the one that passes most clauses)
            order = ["reward_is_transition_reward", "terminal_flag", "truncate_flag",
                     "done_returns_fresh_initial", "continue_returns_successor", "observation_of_returned_state"]
            if clause is None or order.index(r["clause"]) > order.index(clause):
                clause = r["clause"]
        if not phi_ok:
            ctx.phi_fail(clause, case)
        if not match:
            ctx.disagree("tab_step", case, impl=impl, model=models[0])
        state = nstate


_CLASSIC = {
    "CartPole": (CartPole, lambda y: np.all(np.abs(y) <= 0.05 + 1e-6)),
    "MountainCar": (MountainCar, lambda y: -0.6 - 1e-6 <= y[0] <= -0.4 + 1e-6 and y[1] == 0.0),
    "ContinuousMountainCar": (ContinuousMountainCar,
                              lambda y: -0.6 - 1e-6 <= y[0] <= -0.4 + 1e-6 and y[1] == 0.0),
    "Pendulum": (Pendulum, lambda y: abs(y[0]) <= np.pi + 1e-6 and abs(y[1]) <= 1.0 + 1e-6),
    "Acrobot": (Acrobot, lambda y: np.all(np.abs(y) <= 0.1 + 1e-6)),
}


def _classic_config(ctx, name, idx):
    rng = ctx.rng
    cls, is_init = _CLASSIC[name]
    env0 = cls()
    depth = int(rng.integers(0, 4))
    env, _desc, names, skipped, _ = build_stack(rng, env0, depth)
    for s in skipped:
        ctx.count("wrapper-not-constructible:" + s)

    @eqx.filter_jit
    def components(state, action, key):
        k1, k2, k3, k4, k5 = jr.split(key, 5)
        nxt = env.transition(state, action, key=k1)
        return (nxt, env.reward(state, action, nxt, key=k2), env.terminal(nxt, key=k3),
                env.truncate(nxt), env.observation(nxt, key=k4))

    obs_fn = eqx.filter_jit(lambda s, k: env.observation(s, key=k))

    def fresh(state):
        base, counters = peel(state)
        y = np.asarray(base.y, dtype=np.float64)
        return bool(is_init(y)) and float(base.t) == 0.0 and all(c == 0 for c in counters)

    key = jr.key(int(rng.integers(0, 2**31)))
    key, k = jr.split(key)
    state, obs, _ = env.reset(key=k)
    case = {"kind": "classic-reset", "env": name, "stack": names}
    ctx.case({**case, "idx": idx}, True)
    if not fresh(state):
        ctx.phi_fail("reset_returns_fresh_initial", case)
    if not _tree_close(ctx, obs, obs_fn(state, k)):
        ctx.phi_fail("reset_observation_of_returned_state", case)

    n_steps = ctx.budget(40, 250)
    for t in range(n_steps):
        key, ka, ks, kc = jr.split(key, 4)
        action = sample_action(rng, env, ka)
        nxt, rew, term, trunc, nobs_succ = components(state, action, kc)
        nstate, nobs, reward, oterm, otrunc, _ = env.step(state, action, key=ks)
        is_succ = _tree_close(ctx, nstate, nxt)
        is_fresh = fresh(nstate)
        obs_ok = _tree_close(ctx, nobs, obs_fn(nstate, ks))
        case = {"kind": "classic-step", "env": name, "stack": names, "t": t,
                "pre_y": np.asarray(peel(state)[0].y), "action": np.asarray(action),
                "components": {"reward": float(rew), "terminal": bool(term), "truncate": bool(trunc)},
                "impl": {"reward": float(reward), "terminal": bool(oterm), "truncate": bool(otrunc),
                         "post_y": np.asarray(peel(nstate)[0].y), "post_t": float(peel(nstate)[0].t)}}
        r = ctx.drv.call("step_ok", tol=ctx.tol(4.0), reward=float(rew), terminal=bool(term),
                         truncate=bool(trunc), state_is_successor=is_succ,
                         state_is_fresh_initial=is_fresh, obs_of_returned_state=obs_ok,
                         out_reward=float(reward), out_terminal=bool(oterm), out_truncate=bool(otrunc))
        ctx.case({"k": name, "idx": idx, "t": t}, True, sample=case if t == 3 else None)
        ctx.count(f"{name}:{'done' if (bool(term) or bool(trunc)) else 'continue'}")
        if not r["phi"]:
            ctx.phi_fail(r["clause"], case)
        state = nstate


def _gym_adapters(ctx):
    """The Gymnasium adapters are part of the step/reset contract (anchors: compatibility/gym.py).

    (a) LeraxToGymEnv(TimeLimit(finite MDP, n)).step must report the reward and BOTH flags of the
        transition taken — including steps that are terminal and truncated at once (the terminal and
        env-level truncation sets overlap, and the time limit coincides with terminations);
    (b) GymToLeraxEnv(gymnasium CartPole-v1) driven through the Gym-style `step` for several consecutive
        steps must follow a twin Gymnasium env (same seed, same actions): successor observation, reward
        and flags of exactly the transition taken from the given state.
    """
    import gymnasium
    from lerax.compatibility.gym import GymToLeraxEnv, LeraxToGymEnv
    from lerax.wrapper import TimeLimit
    rng = ctx.rng
    for rep in range(ctx.budget(3, 12)):
        env0 = random_tabular(rng, n_noise=1, p_term=0.25, p_trunc=0.2)
        env0 = eqx.tree_at(lambda e: e.inits, env0, env0.inits[:1])
        # make sure some terminal states are also truncating states
        both = np.asarray(env0.term) & (rng.random(env0.term.shape[0]) < 0.6)
        env0 = eqx.tree_at(lambda e: e.trunc, env0, jnp.asarray(np.asarray(env0.trunc) | both))
        n = int(rng.integers(1, 5))
        desc = [{"w": "timeLimit", "n": n}]
        tab = env0.describe()
        g = LeraxToGymEnv(TimeLimit(env0, n))
        obs, _ = g.reset(seed=int(rng.integers(0, 1000)))
        st = {"s": int(env0.inits[0]), "clock": 0, "noise": 0, "counters": [0]}
        for t in range(ctx.budget(30, 80)):
            a = int(rng.integers(0, env0.action_space.n))
            o, r, term, trunc, _ = g.step(a)
            m = ctx.drv.call("tab_step", tab=tab, stack=desc, state=st, action=float(a),
                             init=int(env0.inits[0]), noise=0)
            c = {"kind": "lerax-to-gym-step", "time_limit": n, "t": t, "state": st, "action": a,
                 "impl": {"obs": np.asarray(o), "reward": float(r), "terminal": bool(term), "truncate": bool(trunc)},
                 "model": m}
            ctx.case({"k": "l2g", "rep": rep, "t": t, "st": st, "a": a}, True)
            ctx.count("gym-adapter:lerax-to-gym")
            if m["terminal"] and m["truncate"]:
                ctx.count("gym-adapter:terminal-and-truncated")
            if not ctx.close(float(r), m["reward"]):
                ctx.phi_fail("reward_is_transition_reward", c, key="gym_adapter:reward")
            elif bool(term) != m["terminal"]:
                ctx.phi_fail("terminal_flag", c, key="gym_adapter:terminal")
            elif bool(trunc) != m["truncate"]:
                ctx.phi_fail("truncate_flag", c, key="gym_adapter:truncate")
            st = m["state"]
            if m["terminal"] or m["truncate"]:
                # the adapter keeps the auto-reset state; a Gymnasium user calls reset() next
                obs, _ = g.reset(seed=int(rng.integers(0, 1000)))
                st = {"s": int(env0.inits[0]), "clock": 0, "noise": 0, "counters": [0]}
    # (c) LeraxToGymnaxEnv(TimeLimit(finite MDP, n)).step_env: `done` is raised for truncation as well as for
    #     termination, and the state returned after a done step is a fresh initial state (clock and counter 0)
    try:
        from lerax.compatibility.gymnax import LeraxEnvParams, LeraxToGymnaxEnv
        for rep in range(ctx.budget(2, 8)):
            env0 = random_tabular(rng, n_noise=1, p_term=0.1, p_trunc=0.0)
            env0 = eqx.tree_at(lambda e: e.inits, env0, env0.inits[:1])
            n = int(rng.integers(1, 5))
            desc = [{"w": "timeLimit", "n": n}]
            tab = env0.describe()
            gx = LeraxToGymnaxEnv(TimeLimit(env0, n))
            params = LeraxEnvParams()
            key = jr.key(int(rng.integers(0, 10_000)))
            obs, gstate = gx.reset_env(key, params)
            st = {"s": int(env0.inits[0]), "clock": 0, "noise": 0, "counters": [0]}
            for t in range(ctx.budget(25, 60)):
                key, k = jr.split(key)
                a = int(rng.integers(0, env0.action_space.n))
                o, gstate, r, done, _ = gx.step_env(k, gstate, jnp.asarray(a), params)
                m = ctx.drv.call("tab_step", tab=tab, stack=desc, state=st, action=float(a),
                                 init=int(env0.inits[0]), noise=0)
                c = {"kind": "lerax-to-gymnax-step", "time_limit": n, "t": t, "state": st, "action": a,
                     "impl": {"obs": np.asarray(o), "reward": float(r), "done": bool(done)}, "model": m}
                ctx.case({"k": "l2gx", "rep": rep, "t": t, "st": st, "a": a}, True)
                ctx.count("gym-adapter:lerax-to-gymnax")
                if m["truncate"] and not m["terminal"]:
                    ctx.count("gym-adapter:gymnax-truncated-only")
                if not ctx.close(float(r), m["reward"]):
                    ctx.phi_fail("reward_is_transition_reward", c, key="gymnax_adapter:reward")
                elif bool(done) != (m["terminal"] or m["truncate"]):
                    ctx.phi_fail("truncate_flag" if m["truncate"] else "terminal_flag", c, key="gymnax_adapter:done")
                elif not ctx.close(np.asarray(o, np.float64).ravel(), m["obs"]):
                    ctx.phi_fail("done_returns_fresh_initial" if (m["terminal"] or m["truncate"])
                                 else "continue_returns_successor", c, key="gymnax_adapter:observation")
                st = m["state"]
    except ImportError as e:
        ctx.note(f"gymnax adapters not importable: {e}"[:120])
    for rep in range(ctx.budget(2, 6)):
        seed = 0 if rep == 0 else int(rng.integers(0, 10_000))
        ad = GymToLeraxEnv(gymnasium.make("CartPole-v1"))
        twin = gymnasium.make("CartPole-v1")
        state = ad.initial(key=jr.key(rep), seed=seed)
        twin.reset(seed=seed)
        for t in range(ctx.budget(12, 40)):
            a = int(rng.integers(0, 2)) if rep % 2 else 1        # constant push terminates quickly
            nstate, nobs, reward, term, trunc, _ = ad.step(state, jnp.asarray(a), key=jr.key(1000 + t))
            to, tr, tt, ttr, _ = twin.step(a)
            c = {"kind": "gym-to-lerax-step", "seed": seed, "t": t, "action": a,
                 "impl": {"obs": np.asarray(nobs), "reward": float(reward), "terminal": bool(term), "truncate": bool(trunc)},
                 "twin": {"obs": np.asarray(to), "reward": float(tr), "terminal": bool(tt), "truncate": bool(ttr)}}
            ctx.case({"k": "g2l", "rep": rep, "t": t}, True)
            ctx.count("gym-adapter:gym-to-lerax-step")
            if not ctx.close(float(reward), float(tr)):
                ctx.phi_fail("reward_is_transition_reward", c, key="gym_adapter:g2l_reward")
            elif bool(term) != bool(tt):
                ctx.phi_fail("terminal_flag", c, key="gym_adapter:g2l_terminal")
            elif bool(trunc) != bool(ttr):
                ctx.phi_fail("truncate_flag", c, key="gym_adapter:g2l_truncate")
            elif not (tt or ttr) and not ctx.close(np.asarray(nobs), to, 4):
                ctx.phi_fail("continue_returns_successor", c, key="gym_adapter:g2l_successor")
            state = nstate
            if tt or ttr:
                ctx.count("gym-adapter:gym-to-lerax-episode-end")
                break
        ad.env.close(); twin.close()


def run(ctx):
    _gym_adapters(ctx)
    n_tab = ctx.budget(14, 120)
    for i in range(n_tab):
        _tab_config(ctx, i)
        ctx.gc()
    names = list(_CLASSIC)
    n_classic = ctx.budget(5, 40)
    for i in range(n_classic):
        _classic_config(ctx, names[i % len(names)], i)
        ctx.gc(4)
