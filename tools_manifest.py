#!/venv/bin/python
"""Regenerate MANIFEST.json from registry.json (claimed checks) and properties.jsonl."""
import json, os
V = os.path.dirname(os.path.abspath(__file__))
reg = {f[:-5]: json.load(open(os.path.join(V, "registry.d", f)))
       for f in sorted(os.listdir(os.path.join(V, "registry.d"))) if f.endswith(".json")}
props = [json.loads(l) for l in open(os.path.join(V, "properties.jsonl"))]
checks, na = [], []
for p in props:
    pid = p["id"]
    r = reg.get(pid)
    if r and r.get("claimed", True):
        checks.append({
            "property_id": pid,
            "quick_cmd": f"./check {pid} --tier quick",
            "thorough_cmd": f"./check {pid} --tier thorough",
            "evidence_file": f"evidence/{pid}.json",
            "replay_cmd_template": f"./check {pid} --replay {{path}}",
            "engine": "lean4-model+correspondence",
            "level_claimed": {"category": r["level"], "text": r["level_text"],
                              "design_ref": f"DESIGN.md section 4, {pid}"},
            "level_note": r["level_note"],
            "technique": r["technique"],
        })
    else:
        na.append({"property_id": pid,
                   "reason": (r or {}).get("na_reason", "machinery for this property is not built yet in this round; "
                              "not claimed rather than claimed weakly (Lean proof applies, see DESIGN.md section 4)")})
m = {
    "version": 1,
    "setup_cmd": "cd lean && lake build && cd .. && ./check --selftest",
    "hooks": {"guard": "LERAX_VERIF", "enable": "no source hooks: every observable is reached through lerax's public API with harness-side test doubles; checks set LERAX_VERIF=1 in the harness environment for future use",
              "baseline_off_cmd": "cd /repo && /venv/bin/python -m pytest -ra -q -p no:cacheprovider --timeout=900 --continue-on-collection-errors",
              "source_commits": [], "add_only": True},
    "engines": [{"name": "lean4-model+correspondence", "path": "lean/ + harness/ + check",
                 "serves_properties": [c["property_id"] for c in checks],
                 "kind_free_text": "Lean 4 theorems about hand-written executable models (lean/LeraxModel, lean/LeraxProofs); models tied to /repo by a differential correspondence harness (harness/*.py drives real lerax code, lean driver runs the model and decides the property predicate on the implementation's outputs)"}],
    "checks": checks,
    "not_applicable": na,
    "notes": "See DESIGN.md. exit 2 = machinery failure (build/timeout), never a verdict.",
}
json.dump(m, open(os.path.join(V, "MANIFEST.json"), "w"), indent=1)
print(f"{len(checks)} claimed, {len(na)} not claimed")
