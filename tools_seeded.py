#!/venv/bin/python
"""Run the registered checks against the seeded changes under /verif/seeded/<name>/.

Each seeded change is applied to a scratch worktree of /repo (never to /repo itself); the check
is run with PYTHONPATH pointing at that worktree and its evidence redirected to a scratch
directory; the worktree is reset afterwards.  Writes seeded/RESULTS.json.

usage: tools_seeded.py [name ...] [--tier quick|thorough]
"""
import json, os, re, subprocess, sys, time
V = os.path.dirname(os.path.abspath(__file__))
WT = os.environ.get("VERIF_EVAL_WT", "/tmp/verif_eval_repo")
args = [a for a in sys.argv[1:] if not a.startswith("--")]
tier = "thorough" if "--tier=thorough" in sys.argv else "quick"

def sh(*cmd, **kw):
    return subprocess.run(cmd, capture_output=True, text=True, **kw)

if not os.path.isdir(WT):
    r = sh("git", "-C", "/repo", "worktree", "add", "--detach", WT, "HEAD")
    assert r.returncode == 0, r.stderr
sh("git", "-C", WT, "checkout", "--detach", sh("git", "-C", "/repo", "rev-parse", "HEAD").stdout.strip())
sh("git", "-C", WT, "checkout", "--", ".")
names = args or sorted(d for d in os.listdir(os.path.join(V, "seeded")) if os.path.isdir(os.path.join(V, "seeded", d)))
res_path = os.path.join(V, "seeded", "RESULTS.json")
results = json.load(open(res_path)) if os.path.exists(res_path) else {}
for name in names:
    d = os.path.join(V, "seeded", name)
    meta = json.load(open(os.path.join(d, "meta.json")))
    props = meta.get("checks") or [meta["property"]]
    r = sh("git", "-C", WT, "apply", os.path.join(d, "patch.diff"))
    if r.returncode != 0:
        print(name, "patch does not apply:", r.stderr[-300:], flush=True)
        continue
    out = {}
    for pid in props:
        env = dict(os.environ, PYTHONPATH=os.path.join(WT, "src"), VERIF_EVIDENCE_DIR=WT + "_evidence",
                   VERIF_SEED=os.environ.get("VERIF_SEED", "0"))
        t0 = time.time()
        p = sh(os.path.join(V, "check"), pid, "--tier", tier, env=env, cwd=V)
        m = re.search(r"VIOLATION property=(\S+) replay=(\S+)(.*)", p.stdout)
        what = re.search(r"\[check\] \S+: (phi-fails-on-implementation|correspondence-broken): (.*)", p.stdout)
        out[pid] = {"exit": p.returncode, "caught": p.returncode == 1 and m is not None,
                    "kind": what.group(1) if what else None, "clause": what.group(2) if what else None,
                    "no_failing_input_found": bool(m and "no-failing-input-found" in m.group(3)),
                    "wall_s": round(time.time() - t0, 1), "tail": p.stdout[-300:] if p.returncode not in (0, 1) else ""}
    sh("git", "-C", WT, "checkout", "--", ".")
    entry = {"property": meta["property"], "tier": tier, "checks": out,
             "caught": any(v["caught"] for v in out.values())}
    print(name, json.dumps(entry["checks"])[:400], flush=True)
    import fcntl
    with open(res_path + ".lock", "w") as lock:      # several instances may run side by side
        fcntl.flock(lock, fcntl.LOCK_EX)
        results = json.load(open(res_path)) if os.path.exists(res_path) else {}
        results[name] = entry
        json.dump(results, open(res_path, "w"), indent=1)
print("caught", sum(1 for v in results.values() if v.get("caught")), "of", len(results))
