/-
  Driver ops for C04 / C12 / C19: replay `collectRollout` of the on-policy model on a finite
  MDP with a tabular actor-critic policy, oracle answers (sampled action, transition noise,
  reset state) taken from the implementation's own rollout.
-/
import LeraxModel.Proto
import LeraxModel.OnPolicy
import LeraxModel.Utils
import Driver.Tabular
namespace Lerax.Driver
open Lerax.Proto Lerax.Env Lerax.OnPolicy

structure TabPolicy where
  discrete : Bool
  logits : List (List Float)
  loc : List Float
  logStd : List Float
  values : List (List Float)

def parseTabPolicy (v : V) : R TabPolicy := do
  pure { discrete := ← (← v.get "discrete").asB, logits := ← (← v.get "logits").asFss,
         loc := ← (← v.get "loc").asFs, logStd := ← (← v.get "log_std").asFs,
         values := ← (← v.get "values").asFss }

def negInf : Float := -(1.0 / 0.0)

def logSoftmaxAt (logits : List Float) (mask : Option (List Bool)) (a : Nat) : Float :=
  let l := match mask with
    | none => logits
    | some m => List.zipWith (fun (x : Float) (b : Bool) => if b then x else negInf) logits m
  let mx := l.foldl (fun acc x => if acc < x then x else acc) negInf
  let lse := mx + Float.log ((l.map (fun x => Float.exp (x - mx))).foldl (· + ·) 0.0)
  l.getD a negInf - lse

def TabPolicy.stateOf (obs : List Float) : Nat := (obs.getD 0 0.0).toUInt64.toNat

def TabPolicy.valueAt (p : TabPolicy) (ps : Nat) (obs : List Float) : Float :=
  let row := p.values.getD (TabPolicy.stateOf obs) []
  row.getD (ps % (if row.length == 0 then 1 else row.length)) 0.0

def TabPolicy.logProb (p : TabPolicy) (obs : List Float) (a : Float) (mask : Option (List Bool)) : Float :=
  let s := TabPolicy.stateOf obs
  if p.discrete then logSoftmaxAt (p.logits.getD s []) mask a.toUInt64.toNat
  else
    let mu := p.loc.getD s 0.0
    let ls := p.logStd.getD s 0.0
    let z := (a - mu) / Float.exp ls
    0.0 - 0.5 * z * z - ls - 0.5 * Float.log (2.0 * 3.141592653589793)

/-- the tabular policy as an instance of the model's `Policy`; the sampled action is an oracle -/
def TabPolicy.model (p : TabPolicy) : Policy Nat (List Float) Float (List Bool) Float Orc where
  actionAndValue ps obs k mask := (ps + 1, k.action, p.valueAt ps obs, p.logProb obs k.action mask)
  evaluate ps obs a mask := (p.valueAt ps obs, p.logProb obs a mask)
  value ps obs := p.valueAt ps obs
  reset _ := 0

def parseOrcs (v : V) : R (List Orc) := do
  (← v.asL).mapM (fun o => do
    pure { init := ← (← o.get "init").asN, noise := ← (← o.get "noise").asN,
           action := ← (← o.get "action").asF })

def encRow (r : Row Nat (List Float) Float (List Bool) Float) : V :=
  .o [("obs", V.fs r.observation), ("action", .f r.action), ("reward", .f r.reward),
      ("done", .b r.done), ("log_prob", .f r.logProb), ("value", .f r.value),
      ("policy_state", V.n r.policyState),
      ("mask", match r.mask with | none => .null | some m => V.bs m)]

/-- op `onpolicy_rollout` -/
def onPolicyRolloutOp (a : V) : R V := do
  let p := buildPacked (← parseEnv a)
  let pol ← parseTabPolicy (← a.get "policy")
  let gamma ← (← a.get "gamma").asF
  let clip : Float → Float ← match a.get? "clip" with
    | some (.o kv) => do
        let lo ← (← (V.o kv).get "lo").asF
        let hi ← (← (V.o kv).get "hi").asF
        pure (clipF lo hi)
    | _ => pure id
  let (b, cs) ← parseState (← a.get "state")
  let some s := p.dec b cs | throw "state does not fit the wrapper stack"
  let count ← (← a.get "policy_state").asN
  let orcs ← parseOrcs (← a.get "steps")
  let (fin, rows) := collectRollout p.env (fun s _ => p.mask s) clip pol.model gamma
    { env := s, policy := count } orcs
  let (b', cs') := p.enc fin.env
  -- bootstrap value for GAE: value of the post-rollout observation under the carried policy state
  let lastObs := p.env.observation fin.env { init := 0, noise := 0 }
  pure (.o [("rows", .l (rows.map encRow)), ("final_state", encState b' cs'),
            ("final_policy_state", V.n fin.policy),
            ("last_value", .f (pol.valueAt fin.policy lastObs))])

/-- op `filter_cond`: leaves are floats (array leaves) or strings (static leaves) -/
def parseLeaves (v : V) : R (List (Lerax.Utils.Leaf Float String)) := do
  (← v.asL).mapM (fun l => match l with
    | .s x => pure (Lerax.Utils.Leaf.static x)
    | x => do pure (Lerax.Utils.Leaf.arr (← x.asF)))

def filterCondOp (a : V) : R V := do
  let pred ← (← a.get "pred").asB
  let t ← parseLeaves (← a.get "true")
  let f ← parseLeaves (← a.get "false")
  match Lerax.Utils.filterCond pred t f with
  | .error _ => pure (.s "ValueError")
  | .ok r => pure (.l (r.map (fun l => match l with | .arr x => V.f x | .static s => V.s s)))

def onPolicyOps : List (String × (V → R V)) :=
  [("onpolicy_rollout", onPolicyRolloutOp), ("filter_cond", filterCondOp)]

end Lerax.Driver
