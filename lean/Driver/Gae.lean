import LeraxModel.Proto
import LeraxModel.Gae
namespace Lerax.Driver
open Lerax.Proto

/-- op `gae`: run the model; if `impl` is present also decide Φ on the implementation output -/
def gaeOp (a : V) : R V := do
  let gamma ← (← a.get "gamma").asF
  let lam ← (← a.get "lam").asF
  let rewards ← (← a.get "rewards").asFs
  let values ← (← a.get "values").asFs
  let dones ← (← a.get "dones").asBs
  let last ← (← a.get "last").asF
  let out := Lerax.Gae.gae gamma lam rewards values dones last
  let base := [("adv", V.fs out.advantages), ("ret", V.fs out.returns)]
  match a.get? "impl" with
  | none => pure (.o base)
  | some impl => do
      let tol ← (← a.get "tol").asTol
      let adv ← (← impl.get "adv").asFs
      let ret ← (← impl.get "ret").asFs
      let ok := Lerax.Gae.phi tol.close gamma lam rewards values dones last adv ret
      pure (.o (base ++ [("phi", .b ok)]))

def gaeOps : List (String × (V → R V)) := [("gae", gaeOp)]

end Lerax.Driver
