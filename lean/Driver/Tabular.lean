/-
  Finite MDPs (the harness's `TabularEnv`) as instances of the `Env` model, wrapper stacks over
  them, and the driver ops that replay `Env.step` / `Env.reset` on them.
-/
import LeraxModel.Proto
import LeraxModel.Env
namespace Lerax.Driver
open Lerax.Proto Lerax.Env

/-- oracle answers standing for PRNG draws: the drawn initial state id and transition noise -/
structure Orc where
  init : Nat
  noise : Nat
  action : Float := 0.0      -- the action the policy sampled (on-/off-policy collection)
  u : Float := 1.0           -- epsilon-greedy uniform draw (unused by the environment)

instance : Keys Orc := ⟨fun k _ => k⟩

structure TabState where
  s : Nat
  clock : Nat
  noise : Nat
  deriving BEq, Repr

structure Tab where
  T : List (List (List Nat))       -- [s][a][noise] -> s'
  Rw : List (List (List Float))    -- [s][a][s'] -> reward
  term : List Bool
  trunc : List Bool
  inits : List Nat
  box : Bool
  bounds : List Float              -- bucket boundaries of a Box action (ascending)
  coef : Float                     -- Box: reward += coef * action
  masks : Option (List (List Bool)) := none   -- [s][a] action masks offered by the environment

def Tab.bucket (t : Tab) (a : Float) : Nat :=
  if t.box then (t.bounds.filter (fun b => b ≤ a)).length else a.toUInt64.toNat

def Tab.mask (t : Tab) (st : TabState) : Option (List Bool) :=
  t.masks.map (fun m => m.getD st.s [])

def Tab.env (t : Tab) : Env TabState Float (List Float) Float Orc where
  initial k := { s := k.init, clock := 0, noise := 0 }
  transition st a k :=
    let s' := (((t.T.getD st.s []).getD (t.bucket a) []).getD k.noise 0)
    { s := s', clock := st.clock + 1, noise := k.noise }
  observation st _ := [Float.ofNat st.s, Float.ofNat st.clock]
  reward st a st' _ :=
    let r := (((t.Rw.getD st.s []).getD (t.bucket a) []).getD st'.s 0.0)
    if t.box then r + t.coef * a else r
  terminal st _ := t.term.getD st.s false
  truncate st := t.trunc.getD st.s false

def clipF (lo hi x : Float) : Float := if x < lo then lo else if hi < x then hi else x

/-- existentially packed wrapped environment with encoders for its state -/
structure Packed where
  S : Type
  env : Env S Float (List Float) Float Orc
  enc : S → TabState × List Nat
  dec : TabState → List Nat → Option S
  mask : S → Option (List Bool) := fun _ => none

def Packed.base (t : Tab) : Packed where
  S := TabState
  env := t.env
  enc s := (s, [])
  dec s cs := if cs.isEmpty then some s else none
  mask s := t.mask s

def Packed.timeLimit (n : Nat) (p : Packed) : Packed where
  S := p.S × Nat
  env := Lerax.Env.timeLimit n p.env
  enc s := let (b, cs) := p.enc s.1; (b, s.2 :: cs)
  dec b cs := match cs with
    | c :: cs' => (p.dec b cs').map (fun s => (s, c))
    | [] => none
  mask s := p.mask s.1

def Packed.mapAction (f : Float → Float) (p : Packed) : Packed :=
  { p with env := Lerax.Env.mapAction f p.env }
def Packed.mapObs (g : List Float → List Float) (p : Packed) : Packed :=
  { p with env := Lerax.Env.mapObs g p.env }
def Packed.mapReward (h : Float → Float) (p : Packed) : Packed :=
  { p with env := Lerax.Env.mapReward h p.env }

def zipF (f : Float → Float → Float → Float) : List Float → List Float → List Float → List Float
  | a :: as, b :: bs, c :: cs => f a b c :: zipF f as bs cs
  | _, _, _ => []

/-- wrapper descriptors (parsed), innermost first -/
inductive W where
  | identity
  | timeLimit (n : Nat)
  | clipAction (lo hi : Float)
  | affineAction (g i : Float)     -- backward map of rescale_box: (x - intercept) / gradient
  | scaleAction (c : Float)
  | clipObs (lo hi : List Float)
  | affineObs (g i : List Float)   -- forward map of rescale_box: gradient * x + intercept
  | flattenObs
  | scaleObs (c : Float)
  | clipReward (lo hi : Float)
  | affineReward (a b : Float)

def parseW (w : V) : R W := do
  let kind ← (← w.get "w").asS
  match kind with
  | "identity" => pure .identity
  | "timeLimit" => do pure (.timeLimit (← (← w.get "n").asN))
  | "clipAction" => do pure (.clipAction (← (← w.get "lo").asF) (← (← w.get "hi").asF))
  | "affineAction" => do pure (.affineAction (← (← w.get "gradient").asF) (← (← w.get "intercept").asF))
  | "scaleAction" => do pure (.scaleAction (← (← w.get "c").asF))
  | "clipObs" => do pure (.clipObs (← (← w.get "lo").asFs) (← (← w.get "hi").asFs))
  | "affineObs" => do pure (.affineObs (← (← w.get "gradient").asFs) (← (← w.get "intercept").asFs))
  | "flattenObs" => pure .flattenObs
  | "scaleObs" => do pure (.scaleObs (← (← w.get "c").asF))
  | "clipReward" => do pure (.clipReward (← (← w.get "lo").asF) (← (← w.get "hi").asF))
  | "affineReward" => do pure (.affineReward (← (← w.get "a").asF) (← (← w.get "b").asF))
  | _ => throw s!"unknown wrapper {kind}"

def applyWrapper (p : Packed) : W → Packed
  | .identity => p
  | .timeLimit n => p.timeLimit n
  | .clipAction lo hi => p.mapAction (clipF lo hi)
  | .affineAction g i => p.mapAction (fun x => (x - i) / g)
  | .scaleAction c => p.mapAction (· * c)
  | .clipObs lo hi => p.mapObs (fun o => zipF clipF lo hi o)
  | .affineObs g i => p.mapObs (fun o => zipF (fun g i x => g * x + i) g i o)
  | .flattenObs => p.mapObs id
  | .scaleObs c => p.mapObs (fun o => o.map (· * c))
  | .clipReward lo hi => p.mapReward (clipF lo hi)
  | .affineReward a b => p.mapReward (fun x => a * x + b)

def parseTab (v : V) : R Tab := do
  let T ← (← v.get "T").asL
  let T' ← T.mapM (fun row => do (← row.asL).mapM V.asNs)
  let Rw ← (← v.get "Rw").asL
  let Rw' ← Rw.mapM (fun row => do (← row.asL).mapM V.asFs)
  pure { T := T', Rw := Rw', term := ← (← v.get "term").asBs, trunc := ← (← v.get "trunc").asBs,
         inits := ← (← v.get "inits").asNs, box := ← (← v.get "box").asB,
         bounds := ← (← v.get "bounds").asFs, coef := ← (← v.get "coef").asF,
         masks := ← (match v.get? "masks" with
           | some (.l rows) => do pure (some (← rows.mapM V.asBs))
           | _ => pure none) }

def parseEnv (a : V) : R (Tab × List W) := do
  let t ← parseTab (← a.get "tab")
  let ws ← (← (← a.get "stack").asL).mapM parseW
  pure (t, ws)

def buildPacked (tw : Tab × List W) : Packed := tw.2.foldl applyWrapper (Packed.base tw.1)

def parseState (v : V) : R (TabState × List Nat) := do
  pure ({ s := ← (← v.get "s").asN, clock := ← (← v.get "clock").asN, noise := ← (← v.get "noise").asN },
        ← (← v.get "counters").asNs)

def encState (b : TabState) (cs : List Nat) : V :=
  .o [("s", V.n b.s), ("clock", V.n b.clock), ("noise", V.n b.noise), ("counters", V.ns cs)]

/-- op `tab_step`: replay `Env.step` of the wrapped tabular environment -/
def tabStepOp (a : V) : R V := do
  let p := buildPacked (← parseEnv a)
  let (b, cs) ← parseState (← a.get "state")
  let some s := p.dec b cs | throw "state does not fit the wrapper stack"
  let action ← (← a.get "action").asF
  let orc : Orc := { init := ← (← a.get "init").asN, noise := ← (← a.get "noise").asN }
  let out := p.env.step s action orc
  let (b', cs') := p.enc out.state
  pure (.o [("state", encState b' cs'), ("obs", V.fs out.observation), ("reward", .f out.reward),
            ("terminal", .b out.terminal), ("truncate", .b out.truncate)])

/-- op `tab_reset` -/
def tabResetOp (a : V) : R V := do
  let p := buildPacked (← parseEnv a)
  let orc : Orc := { init := ← (← a.get "init").asN, noise := 0 }
  let (s, o) := p.env.reset orc
  let (b', cs') := p.enc s
  pure (.o [("state", encState b' cs'), ("obs", V.fs o)])

/-- op `tab_components`: the functional components of the wrapped environment at a state -/
def tabComponentsOp (a : V) : R V := do
  let p := buildPacked (← parseEnv a)
  let (b, cs) ← parseState (← a.get "state")
  let some s := p.dec b cs | throw "state does not fit the wrapper stack"
  let action ← (← a.get "action").asF
  let orc : Orc := { init := 0, noise := ← (← a.get "noise").asN }
  let next := p.env.transition s action orc
  let (b', cs') := p.enc next
  pure (.o [("next", encState b' cs'), ("obs", V.fs (p.env.observation s orc)),
            ("next_obs", V.fs (p.env.observation next orc)),
            ("reward", .f (p.env.reward s action next orc)),
            ("terminal", .b (p.env.terminal next orc)), ("truncate", .b (p.env.truncate next)),
            ("truncate_here", .b (p.env.truncate s)), ("terminal_here", .b (p.env.terminal s orc))])

/-- op `step_ok`: decide Φ (C01) on a recorded implementation step -/
def stepOkOp (a : V) : R V := do
  let tol ← (← a.get "tol").asTol
  let rec_ : StepRecord Float := {
    reward := ← (← a.get "reward").asF, terminal := ← (← a.get "terminal").asB,
    truncate := ← (← a.get "truncate").asB,
    stateIsSuccessor := ← (← a.get "state_is_successor").asB,
    stateIsFreshInitial := ← (← a.get "state_is_fresh_initial").asB,
    obsOfReturnedState := ← (← a.get "obs_of_returned_state").asB,
    outReward := ← (← a.get "out_reward").asF, outTerminal := ← (← a.get "out_terminal").asB,
    outTruncate := ← (← a.get "out_truncate").asB }
  pure (phiResult (stepOK tol.close rec_))

def tabularOps : List (String × (V → R V)) := [("tab_step", tabStepOp), ("tab_reset", tabResetOp), ("tab_components", tabComponentsOp), ("step_ok", stepOkOp)]

end Lerax.Driver
