/-
  Driver ops for C18 (LeraxModel/Serial.lean).

  `serial_specs`    constructor arguments of a policy class → the model's leaf skeleton
  `serial_paths`    path strings → pathlib split, `savePath`, `loadPath` (no I/O)
  `serial_session`  a sequence of `serialize` / `deserialize` calls replayed on the model file
                    system, starting from an empty work directory; per call the model outcome,
                    the comparison with what the implementation did, and Φ decided on the
                    implementation's outcome.

  Wire formats: a leaf is `{"k": "arr"|"bool"|"int"|"float", "shape": [..], "dtype": "float32",
  "data": [bytes…]}` (`shape`/`dtype` ignored for Python scalars); a skeleton leaf is the same
  without `data`.
-/
import LeraxModel.Proto
import LeraxModel.Serial
namespace Lerax.Driver
open Lerax.Proto Lerax.Serial

def pyOfKind (k : String) : Option PyT :=
  if k == "bool" then some .pbool else if k == "int" then some .pint
  else if k == "float" then some .pfloat else none

def kindOfPy : PyT → String
  | .pbool => "bool" | .pint => "int" | .pfloat => "float"

def parseSpec (v : V) : R Spec := do
  let k ← (← v.get "k").asS
  match pyOfKind k with
  | some t => pure (.py t)
  | none =>
      if k == "arr" then
        pure (.arr (← (← v.get "shape").asNs) (DType.ofString (← (← v.get "dtype").asS)))
      else throw s!"bad leaf kind {k}"

def parseLeaf (v : V) : R (Leaf Nat) := do
  let data ← (← v.get "data").asNs
  match ← parseSpec v with
  | .arr s d => pure (.arr s d data)
  | .py t => pure (.py t data)

def specToV : Spec → V
  | .arr s d => .o [("k", .s "arr"), ("shape", V.ns s), ("dtype", .s d.toString)]
  | .py t => .o [("k", .s (kindOfPy t))]

def leafToV : Leaf Nat → V
  | .arr s d x => .o [("k", .s "arr"), ("shape", V.ns s), ("dtype", .s d.toString), ("data", V.ns x)]
  | .py t x => .o [("k", .s (kindOfPy t)), ("data", V.ns x)]

def parseAtom (v : V) : R Atom := do
  let k ← (← v.get "k").asS
  if k == "box" then pure (.box (← (← v.get "shape").asNs))
  else if k == "discrete" then pure (.discrete (← (← v.get "n").asN))
  else if k == "multidiscrete" then pure (.multiDiscrete (← (← v.get "nvec").asNs))
  else if k == "multibinary" then pure (.multiBinary (← (← v.get "shape").asNs))
  else throw s!"bad space kind {k}"

/-- op `serial_specs` -/
def serialSpecsOp (a : V) : R V := do
  let cls ← (← a.get "cls").asS
  let ft := DType.ofString (← (← a.get "float").asS)
  let act ← parseAtom (← a.get "act")
  let obs ← (← (← a.get "obs").asL).mapM parseAtom
  let n (k : String) : R Nat := do (← a.get k).asN
  let sk ←
    if cls == "ac" then
      pure (acSpecs ft act obs (← n "feature_size") (← n "feature_width") (← n "feature_depth")
        (← n "value_width") (← n "value_depth") (← n "action_width") (← n "action_depth"))
    else if cls == "q" then
      match act, pyOfKind (← (← a.get "eps").asS) with
      | .discrete k, some t => pure (qSpecs ft k obs t (← n "width_size") (← n "depth"))
      | _, _ => throw "q: needs a discrete action space and an epsilon kind"
    else if cls == "sac" then
      match act with
      | .box s => pure (sacSpecs ft s obs (← n "feature_size") (← n "width_size") (← n "depth"))
      | _ => throw "sac: needs a box action space"
    else throw s!"bad class {cls}"
  pure (.l (sk.map specToV))

def str (n : List Char) : String := String.ofList n

/-- absolute rendering of a (directory, name) key -/
def keyStr (k : Key) : String := str ('/' :: joinWith '/' (k.1 ++ [k.2]))

def pathStr (p : Path) : String :=
  str ((if p.abs then ['/'] else []) ++ joinWith '/' (p.dirs ++ [p.name]))

/-- op `serial_paths`: `{"paths": [...]}` -/
def serialPathsOp (a : V) : R V := do
  let ps ← (← (← a.get "paths").asL).mapM V.asS
  pure (.l (ps.map fun s =>
    let p := parsePath s.toList
    .o [("parsed", .s (pathStr p)), ("stem", .s (str p.stem)), ("suffix", .s (str p.suffix)),
        ("save", .s (pathStr (savePath p false))), ("save_no_suffix", .s (pathStr (savePath p true))),
        ("load", .s (pathStr (loadPath p))), ("roundtrip", .b (roundtripSuffix p)),
        ("agree", .b (loadPath p == savePath p false)),
        ("agree_no_suffix", .b (loadPath p == savePath p true))]))

/-- converted Python-scalar values are not modelled: marked by empty data -/
def convMark : DType → PyT → List Nat → List Nat := fun _ _ _ => []

def sameLeaf : Leaf Nat → Leaf Nat → Bool
  | .arr s d x, .arr s' d' x' => s == s' && d == d' && x == x'
  | .py t x, .py t' x' => t == t' && (x.isEmpty || x == x')
  | _, _ => false

def sameTree : Tree Nat → Tree Nat → Bool
  | [], [] => true
  | l :: ls, l' :: ls' => sameLeaf l l' && sameTree ls ls'
  | _, _ => false

def nth {α : Type} (xs : List α) (i : Nat) (what : String) : R α :=
  match xs[i]? with
  | some x => pure x
  | none => throw s!"{what} index {i} out of range"

/-- op `serial_session` -/
def serialSessionOp (a : V) : R V := do
  let cwd := (parsePath (← (← a.get "cwd").asS).toList)
  let trees ← (← (← a.get "trees").asL).mapM (fun t => do (← t.asL).mapM parseLeaf)
  let skels ← (← (← a.get "skeletons").asL).mapM (fun t => do (← t.asL).mapM parseSpec)
  let ops ← (← a.get "ops").asL
  let mut fs : FS (Stream Nat) := FS.empty (cwd.dirs ++ [cwd.name])
  let mut outs : List V := []
  for o in ops do
    let kind ← (← o.get "op").asS
    let p := parsePath (← (← o.get "path").asS).toList
    if kind == "save" then
      let ns ← (← o.get "no_suffix").asB
      let t ← nth trees (← (← o.get "tree").asN) "tree"
      let file := fs.key (savePath p ns)
      let base := [("suffix", V.s (str p.suffix)), ("roundtrip_suffix", .b (roundtripSuffix p)),
                   ("load_file", .s (keyStr (fs.key (loadPath p))))]
      let phi ← match o.get? "impl_file" with
        | some v => do
            let w := parsePath (← v.asS).toList
            pure [("phi_path", V.b (phiPath fs p (w.dirs, w.name)))]
        | none => pure []
      match fs.save p ns t with
      | .ok fs' =>
          fs := fs'
          outs := outs ++ [.o ([("kind", .s "saved"), ("file", .s (keyStr file))] ++ base ++ phi)]
      | .error e =>
          outs := outs ++ [.o ([("kind", .s "failed"), ("err", .s e.toString)] ++ base ++ phi)]
    else if kind == "load" then
      let sk ← nth skels (← (← o.get "skel").asN) "skeleton"
      let res := fs.load convMark p sk
      let mut fields : List (String × V) := match res with
        | .ok _ => [("kind", .s "loaded")]
        | .error e => [("kind", .s "failed"), ("err", .s e.toString)]
      -- comparison with the implementation's result
      let implTree ← match o.get? "impl_leaves" with
        | some v => do pure (some (← (← v.asL).mapM parseLeaf))
        | none => pure none
      match res, implTree with
      | .ok t, some t' => fields := fields ++ [("same", .b (sameTree t t'))]
      | _, _ => pure ()
      -- Φ on the implementation's outcome
      match o.get? "saved" with
      | some v =>
          let saved ← nth trees (← v.asN) "tree"
          let implRes : Except Err (Tree Nat) := match implTree with
            | some t' => .ok t'
            | none => .error .notFound
          fields := fields ++
            [("differ", .b (skeletonOf saved != sk)), ("no_coercion", .b (noCoercion sk saved)),
             ("phi_roundtrip", .b (phiRoundtrip saved implRes)),
             ("phi_mismatch", .b (phiMismatch sk saved (isOk implRes)))]
      | none => pure ()
      outs := outs ++ [.o fields]
    else throw s!"bad op {kind}"
  pure (.o [("outcomes", .l outs), ("listing", .l (fs.listing.map (fun k => .s (keyStr k))))])

def serialOps : List (String × (V → R V)) :=
  [("serial_specs", serialSpecsOp), ("serial_paths", serialPathsOp),
   ("serial_session", serialSessionOp)]

end Lerax.Driver
