import LeraxModel.Proto
import LeraxModel.Replay
namespace Lerax.Driver
open Lerax.Proto Lerax.Replay

instance : NatCast Float := ⟨Float.ofNat⟩

def optN (v : V) : R (Option Nat) :=
  match v with
  | .null => pure none
  | x => do pure (some (← x.asN))

def encOptN : Option Nat → V
  | none => .null
  | some n => V.n n

/-- op `replay_model`: insert rows tagged `0 … n-1` into an empty buffer of capacity `cap` -/
def replayModelOp (a : V) : R V := do
  let cap ← (← a.get "cap").asN
  let n ← (← a.get "n").asN
  let b : Buf Nat := (List.range n).foldl add (empty cap)
  pure (.o [("slots", .l (b.slots.map encOptN)), ("pos", V.n b.pos),
            ("current_size", V.n (currentSize b)), ("mask", V.bs (validMask b)),
            ("contents", V.ns (contents b)),
            ("probs", V.fs (probs (validMask b) : List Float))])

/-- op `replay_phi`: decide Φ on the implementation's slot tags (per env) and sampled batches -/
def replayPhiOp (a : V) : R V := do
  let cap ← (← a.get "cap").asN
  let ns ← (← a.get "ns").asNs
  let slotTags ← (← (← a.get "slot_tags").asL).mapM (fun row => do (← row.asL).mapM optN)
  let samples ← (← a.get "samples").asNss     -- flat indices of sampled rows
  let bs : List (Buf Nat) := ns.map (fun n => (List.range n).foldl add (empty cap))
  let contentsOk := (ns.zip slotTags).all (fun (n, tags) => phiContents cap n tags)
  let fm := flatMask bs
  let sampleOk := samples.all (fun idx => phiSample fm idx)
  pure (phiResult [("contents_are_last_min_n_C", contentsOk),
                   ("sample_only_stored_no_duplicates", sampleOk)])

/-- op `replay_model32`: the int32-counter model started at position `p0` (the state after `p0`
    insertions, older rows not tracked), then `k` rows tagged `0 … k-1` -/
def replayModel32Op (a : V) : R V := do
  let cap ← (← a.get "cap").asN
  let p0 ← (← a.get "p0").asN
  let k ← (← a.get "k").asN
  let b0 : Buf32 Nat := { cap := cap, pos := BitVec.ofNat 32 p0, slots := List.replicate cap none }
  let b := (List.range k).foldl add32 b0
  pure (.o [("slots", .l (b.slots.map encOptN)), ("pos", .i b.pos.toInt),
            ("current_size", .i (currentSize32 b)), ("mask", V.bs (validMask32 b))])

def replayOps : List (String × (V → R V)) :=
  [("replay_model", replayModelOp), ("replay_phi", replayPhiOp),
   ("replay_model32", replayModel32Op)]

end Lerax.Driver
