import LeraxModel.Proto
import LeraxModel.Batching
namespace Lerax.Driver
open Lerax.Proto Lerax.Batching

/-- op `batch_indices`: model index rows for a given permutation oracle -/
def batchIndicesOp (a : V) : R V := do
  let perm ← (← a.get "perm").asNs
  let B ← (← a.get "B").asN
  pure (.l ((batchIndices perm B).map V.ns))

/-- op `partition_phi`: decide Φ on an implementation index matrix -/
def partitionPhiOp (a : V) : R V := do
  let N ← (← a.get "N").asN
  let B ← (← a.get "B").asN
  let rows ← (← a.get "rows").asNss
  pure (phiResult [("partition", phiPartition N B rows)])

/-- op `flatten_model`: flat tag order for default axes and for axes (1,0) -/
def flattenModelOp (a : V) : R V := do
  let E ← (← a.get "E").asN
  let T ← (← a.get "T").asN
  let tags : List (List Nat) := (List.range E).map (fun e => (List.range T).map (fun t => e * T + t))
  pure (.o [("default", V.ns (flatten2 tags)), ("transposed", V.ns (flatten2T T tags)),
            ("phi_default", .b (phiFlatten E T (flatten2 tags)))])

def flattenPhiOp (a : V) : R V := do
  let E ← (← a.get "E").asN
  let T ← (← a.get "T").asN
  let tags ← (← a.get "tags").asNs
  pure (phiResult [("flatten_bijective", phiFlatten E T tags)])

def resolveAxesOp (a : V) : R V := do
  let ndim ← (← a.get "ndim").asN
  let axes : Option (List Int) ← match (← a.get "axes") with
    | .null => pure none
    | x => do pure (some (← x.asIs))
  match resolveAxes ndim axes with
  | none => pure .null
  | some l => pure (V.ns l)

def visitsPhiOp (a : V) : R V := do
  let N ← (← a.get "N").asN
  let B ← (← a.get "B").asN
  let epochs ← (← a.get "epochs").asN
  let counts ← (← a.get "counts").asNs
  pure (phiResult [("visits_at_most_num_epochs", counts.all (· ≤ epochs) && counts.length == N),
                   ("total_visits", counts.foldl (· + ·) 0 == epochs * ((N / B) * B))])

def batchingOps : List (String × (V → R V)) :=
  [("batch_indices", batchIndicesOp), ("partition_phi", partitionPhiOp),
   ("flatten_model", flattenModelOp), ("flatten_phi", flattenPhiOp),
   ("resolve_axes", resolveAxesOp), ("visits_phi", visitsPhiOp)]

end Lerax.Driver
