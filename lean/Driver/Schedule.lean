import LeraxModel.Proto
import LeraxModel.Schedule
namespace Lerax.Driver
open Lerax.Proto Lerax.Schedule

def scheduleOps : List (String × (V → R V)) :=
  [("dqn_targets_phi", fun a => do
      let I ← (← a.get "interval").asN
      pure (phiResult [("dqn_target_is_online_at_last_multiple",
        phiDqnTargets I (← (← a.get "online_ids").asNs) (← (← a.get "target_ids").asNs))])),
   ("gating_phi", fun a => do
      let pf ← (← a.get "policy_frequency").asN
      pure (phiResult [("changes_only_on_policy_frequency_iterations",
        phiGating pf (← (← a.get "enabled").asB) (← (← a.get "changed").asBs))])),
   ("polyak", fun a => do
      let tau ← (← a.get "tau").asF
      let c ← (← a.get "critic").asFs
      let t ← (← a.get "target").asFs
      pure (V.fs (List.zipWith (fun c t => tau * c + (1 - tau) * t) c t))),
   ("dqn_run_targets", fun a => do
      -- model run with the observed online parameters as training-oracle answers
      let I ← (← a.get "interval").asN
      let online ← (← a.get "online_ids").asNs
      let n := online.length - 1
      let train : DqnState Nat → Nat := fun s => online.getD (s.iter + 1) 0
      pure (V.ns ((List.range (n + 1)).map (fun k => (dqnRun I train (online.getD 0 0) k).target)))),
   ("num_iterations", fun a => do
      pure (V.n (numIterations (← (← a.get "total").asN) (← (← a.get "E").asN) (← (← a.get "T").asN))))]

end Lerax.Driver
