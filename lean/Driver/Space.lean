/-
  Driver ops for C14 (spaces).  Wire format:

    space   {"k":"box","shape":[..],"low":F,"high":F} | {"k":"discrete","n":n} | {"k":"mb","shape":[..]}
            | {"k":"md","nvec":[..]} | {"k":"dict","items":[[key,space],..]} | {"k":"tuple","items":[space,..]}
    value   {"k":"arr","shape":[..],"data":F} | {"k":"tuple"|"list","items":[value,..]}
            | {"k":"odict"|"pdict","items":[[key,value],..]} | {"k":"foreign"}
    answer  {"k":"scalar","b":bool} | {"k":"array","shape":[..]} | {"k":"raised","exc":name}
    draw    {"k":"box","u":F,"e":F,"z":F} | {"k":"index","i":n} | {"k":"bits","b":[..]}
            | {"k":"indices","i":[..]} | {"k":"node","items":[draw,..]}
-/
import LeraxModel.Proto
import LeraxModel.Space
import Driver.Replay
namespace Lerax.Driver
open Lerax.Proto Lerax.Space


def floatIsInt (x : Float) : Bool := x.floor == x

def numOfFloat (x : Float) : Num Float :=
  if x.isNaN then .nan
  else if x.isInf then (if x > 0 then .pinf else .ninf)
  else if x.toBits == 0x8000000000000000 then .nzero
  else .fin x

def numToFloat : Num Float → Float
  | .fin x => x
  | .nzero => Float.ofBits 0x8000000000000000
  | .pinf => Float.ofBits 0x7FF0000000000000
  | .ninf => Float.ofBits 0xFFF0000000000000
  | .nan => Float.ofBits 0x7FF8000000000000

def asNums (v : V) : R (List (Num Float)) := do pure ((← v.asFs).map numOfFloat)
def numsV (xs : List (Num Float)) : V := V.fs (xs.map numToFloat)

def asPair (v : V) : R (String × V) := do
  match v with
  | .l [k, x] => pure (← k.asS, x)
  | _ => throw "expected [key, value]"

partial def parseSpace (v : V) : R (Space Float) := do
  let k ← (← v.get "k").asS
  match k with
  | "box" => pure (.box (← (← v.get "shape").asNs) (← asNums (← v.get "low")) (← asNums (← v.get "high")))
  | "discrete" => pure (.discrete (← (← v.get "n").asN))
  | "mb" => pure (.multiBinary (← (← v.get "shape").asNs))
  | "md" => pure (.multiDiscrete (← (← v.get "nvec").asNs))
  | "dict" => do
      let items ← (← (← v.get "items").asL).mapM asPair
      let fs ← items.mapM (fun (key, x) => do pure (key, ← parseSpace x))
      pure (.dict fs)
  | "tuple" => do
      let ss ← (← (← v.get "items").asL).mapM parseSpace
      pure (.tuple ss)
  | _ => throw s!"unknown space kind {k}"

partial def spaceV : Space Float → V
  | .box sh lo hi => .o [("k", .s "box"), ("shape", V.ns sh), ("low", numsV lo), ("high", numsV hi)]
  | .discrete n => .o [("k", .s "discrete"), ("n", V.n n)]
  | .multiBinary sh => .o [("k", .s "mb"), ("shape", V.ns sh)]
  | .multiDiscrete nv => .o [("k", .s "md"), ("nvec", V.ns nv)]
  | .dict fs => .o [("k", .s "dict"), ("items", .l (fs.map (fun (key, s) => .l [.s key, spaceV s])))]
  | .tuple ss => .o [("k", .s "tuple"), ("items", .l (ss.map spaceV))]

partial def gspaceV : GSpace Float → V
  | .box sh lo hi => .o [("k", .s "box"), ("shape", V.ns sh), ("low", numsV lo), ("high", numsV hi)]
  | .discrete n st => .o [("k", .s "discrete"), ("n", V.n n), ("start", .i st)]
  | .multiBinaryInt n => .o [("k", .s "mb_int"), ("n", V.n n)]
  | .multiBinaryTup sh => .o [("k", .s "mb_tuple"), ("shape", V.ns sh)]
  | .multiDiscrete nv => .o [("k", .s "md"), ("nvec", V.ns nv)]
  | .dict fs => .o [("k", .s "dict"), ("items", .l (fs.map (fun (key, s) => .l [.s key, gspaceV s])))]
  | .tuple ss => .o [("k", .s "tuple"), ("items", .l (ss.map gspaceV))]

partial def parseVal (v : V) : R (Val Float) := do
  let k ← (← v.get "k").asS
  match k with
  | "arr" => pure (.arr (← (← v.get "shape").asNs) (← asNums (← v.get "data")))
  | "tuple" => do pure (.tuple (← (← (← v.get "items").asL).mapM parseVal))
  | "list" => do pure (.list (← (← (← v.get "items").asL).mapM parseVal))
  | "odict" => do
      let items ← (← (← v.get "items").asL).mapM asPair
      pure (.odict (← items.mapM (fun (key, x) => do pure (key, ← parseVal x))))
  | "pdict" => do
      let items ← (← (← v.get "items").asL).mapM asPair
      pure (.pdict (← items.mapM (fun (key, x) => do pure (key, ← parseVal x))))
  | "foreign" => pure .foreign
  | _ => throw s!"unknown value kind {k}"

partial def valV : Val Float → V
  | .arr sh d => .o [("k", .s "arr"), ("shape", V.ns sh), ("data", numsV d)]
  | .tuple xs => .o [("k", .s "tuple"), ("items", .l (xs.map valV))]
  | .list xs => .o [("k", .s "list"), ("items", .l (xs.map valV))]
  | .odict kvs => .o [("k", .s "odict"), ("items", .l (kvs.map (fun (key, x) => .l [.s key, valV x])))]
  | .pdict kvs => .o [("k", .s "pdict"), ("items", .l (kvs.map (fun (key, x) => .l [.s key, valV x])))]
  | .foreign => .o [("k", .s "foreign")]

def parseAnswer (v : V) : R CResult := do
  let k ← (← v.get "k").asS
  match k with
  | "scalar" => pure (.scalar (← (← v.get "b").asB))
  | "array" => pure (.array (← (← v.get "shape").asNs))
  | "raised" => pure (.raised (← (← v.get "exc").asS))
  | _ => throw s!"unknown answer kind {k}"

partial def parseDraw (v : V) : R (Draw Float) := do
  let k ← (← v.get "k").asS
  match k with
  | "box" => pure (.box (← (← v.get "u").asFs) (← (← v.get "e").asFs) (← (← v.get "z").asFs))
  | "index" => pure (.index (← (← v.get "i").asN))
  | "bits" => pure (.bits (← (← v.get "b").asBs))
  | "indices" => pure (.indices (← (← v.get "i").asNs))
  | "node" => do pure (.node (← (← (← v.get "items").asL).mapM parseDraw))
  | _ => throw s!"unknown draw kind {k}"

def parseMask (v : Option V) : R (Option (List Bool)) :=
  match v with
  | none => pure none
  | some .null => pure none
  | some m => do pure (some (← m.asBs))

/-- op `space_contains`: model answers for a batch of values; with `impl`, Φ on each answer -/
def spaceContainsOp (a : V) : R V := do
  let s ← parseSpace (← a.get "space")
  let vals ← (← (← a.get "values").asL).mapM parseVal
  let ans := vals.map (contains floatIsInt s)
  let base := [("contains", V.bs ans), ("wf", .b (wellFormed s))]
  match a.get? "impl" with
  | none => pure (.o base)
  | some impl => do
      let rs ← (← impl.asL).mapM parseAnswer
      let phis := (vals.zip rs).map (fun (v, r) => phiContains floatIsInt s v r)
      pure (.o (base ++ [("phi", V.bs phis)]))

/-- op `space_info`: well-formedness, `flat_size`, `canonical()`; with `impl_canonical`, Φ -/
def spaceInfoOp (a : V) : R V := do
  let s ← parseSpace (← a.get "space")
  let base := [("wf", .b (wellFormed s)), ("flat_size", V.n (flatSize s)),
               ("canonical", valV (canonical s))]
  match a.get? "impl_canonical" with
  | none => pure (.o base)
  | some c => do
      let v ← parseVal c
      pure (.o (base ++ [("phi", .b (phiMember floatIsInt s none v))]))

/-- op `space_sample`: the model's sample for the observed draws; Φ on the implementation's sample -/
def spaceSampleOp (a : V) : R V := do
  let s ← parseSpace (← a.get "space")
  let mask ← parseMask (a.get? "mask")
  let d ← parseDraw (← a.get "draw")
  let v ← parseVal (← a.get "impl")
  pure (.o [("sample", valV (sample s d)), ("phi", .b (phiMember floatIsInt s mask v)),
            ("member", .b (contains floatIsInt s v)), ("mask_ok", .b (maskAllows mask v))])

/-- op `space_flatten`: model flat vector, decoder applied to the implementation's vector -/
def spaceFlattenOp (a : V) : R V := do
  let s ← parseSpace (← a.get "space")
  let v ← parseVal (← a.get "value")
  let flat ← asNums (← a.get "impl")
  pure (.o [("flat", numsV (flatten s v)), ("flat_size", V.n (flatSize s)),
            ("decoded", valV (unflatten s flat)), ("normal", valV (normalize s v)),
            ("phi", .b (phiFlatten s v flat))])

def numSame : Num Float → Num Float → Bool
  | .fin x, .fin y => x == y
  | .nzero, .nzero => true
  | .pinf, .pinf => true
  | .ninf, .ninf => true
  | .nan, .nan => true
  | _, _ => false

def numsSame : List (Num Float) → List (Num Float) → Bool
  | [], [] => true
  | x :: xs, y :: ys => numSame x y && numsSame xs ys
  | _, _ => false

mutual
partial def hkeySame : HKey Float → HKey Float → Bool
  | .nat n, .nat m => n == m
  | .nats a, .nats b => a == b
  | .box sh lo hi, .box sh' lo' hi' => sh == sh' && numsSame lo lo' && numsSame hi hi'
  | .node ks, .node ks' => hkeysSame ks ks'
  | .fields kvs, .fields kvs' =>
      (kvs.map (·.1)) == (kvs'.map (·.1)) && hkeysSame (kvs.map (·.2)) (kvs'.map (·.2))
  | _, _ => false
partial def hkeysSame : List (HKey Float) → List (HKey Float) → Bool
  | [], [] => true
  | x :: xs, y :: ys => hkeySame x y && hkeysSame xs ys
  | _, _ => false
end

/-- op `space_eq`: all pairs of a list of spaces: model `==`, model "same hash key", and Φ on
    the implementation's `==` / hash-equality matrices -/
def spaceEqOp (a : V) : R V := do
  let ss ← (← (← a.get "spaces").asL).mapM parseSpace
  let implEq ← (← a.get "impl_eq").asBss
  let implHash ← (← a.get "impl_hash_eq").asBss
  let keys := ss.map hashKey
  let beqM := ss.map (fun s => ss.map (fun t => beq s t))
  let hashM := keys.map (fun x => keys.map (fun y => hkeySame x y))
  let phiM := (ss.zip (implEq.zip implHash)).map (fun (s, (er, hr)) =>
    (ss.zip (er.zip hr)).map (fun (t, (e, h)) => phiEq s t e h))
  pure (.o [("beq", .l (beqM.map V.bs)), ("hash_eq", .l (hashM.map V.bs)), ("phi", .l (phiM.map V.bs)),
            ("wf", V.bs (ss.map wellFormed))])

/-- op `space_gym`: the Gymnasium space, the space converted back, the key-sorted original -/
def spaceGymOp (a : V) : R V := do
  let s ← parseSpace (← a.get "space")
  let g := toGym s
  let back := ofGym g
  let base := [("gym", gspaceV g), ("sorted", spaceV (sortKeys s)),
               ("back", match back with | some b => spaceV b | none => .null)]
  match a.get? "impl_back" with
  | none => pure (.o base)
  | some ib => do
      let b ← parseSpace ib
      pure (.o (base ++ [("phi", .b (phiGym s b))]))

def spaceOps : List (String × (V → R V)) :=
  [("space_contains", spaceContainsOp), ("space_info", spaceInfoOp), ("space_sample", spaceSampleOp),
   ("space_flatten", spaceFlattenOp), ("space_eq", spaceEqOp), ("space_gym", spaceGymOp)]

end Lerax.Driver
