import LeraxModel.Proto
import LeraxModel.Td
import Driver.Replay
namespace Lerax.Driver
open Lerax.Proto Lerax.Td

def parseDqnSample (v : V) : R (DqnSample Float × Nat) := do
  pure ({ q := ← (← v.get "q").asFs, action := ← (← v.get "action").asN,
          reward := ← (← v.get "reward").asF, done := ← (← v.get "done").asB,
          timeout := ← (← v.get "timeout").asB, onlineNext := ← (← v.get "online_next").asFs,
          targetNext := ← (← v.get "target_next").asFs }, ← (← v.get "s").asN)

/-- op `dqn_loss`: loss, targets and the semi-gradient w.r.t. the online Q table -/
def dqnLossOp (a : V) : R V := do
  let gamma ← (← a.get "gamma").asF
  let nS ← (← a.get "n_states").asN
  let nA ← (← a.get "n_actions").asN
  let batch ← (← (← a.get "batch").asL).mapM parseDqnSample
  let samples := batch.map (·.1)
  let B := Float.ofNat batch.length
  let grad : List (List Float) := (List.range nS).map (fun s => (List.range nA).map (fun act =>
    (batch.foldl (fun acc (smp, st) =>
      if st == s && smp.action == act then acc + (smp.q.getD act 0.0 - dqnTarget gamma smp) else acc) 0.0) / B))
  pure (.o [("loss", .f (dqnLoss gamma samples)), ("targets", V.fs (samples.map (dqnTarget gamma))),
            ("greedy_next", V.ns (samples.map (fun s => argmax s.onlineNext))),
            ("grad", .l (grad.map V.fs))])

def parseSacSample (v : V) : R (SacSample Float) := do
  pure { q1 := ← (← v.get "q1").asF, q2 := ← (← v.get "q2").asF, reward := ← (← v.get "reward").asF,
         done := ← (← v.get "done").asB, timeout := ← (← v.get "timeout").asB,
         q1TargetNext := ← (← v.get "q1t").asF, q2TargetNext := ← (← v.get "q2t").asF,
         logpNext := ← (← v.get "logp").asF }

/-- op `sac_q`: SAC targets and critic loss -/
def sacQOp (a : V) : R V := do
  let gamma ← (← a.get "gamma").asF
  let alpha ← (← a.get "alpha").asF
  let samples ← (← (← a.get "samples").asL).mapM parseSacSample
  let ys := samples.map (sacTarget gamma alpha)
  pure (.o [("targets", V.fs ys),
            ("q_loss", .f (qLoss (samples.map (·.q1)) (samples.map (·.q2)) ys))])

/-- op `sac_q_given`: critic loss for given targets -/
def sacQGivenOp (a : V) : R V := do
  pure (.f (qLoss (← (← a.get "q1").asFs) (← (← a.get "q2").asFs) (← (← a.get "y").asFs)))

def actorLossOp (a : V) : R V := do
  pure (.f (actorLoss (← (← a.get "alpha").asF) (← (← a.get "logp").asFs) (← (← a.get "q1").asFs)
    (← (← a.get "q2").asFs)))

def tdOps : List (String × (V → R V)) :=
  [("dqn_loss", dqnLossOp), ("sac_q", sacQOp), ("sac_q_given", sacQGivenOp), ("actor_loss", actorLossOp)]

end Lerax.Driver
