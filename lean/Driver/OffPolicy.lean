import LeraxModel.Proto
import LeraxModel.OffPolicy
import Driver.Tabular
namespace Lerax.Driver
open Lerax.Proto Lerax.Env Lerax.OffPolicy

/-- behaviour policy with the chosen action as oracle; the policy state counts calls -/
def oraclePolicy : Lerax.OffPolicy.Policy Nat (List Float) Float Orc where
  act ps _ k := (ps + 1, k.action)
  reset _ := 0

/-- op `offpolicy_step`: one step of the off-policy model on a wrapped finite MDP -/
def offPolicyStepOp (a : V) : R V := do
  let p := buildPacked (← parseEnv a)
  let clip : Float → Float ← match a.get? "clip" with
    | some (.o kv) => do
        let lo ← (← (V.o kv).get "lo").asF
        let hi ← (← (V.o kv).get "hi").asF
        pure (clipF lo hi)
    | _ => pure id
  let (b, cs) ← parseState (← a.get "state")
  let some s := p.dec b cs | throw "state does not fit the wrapper stack"
  let count ← (← a.get "policy_state").asN
  let orc : Orc := { init := ← (← a.get "init").asN, noise := ← (← a.get "noise").asN,
                     action := ← (← a.get "action").asF }
  let (env', pol', row) := stepRow p.env clip oraclePolicy s count orc
  let (b', cs') := p.enc env'
  pure (.o [("obs", V.fs row.observation), ("next_obs", V.fs row.nextObservation),
            ("action", .f row.action), ("reward", .f row.reward), ("done", .b row.done),
            ("timeout", .b row.timeout), ("policy_state", V.n row.policyState),
            ("next_policy_state", V.n row.nextPolicyState),
            ("state_after", encState b' cs'), ("policy_state_after", V.n pol')])

def offPolicyOps : List (String × (V → R V)) := [("offpolicy_step", offPolicyStepOp)]

end Lerax.Driver
