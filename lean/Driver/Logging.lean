import LeraxModel.Proto
import LeraxModel.Logging
import Driver.Tabular
import Driver.OnPolicy
import Driver.Replay
namespace Lerax.Driver
open Lerax.Proto Lerax.Env Lerax.Logging

def encLogState (s : LogState Float) : V :=
  .o [("step", V.n s.step), ("episode_return", .f s.episodeReturn), ("episode_length", V.n s.episodeLength),
      ("episode_done", .b s.episodeDone), ("average_return", .f s.averageReturn),
      ("average_length", .f s.averageLength)]

/-- op `log_run`: drive the model state with a history; optionally decide Φ on the
    implementation's final state (averages = EMA over completed episodes, step = length) -/
def logRunOp (a : V) : R V := do
  let alpha ← (← a.get "alpha").asF
  let rs ← (← a.get "rewards").asFs
  let ds ← (← a.get "dones").asBs
  let h := rs.zip ds
  let s := run alpha h
  let eps := episodes h
  let emaRet := ema alpha (eps.map Prod.fst)
  let emaLen := ema alpha (eps.map (fun e => Float.ofNat e.2))
  let base := [("state", encLogState s), ("episode_returns", V.fs (eps.map Prod.fst)),
               ("episode_lengths", V.ns (eps.map Prod.snd)), ("ema_return", .f emaRet), ("ema_length", .f emaLen)]
  match a.get? "impl" with
  | none => pure (.o base)
  | some impl => do
      let tol ← (← a.get "tol").asTol
      let ar ← (← impl.get "average_return").asF
      let al ← (← impl.get "average_length").asF
      let st ← (← impl.get "step").asN
      let phi := phiResult [("average_return_is_ema_of_episode_returns", tol.close ar emaRet),
                            ("average_length_is_ema_of_episode_lengths", tol.close al emaLen),
                            ("step_counts_environment_steps", st == h.length)]
      pure (.o (base ++ [("phi", phi)]))

/-- greedy tabular policy for the evaluation helper (key = none ⇒ mode) -/
def greedyPolicy (p : TabPolicy) : EvalPolicy Nat (List Float) Float Orc where
  act ps obs _ :=
    let s := TabPolicy.stateOf obs
    if p.discrete then
      let l := p.logits.getD s []
      let mx := l.foldl (fun acc x => if acc < x then x else acc) negInf
      (ps + 1, Float.ofNat ((l.findIdx? (· == mx)).getD 0))
    else (ps + 1, p.loc.getD s 0.0)
  reset _ := 0

/-- op `eval_episode`: model of rollout_scan / rollout_while for a deterministic policy on a
    wrapped finite MDP -/
def evalEpisodeOp (a : V) : R V := do
  let p := buildPacked (← parseEnv a)
  let pol ← parseTabPolicy (← a.get "policy")
  let init ← (← a.get "init").asN
  let orc : Orc := { init := init, noise := 0 }
  match (← a.get "max_steps") with
  | .null =>
      pure (.f (rolloutWhileFrom p.env (greedyPolicy pol) true 100000 (p.env.initial orc) 0 orc 0.0))
  | m => do
      let n ← m.asN
      pure (.f (rolloutScan p.env (greedyPolicy pol) true orc (List.replicate n orc)))

def loggingOps : List (String × (V → R V)) := [("log_run", logRunOp), ("eval_episode", evalEpisodeOp)]

end Lerax.Driver
