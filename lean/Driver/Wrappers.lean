/-
  Driver ops for C13: what a single wrapper layer declares (`wrap_expect`), `rescale_box`
  (`rescale`) and the TimeLimit truncation rule (`tl_expect`).
-/
import LeraxModel.Proto
import LeraxModel.Env
import LeraxModel.Rescale
import Driver.Tabular
namespace Lerax.Driver
open Lerax.Proto Lerax.Env

/-- probe environment: components return recorded inner values; with `echo` the reward
    component returns the action it was given (so the mapped action becomes observable) -/
def probeEnv (obs : List Float) (reward : Float) (trunc : Bool) (echo : Bool) :
    Env TabState Float (List Float) Float Orc where
  initial _ := { s := 0, clock := 0, noise := 0 }
  transition st _ _ := st
  observation _ _ := obs
  reward _ a _ _ := if echo then a else reward
  terminal _ _ := false
  truncate _ := trunc

def probePacked (obs : List Float) (reward : Float) (trunc : Bool) (echo : Bool) : Packed where
  S := TabState
  env := probeEnv obs reward trunc echo
  enc s := (s, [])
  dec s cs := if cs.isEmpty then some s else none

/-- op `wrap_expect`: given one wrapper layer and the inner environment's recorded signals,
    what the wrapped environment must report -/
def wrapExpectOp (a : V) : R V := do
  let w ← parseW (← a.get "w")
  let obs ← (← a.get "obs").asFs
  let reward ← (← a.get "reward").asF
  let trunc ← (← a.get "truncate").asB
  let action ← (← a.get "action").asF
  let counters ← (← a.get "counters").asNs
  let base : TabState := { s := 0, clock := 0, noise := 0 }
  let orc : Orc := { init := 0, noise := 0 }
  let pe := applyWrapper (probePacked obs reward trunc true) w
  let pr := applyWrapper (probePacked obs reward trunc false) w
  let some se := pe.dec base counters | throw "counters do not fit wrapper"
  let some sr := pr.dec base counters | throw "counters do not fit wrapper"
  let nxt := pr.env.transition sr action orc
  pure (.o [("action", .f (pe.env.reward se action se orc)),
            ("obs", V.fs (pr.env.observation sr orc)),
            ("reward", .f (pr.env.reward sr action sr orc)),
            ("truncate", .b (pr.env.truncate sr)),
            ("next_counters", V.ns (pr.enc nxt).2)])

def optF (v : V) : R (Option Float) :=
  match v with
  | .null => pure none
  | x => do pure (some (← x.asF))

/-- op `rescale`: `rescale_box` in one dimension -/
def rescaleOp (a : V) : R V := do
  let low ← (← a.get "low").asF
  let high ← (← a.get "high").asF
  let mn ← optF (← a.get "min")
  let mx ← optF (← a.get "max")
  let xs ← (← a.get "xs").asFs
  pure (.o [("gradient", .f (Lerax.Rescale.gradient low high mn mx)),
            ("intercept", .f (Lerax.Rescale.intercept low high mn mx)),
            ("forward", V.fs (xs.map (Lerax.Rescale.forward low high mn mx))),
            ("backward", V.fs (xs.map (Lerax.Rescale.backward low high mn mx)))])

/-- op `clip` -/
def clipOp (a : V) : R V := do
  let lo ← (← a.get "lo").asF
  let hi ← (← a.get "hi").asF
  let xs ← (← a.get "xs").asFs
  pure (V.fs (xs.map (Lerax.Rescale.clip lo hi)))

def wrappersOps : List (String × (V → R V)) := [("wrap_expect", wrapExpectOp), ("rescale", rescaleOp), ("clip", clipOp)]

end Lerax.Driver
