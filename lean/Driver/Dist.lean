/-
  Driver ops for C15 / C16: the distribution and policy models of `LeraxModel/Dist.lean` and
  `LeraxModel/Policy.lean` instantiated at `Float` (`Float.exp`, `Float.log`; the squashing
  sigmoid is distreqx's `_more_stable_sigmoid`), and Φ decided on the implementation's outputs.

  ops: `cat` `bern` `multicat` `gauss` `ac` `q`
-/
import LeraxModel.Proto
import LeraxModel.Dist
import LeraxModel.Policy
import Driver.OnPolicy
namespace Lerax.Driver
open Lerax.Proto Lerax.Dist Lerax.Policy


/-- wire float → extended number (`-inf` ↦ `none`) -/
def toExt (x : Float) : Option Float := if x.isInf && x < 0 then none else some x

def ofExt : Option Float → Float
  | none => negInf
  | some x => x

def fexp : Float → Float := Float.exp
def flog : Float → Float := Float.log

/-- distreqx `_more_stable_sigmoid` -/
def fsig (x : Float) : Float := if x < -9 then Float.exp x else 1 / (1 + Float.exp (-x))

def halfLog2Pi : Float := 0.5 * Float.log (2 * 3.141592653589793)

def vfss (xs : List (List Float)) : V := .l (xs.map V.fs)
def vexts (xs : List (Option Float)) : V := V.fs (xs.map ofExt)

def optField (a : V) (k : String) : Option V :=
  match a.get? k with
  | some .null => none
  | x => x

def asIss (v : V) : R (List (List Int)) := do (← v.asL).mapM V.asIs

def tolLe (t : Tol) (x y : Float) : Bool := x ≤ y || t.close x y

def pick {β : Type} (v : Bool) (x0 x1 : List β) (i : Nat) (d : β) : β :=
  if v then x1.getD i d else x0.getD i d

def clausesResult (cs : List (String × Bool)) : List (String × V) :=
  match cs.find? (fun c => !c.2) with
  | none => [("phi", .b true)]
  | some (name, _) => [("phi", .b false), ("clause", .s name)]

/-! ### categorical -/

def mkCat (form : String) (params : List Float) : R (Cat Float) :=
  if form == "logits" then pure (Cat.ofLogits fexp flog (params.map toExt))
  else if form == "probs" then pure (Cat.ofProbs params)
  else throw s!"unknown form {form}"

/-- difference between the largest and the second largest entry (∞ for a single entry) -/
def topGap (xs : List Float) : Float :=
  let m := xs.foldl (fun a x => if a < x then x else a) negInf
  let i := argmax (fun a b => decide (a < b)) xs
  let rest := (xs.zipIdx.filter (fun p => p.2 != i)).map (·.1)
  let m2 := rest.foldl (fun a x => if a < x then x else a) negInf
  m - m2

/-- op `cat`: the categorical law (optionally masked) tabulated over its support and at the
    given outside points; Φ on the implementation's tables, mode and samples -/
def catOp (a : V) : R V := do
  let form ← (← a.get "form").asS
  let params ← (← a.get "params").asFs
  let outs ← (← a.get "outs").asIs
  let base ← mkCat form params
  let mask ← match optField a "mask" with
    | none => pure none
    | some m => do pure (some (← m.asBs))
  let c := match mask with
    | none => base
    | some m => base.mask fexp flog m
  let n := c.n
  let sup := (List.range n).map (fun v => Int.ofNat v)
  let probs := sup.map (c.prob fexp)
  let logps := sup.map (c.logProb flog)
  let outP := outs.map (c.prob fexp)
  let outLp := outs.map (c.logProb flog)
  let ent := c.entropy fexp flog
  let mode := c.mode
  let baseProbs := (List.range base.n).map (fun v => base.prob fexp (Int.ofNat v))
  let model := [("n", V.n n), ("probs", V.fs probs), ("logps", vexts logps),
                ("out_probs", V.fs outP), ("out_logps", vexts outLp), ("entropy", .f ent),
                ("mode", V.n mode), ("gap", .f (topGap (logps.map ofExt))),
                ("base_probs", V.fs baseProbs)]
  match a.get? "impl" with
  | none => pure (.o model)
  | some impl => do
      let tol ← (← a.get "tol").asTol
      let iprobs ← (← impl.get "probs").asFs
      let ilogps := (← (← impl.get "logps").asFs).map toExt
      let ioutP ← (← impl.get "out_probs").asFs
      let ioutLp := (← (← impl.get "out_logps").asFs).map toExt
      let ient ← (← impl.get "entropy").asF
      let imode ← (← impl.get "mode").asI
      let isamples ← (← impl.get "samples").asIs
      let islps := (← (← impl.get "sample_logps").asFs).map toExt
      let table := phiTable fexp tol.close iprobs ilogps ioutP ioutLp ient
      let lenOk := iprobs.length == n && ilogps.length == n
      let chosen :=
        [("table_length", lenOk),
         ("mode_in_support", phiMode (tolLe tol) iprobs imode),
         ("sample_in_support", isamples.all (inSupport ilogps)),
         ("sample_and_logprob_consistent",
            allZip (fun (s : Int) lp => eeqv tol.close lp (ilogps.getD s.toNat none)) isamples islps)]
      let masked ← match mask with
        | none => pure []
        | some m => do
            let ibase ← (← impl.get "base_probs").asFs
            let ibaseLp := (← (← impl.get "base_logps").asFs).map toExt
            -- as probabilities only when the allowed mass is representable in the float type
            let z := (List.zipWith (fun (b : Bool) p => if b then p else 0) m ibase).sum
            pure [("masked_renormalised", phiMaskedLog fexp flog tol.close m ibaseLp ilogps
                      && (z < 1e-3 || phiMasked tol.close m ibase iprobs)),
                  ("masked_mode_allowed", allowed m imode),
                  ("masked_sample_allowed", isamples.all (allowed m))]
      pure (.o (model ++ clausesResult (table ++ chosen ++ masked)))

/-! ### Bernoulli (vector of bits) -/

def mkBern (form : String) (p : Float) : Bern Float :=
  if form == "logits" then .ofLogit (toExt p) else .ofProb p

def bernOp (a : V) : R V := do
  let form ← (← a.get "form").asS
  let params ← (← a.get "params").asFs
  let mask ← match optField a "mask" with
    | none => pure none
    | some m => do pure (some (← m.asBs))
  let base := params.map (mkBern form)
  let bs := match mask with
    | none => base
    | some m => maskBits flog base m
  let p1 := bs.map (Bern.p1 fexp)
  let p0 := bs.map (fun b => b.prob fexp false)
  let lp0 := bs.map (fun b => b.logProb fexp flog false)
  let lp1 := bs.map (fun b => b.logProb fexp flog true)
  let ent := bs.map (Bern.entropy fexp flog)
  let mode := bs.map (Bern.mode fexp)
  let model := [("p0", V.fs p0), ("p1", V.fs p1), ("logp0", vexts lp0), ("logp1", vexts lp1),
                ("entropy", V.fs ent), ("mode", V.bs mode), ("mean", V.fs p1)]
  match a.get? "impl" with
  | none => pure (.o model)
  | some impl => do
      let tol ← (← a.get "tol").asTol
      let ip0 ← (← impl.get "p0").asFs
      let ip1 ← (← impl.get "p1").asFs
      let ilp0 := (← (← impl.get "logp0").asFs).map toExt
      let ilp1 := (← (← impl.get "logp1").asFs).map toExt
      let ient ← (← impl.get "entropy").asFs
      let imode ← (← impl.get "mode").asBs
      let imean ← (← impl.get "mean").asFs
      let isamples ← (← impl.get "samples").asBss
      let islps ← (← impl.get "sample_logps").asL
      let islps ← islps.mapM (fun v => do pure ((← v.asFs).map toExt))
      let n := bs.length
      let idx := List.range n
      let clauses :=
        [("table_length", ip0.length == n && ip1.length == n && ilp0.length == n && ilp1.length == n
            && ient.length == n && imode.length == n),
         ("prob_eq_exp_logprob",
            allZip (fun p lp => tol.close p (eexp fexp lp)) ip0 ilp0 &&
            allZip (fun p lp => tol.close p (eexp fexp lp)) ip1 ilp1),
         ("mass_one", allZip (fun x y => tol.close (x + y) 1) ip0 ip1),
         ("entropy_eq_neg_expect_log",
            idx.all (fun i => tol.close (ient.getD i 0)
              (-(mnn (ilp0.getD i none) (ip0.getD i 0) + mnn (ilp1.getD i none) (ip1.getD i 0))))),
         ("mean_is_p1", allZip tol.close imean ip1),
         ("mode_most_probable",
            idx.all (fun i => tolLe tol (pick (!(imode.getD i false)) ip0 ip1 i 0)
                                     (pick (imode.getD i false) ip0 ip1 i 0))),
         ("sample_in_support",
            isamples.all (fun s => s.length == n &&
              idx.all (fun i => (pick (s.getD i false) ilp0 ilp1 i none).isSome))),
         ("sample_and_logprob_consistent",
            allZip (fun (s : List Bool) (lps : List (Option Float)) =>
              idx.all (fun i => eeqv tol.close (lps.getD i none) (pick (s.getD i false) ilp0 ilp1 i none)))
              isamples islps)]
      let masked := match mask with
        | none => []
        | some m =>
            [("masked_mode_allowed", allZip (fun (b : Bool) (a : Bool) => !b || a) imode m),
             ("masked_sample_allowed",
                isamples.all (fun s => allZip (fun (b : Bool) (a : Bool) => !b || a) s m)),
             ("masked_prob_zero",
                allZip (fun (a : Bool) p => a || tol.close p 0) m ip1)]
      pure (.o (model ++ clausesResult (clauses ++ masked)))

/-! ### multi-categorical -/

def mkMultiCat (form : String) (dims : List Nat) (flat : List Float) : R (MultiCat Float) :=
  if form == "logits" then pure (MultiCat.ofLogitsFlat fexp flog dims (flat.map toExt))
  else if form == "probs" then pure (MultiCat.ofProbsFlat dims flat)
  else throw s!"unknown form {form}"

def mkMultiCatSeq (form : String) (pieces : List (List Float)) : R (MultiCat Float) :=
  if form == "logits" then pure (MultiCat.ofLogitsSeq fexp flog (pieces.map (·.map toExt)))
  else if form == "probs" then pure (MultiCat.ofProbsSeq pieces)
  else throw s!"unknown form {form}"

/-- op `multicat`: model outputs for a product law built through the flat constructor (and
    through the sequence constructor when `seq` is true — they must agree); Φ on the
    implementation's outputs -/
def multicatOp (a : V) : R V := do
  let form ← (← a.get "form").asS
  let dims ← (← a.get "dims").asNs
  let flat ← (← a.get "params").asFs
  let values ← asIss (← a.get "values")
  let base ← mkMultiCat form dims flat
  let baseSeq ← mkMultiCatSeq form (splitBy dims flat)
  let mask ← match optField a "mask" with
    | none => pure none
    | some m => do pure (some (← m.asBs))
  let mc := match mask with
    | none => base
    | some m => base.maskFlat fexp flog m
  let mcSeq := match mask with
    | none => baseSeq
    | some m => baseSeq.maskSeq fexp flog (splitBy dims m)
  let logps := values.map (mc.logProb flog)
  let logpsSeq := values.map (mcSeq.logProb flog)
  let probs := values.map (mc.prob fexp flog)
  let ent := mc.entropy fexp flog
  let mode := MultiCat.mode mc
  let compLogps := mc.map (fun c => (List.range c.n).map (fun v => ofExt (c.logProb flog (Int.ofNat v))))
  let model := [("logps", vexts logps), ("logps_seq", vexts logpsSeq), ("probs", V.fs probs),
                ("entropy", .f ent), ("mode", V.ns mode), ("comp_logps", vfss compLogps),
                ("gaps", V.fs (compLogps.map topGap))]
  match a.get? "impl" with
  | none => pure (.o model)
  | some impl => do
      let tol ← (← a.get "tol").asTol
      let ilogps := (← (← impl.get "logps").asFs).map toExt
      let ilogpsSeq := (← (← impl.get "logps_seq").asFs).map toExt
      let iprobs ← (← impl.get "probs").asFs
      let ient ← (← impl.get "entropy").asF
      let ientSeq ← (← impl.get "entropy_seq").asF
      let imode ← (← impl.get "mode").asIs
      let isamples ← asIss (← impl.get "samples")
      let islps := (← (← impl.get "sample_logps").asFs).map toExt
      -- the components, evaluated by the implementation's own `Categorical` on each piece
      let icomp ← (← impl.get "comp_logps").asFss
      let icomp := icomp.map (·.map toExt)
      let icompEnt ← (← impl.get "comp_entropies").asFs
      let sumComp (vs : List Int) : Option Float :=
        esum (List.zipWith (fun (lp : List (Option Float)) (v : Int) =>
          if v < 0 ∨ (lp.length : Int) ≤ v then none else lp.getD v.toNat none) icomp vs)
      let inSup (vs : List Int) : Bool :=
        vs.length == icomp.length && allZip (fun lp v => inSupport lp v) icomp vs
      let total := (← impl.get "total_mass")
      let massClause ← match total with
        | .null => pure []
        | t => do pure [("mass_one", tol.close (← t.asF) 1)]
      let clauses :=
        [("prob_eq_exp_logprob", allZip (fun p lp => tol.close p (eexp fexp lp)) iprobs ilogps),
         ("logprob_sum_of_components", allZip (fun vs lp => eeqv tol.close lp (sumComp vs)) values ilogps),
         ("entropy_sum_of_components", tol.close ient icompEnt.sum),
         ("flat_eq_sequence", allZip (eeqv tol.close) ilogps ilogpsSeq && tol.close ient ientSeq),
         ("mode_in_support", inSup imode),
         ("mode_componentwise_max",
            allZip (fun (lp : List (Option Float)) (m : Int) =>
              lp.all (fun x => tolLe tol (ofExt x) (ofExt (lp.getD m.toNat none)))) icomp imode),
         ("sample_in_support", isamples.all inSup),
         ("sample_and_logprob_consistent",
            allZip (fun vs lp => eeqv tol.close lp (sumComp vs)) isamples islps)]
      let masked := match mask with
        | none => []
        | some m =>
            let ms := splitBy dims m
            [("masked_mode_allowed", allZip (fun (mi : List Bool) (v : Int) => allowed mi v) ms imode),
             ("masked_sample_allowed",
                isamples.all (fun s => allZip (fun (mi : List Bool) (v : Int) => allowed mi v) ms s))]
      pure (.o (model ++ clausesResult (clauses ++ massClause ++ masked)))

/-! ### normal / diagonal normal / squashed laws -/

/-- op `gauss`: `kind ∈ {normal, diag, sq, sqdiag}`; per-dimension parameters `loc scale lo hi`;
    `values` are points inside the support, `zs` the noise vectors read back from the
    implementation's samples.  `normal`/`sq` report per-dimension vectors, `diag`/`sqdiag` sums. -/
def gaussOp (a : V) : R V := do
  let kind ← (← a.get "kind").asS
  let loc ← (← a.get "loc").asFs
  let scale ← (← a.get "scale").asFs
  let values ← (← a.get "values").asFss
  let zs ← (← a.get "zs").asFss
  let c := halfLog2Pi
  let squashed := kind == "sq" || kind == "sqdiag"
  let (lo, hi) ← if squashed then do
      pure ((← (← a.get "lo").asFs), (← (← a.get "hi").asFs))
    else pure ([], [])
  let sqs : List (Dist.Squash Float) := List.zipWith (fun l h => ⟨l, h⟩) lo hi
  let dn : DiagNormal Float := ⟨loc, scale⟩
  let comps := dn.components
  let scomps : List (SquashedNormal Float) := List.zipWith (fun b q => ⟨b, q⟩) comps sqs
  let sd : SquashedDiag Float := ⟨dn, sqs⟩
  -- every result is a vector: per dimension, or a singleton for the summed kinds
  let logp (v : List Float) : List Float :=
    if kind == "normal" then List.zipWith (fun d x => d.logProb flog c x) comps v
    else if kind == "diag" then [dn.logProb flog c v]
    else if kind == "sq" then List.zipWith (fun d y => d.logProb fexp flog c y) scomps v
    else [sd.logProb fexp flog c v]
  let sampleLp (z : List Float) : List Float × List Float :=
    if kind == "normal" then
      let r := List.zipWith (fun d zi => d.sampleAndLogProb flog c zi) comps z
      (r.map (·.1), r.map (·.2))
    else if kind == "diag" then
      let r := dn.sampleAndLogProb flog c z
      (r.1, [r.2])
    else if kind == "sq" then
      let r := List.zipWith (fun d zi => d.sampleAndLogProb fexp flog fsig c zi) scomps z
      (r.map (·.1), r.map (·.2))
    else
      let r := sd.sampleAndLogProb fexp flog fsig c z
      (r.1, [r.2])
  let mode : List Float :=
    if squashed then sd.mode fsig else loc
  let entropy : List Float :=
    if kind == "normal" then comps.map (fun d => d.entropy flog c)
    else if kind == "diag" then [dn.entropy flog c]
    else []
  let logps := values.map logp
  let sl := zs.map sampleLp
  -- the components' log-densities, for the sum clauses
  let compLp (v : List Float) : Float :=
    if squashed then (List.zipWith (fun d y => d.logProb fexp flog c y) scomps v).sum
    else (List.zipWith (fun d x => d.logProb flog c x) comps v).sum
  let model := [("logps", vfss logps), ("probs", vfss (logps.map (·.map fexp))),
                ("samples", vfss (sl.map (·.1))), ("sample_logps", vfss (sl.map (·.2))),
                ("mode", V.fs mode), ("mean", V.fs loc), ("entropy", V.fs entropy),
                ("comp_sums", V.fs (values.map compLp))]
  match a.get? "impl" with
  | none => pure (.o model)
  | some impl => do
      let tol ← (← a.get "tol").asTol
      let ilogps ← (← impl.get "logps").asFss
      let iprobs ← (← impl.get "probs").asFss
      let isamples ← (← impl.get "samples").asFss
      let islps ← (← impl.get "sample_logps").asFss
      let ilpOfSamples ← (← impl.get "logp_of_samples").asFss
      let wellCond ← (← impl.get "well_conditioned").asBs
      let imode ← (← impl.get "mode").asFs
      let icompSums ← (← impl.get "comp_sums").asFs
      let inBounds (y : List Float) : Bool :=
        if squashed then allZip (fun (q : Dist.Squash Float) yi => q.lo ≤ yi && yi ≤ q.hi) sqs y else true
      let clauses :=
        [("prob_eq_exp_logprob",
            allZip (fun (ps : List Float) (lps : List Float) => allZip (fun p lp => tol.close p (fexp lp)) ps lps)
              iprobs ilogps),
         ("sample_in_bounds", isamples.all inBounds),
         ("mode_in_bounds", inBounds imode),
         ("sample_and_logprob_consistent",
            allZip (fun (w : Bool) (pr : List Float × List Float) => !w || Tol.closeL tol pr.1 pr.2)
              wellCond (islps.zip ilpOfSamples)),
         ("logprob_sum_of_components",
            if kind == "diag" || kind == "sqdiag" then
              allZip (fun (lps : List Float) s => Tol.closeL tol lps [s]) ilogps icompSums
            else true)]
      pure (.o (model ++ clausesResult clauses))

/-! ### policies -/

def mkLaw (kind : String) (dims : List Nat) (params : List Float) : R (Law Float) :=
  if kind == "cat" then pure (.cat (Cat.ofLogits fexp flog (params.map toExt)))
  else if kind == "multicat" then pure (.multicat (MultiCat.ofLogitsFlat fexp flog dims (params.map toExt)))
  else if kind == "bern" then pure (.bern (params.map (fun p => Bern.ofLogit (toExt p))))
  else throw s!"unknown law kind {kind}"

def actOfV (kind : String) (v : V) : R (Act Float) := do
  if kind == "cat" then pure (.idx (← v.asN))
  else if kind == "multicat" then pure (.idxs (← v.asNs))
  else if kind == "bern" then pure (.bits (← v.asBs))
  else throw s!"unknown law kind {kind}"

def actToV : Act Float → V
  | .idx n => V.n n
  | .idxs ns => V.ns ns
  | .bits bs => V.bs bs
  | .real x => .f x
  | .reals xs => V.fs xs

def actEq : Act Float → Act Float → Bool
  | .idx a, .idx b => a == b
  | .idxs a, .idxs b => a == b
  | .bits a, .bits b => a == b
  | _, _ => false

/-- are all integer entries of an implementation action non-negative (else it cannot even be
    read as an index) -/
def rawNonneg (v : V) : Bool :=
  match v with
  | .i x => decide (0 ≤ x)
  | .l xs => xs.all (fun y => match y with | .i x => decide (0 ≤ x) | .b _ => true | _ => false)
  | .b _ => true
  | _ => false

/-- op `ac`: actor-critic selection.  `params` are the head's logits for the features at hand,
    `mask` the flat action mask (or null); `impl.nokey` the action returned with `key=None`,
    `impl.keyed` the actions `__call__` returned under keys, `impl.lp_actions` / `impl.logps` the
    actions and log-probabilities returned by `action_and_value` under keys, `impl.eval_logps`
    what `evaluate_action` reports for those actions. -/
def acOp (a : V) : R V := do
  let kind ← (← a.get "kind").asS
  let dims ← (← a.get "dims").asNs
  let params ← (← a.get "params").asFs
  let head ← mkLaw kind dims params
  let mask ← match optField a "mask" with
    | none => pure none
    | some m => do pure (some (Mask.flat (← m.asBs)))
  let dist := actionLayer fexp flog head mask
  let mode := acCall fexp flog head mask none
  let model := [("mode", actToV mode)]
  match a.get? "impl" with
  | none => pure (.o model)
  | some impl => do
      let tol ← (← a.get "tol").asTol
      let strictMode ← (← a.get "strict_mode").asB
      let nokeyV ← impl.get "nokey"
      let keyedV ← (← impl.get "keyed").asL
      let lpActsV ← (← impl.get "lp_actions").asL
      let ilogps := (← (← impl.get "logps").asFs).map toExt
      let ievals := (← (← impl.get "eval_logps").asFs).map toExt
      let allNonneg := rawNonneg nokeyV && keyedV.all rawNonneg && lpActsV.all rawNonneg
      if !allNonneg then
        pure (.o (model ++ [("phi", .b false), ("clause", .s "action_is_valid_index")]))
      else do
        let nokey ← actOfV kind nokeyV
        let keyed ← keyedV.mapM (actOfV kind)
        let lpActs ← lpActsV.mapM (actOfV kind)
        let modelLps := lpActs.map (fun act => dist.logProb fexp flog halfLog2Pi act)
        let nokeyLp := dist.logProb fexp flog halfLog2Pi nokey
        let modeLp := dist.logProb fexp flog halfLog2Pi mode
        let okAllowed (act : Act Float) : Bool :=
          match mask with
          | none => true
          | some m => allowedAct dims m act
        let clauses :=
          [("no_key_is_mode",
              if strictMode then actEq nokey mode
              else eeqv tol.close nokeyLp modeLp),
           ("no_key_action_allowed", okAllowed nokey && nokeyLp.isSome),
           ("keyed_action_allowed",
              (keyed ++ lpActs).all (fun act => okAllowed act && (dist.logProb fexp flog halfLog2Pi act).isSome)),
           ("reported_logprob_is_logprob_of_action", allZip (eeqv tol.close) ilogps modelLps),
           ("evaluate_agrees", allZip (eeqv tol.close) ievals modelLps)]
        pure (.o (model ++ [("model_logps", vexts modelLps)] ++ clausesResult clauses))

/-- op `q`: ε-greedy Q policy.  `impl.nokey` the action for `key=None`, `impl.keyed` the actions
    under keys (with the policy's ε), `impl.keyed_eps0` the actions under keys with `ε = 0`. -/
def qOp (a : V) : R V := do
  let qv ← (← a.get "q").asFs
  let eps ← (← a.get "eps").asF
  let mask ← match optField a "mask" with
    | none => pure none
    | some m => do pure (some (← m.asBs))
  let d := qDist fexp flog qv mask
  let mode := qSelect fexp flog qv mask eps none
  let logps := (List.range d.n).map (fun v => d.logProb flog (Int.ofNat v))
  let model := [("mode", V.n mode), ("gap", .f (topGap (logps.map ofExt))),
                ("probs", V.fs ((List.range d.n).map (fun v => d.prob fexp (Int.ofNat v))))]
  match a.get? "impl" with
  | none => pure (.o model)
  | some impl => do
      let strictMode ← (← a.get "strict_mode").asB
      let tol ← (← a.get "tol").asTol
      let nokey ← (← impl.get "nokey").asI
      let keyed ← (← impl.get "keyed").asIs
      let keyedGreedy ← (← impl.get "keyed_greedy").asIs
      let ok (v : Int) : Bool :=
        inSupport logps v && (match mask with | none => true | some m => allowed m v)
      let isMode (v : Int) : Bool :=
        if strictMode then v == Int.ofNat mode
        else decide (0 ≤ v) && eeqv tol.close (logps.getD v.toNat none) (logps.getD mode none)
      let n := keyed.length
      let departures := (keyed.filter (fun v => !isMode v)).length
      -- `u ~ U[0,1)` trusted: #departures ~ Binomial(n, ≤ ε); allow 6 standard deviations
      let nf := n.toFloat
      let e := if eps < 0 then 0 else if eps > 1 then 1 else eps
      let bound := nf * e + 6 * Float.sqrt (nf * e * (1 - e)) + 0.5
      let clauses :=
        [("no_key_is_greedy", isMode nokey),
         ("no_key_action_allowed", ok nokey),
         ("keyed_action_allowed", keyed.all ok),
         ("eps_nonpos_is_greedy", keyedGreedy.all isMode),
         ("departs_with_prob_at_most_eps", if eps ≤ 0 then departures == 0 else departures.toFloat ≤ bound)]
      pure (.o (model ++ [("departures", V.n departures)] ++ clausesResult clauses))

def distOps : List (String × (V → R V)) :=
  [("cat", catOp), ("bern", bernOp), ("multicat", multicatOp), ("gauss", gaussOp),
   ("ac", acOp), ("q", qOp)]

end Lerax.Driver
