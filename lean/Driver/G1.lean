/-
  Driver ops for C20 (Unitree G1): the gait clock and foot-height helpers, `randomize_model`,
  `initial()` of the three tasks, phase histories.  The model runs at `Float` with
  `pi := 3.141592653589793` and `fmod a p := a − p·trunc(a/p)`; Φ is decided on the
  implementation's outputs with the tolerance relations below.
-/
import LeraxModel.Proto
import LeraxModel.G1
namespace Lerax.Driver
open Lerax.Proto Lerax.G1

def g1Pi : Float := 3.141592653589793

/-- C `fmod`: `a − p·trunc(a/p)` (sign of the dividend) -/
def g1Fmod (a p : Float) : Float :=
  let q := a / p
  let t := if q < 0 then Float.ceil q else Float.floor q
  a - p * t

/-- tolerant order: `x ≤ y` up to the tolerance -/
def g1Le (t : Tol) (x y : Float) : Bool := x ≤ y || t.close x y

/-- exact comparison (`-0.0 = 0.0`) -/
def g1Same (x y : Float) : Bool := x == y

def g1Pair (v : V) : R (Float × Float) := do
  match ← v.asFs with
  | [a, b] => pure (a, b)
  | _ => throw "expected a pair"

def g1Task (v : V) : R Task := do
  match ← v.asS with
  | "locomotion" => pure .locomotion
  | "standing" => pure .standing
  | "standup" => pure .standup
  | s => throw s!"unknown task {s}"

/-- number of whole cycles between `target` and `next` (witness for `phiAdvance`) -/
def g1Wraps (next target : Float) : Nat :=
  let k := Float.round ((target - next) / (2 * g1Pi))
  if k < 0 then 0 else k.toUInt64.toNat

/-- first failing entry of a list of named clauses -/
def g1First (cs : List (String × Bool)) : V := phiResult cs

/-- op `g1_advance` (batched over cases): one `advance_gait_phase` component per entry.
    in: phase[], f[], dt[], impl[] (implementation's next phase), tol
    out: next[] (model), range[], advance[] (Φ clauses on the implementation output) -/
def g1AdvanceOp (a : V) : R V := do
  let phase ← (← a.get "phase").asFs
  let f ← (← a.get "f").asFs
  let dt ← (← a.get "dt").asFs
  let impl ← (← a.get "impl").asFs
  let tol ← (← a.get "tol").asTol
  let rows := phase.zip (f.zip (dt.zip impl))
  let next := rows.map (fun (p, fr, d, _) => advance1 g1Pi g1Fmod p fr d)
  let range := rows.map (fun (_, _, _, n) => g1Le tol (0 - g1Pi) n && g1Le tol n g1Pi)
  let adv := rows.map (fun (p, fr, d, n) =>
    phiAdvance tol.close g1Pi p fr d n (g1Wraps n (p + 2 * g1Pi * fr * d)))
  pure (.o [("next", V.fs next), ("range", V.bs range), ("advance", V.bs adv)])

/-- op `g1_foot` (batched): `desired_foot_height` per entry.
    in: phase[], swing[], impl[], tol;  out: h[] (model), bounds[] (Φ on implementation) -/
def g1FootOp (a : V) : R V := do
  let phase ← (← a.get "phase").asFs
  let swing ← (← a.get "swing").asFs
  let impl ← (← a.get "impl").asFs
  let tol ← (← a.get "tol").asTol
  let rows := phase.zip (swing.zip impl)
  let h := rows.map (fun (p, s, _) => desired_foot_height1 g1Pi p s)
  let ok := rows.map (fun (_, s, x) => phiFootHeight (g1Le tol) s x)
  pure (.o [("h", V.fs h), ("bounds", V.bs ok)])

/-- index and name of the first failing step clause along a history -/
def g1HistoryScan (tol tolHalf : Tol) (f dt : Float) :
    Nat → List (Float × Float) → Option (Nat × String)
  | _, [] => none
  | i, [p] =>
      if !phiPhaseRange (g1Le tol) g1Pi p then some (i, "phase_in_range")
      else if !phiHalfCycle tolHalf.close g1Pi p then some (i, "phase_half_cycle")
      else none
  | i, p :: q :: rest =>
      if !phiPhaseRange (g1Le tol) g1Pi p then some (i, "phase_in_range")
      else if !phiHalfCycle tolHalf.close g1Pi p then some (i, "phase_half_cycle")
      else if !phiAdvance tol.close g1Pi p.1 f dt q.1 (g1Wraps q.1 (p.1 + 2 * g1Pi * f * dt))
        then some (i, "phase_advance")
      else if !phiAdvance tol.close g1Pi p.2 f dt q.2 (g1Wraps q.2 (p.2 + 2 * g1Pi * f * dt))
        then some (i, "phase_advance")
      else g1HistoryScan tol tolHalf f dt (i + 1) (q :: rest)

/-- op `g1_history`: a whole phase history of the implementation (n+1 visited phase pairs,
    constant `f`, `dt`).
    out: `left`/`right` = model's one-step successor of every implementation phase (n entries),
         `final` = model's own run of n steps from the first pair, `phi`/`clause`/`index`. -/
def g1HistoryOp (a : V) : R V := do
  let f ← (← a.get "f").asF
  let dt ← (← a.get "dt").asF
  let left ← (← a.get "left").asFs
  let right ← (← a.get "right").asFs
  let tol ← (← a.get "tol").asTol
  let tolHalf ← (← a.get "tol_half").asTol
  let ps := left.zip right
  let n := ps.length - 1
  let succs := (ps.take n).map (fun p => advance_gait_phase g1Pi g1Fmod p f dt)
  let start := ps.headD (initial_gait_phase g1Pi)
  let fin := run_phase g1Pi g1Fmod (List.replicate n (f, dt)) start
  let verdict := match g1HistoryScan tol tolHalf f dt 0 ps with
    | none => [("phi", V.b true)]
    | some (i, c) => [("phi", V.b false), ("clause", V.s c), ("index", V.n i)]
  pure (.o ([("left", V.fs (succs.map (·.1))), ("right", V.fs (succs.map (·.2))),
             ("final", V.fs [fin.1, fin.2]),
             ("initial", V.fs [(initial_gait_phase g1Pi).1, (initial_gait_phase g1Pi).2])]
            ++ verdict))

def g1Model (v : V) : R (Model Float String) := do
  pure { pair_friction := ← (← v.get "pair_friction").asFss,
         dof_frictionloss := ← (← v.get "dof_frictionloss").asFs,
         dof_armature := ← (← v.get "dof_armature").asFs,
         body_mass := ← (← v.get "body_mass").asFs,
         rest := ← (← v.get "rest").asS }

def g1ModelV (m : Model Float String) : V :=
  .o [("pair_friction", .l (m.pair_friction.map V.fs)),
      ("dof_frictionloss", V.fs m.dof_frictionloss),
      ("dof_armature", V.fs m.dof_armature),
      ("body_mass", V.fs m.body_mass), ("rest", .s m.rest)]

def g1Nominal (v : V) : R (Nominal Float) := do
  pure { friction_loss := ← (← v.get "friction_loss").asFs,
         armature := ← (← v.get "armature").asFs,
         body_mass := ← (← v.get "body_mass").asFs,
         torso_body_id := ← (← v.get "torso_body_id").asN,
         foot_pair_ids := ← (← v.get "foot_pair_ids").asNs }

def g1Draws (v : V) : R (Draws Float) := do
  pure { friction := ← (← v.get "friction").asF,
         floss_scales := ← (← v.get "floss_scales").asFs,
         armature_scales := ← (← v.get "armature_scales").asFs,
         mass_scales := ← (← v.get "mass_scales").asFs,
         torso_offset := ← (← v.get "torso_offset").asF }

def g1RandRanges (v : V) : R (RandRanges Float) := do
  pure { friction := ← g1Pair (← v.get "friction"), floss := ← g1Pair (← v.get "floss"),
         armature := ← g1Pair (← v.get "armature"), mass := ← g1Pair (← v.get "mass"),
         torso_offset := ← g1Pair (← v.get "torso_offset") }

def g1CmdRanges (v : V) : R (CmdRanges Float) := do
  pure { vx := ← g1Pair (← v.get "vx"), vy := ← g1Pair (← v.get "vy"),
         yaw := ← g1Pair (← v.get "yaw"), freq := ← g1Pair (← v.get "freq") }

def g1CmdDraws (v : V) : R (CmdDraws Float) := do
  pure { vx := ← (← v.get "vx").asF, vy := ← (← v.get "vy").asF, yaw := ← (← v.get "yaw").asF,
         zero := ← (← v.get "zero").asB, freq := ← (← v.get "freq").asF }

/-- which of the four `randomize_*` functions to apply (`all` = `randomize_model`) -/
def g1Apply (which : String) (base : Model Float String) (nom : Nominal Float) (d : Draws Float) :
    R (Model Float String) :=
  match which with
  | "all" => pure (randomize_model base nom d)
  | "friction" => pure (randomize_friction base nom.foot_pair_ids d.friction)
  | "friction_loss" => pure (randomize_friction_loss base nom.friction_loss d.floss_scales)
  | "armature" => pure (randomize_armature base nom.armature d.armature_scales)
  | "body_mass" =>
      pure (randomize_body_mass base nom.body_mass d.mass_scales nom.torso_body_id d.torso_offset)
  | s => throw s!"unknown randomiser {s}"

/-- Φ clauses relevant to one randomiser: its own field in range + framed, every other field and
    `rest` equal to the base model -/
def g1RandClauses (which : String) (tol : Tol) (rr : RandRanges Float) (nom : Nominal Float)
    (base out : Model Float String) : List (String × Bool) :=
  let all := phiRandomizeClauses g1Same (g1Le tol) (· == ·) rr nom base out
  let unchanged : List (String × Bool) :=
    [("friction", out.pair_friction == base.pair_friction),
     ("frictionloss", out.dof_frictionloss == base.dof_frictionloss),
     ("armature", out.dof_armature == base.dof_armature),
     ("body_mass", out.body_mass == base.body_mass)]
  let own := match which with
    | "friction" => "friction" | "friction_loss" => "frictionloss"
    | "armature" => "armature" | "body_mass" => "body_mass" | _ => ""
  if which == "all" then all
  else all.map (fun (n, ok) =>
    if n == own || n == "rest" then (n, ok)
    else (n ++ "_untouched", (unchanged.find? (·.1 == n)).map (·.2) |>.getD false))

/-- op `g1_randomize`: run one randomiser of the model on the base model with the read-back
    draws; decide Φ on the implementation's output model.
    in: which, base, nominal, ranges, draws, impl (output model), tol -/
def g1RandomizeOp (a : V) : R V := do
  let which ← (← a.get "which").asS
  let base ← g1Model (← a.get "base")
  let nom ← g1Nominal (← a.get "nominal")
  let rr ← g1RandRanges (← a.get "ranges")
  let d ← g1Draws (← a.get "draws")
  let impl ← g1Model (← a.get "impl")
  let tol ← (← a.get "tol").asTol
  let out ← g1Apply which base nom d
  let verdict := match g1First (g1RandClauses which tol rr nom base impl) with
    | .o kvs => kvs
    | _ => []
  pure (.o ([("model", g1ModelV out)] ++ verdict))

/-- z components of a flat list of xyz positions -/
def g1Zs : List Float → List Float
  | _ :: _ :: z :: rest => z :: g1Zs rest
  | _ => []

/-- lowest z of a flat list of xyz positions (`jnp.min`) -/
def g1Lowest (x : List Float) : Float :=
  match g1Zs x with
  | [] => 0
  | z :: zs => zs.foldl (fun m v => if v < m then v else m) z

def g1ShiftZ (q : List Float) (z : Float) : List Float := q.set 2 (q.getD 2 0 + z)

/-- op `g1_initial`: the start of an episode.
    in: task, cmd_ranges, cmd_draws (read back), impl {command, frequency, phase}, tol and,
        optionally, `kin` = {q0 (pre-snap joint configuration), x0_low (oracle: positions of the
        bodies and feet under q0), xF_low (same under the returned qpos), clearance,
        kin_impl (derived kinematics of the returned state), kin_fk (oracle: the same quantities
        recomputed by `mjx.forward` from the returned qpos), tol_kin}
    out: model's command / frequency / phase / qpos, Φ on the implementation's state. -/
def g1InitialOp (a : V) : R V := do
  let task ← g1Task (← a.get "task")
  let cr ← g1CmdRanges (← a.get "cmd_ranges")
  let cd ← g1CmdDraws (← a.get "cmd_draws")
  let impl ← a.get "impl"
  let tol ← (← a.get "tol").asTol
  let icmd ← (← impl.get "command").asFs
  let ifreq ← (← impl.get "frequency").asF
  let iphase ← g1Pair (← impl.get "phase")
  -- the randomised model itself is checked by `g1_randomize`; here it is opaque
  let base : Model Float String :=
    { pair_friction := [], dof_frictionloss := [], dof_armature := [], body_mass := [], rest := "" }
  let nom : Nominal Float :=
    { friction_loss := [], armature := [], body_mass := [], torso_body_id := 0, foot_pair_ids := [] }
  let d : Draws Float :=
    { friction := 0, floss_scales := [], armature_scales := [], mass_scales := [], torso_offset := 0 }
  let (q0, x0, xF, clearance, kinClause) ← match a.get? "kin" with
    | none => pure (([] : List Float), ([] : List Float), ([] : List Float), (0 : Float),
                    ([] : List (String × Bool)))
    | some k => do
        let q0 ← (← k.get "q0").asFs
        let x0 ← (← k.get "x0_low").asFs
        let xF ← (← k.get "xF_low").asFs
        let clearance ← (← k.get "clearance").asF
        let ki ← (← k.get "kin_impl").asFs
        let kf ← (← k.get "kin_fk").asFs
        let tolKin ← (← k.get "tol_kin").asTol
        pure (q0, x0, xF, clearance, [("initial_kin_coherent", tolKin.closeL ki kf)])
  let FK : Model Float String → List Float → List Float := fun _ q => if q == q0 then x0 else xF
  let s := initial task g1Pi FK g1Lowest g1ShiftZ clearance base nom d q0 cd
  let clauses : List (String × Bool) :=
    [("command_in_range", phiCommand g1Same (g1Le tol) task cr icmd),
     ("frequency_in_range", phiFrequency g1Same (g1Le tol) task cr ifreq)]
    ++ kinClause ++
    [("phase_in_range", phiPhaseRange (g1Le tol) g1Pi iphase),
     ("phase_half_cycle", phiHalfCycle tol.close g1Pi iphase)]
  let verdict := match g1First clauses with
    | .o kvs => kvs
    | _ => []
  pure (.o ([("command", V.fs s.command), ("frequency", .f s.gait_frequency),
             ("phase", V.fs [s.gait_phase.1, s.gait_phase.2]),
             ("qpos", V.fs s.sim.qpos), ("lowest", .f (g1Lowest s.sim.xpos))] ++ verdict))

def g1Ops : List (String × (V → R V)) :=
  [("g1_advance", g1AdvanceOp), ("g1_foot", g1FootOp), ("g1_history", g1HistoryOp),
   ("g1_randomize", g1RandomizeOp), ("g1_initial", g1InitialOp)]

end Lerax.Driver
