import LeraxModel.Proto
import LeraxModel.Loss
import Driver.Replay
namespace Lerax.Driver
open Lerax.Proto Lerax.Loss

def parseLossSample (v : V) : R (Sample Float) := do
  pure { logpNew := ← (← v.get "logp_new").asF, vNew := ← (← v.get "v_new").asF,
         entropy := ← (← v.get "entropy").asF, logpOld := ← (← v.get "logp_old").asF,
         vOld := ← (← v.get "v_old").asF, ret := ← (← v.get "ret").asF, adv := ← (← v.get "adv").asF }

def parseCfg (v : V) : R (Cfg Float) := do
  pure { normalize := ← (← v.get "normalize").asB, clipCoef := ← (← v.get "clip").asF,
         clipValue := ← (← v.get "clip_value").asB, valueCoef := ← (← v.get "value_coef").asF,
         entropyCoef := ← (← v.get "entropy_coef").asF, eps := ← (← v.get "eps").asF }

def ppoLossOp (a : V) : R V := do
  let cfg ← parseCfg (← a.get "cfg")
  let b ← (← (← a.get "samples").asL).mapM parseLossSample
  let o := ppoLoss Float.exp Float.sqrt cfg b
  let adv := advantages Float.sqrt cfg b
  let n := b.length
  let dlp := List.zipWith (fun (s : Sample Float) (A : Float) =>
    -- d/dlogp = d/dr * r
    dPolicy cfg.clipCoef A (Float.exp (s.logpNew - s.logpOld)) n) b adv
  let dv := b.map (fun s => dValue cfg s.vNew s.vOld s.ret n)
  pure (.o [("loss", .f o.loss), ("approx_kl", .f o.approxKl), ("policy_loss", .f o.policyLoss),
            ("value_loss", .f o.valueLoss), ("entropy_loss", .f o.entropyLoss),
            ("d_logp", V.fs dlp), ("d_value", V.fs dv),
            ("d_entropy", .f (-(cfg.entropyCoef) / Float.ofNat n)), ("advantages", V.fs adv)])

def acLossOp (reinforce : Bool) (a : V) : R V := do
  let cfg ← parseCfg (← a.get "cfg")
  let b ← (← (← a.get "samples").asL).mapM parseLossSample
  let o := if reinforce then reinforceLoss Float.sqrt cfg b else a2cLoss Float.sqrt cfg b
  pure (.o [("loss", .f o.loss), ("policy_loss", .f o.policyLoss), ("value_loss", .f o.valueLoss),
            ("entropy_loss", .f o.entropyLoss)])

def optStepOp (a : V) : R V := do
  let maxNorm ← (← a.get "max_norm").asF
  let lr ← (← a.get "lr").asF
  let eps ← (← a.get "eps").asF
  let g ← (← a.get "g").asFs
  let c := clipByGlobalNorm Float.sqrt maxNorm g
  pure (.o [("clipped", V.fs c), ("update", V.fs (adamFirstStep Float.sqrt lr eps c)),
            ("norm", .f (Float.sqrt (normSq g))), ("clipped_norm", .f (Float.sqrt (normSq c)))])

/-- op `opt_steps`: clip-by-global-norm then Adam over a sequence of gradients -/
def optStepsOp (a : V) : R V := do
  let maxNorm ← (← a.get "max_norm").asF
  let lr ← (← a.get "lr").asF
  let grads ← (← a.get "grads").asFss
  pure (.l ((clipThenAdam Float.sqrt maxNorm lr 1e-8 0.9 0.999 grads).map V.fs))

def lossOps : List (String × (V → R V)) :=
  [("ppo_loss", ppoLossOp), ("a2c_loss", acLossOp false), ("reinforce_loss", acLossOp true),
   ("opt_step", optStepOp), ("opt_steps", optStepsOp)]

end Lerax.Driver
