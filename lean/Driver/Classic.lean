/-
  Driver ops for C17 / C02 (classic control): run `LeraxModel/Classic.lean` (lerax) and
  `LeraxModel/GymRef.lean` (Gymnasium) at `Float` on one (parameters, state, action) case.

  ops: `c17_cartpole`, `c17_mountaincar`, `c17_cmc`, `c17_acrobot`, `c17_pendulum`, `c17_same`.
  Every env op answers `{"lerax": {...}, "gym": {...}}`; `c17_same` decides Φ ("two
  implementations asked the same question give the same answer") on implementation outputs.
-/
import LeraxModel.Proto
import LeraxModel.Classic
import LeraxModel.GymRef
namespace Lerax.Driver
open Lerax.Proto Lerax.Classic

namespace C17

local instance : NatCast Float := ⟨Float.ofNat⟩

/-- float `%` with the sign of the divisor (`jnp.remainder`, Python `%`) -/
def pmodF (a m : Float) : Float :=
  let r := a - m * Float.floor (a / m)
  if r < 0 then r + m else if m ≤ r then r - m else r

def fuel : Nat := 4096

def s2 (v : V) : R (S2 Float) := do
  match (← v.asFs) with
  | [x, y] => pure ⟨x, y⟩
  | _ => throw "expected 2 floats"

def s4 (v : V) : R (S4 Float) := do
  match (← v.asFs) with
  | [a, b, c, d] => pure ⟨a, b, c, d⟩
  | _ => throw "expected 4 floats"

def gf (v : V) (k : String) : R Float := do (← v.get k).asF

def ranges (xs : List (Float × Float)) : V := .l (xs.map (fun r => V.fs [r.1, r.2]))
def optHigh (xs : List (Option Float)) : V :=
  .l (xs.map (fun o => match o with | some x => V.f x | none => V.null))

def stepV {σ : Type} (enc : σ → V) (s : Lerax.GymRef.Step σ Float) : V :=
  .o [("state", enc s.state), ("reward", .f s.reward), ("terminated", .b s.terminated)]

def cartpoleOp (a : V) : R V := do
  let pv ← a.get "p"
  let p : CartPoleP Float := {
    gravity := ← gf pv "gravity", cartMass := ← gf pv "cart_mass", poleMass := ← gf pv "pole_mass",
    length := ← gf pv "length", forceMag := ← gf pv "force_mag",
    thetaThreshold := ← gf pv "theta_threshold", xThreshold := ← gf pv "x_threshold",
    dt := ← gf pv "dt" }
  let g : Lerax.GymRef.CartPoleG Float := {
    gravity := p.gravity, masscart := p.cartMass, masspole := p.poleMass, length := p.length,
    forceMag := p.forceMag, tau := p.dt, thetaThreshold := p.thetaThreshold,
    xThreshold := p.xThreshold }
  let y ← s4 (← a.get "y")
  let act ← (← a.get "action").asN
  let beyond : Option Nat := match a.get? "steps_beyond" with
    | some (.i n) => some n.toNat
    | _ => none
  let sin := Float.sin
  let cos := Float.cos
  let nextL := cartpoleEulerStep sin cos p y act
  let lerax := V.o [
    ("dynamics", V.fs (cartpoleDynamics sin cos p y act).toList),
    ("clip", V.fs (cartpoleClip y).toList),
    ("obs", V.fs (cartpoleObs y)),
    ("reward", .f (cartpoleReward y act nextL)),
    ("terminal", .b (cartpoleTerminal p y)),
    ("euler_step", V.fs nextL.toList),
    ("init_range", ranges cartpoleInitRange),
    ("obs_high", optHigh (cartpoleObsHigh p))]
  let gym := V.o [
    ("field", V.fs (Lerax.GymRef.cartpoleField sin cos g y act).toList),
    ("step", stepV (fun s => V.fs s.toList) (Lerax.GymRef.cartpoleStep sin cos g y act beyond)),
    ("terminated_here", .b (Lerax.GymRef.cartpoleTerminated g y)),
    ("reset_range", ranges Lerax.GymRef.cartpoleResetRange)]
  pure (.o [("lerax", lerax), ("gym", gym)])

def mountaincarOp (a : V) : R V := do
  let pv ← a.get "p"
  let p : MountainCarP Float := {
    minPosition := ← gf pv "min_position", maxPosition := ← gf pv "max_position",
    maxSpeed := ← gf pv "max_speed", goalPosition := ← gf pv "goal_position",
    goalVelocity := ← gf pv "goal_velocity", force := ← gf pv "force", gravity := ← gf pv "gravity",
    dt := ← gf pv "dt" }
  let g : Lerax.GymRef.MountainCarG Float := {
    minPosition := p.minPosition, maxPosition := p.maxPosition, maxSpeed := p.maxSpeed,
    goalPosition := p.goalPosition, goalVelocity := p.goalVelocity, force := p.force,
    gravity := p.gravity }
  let y ← s2 (← a.get "y")
  let act ← (← a.get "action").asN
  let cos := Float.cos
  let nextL := mcEulerStep cos p y act
  let lerax := V.o [
    ("dynamics", V.fs (mcDynamics cos p y act).toList),
    ("clip", V.fs (mcClip p y).toList),
    ("obs", V.fs (mcObs y)),
    ("reward", .f (mcReward y act nextL)),
    ("terminal", .b (mcTerminal p y)),
    ("euler_step", V.fs nextL.toList),
    ("init_range", ranges mcInitRange),
    ("obs_low", V.fs (mcObsLow p)), ("obs_high", V.fs (mcObsHigh p)),
    ("obs_in_space", .b (inBox (mcObsLow p) (mcObsHigh p) (mcObs (mcClip p y))))]
  let gym := V.o [
    ("field", V.fs (Lerax.GymRef.mcField cos g y act).toList),
    ("limits", V.fs (Lerax.GymRef.mcLimits g y).toList),
    ("step", stepV (fun s => V.fs s.toList) (Lerax.GymRef.mcStep cos g y act)),
    ("terminated_here", .b (Lerax.GymRef.mcTerminated g y)),
    ("reset_range", ranges Lerax.GymRef.mcResetRange)]
  pure (.o [("lerax", lerax), ("gym", gym)])

def cmcOp (a : V) : R V := do
  let pv ← a.get "p"
  let p : CmcP Float := {
    minAction := ← gf pv "min_action", maxAction := ← gf pv "max_action",
    minPosition := ← gf pv "min_position", maxPosition := ← gf pv "max_position",
    maxSpeed := ← gf pv "max_speed", goalPosition := ← gf pv "goal_position",
    goalVelocity := ← gf pv "goal_velocity", power := ← gf pv "power", dt := ← gf pv "dt" }
  let g : Lerax.GymRef.CmcG Float := {
    minAction := p.minAction, maxAction := p.maxAction, minPosition := p.minPosition,
    maxPosition := p.maxPosition, maxSpeed := p.maxSpeed, goalPosition := p.goalPosition,
    goalVelocity := p.goalVelocity, power := p.power }
  let y ← s2 (← a.get "y")
  let act ← (← a.get "action").asF
  -- `next`: the successor state used for the reward (defaults to the model's Euler step)
  let cos := Float.cos
  let nextL ← match a.get? "next" with
    | some v => s2 v
    | none => pure (cmcEulerStep cos p y act)
  let lerax := V.o [
    ("dynamics", V.fs (cmcDynamics cos p y act).toList),
    ("clip", V.fs (cmcClip p y).toList),
    ("legacy_clip", V.fs (LegacyCmcClip p y).toList),
    ("obs", V.fs (cmcObs y)),
    ("reward", .f (cmcReward p y act nextL)),
    ("legacy_reward", .f (LegacyCmcReward p y act nextL)),
    ("terminal", .b (cmcTerminal p y)),
    ("euler_step", V.fs (cmcEulerStep cos p y act).toList),
    ("init_range", ranges cmcInitRange),
    ("default_goal", .f (cmcDefaultGoal : Float)),
    ("obs_low", V.fs (cmcObsLow p)), ("obs_high", V.fs (cmcObsHigh p)),
    ("obs_in_space", .b (inBox (cmcObsLow p) (cmcObsHigh p) (cmcObs (cmcClip p y))))]
  let gym := V.o [
    ("field", V.fs (Lerax.GymRef.cmcField cos g y act).toList),
    ("limits", V.fs (Lerax.GymRef.cmcLimits g y).toList),
    ("step", stepV (fun s => V.fs s.toList) (Lerax.GymRef.cmcStep cos g y act)),
    ("reward_rule", .f (Lerax.GymRef.cmcRewardG (Lerax.GymRef.cmcTerminated g nextL) act)),
    ("terminated_here", .b (Lerax.GymRef.cmcTerminated g y)),
    ("reset_range", ranges Lerax.GymRef.cmcResetRange),
    ("goal", .f (Lerax.GymRef.cmcGoal : Float))]
  pure (.o [("lerax", lerax), ("gym", gym)])

def acrobotOp (a : V) : R V := do
  let pv ← a.get "p"
  let p : AcrobotP Float := {
    gravity := ← gf pv "gravity", l1 := ← gf pv "l1", l2 := ← gf pv "l2", m1 := ← gf pv "m1",
    m2 := ← gf pv "m2", lc1 := ← gf pv "lc1", lc2 := ← gf pv "lc2", moi := ← gf pv "moi",
    maxVel1 := ← gf pv "max_vel_1", maxVel2 := ← gf pv "max_vel_2",
    torques := ← (← pv.get "torques").asFs, dt := ← gf pv "dt" }
  let g : Lerax.GymRef.AcrobotG Float := {
    l1 := p.l1, m1 := p.m1, m2 := p.m2, lc1 := p.lc1, lc2 := p.lc2, moi := p.moi, g := p.gravity,
    maxVel1 := p.maxVel1, maxVel2 := p.maxVel2, availTorque := p.torques, dt := p.dt }
  let pi ← gf a "pi"
  let y ← s4 (← a.get "y")
  let act ← (← a.get "action").asN
  let sin := Float.sin
  let cos := Float.cos
  let nextL ← match a.get? "next" with
    | some v => s4 v
    | none => pure (acrobotEulerStep sin cos pmodF pi p y act)
  let high := acrobotObsHigh p
  let lerax := V.o [
    ("dynamics", V.fs (acrobotDynamics sin cos pi p y act).toList),
    ("clip", V.fs (acrobotClip pmodF pi p y).toList),
    ("obs", V.fs (Classic.acrobotObs sin cos y)),
    ("reward", .f (acrobotReward cos y act nextL)),
    ("terminal", .b (acrobotTerminal cos y)),
    ("euler_step", V.fs (acrobotEulerStep sin cos pmodF pi p y act).toList),
    ("init_range", ranges acrobotInitRange),
    ("obs_high", V.fs high),
    ("obs_in_space", .b (inBox (high.map Neg.neg) high
        (Classic.acrobotObs sin cos (acrobotClip pmodF pi p y))))]
  let gym := V.o [
    ("field", V.fs (Lerax.GymRef.acrobotField sin cos pi g y act).toList),
    ("limits", V.fs (Lerax.GymRef.acrobotLimits fuel pi g y).toList),
    ("step", stepV (fun s => V.fs s.toList) (Lerax.GymRef.acrobotStep sin cos fuel pi g y act)),
    ("obs", V.fs (Lerax.GymRef.acrobotObs sin cos y)),
    ("reward_rule", .f (Lerax.GymRef.acrobotRewardG (Lerax.GymRef.acrobotTerminated cos nextL))),
    ("terminated_here", .b (Lerax.GymRef.acrobotTerminated cos y)),
    ("reset_range", ranges Lerax.GymRef.acrobotResetRange)]
  pure (.o [("lerax", lerax), ("gym", gym)])

def pendulumOp (a : V) : R V := do
  let pv ← a.get "p"
  let p : PendulumP Float := {
    maxSpeed := ← gf pv "max_speed", maxTorque := ← gf pv "max_torque", g := ← gf pv "g",
    m := ← gf pv "m", l := ← gf pv "l", dt := ← gf pv "dt" }
  let pi ← gf a "pi"
  let y ← s2 (← a.get "y")
  let act ← (← a.get "action").asF
  let sin := Float.sin
  let cos := Float.cos
  let nextL ← match a.get? "next" with
    | some v => s2 v
    | none => pure y
  let high := pendulumObsHigh p
  let lerax := V.o [
    ("dynamics", V.fs (pendulumDynamics sin p y act).toList),
    ("clip", V.fs (pendulumClip pmodF pi p y).toList),
    ("obs", V.fs (pendulumObs sin cos y)),
    ("reward", .f (pendulumReward p y act nextL)),
    ("obs_high", V.fs high),
    ("obs_in_space", .b (inBox (high.map Neg.neg) high
        (pendulumObs sin cos (pendulumClip pmodF pi p y))))]
  pure (.o [("lerax", lerax)])

/-- op `c17_same`: `clauses = [[name, xs, ys], …]`; Φ = every pair equal up to `tol` -/
def sameOp (a : V) : R V := do
  let tol ← (← a.get "tol").asTol
  let cl ← (← a.get "clauses").asL
  let clauses ← cl.mapM (fun c => do
    match (← c.asL) with
    | [n, xs, ys] => pure ((← n.asS), (← xs.asFs), (← ys.asFs))
    | _ => throw "clause = [name, xs, ys]")
  match phiSame tol.close clauses with
  | none => pure (.o [("phi", .b true)])
  | some name => pure (.o [("phi", .b false), ("clause", .s name)])

end C17

def classicOps : List (String × (V → R V)) :=
  [("c17_cartpole", C17.cartpoleOp), ("c17_mountaincar", C17.mountaincarOp),
   ("c17_cmc", C17.cmcOp), ("c17_acrobot", C17.acrobotOp), ("c17_pendulum", C17.pendulumOp),
   ("c17_same", C17.sameOp)]

end Lerax.Driver
