/-
  Driver op for C17 / C02 (MuJoCo): `c17_mujoco` runs the lerax and the Gymnasium assembly
  models of `LeraxModel/Mujoco.lean` at `Float` on physical quantities read from a simulator.

  args: `env` (class name), `cfg` (options; absent numeric fields = 0, absent bools = false,
  absent / null / infinite range ends = unbounded), `prev`, `next` (physical quantities before and
  after the transition), `action`, `dims` = [nq, nv, nbody].
  answer: `{"lerax": A, "gym": A, "legacy": A}` with
  `A = {obs, obs_prev, reward, comps: [[name, value]…], terminated, obs_size}`.
-/
import LeraxModel.Proto
import LeraxModel.Classic
import LeraxModel.Mujoco
namespace Lerax.Driver
open Lerax.Proto Lerax.Mujoco

namespace C17M

local instance : NatCast Float := ⟨Float.ofNat⟩

def getFD (v : V) (k : String) (d : Float := 0) : R Float :=
  match v.get? k with
  | some .null => pure d
  | some x => x.asF
  | none => pure d

def getBD (v : V) (k : String) : R Bool :=
  match v.get? k with
  | some x => x.asB
  | none => pure false

def getND (v : V) (k : String) : R Nat :=
  match v.get? k with
  | some x => x.asN
  | none => pure 0

/-- range end: absent, null or infinite = unbounded -/
def getO (v : V) (k : String) : R (Option Float) :=
  match v.get? k with
  | some .null => pure none
  | some x => do
      let y ← x.asF
      pure (if y.isInf || y.isNaN then none else some y)
  | none => pure none

def getFsD (v : V) (k : String) : R (List Float) :=
  match v.get? k with
  | some x => x.asFs
  | none => pure []

def getFssD (v : V) (k : String) : R (List (List Float)) :=
  match v.get? k with
  | some x => x.asFss
  | none => pure []

def parseCfg (v : V) : R (Cfg Float) := do
  pure {
    dt := ← getFD v "dt" 1, timestep := ← getFD v "timestep" 1,
    fwdW := ← getFD v "forward_reward_weight", ctrlW := ← getFD v "ctrl_cost_weight",
    contactW := ← getFD v "contact_cost_weight", healthyR := ← getFD v "healthy_reward",
    distW := ← getFD v "reward_dist_weight", nearW := ← getFD v "reward_near_weight",
    uphW := ← getFD v "uph_cost_weight", impactW := ← getFD v "impact_cost_weight",
    termUnhealthy := ← getBD v "terminate_when_unhealthy",
    exclPos := ← getBD v "exclude_current_positions_from_observation",
    inclCinert := ← getBD v "include_cinert_in_observation",
    inclCvel := ← getBD v "include_cvel_in_observation",
    inclQfrc := ← getBD v "include_qfrc_actuator_in_observation",
    inclCfrc := ← getBD v "include_cfrc_ext_in_observation",
    zLo := ← getO v "z_lo", zHi := ← getO v "z_hi", angLo := ← getO v "angle_lo",
    angHi := ← getO v "angle_hi", stLo := ← getO v "state_lo", stHi := ← getO v "state_hi",
    cLo := ← getO v "c_lo", cHi := ← getO v "c_hi",
    bodyMass := ← getFsD v "body_mass",
    mainBody := ← getND v "main_body", fingertip := ← getND v "fingertip",
    target := ← getND v "target", tips := ← getND v "tips_arm", object := ← getND v "object",
    goal := ← getND v "goal" }

def parsePhys (v : V) : R (Phys Float) := do
  pure {
    qpos := ← getFsD v "qpos", qvel := ← getFsD v "qvel", xpos := ← getFssD v "xpos",
    xipos := ← getFssD v "xipos", cfrcExt := ← getFssD v "cfrc_ext", cinert := ← getFssD v "cinert",
    cvel := ← getFssD v "cvel", qfrcActuator := ← getFsD v "qfrc_actuator",
    qfrcConstraint := ← getFsD v "qfrc_constraint", siteXpos := ← getFssD v "site_xpos",
    ctrl := ← getFsD v "ctrl",
    finite := match v.get? "finite" with
      | some (.b x) => x
      | _ => true }

def fns : Fns Float := ⟨Float.sin, Float.cos, Float.sqrt⟩

def answer (obs obsPrev : List Float) (r : Rew Float) (term : Bool) (size : Nat) : V :=
  .o [("obs", V.fs obs), ("obs_prev", V.fs obsPrev), ("reward", .f r.total),
      ("comps", .l (r.comps.map (fun c => .l [.s c.1, .f c.2]))),
      ("terminated", .b term), ("obs_size", V.n size)]

/-- pre-repair lerax assembly (differs from the repaired one for Pusher, Humanoid, Standup) -/
def legacyObs (c : Cfg Float) (p : Phys Float) : Env → List Float
  | .pusher => LegacyPusherObsL c p
  | e => obsL fns c p e

def legacyReward (c : Cfg Float) (prev next : Phys Float) (a : List Float) : Env → Rew Float
  | .pusher => LegacyPusherRewardL fns c prev next a
  | .humanoid => LegacyHumanoidRewardL c prev next a
  | .humanoidStandup => LegacyStandupRewardL c prev next a
  | e => rewardL fns c prev next a e

def mujocoOp (a : V) : R V := do
  let name ← (← a.get "env").asS
  let some e := Env.ofString name | throw s!"unknown env {name}"
  let c ← parseCfg (← a.get "cfg")
  let prev ← parsePhys (← a.get "prev")
  let next ← parsePhys (← a.get "next")
  let act ← (← a.get "action").asFs
  let dims ← (← a.get "dims").asNs
  let nq := dims.getD 0 0
  let nv := dims.getD 1 0
  let nbody := dims.getD 2 0
  let size := obsSize c nq nv nbody e
  pure (.o [
    ("lerax", answer (obsL fns c next e) (obsL fns c prev e) (rewardL fns c prev next act e)
        (termL c next e) size),
    ("gym", answer (obsG fns c next e) (obsG fns c prev e) (rewardG fns c prev next act e)
        (termG c next e) size),
    ("legacy", answer (legacyObs c next e) (legacyObs c prev e) (legacyReward c prev next act e)
        (termL c next e) size)])

end C17M

def mujocoOps : List (String × (V → R V)) := [("c17_mujoco", C17M.mujocoOp)]

end Lerax.Driver
