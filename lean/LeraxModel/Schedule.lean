/-
  Model of the training schedule: `num_iterations` and the iteration scan of `learn`
  (`/repo/src/lerax/algorithm/base_algorithm.py:208-257`, `on_policy.py:125`, `off_policy.py:134`),
  `state.next` (`base_algorithm.py:75-99`), DQN's hard target copy (`dqn.py:122-131`) and SAC's
  Polyak update and actor/temperature gating (`sac.py:487-535, 564-588`).

  Gradient steps are oracle functions; parameters are abstract (`Θ`) for the copy/gating rules
  and numbers (`α`, one coordinate) for the Polyak recurrence.
-/
namespace Lerax.Schedule

/-- `total_timesteps // (num_envs * num_steps)` -/
def numIterations (total E T : Nat) : Nat := total / (E * T)

/-! ### DQN -/

structure DqnState (Θ : Type) where
  iter : Nat
  online : Θ
  target : Θ

/-- `reset`: the target starts as a copy of the policy -/
def dqnInit {Θ : Type} (θ0 : Θ) : DqnState Θ := { iter := 0, online := θ0, target := θ0 }

/-- one iteration: train (oracle, may read everything), `state.next` (count + 1), then
    `per_iteration`: hard copy iff the new count is a multiple of the interval -/
def dqnIter {Θ : Type} (I : Nat) (train : DqnState Θ → Θ) (s : DqnState Θ) : DqnState Θ :=
  let online' := train s
  let iter' := s.iter + 1
  { iter := iter', online := online', target := if iter' % I = 0 then online' else s.target }

def dqnRun {Θ : Type} (I : Nat) (train : DqnState Θ → Θ) (θ0 : Θ) : Nat → DqnState Θ
  | 0 => dqnInit θ0
  | n + 1 => dqnIter I train (dqnRun I train θ0 n)

/-! ### SAC -/

structure SacState (Θ α : Type) where
  iter : Nat
  actor : Θ
  logAlpha : Θ
  critic : α      -- one coordinate of the online critics
  target : α      -- the same coordinate of the target critics

section
variable {Θ α : Type} [Add α] [Sub α] [Mul α] [One α]

def sacInit (actor logAlpha : Θ) (c0 : α) : SacState Θ α :=
  { iter := 0, actor := actor, logAlpha := logAlpha, critic := c0, target := c0 }

/-- one iteration: critic step; actor step iff `iter % policy_frequency = 0` (pre-increment
    count); temperature step iff additionally `autotune`; count + 1; then Polyak
    `θ' ← τ·θ + (1 − τ)·θ'` with the UPDATED critic -/
def sacIter (tau : α) (pf : Nat) (autotune : Bool)
    (criticStep : SacState Θ α → α) (actorStep alphaStep : SacState Θ α → Θ)
    (s : SacState Θ α) : SacState Θ α :=
  let critic' := criticStep s
  let upd := s.iter % pf = 0
  let actor' := if upd then actorStep s else s.actor
  let logAlpha' := if autotune && decide upd then alphaStep s else s.logAlpha
  { iter := s.iter + 1, actor := actor', logAlpha := logAlpha', critic := critic',
    target := tau * critic' + (1 - tau) * s.target }

def sacRun (tau : α) (pf : Nat) (autotune : Bool)
    (criticStep : SacState Θ α → α) (actorStep alphaStep : SacState Θ α → Θ)
    (actor logAlpha : Θ) (c0 : α) : Nat → SacState Θ α
  | 0 => sacInit actor logAlpha c0
  | n + 1 => sacIter tau pf autotune criticStep actorStep alphaStep
      (sacRun tau pf autotune criticStep actorStep alphaStep actor logAlpha c0 n)

end

/-! ### executable Φ on observed parameter histories -/

/-- DQN: `onlineIds[k]` / `targetIds[k]` identify (by digest) the online / target parameters
    after `k` iterations (k = 0 is the state after reset) -/
def phiDqnTargets (I : Nat) (onlineIds targetIds : List Nat) : Bool :=
  targetIds.length == onlineIds.length &&
  (List.range targetIds.length).all (fun n => targetIds[n]? == onlineIds[I * (n / I)]?)

/-- SAC gating: `changed[k]` says whether the parameter changed during iteration `k` (0-based,
    i.e. with pre-increment count `k`) -/
def phiGating (pf : Nat) (enabled : Bool) (changed : List Bool) : Bool :=
  (List.range changed.length).all (fun k =>
    !(changed.getD k false) || (enabled && k % pf == 0))

end Lerax.Schedule
