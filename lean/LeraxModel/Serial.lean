/-
  Model of policy (de)serialisation: `Serializable.serialize` / `Serializable.deserialize`
  (`/repo/src/lerax/utils.py:271-330`) together with the part of Equinox they delegate to
  (`equinox/_serialisation.py`: `_with_suffix`, `tree_serialise_leaves`,
  `tree_deserialise_leaves`, `default_(de)serialise_filter_spec`, `_assert_same`) and the part
  of `pathlib` they use (`PurePath.suffix/stem/with_suffix`, CPython 3.13).

      serialize(self, path, no_suffix):              deserialize(cls, path, *args, **kwargs):
        arrays, other = partition(self, is_array)      like = filter_eval_shape(cls, *args, **kwargs)
        debug.callback(write, arrays), where write:    path = Path(path)
          file = Path(path)                            if path.suffix == "": path = path.with_suffix(".eqx")
          if not file.parent.exists(): mkdir -p        with open(path, "rb") as file:
          if file.suffix != ".eqx" and not no_suffix:      model = eqx.tree_deserialise_leaves(file, like)
              file = file.with_suffix(".eqx")              if file.read(1): raise RuntimeError   # (repair 01)
          eqx.tree_serialise_leaves(file,              return model
                                    combine(arrays, other))
          # equinox: if Path(file).suffix == "": file = file.with_suffix(".eqx")
          # open(file, "wb"); one .npy record per leaf

  (repair 03: only the arrays travel through `jax.debug.callback`, so Python scalar leaves reach
  Equinox as Python scalars and are written as 0-d `float64` / `int64` / `bool` records; before,
  the callback had turned them into default-precision arrays — `epsilon = 0.1` came back as
  `0.10000000149011612`.)

  * A path is (absolute?, directory components, file name).  `stem`/`suffix` are *computed*
    from the file name by pathlib's rule (`splitName`), because Equinox re-parses the name that
    lerax hands over; `Path.ofParts dirs stem suffix` builds a path from the three parts.
  * A file system is the current directory, the list of existing directories and a finite map
    (association list) from (absolute directory, file name) to record streams.
  * A policy pytree is the ordered list of its serialisable leaves: arrays `(shape, dtype, data)`
    and Python scalars (`bool`/`int`/`float` fields such as `MLPQPolicy.epsilon`,
    `BoxAction.scalar`, `MultiDiscreteAction.ns`).  Leaves that carry no bytes (activation
    functions, `None`) come from the skeleton, i.e. from the constructor arguments.
  * `deserialise` mirrors Equinox's two passes — read every leaf sequentially, then
    `_assert_same` (shape, dtype) — followed by lerax's end-of-file rule.  `deserialiseEqx` is the
    Equinox reader alone (lerax before the repair): it never looks at what is left in the file.
  * Equinox is lenient at Python-scalar leaves of the skeleton: `type(x)(np.load(f).item())`
    accepts any one-element record of any dtype.  `accepts` states the per-leaf rule exactly.

  Data elements are an arbitrary type `δ` (bytes in the driver).  Import-free.
-/
namespace Lerax.Serial

/-! ## paths -/

abbrev Name := List Char

/-- the literal `".eqx"` -/
def eqx : Name := ['.', 'e', 'q', 'x']

/-- pathlib (3.13) `PurePath.stem` / `PurePath.suffix` of a final component:
    `i = name.rfind('.')`; if `0 < i < len(name) - 1` then `(name[:i], name[i:])` else `(name, "")`. -/
def splitName (name : Name) : Name × Name :=
  -- `dropWhile` leaves the reversed name from its last '.' on; `takeWhile` is what follows it
  match name.reverse.dropWhile (· != '.') with
  | [] => (name, [])                         -- no '.' at all
  | dot :: pre =>                            -- `pre` = reversed characters before the last '.'
      if pre.isEmpty || (name.reverse.takeWhile (· != '.')).isEmpty then (name, [])
      else (pre.reverse, dot :: (name.reverse.takeWhile (· != '.')).reverse)

structure Path where
  abs : Bool
  dirs : List Name
  name : Name
  deriving DecidableEq, Repr

def Path.stem (p : Path) : Name := (splitName p.name).1
def Path.suffix (p : Path) : Name := (splitName p.name).2

/-- `path.with_suffix(s)` (pathlib raises `ValueError` for an empty stem; the theorems carry the
    hypothesis `p.name ≠ []` instead) -/
def Path.withSuffix (p : Path) (s : Name) : Path := { p with name := p.stem ++ s }

def Path.ofParts (abs : Bool) (dirs : List Name) (stem suffix : Name) : Path :=
  { abs := abs, dirs := dirs, name := stem ++ suffix }

/-- `utils.py`: `if path.suffix != ".eqx" and not no_suffix: path = path.with_suffix(".eqx")` -/
def leraxSuffix (p : Path) (noSuffix : Bool) : Path :=
  if p.suffix != eqx && !noSuffix then p.withSuffix eqx else p

/-- equinox `_with_suffix`: add `.eqx` iff the suffix is empty (also the rule that the repaired
    `deserialize` applies itself before opening the file) -/
def eqxWithSuffix (p : Path) : Path :=
  if p.suffix == [] then p.withSuffix eqx else p

/-- the file `serialize(path, no_suffix)` writes -/
def savePath (p : Path) (noSuffix : Bool) : Path := eqxWithSuffix (leraxSuffix p noSuffix)

/-- the file `deserialize(path, …)` opens -/
def loadPath (p : Path) : Path := eqxWithSuffix p

/-- the suffixes for which the property promises a round trip -/
def roundtripSuffix (p : Path) : Bool := p.suffix == [] || p.suffix == eqx

/-! ### parsing / rendering (driver side; `Path("a//b/./c")` drops empty and `.` components) -/

def splitOn (sep : Char) : List Char → List (List Char)
  | [] => [[]]
  | c :: cs =>
      match splitOn sep cs with
      | [] => [[]]
      | x :: xs => if c == sep then [] :: x :: xs else (c :: x) :: xs

def parsePath (s : List Char) : Path :=
  let abs := s.head? == some '/'
  let comps := (splitOn '/' s).filter (fun c => !c.isEmpty && c != ['.'])
  match comps.reverse with
  | [] => { abs := abs, dirs := [], name := [] }
  | n :: ds => { abs := abs, dirs := ds.reverse, name := n }

def joinWith (sep : Char) : List (List Char) → List Char
  | [] => []
  | [x] => x
  | x :: xs => x ++ sep :: joinWith sep xs

/-! ## file system -/

abbrev Key := List Name × Name

inductive Err where
  | notFound      -- FileNotFoundError (open)
  | eof           -- file ends before the skeleton does (np.load: EOFError)
  | scalarSize    -- Python-scalar leaf meets a record with ≠ 1 element (`.item()`: ValueError)
  | shape         -- `_assert_same`: changed shape
  | dtype         -- `_assert_same`: changed dtype
  | trailing      -- lerax (repaired): data left in the file after the last leaf
  deriving DecidableEq, Repr

def Err.toString : Err → String
  | .notFound => "notFound" | .eof => "eof" | .scalarSize => "scalarSize"
  | .shape => "shape" | .dtype => "dtype" | .trailing => "trailing"

structure FS (σ : Type) where
  cwd : List Name
  dirs : List (List Name)
  files : List (Key × σ)

/-- all prefixes of a directory, from the root down to the directory itself
    (`mkdir(parents=True, exist_ok=True)` makes all of them exist) -/
def prefixes : List Name → List (List Name)
  | [] => [[]]
  | d :: ds => [] :: (prefixes ds).map (d :: ·)

namespace FS
variable {σ : Type}

def empty (cwd : List Name) : FS σ := { cwd := cwd, dirs := prefixes cwd, files := [] }

/-- directory of a path, resolved against the current directory -/
def absDir (fs : FS σ) (p : Path) : List Name := if p.abs then p.dirs else fs.cwd ++ p.dirs

def key (fs : FS σ) (p : Path) : Key := (fs.absDir p, p.name)

def mkdirP (fs : FS σ) (d : List Name) : FS σ := { fs with dirs := prefixes d ++ fs.dirs }

/-- `open(path, "wb")` + write: needs the directory; replaces an existing file -/
def write (fs : FS σ) (k : Key) (s : σ) : Except Err (FS σ) :=
  if fs.dirs.contains k.1 then .ok { fs with files := (k, s) :: fs.files } else .error .notFound

/-- `open(path, "rb")` + read (first match = most recent write) -/
def read (fs : FS σ) (k : Key) : Except Err σ :=
  match fs.files.lookup k with
  | some s => .ok s
  | none => .error .notFound

/-- the distinct files that exist -/
def listing (fs : FS σ) : List Key := (fs.files.map (·.1)).eraseDups

end FS

/-! ## leaves, records, skeletons -/

/-- NumPy dtypes that occur in lerax pytrees (an enumeration, so that equality is decidable
    by evaluation) -/
inductive DType where
  | bool | i8 | i16 | i32 | i64 | u8 | u16 | u32 | u64 | f16 | bf16 | f32 | f64 | other
  deriving DecidableEq, Repr

def DType.names : List (String × DType) :=
  [("bool", .bool), ("int8", .i8), ("int16", .i16), ("int32", .i32), ("int64", .i64),
   ("uint8", .u8), ("uint16", .u16), ("uint32", .u32), ("uint64", .u64),
   ("float16", .f16), ("bfloat16", .bf16), ("float32", .f32), ("float64", .f64)]

def DType.ofString (s : String) : DType := (DType.names.lookup s).getD .other
def DType.toString (d : DType) : String :=
  ((DType.names.find? (·.2 == d)).map (·.1)).getD "other"

/-- Python scalar types that Equinox serialises (`is_array_like`); complex never occurs in lerax -/
inductive PyT where
  | pbool | pint | pfloat
  deriving DecidableEq, Repr

/-- `np.asarray(python_scalar).dtype` — the dtype of the 0-d record that is written -/
def PyT.store : PyT → DType
  | .pbool => .bool | .pint => .i64 | .pfloat => .f64

/-- a serialisable leaf of a policy pytree -/
inductive Leaf (δ : Type) where
  | arr (shape : List Nat) (dtype : DType) (data : List δ)
  | py (t : PyT) (data : List δ)
  deriving DecidableEq, Repr

/-- what the skeleton (`filter_eval_shape` of the constructor) knows about a leaf:
    `ShapeDtypeStruct(shape, dtype)` or a Python scalar of a given type -/
inductive Spec where
  | arr (shape : List Nat) (dtype : DType)
  | py (t : PyT)
  deriving DecidableEq, Repr

/-- one `.npy` record in the file -/
structure Rec (δ : Type) where
  shape : List Nat
  dtype : DType
  data : List δ
  deriving DecidableEq, Repr

abbrev Tree (δ : Type) := List (Leaf δ)
abbrev Skeleton := List Spec
abbrev Stream (δ : Type) := List (Rec δ)

def numel : List Nat → Nat
  | [] => 1
  | n :: ns => n * numel ns

section
variable {δ : Type}

def Leaf.spec : Leaf δ → Spec
  | .arr s d _ => .arr s d
  | .py t _ => .py t

/-- `default_serialise_filter_spec`: `jnp.save(f, x)` -/
def Leaf.record : Leaf δ → Rec δ
  | .arr s d x => ⟨s, d, x⟩
  | .py t x => ⟨[], t.store, x⟩

/-- `tree_serialise_leaves`: the records of the leaves, in tree order -/
def serialise (t : Tree δ) : Stream δ := t.map Leaf.record

/-- the skeleton of the policy that was saved ("same constructor arguments") -/
def skeletonOf (t : Tree δ) : Skeleton := t.map Leaf.spec

/-- `default_deserialise_filter_spec` on one leaf: arrays `jnp.load(f)` (whatever is there);
    Python scalars `type(x)(np.load(f).item())` — needs exactly one element; the value is
    unchanged when the record has the scalar's own dtype, otherwise converted (`coerce`, oracle). -/
def readLeaf (coerce : DType → PyT → List δ → List δ) : Spec → Rec δ → Except Err (Leaf δ)
  | .arr _ _, r => .ok (.arr r.shape r.dtype r.data)
  | .py t, r =>
      if numel r.shape == 1 then
        .ok (.py t (if r.dtype == t.store then r.data else coerce r.dtype t r.data))
      else .error .scalarSize

/-- first pass of `tree_deserialise_leaves`: read the leaves one after the other; returns the
    leaves and the unread rest of the file -/
def readAll (coerce : DType → PyT → List δ → List δ) :
    Skeleton → Stream δ → Except Err (Tree δ × Stream δ)
  | [], rs => .ok ([], rs)
  | _ :: _, [] => .error .eof
  | s :: ss, r :: rs =>
      match readLeaf coerce s r with
      | .error e => .error e
      | .ok l =>
          match readAll coerce ss rs with
          | .error e => .error e
          | .ok (ls, rest) => .ok (l :: ls, rest)

/-- `_assert_same` on one leaf -/
def assertLeaf : Spec → Leaf δ → Except Err Unit
  | .arr s d, .arr s' d' _ =>
      if s' != s then .error .shape else if d' != d then .error .dtype else .ok ()
  | _, _ => .ok ()

/-- second pass: `tree_map_with_path(_assert_same, out, like)` -/
def assertAll : Skeleton → Tree δ → Except Err Unit
  | s :: ss, l :: ls =>
      match assertLeaf s l with
      | .error e => .error e
      | .ok () => assertAll ss ls
  | _, _ => .ok ()

/-- Equinox's reader alone = lerax before the repair: what is left in the file is ignored -/
def deserialiseEqx (coerce : DType → PyT → List δ → List δ) (sk : Skeleton) (rs : Stream δ) :
    Except Err (Tree δ) :=
  match readAll coerce sk rs with
  | .error e => .error e
  | .ok (ls, _) =>
      match assertAll sk ls with
      | .error e => .error e
      | .ok () => .ok ls

/-- `Serializable.deserialize` (repaired): Equinox's two passes, then the file must be exhausted -/
def deserialise (coerce : DType → PyT → List δ → List δ) (sk : Skeleton) (rs : Stream δ) :
    Except Err (Tree δ) :=
  match readAll coerce sk rs with
  | .error e => .error e
  | .ok (ls, rest) =>
      match assertAll sk ls with
      | .error e => .error e
      | .ok () => if rest.isEmpty then .ok ls else .error .trailing

/-- the exact per-leaf acceptance rule of the reader -/
def accepts : Spec → Rec δ → Bool
  | .arr s d, r => r.shape == s && r.dtype == d
  | .py _, r => numel r.shape == 1

def acceptsAll : Skeleton → Stream δ → Bool
  | [], [] => true
  | s :: ss, r :: rs => accepts s r && acceptsAll ss rs
  | _, _ => false

/-- an aligned (skeleton leaf, saved leaf) pair is harmless: same kind (array / `bool` / `int`
    / `float`), or of different kind and rejected by the reader -/
def kindOk : Spec → Leaf δ → Bool
  | .arr _ _, .arr _ _ _ => true
  | .py t, .py t' _ => t == t'
  | .arr s d, .py t' _ => !(([] : List Nat) == s && t'.store == d)
  | .py _, .arr s' _ _ => !(numel s' == 1)

/-- no aligned pair of leaves of different kind that the reader would nevertheless accept
    (Equinox's Python-scalar leniency) -/
def noCoercion : Skeleton → Tree δ → Bool
  | s :: ss, l :: ls => kindOk s l && noCoercion ss ls
  | _, _ => true

def Spec.isArr : Spec → Bool
  | .arr _ _ => true
  | .py _ => false

/-! ## saving and loading through the file system -/

/-- `policy.serialize(path, no_suffix)` -/
def FS.save (fs : FS (Stream δ)) (p : Path) (noSuffix : Bool) (t : Tree δ) :
    Except Err (FS (Stream δ)) :=
  let fs1 := if fs.dirs.contains (fs.absDir p) then fs else fs.mkdirP (fs.absDir p)
  fs1.write (fs1.key (savePath p noSuffix)) (serialise t)

/-- `Policy.deserialize(path, *args)` with `sk` the skeleton built from `*args` -/
def FS.load (coerce : DType → PyT → List δ → List δ) (fs : FS (Stream δ)) (p : Path)
    (sk : Skeleton) : Except Err (Tree δ) :=
  match fs.read (fs.key (loadPath p)) with
  | .error e => .error e
  | .ok rs => deserialise coerce sk rs

inductive Op (δ : Type) where
  | save (p : Path) (noSuffix : Bool) (t : Tree δ)
  | load (p : Path) (sk : Skeleton)

inductive Outcome (δ : Type) where
  | saved (file : Key)
  | loaded (t : Tree δ)
  | failed (e : Err)

def runOps (coerce : DType → PyT → List δ → List δ) :
    FS (Stream δ) → List (Op δ) → List (Outcome δ) × FS (Stream δ)
  | fs, [] => ([], fs)
  | fs, .save p ns t :: ops =>
      match fs.save p ns t with
      | .ok fs' =>
          let (os, fs'') := runOps coerce fs' ops
          (.saved (fs'.key (savePath p ns)) :: os, fs'')
      | .error e =>
          let (os, fs'') := runOps coerce fs ops
          (.failed e :: os, fs'')
  | fs, .load p sk :: ops =>
      let o := match fs.load coerce p sk with
        | .ok t => Outcome.loaded t
        | .error e => Outcome.failed e
      let (os, fs') := runOps coerce fs ops
      (o :: os, fs')

/-! ## Φ — executable property predicates (decided on implementation outputs by the driver,
    proved of the model in `LeraxProofs/C18.lean`) -/

/-- the path clause: a round-trip suffix ⇒ the file that was written is the file `deserialize`
    of the same path string opens -/
def phiPath {σ : Type} (fs : FS σ) (p : Path) (written : Key) : Bool :=
  !roundtripSuffix p || (written == fs.key (loadPath p))

/-- the restore clause: loading with the saved policy's own skeleton returned a tree, and that
    tree is leaf-for-leaf (kind, shape, dtype, every data element) the saved one -/
def phiRoundtrip [DecidableEq δ] (saved : Tree δ) (result : Except Err (Tree δ)) : Bool :=
  match result with
  | .ok t => t == saved
  | .error _ => false

def isOk {ε α : Type} : Except ε α → Bool
  | .ok _ => true
  | .error _ => false

def errOf {α : Type} : Except Err α → Option Err
  | .ok _ => none
  | .error e => some e

/-- the fail-loudly clause: leaf signature lists differ (and no scalar coercion is in play)
    ⇒ the load is an error, never a tree -/
def phiMismatch (sk : Skeleton) (saved : Tree δ) (resultIsOk : Bool) : Bool :=
  !(skeletonOf saved != sk && noCoercion sk saved) || !resultIsOk

end

/-! ## skeleton from the constructor arguments -/

/-- atomic spaces; `Dict` / `Tuple` observation spaces are the ordered list of their atomic
    components (their leaves and `flat_size` are concatenation / sum in that order) -/
inductive Atom where
  | box (shape : List Nat)
  | discrete (n : Nat)
  | multiDiscrete (nvec : List Nat)
  | multiBinary (shape : List Nat)
  deriving DecidableEq, Repr

/-- `space.flat_size` -/
def Atom.flatSize : Atom → Nat
  | .box s => numel s
  | .discrete _ => 1
  | .multiDiscrete nvec => nvec.length
  | .multiBinary s => numel s

/-- array leaves of a space module (`Box.low`, `Box.high`; the others have static fields only) -/
def Atom.leaves (ft : DType) : Atom → Skeleton
  | .box s => [.arr s ft, .arr s ft]
  | _ => []

def spaceLeaves (ft : DType) (sp : List Atom) : Skeleton := (sp.map (Atom.leaves ft)).flatten
def spaceFlat (sp : List Atom) : Nat := (sp.map Atom.flatSize).sum

/-- `eqx.nn.Linear(i, o)`: weight `(o, i)`, bias `(o,)` (`"scalar"` ⇒ `o = 1`) -/
def linear (ft : DType) (i o : Nat) : Skeleton := [.arr [o, i] ft, .arr [o] ft]

/-- `eqx.nn.MLP(i, o, width, depth)`: `depth` hidden layers -/
def mlp (ft : DType) (i o w : Nat) : Nat → Skeleton
  | 0 => linear ft i o
  | d + 1 => linear ft i w ++ (List.replicate d (linear ft w w)).flatten ++ linear ft w o

/-- `make_action_layer(latent, action_space)`; field order: `mapping` (inherited) first -/
def actionDist (ft : DType) (f : Nat) : Atom → Skeleton
  | .box s =>
      if s.isEmpty then linear ft f 1 ++ [.py .pbool, .arr [] ft]
      else linear ft f (numel s) ++ [.py .pbool, .arr [numel s] ft]
  | .discrete n => linear ft f n
  | .multiBinary s => linear ft f (numel s) ++ s.map (fun _ => .py .pint)
  | .multiDiscrete nvec => linear ft f nvec.sum ++ nvec.map (fun _ => .py .pint) ++ [.py .pint]

/-- `MLPActorCriticPolicy(env, feature_size, feature_width, feature_depth, value_width,
    value_depth, action_width, action_depth)` -/
def acSpecs (ft : DType) (act : Atom) (obs : List Atom)
    (fs fw fd vw vd aw ad : Nat) : Skeleton :=
  act.leaves ft ++ spaceLeaves ft obs
    ++ mlp ft (spaceFlat obs) fs fw fd
    ++ mlp ft fs 1 vw vd
    ++ mlp ft fs fs aw (ad - 1) ++ actionDist ft fs act

/-- `MLPQPolicy(env, epsilon, width_size, depth)` on `Discrete(n)`; `epsilon` is a Python scalar -/
def qSpecs (ft : DType) (n : Nat) (obs : List Atom) (eps : PyT) (w d : Nat) : Skeleton :=
  spaceLeaves ft obs ++ [.py eps] ++ mlp ft (spaceFlat obs) n w d

/-- `MLPSACPolicy(env, feature_size, width_size, depth)` on a `Box` action space -/
def sacSpecs (ft : DType) (actShape : List Nat) (obs : List Atom) (fs w d : Nat) : Skeleton :=
  let a := if actShape.isEmpty then 1 else max (numel actShape) 1
  (Atom.box actShape).leaves ft ++ spaceLeaves ft obs
    ++ mlp ft (spaceFlat obs) fs w d ++ linear ft fs a ++ linear ft fs a ++ [.py .pbool]

end Lerax.Serial
