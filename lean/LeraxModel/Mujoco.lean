/-
  Assembly models of the 11 MuJoCo environments, twice:

  * `…L` — lerax (`/repo/src/lerax/env/mujoco/<env>.py`: `observation`, `reward`,
    `transition_info` (reward components), `is_healthy`, `terminal`, declared `obs_size`);
  * `…G` — Gymnasium 1.3.0 v5 (`gymnasium/envs/mujoco/<env>_v5.py`: `_get_obs`, `_get_rew`,
    `is_healthy`, `terminated` of `step`, `observation_space` shape),

  as functions of the *physical quantities* the code reads from the simulator
  (`qpos qvel xpos xipos cfrc_ext cinert cvel qfrc_actuator qfrc_constraint site_xpos ctrl`),
  of the action, and of the constructor options.  The physics (MJX `step` / MuJoCo `mj_step`)
  is outside: its results are the oracle inputs `Phys`.

  Plus the kinematics-cache state machine of `initial` / `transition` (`Sim`, end of file).

  The lerax side mirrors the code AFTER the C17 repairs: `initial()` runs `mjx.forward`;
  Pusher reads `xpos` (body frame origin, as Gymnasium's `get_body_com`) instead of `xipos`;
  HumanoidStandup divides the height by `model.opt.timestep` instead of the control `dt`;
  Humanoid clips the *weighted* contact cost.  Pre-repair behaviour: `Legacy…`.

  Numbers: arbitrary `α` with core classes; `sin cos sqrt` function parameters (`Fns`);
  infinite range ends (`healthy_z_range = (0.7, inf)`, `contact_cost_range = (-inf, 10)`) are
  `none`.
-/
import LeraxModel.Classic

namespace Lerax.Mujoco
open Lerax.Classic (lit ofBool clamp)

/-- physical quantities read from `mjx.Data` / `MjData` -/
structure Phys (α : Type) where
  qpos : List α
  qvel : List α
  xpos : List (List α)
  xipos : List (List α)
  cfrcExt : List (List α)
  cinert : List (List α)
  cvel : List (List α)
  qfrcActuator : List α
  qfrcConstraint : List α
  siteXpos : List (List α)
  ctrl : List α
  /-- `isfinite(state_vector).all()` (an ordered field has no NaN/∞: oracle) -/
  finite : Bool

/-- constructor options and model constants (superset over the 11 environments) -/
structure Cfg (α : Type) where
  dt : α
  timestep : α
  fwdW : α
  ctrlW : α
  contactW : α
  healthyR : α
  distW : α
  nearW : α
  uphW : α
  impactW : α
  termUnhealthy : Bool
  exclPos : Bool
  inclCinert : Bool
  inclCvel : Bool
  inclQfrc : Bool
  inclCfrc : Bool
  zLo : Option α
  zHi : Option α
  angLo : Option α
  angHi : Option α
  stLo : Option α
  stHi : Option α
  /-- Ant `contact_force_range`, Humanoid `contact_cost_range`, Standup `impact_cost_range` -/
  cLo : Option α
  cHi : Option α
  bodyMass : List α
  mainBody : Nat
  fingertip : Nat
  target : Nat
  tips : Nat
  object : Nat
  goal : Nat

structure Fns (α : Type) where
  sin : α → α
  cos : α → α
  sqrt : α → α

/-- reward with its named components -/
structure Rew (α : Type) where
  total : α
  comps : List (String × α)

section
variable {α : Type} [Add α] [Sub α] [Mul α] [Div α] [Neg α] [Zero α] [One α] [NatCast α]
  [LT α] [DecidableLT α] [LE α] [DecidableLE α]

def sum (xs : List α) : α := xs.foldr (· + ·) 0
/-- `sum(square(xs))` -/
def sumSq (xs : List α) : α := sum (xs.map (fun x => x * x))
/-- `.reshape(-1)` / `.flatten()` of a 2-D array -/
def flat (rows : List (List α)) : List α := rows.flatten
def row (rows : List (List α)) (i : Nat) : List α := rows.getD i []
def at' (xs : List α) (i : Nat) : α := xs.getD i 0
def vsub (a b : List α) : List α := List.zipWith (· - ·) a b
/-- `linalg.norm(v)` -/
def norm (f : Fns α) (v : List α) : α := f.sqrt (sumSq v)
def absv (x : α) : α := if x < 0 then -x else x

/-- `clip(x, lo, hi)` with possibly infinite ends -/
def clipO (lo hi : Option α) (x : α) : α :=
  let t := match lo with
    | some l => if x < l then l else x
    | none => x
  match hi with
  | some h => if h < t then h else t
  | none => t

/-- `lo < x < hi` with possibly infinite ends -/
def inOpen (lo hi : Option α) (x : α) : Bool :=
  (match lo with | some l => decide (l < x) | none => true) &&
  (match hi with | some h => decide (x < h) | none => true)

/-- `lo <= x <= hi` -/
def inClosed (lo hi : Option α) (x : α) : Bool :=
  (match lo with | some l => decide (l ≤ x) | none => true) &&
  (match hi with | some h => decide (x ≤ h) | none => true)

def ten : α := lit 10

/-! ### InvertedPendulum -/

def ipObsL (_c : Cfg α) (p : Phys α) : List α := p.qpos ++ p.qvel
def ipHealthyL (p : Phys α) : Bool := p.finite && decide (absv (at' p.qpos 1) ≤ lit 2 / lit 10)
def ipRewardL (_c : Cfg α) (_prev next : Phys α) (_a : List α) : Rew α :=
  ⟨ofBool (ipHealthyL next), []⟩
def ipTermL (_c : Cfg α) (p : Phys α) : Bool := !ipHealthyL p
def ipObsSizeL (nq nv _nbody : Nat) : Nat := nq + nv

def ipObsG (_c : Cfg α) (p : Phys α) : List α := p.qpos ++ p.qvel
/-- `not isfinite(obs).all() or abs(obs[1]) > 0.2` -/
def ipTermG (_c : Cfg α) (p : Phys α) : Bool :=
  !p.finite || decide (lit 2 / lit 10 < absv (at' (p.qpos ++ p.qvel) 1))
def ipRewardG (c : Cfg α) (_prev next : Phys α) (_a : List α) : Rew α :=
  let r : α := ofBool (!ipTermG c next)
  ⟨r, [("reward_survive", r)]⟩

/-! ### InvertedDoublePendulum -/

def idpObsL (f : Fns α) (_c : Cfg α) (p : Phys α) : List α :=
  p.qpos.take 1 ++ (p.qpos.drop 1).map f.sin ++ (p.qpos.drop 1).map f.cos
    ++ p.qvel.map (clamp (-ten) ten) ++ (p.qfrcConstraint.map (clamp (-ten) ten)).take 1

def idpRewardL (c : Cfg α) (_prev next : Phys α) (_a : List α) : Rew α :=
  let site := row next.siteXpos 0
  let x := at' site 0
  let y := at' site 2
  let v1 := at' next.qvel 1
  let v2 := at' next.qvel 2
  let alive := ofBool (decide (1 < y)) * c.healthyR
  let distPenalty := lit 1 / lit 100 * (x * x) + (y - lit 2) * (y - lit 2)
  let velPenalty := lit 1 / lit 1000 * (v1 * v1) + lit 5 / lit 1000 * (v2 * v2)
  ⟨alive - distPenalty - velPenalty,
   [("dist_penalty", distPenalty), ("vel_penalty", velPenalty), ("alive_bonus", alive)]⟩

def idpTermL (_c : Cfg α) (p : Phys α) : Bool := decide (at' (row p.siteXpos 0) 2 ≤ 1)
def idpObsSizeL : Nat := 9

def idpObsG (f : Fns α) (_c : Cfg α) (p : Phys α) : List α :=
  p.qpos.take 1 ++ (p.qpos.drop 1).map f.sin ++ (p.qpos.drop 1).map f.cos
    ++ p.qvel.map (clamp (-ten) ten) ++ (p.qfrcConstraint.map (clamp (-ten) ten)).take 1

def idpTermG (_c : Cfg α) (p : Phys α) : Bool := decide (at' (row p.siteXpos 0) 2 ≤ 1)

def idpRewardG (c : Cfg α) (_prev next : Phys α) (_a : List α) : Rew α :=
  let site := row next.siteXpos 0
  let x := at' site 0
  let y := at' site 2
  let terminated := idpTermG c next
  let v1 := at' next.qvel 1
  let v2 := at' next.qvel 2
  let distPenalty := lit 1 / lit 100 * (x * x) + (y - lit 2) * (y - lit 2)
  let velPenalty := lit 1 / lit 1000 * (v1 * v1) + lit 5 / lit 1000 * (v2 * v2)
  let aliveBonus := c.healthyR * ofBool (!terminated)
  ⟨aliveBonus - distPenalty - velPenalty,
   [("reward_survive", aliveBonus), ("distance_penalty", -distPenalty),
    ("velocity_penalty", -velPenalty)]⟩

/-! ### Reacher (lerax reads `xipos`, Gymnasium's `get_body_com` reads `xpos`) -/

def reacherObsL (f : Fns α) (c : Cfg α) (p : Phys α) : List α :=
  let theta := p.qpos.take 2
  let fingertip := row p.xipos c.fingertip
  let target := row p.xipos c.target
  theta.map f.cos ++ theta.map f.sin ++ p.qpos.drop 2 ++ p.qvel.take 2
    ++ (vsub fingertip target).take 2

def reacherRewardL (f : Fns α) (c : Cfg α) (_prev next : Phys α) (a : List α) : Rew α :=
  let vec := vsub (row next.xipos c.fingertip) (row next.xipos c.target)
  let rewardDist := -norm f vec * c.distW
  let rewardCtrl := -sumSq a * c.ctrlW
  ⟨rewardDist + rewardCtrl, [("reward_dist", rewardDist), ("reward_ctrl", rewardCtrl)]⟩

def reacherObsSizeL : Nat := 10

def reacherObsG (f : Fns α) (c : Cfg α) (p : Phys α) : List α :=
  let theta := p.qpos.take 2
  theta.map f.cos ++ theta.map f.sin ++ p.qpos.drop 2 ++ p.qvel.take 2
    ++ (vsub (row p.xpos c.fingertip) (row p.xpos c.target)).take 2

def reacherRewardG (f : Fns α) (c : Cfg α) (_prev next : Phys α) (a : List α) : Rew α :=
  let vec := vsub (row next.xpos c.fingertip) (row next.xpos c.target)
  let rewardDist := -norm f vec * c.distW
  let rewardCtrl := -sumSq a * c.ctrlW
  ⟨rewardDist + rewardCtrl, [("reward_dist", rewardDist), ("reward_ctrl", rewardCtrl)]⟩

/-! ### Pusher -/

/-- `observation` as a function of the body-position table it reads -/
def pusherObsOf (com : List (List α)) (c : Cfg α) (p : Phys α) : List α :=
  p.qpos.take 7 ++ p.qvel.take 7 ++ row com c.tips ++ row com c.object ++ row com c.goal

def pusherRewardOf (f : Fns α) (com : List (List α)) (c : Cfg α) (a : List α) : Rew α :=
  let tipsArm := row com c.tips
  let obj := row com c.object
  let goal := row com c.goal
  let vecNear := vsub obj tipsArm
  let vecDist := vsub obj goal
  let rewardNear := -norm f vecNear * c.nearW
  let rewardDist := -norm f vecDist * c.distW
  let rewardCtrl := -sumSq a * c.ctrlW
  ⟨rewardDist + rewardCtrl + rewardNear,
   [("reward_dist", rewardDist), ("reward_ctrl", rewardCtrl), ("reward_near", rewardNear)]⟩

/-- repaired lerax: body frame origins `xpos` -/
def pusherObsL (c : Cfg α) (p : Phys α) : List α := pusherObsOf p.xpos c p
def pusherRewardL (f : Fns α) (c : Cfg α) (_prev next : Phys α) (a : List α) : Rew α :=
  pusherRewardOf f next.xpos c a
/-- pre-repair lerax: inertial-frame origins `xipos` -/
def LegacyPusherObsL (c : Cfg α) (p : Phys α) : List α := pusherObsOf p.xipos c p
def LegacyPusherRewardL (f : Fns α) (c : Cfg α) (_prev next : Phys α) (a : List α) : Rew α :=
  pusherRewardOf f next.xipos c a
def pusherObsSizeL : Nat := 23

/-- Gymnasium: `get_body_com(name) = data.body(name).xpos` -/
def pusherObsG (c : Cfg α) (p : Phys α) : List α :=
  p.qpos.take 7 ++ p.qvel.take 7 ++ row p.xpos c.tips ++ row p.xpos c.object ++ row p.xpos c.goal

def pusherRewardG (f : Fns α) (c : Cfg α) (_prev next : Phys α) (a : List α) : Rew α :=
  let vec1 := vsub (row next.xpos c.object) (row next.xpos c.tips)
  let vec2 := vsub (row next.xpos c.object) (row next.xpos c.goal)
  let rewardNear := -norm f vec1 * c.nearW
  let rewardDist := -norm f vec2 * c.distW
  let rewardCtrl := -sumSq a * c.ctrlW
  ⟨rewardDist + rewardCtrl + rewardNear,
   [("reward_dist", rewardDist), ("reward_ctrl", rewardCtrl), ("reward_near", rewardNear)]⟩

/-! ### HalfCheetah / Swimmer (`skip` leading `qpos` entries excluded) -/

def plainObs (skip : Nat) (c : Cfg α) (p : Phys α) : List α :=
  (if c.exclPos then p.qpos.drop skip else p.qpos) ++ p.qvel

def runRewardL (c : Cfg α) (prev next : Phys α) (a : List α) : Rew α :=
  let xVelocity := (at' next.qpos 0 - at' prev.qpos 0) / c.dt
  let forwardReward := c.fwdW * xVelocity
  let ctrlCost := c.ctrlW * sumSq a
  ⟨forwardReward - ctrlCost, [("reward_forward", forwardReward), ("reward_ctrl", -ctrlCost)]⟩

def runRewardG (c : Cfg α) (prev next : Phys α) (a : List α) : Rew α :=
  let xVelocity := (at' next.qpos 0 - at' prev.qpos 0) / c.dt
  let forwardReward := c.fwdW * xVelocity
  let ctrlCost := c.ctrlW * sumSq a
  let reward := forwardReward - ctrlCost
  ⟨reward, [("reward_forward", forwardReward), ("reward_ctrl", -ctrlCost)]⟩

def cheetahObsL (c : Cfg α) (p : Phys α) : List α := plainObs 1 c p
def cheetahObsG (c : Cfg α) (p : Phys α) : List α :=
  (if c.exclPos then p.qpos.drop 1 else p.qpos) ++ p.qvel
def swimmerObsL (c : Cfg α) (p : Phys α) : List α := plainObs 2 c p
def swimmerObsG (c : Cfg α) (p : Phys α) : List α :=
  (if c.exclPos then p.qpos.drop 2 else p.qpos) ++ p.qvel
def plainObsSize (skip : Nat) (c : Cfg α) (nq nv : Nat) : Nat :=
  nq + nv - (if c.exclPos then skip else 0)

/-! ### Hopper / Walker2d -/

def clippedVelObs (c : Cfg α) (p : Phys α) : List α :=
  (if c.exclPos then p.qpos.drop 1 else p.qpos) ++ p.qvel.map (clamp (-ten) ten)

def hopperHealthyL (c : Cfg α) (p : Phys α) : Bool :=
  let z := at' p.qpos 1
  let angle := at' p.qpos 2
  let state := p.qpos.drop 2 ++ p.qvel
  let healthyState := state.all (fun s => inOpen c.stLo c.stHi s)
  let healthyZ := inOpen c.zLo c.zHi z
  let healthyAngle := inOpen c.angLo c.angHi angle
  healthyState && healthyZ && healthyAngle

def hopperHealthyG (c : Cfg α) (p : Phys α) : Bool :=
  let z := at' p.qpos 1
  let angle := at' p.qpos 2
  let state := (p.qpos ++ p.qvel).drop 2
  let healthyState := state.all (fun s => inOpen c.stLo c.stHi s)
  let healthyZ := inOpen c.zLo c.zHi z
  let healthyAngle := inOpen c.angLo c.angHi angle
  [healthyState, healthyZ, healthyAngle].all id

def walkerHealthyL (c : Cfg α) (p : Phys α) : Bool :=
  inOpen c.zLo c.zHi (at' p.qpos 1) && inOpen c.angLo c.angHi (at' p.qpos 2)
def walkerHealthyG (c : Cfg α) (p : Phys α) : Bool :=
  inOpen c.zLo c.zHi (at' p.qpos 1) && inOpen c.angLo c.angHi (at' p.qpos 2)

/-- lerax: `forward_reward + healthy_reward - ctrl_cost` -/
def legRewardL (healthy : Cfg α → Phys α → Bool) (c : Cfg α) (prev next : Phys α) (a : List α) :
    Rew α :=
  let xVelocity := (at' next.qpos 0 - at' prev.qpos 0) / c.dt
  let forwardReward := c.fwdW * xVelocity
  let healthyReward := ofBool (healthy c next) * c.healthyR
  let ctrlCost := c.ctrlW * sumSq a
  ⟨forwardReward + healthyReward - ctrlCost,
   [("reward_forward", forwardReward), ("reward_survive", healthyReward),
    ("reward_ctrl", -ctrlCost)]⟩

/-- Gymnasium: `rewards = forward + healthy; costs = ctrl; reward = rewards - costs` -/
def legRewardG (healthy : Cfg α → Phys α → Bool) (c : Cfg α) (prev next : Phys α) (a : List α) :
    Rew α :=
  let xVelocity := (at' next.qpos 0 - at' prev.qpos 0) / c.dt
  let forwardReward := c.fwdW * xVelocity
  let healthyReward := ofBool (healthy c next) * c.healthyR
  let rewards := forwardReward + healthyReward
  let ctrlCost := c.ctrlW * sumSq a
  let costs := ctrlCost
  ⟨rewards - costs,
   [("reward_forward", forwardReward), ("reward_survive", healthyReward),
    ("reward_ctrl", -ctrlCost)]⟩

/-- lerax `terminal`: `False` unless `terminate_when_unhealthy`, then `~is_healthy` -/
def healthTermL (healthy : Bool) (c : Cfg α) : Bool := if !c.termUnhealthy then false else !healthy
/-- Gymnasium: `(not is_healthy) and terminate_when_unhealthy` -/
def healthTermG (healthy : Bool) (c : Cfg α) : Bool := !healthy && c.termUnhealthy

def hopperObsL (c : Cfg α) (p : Phys α) : List α := clippedVelObs c p
def hopperObsG (c : Cfg α) (p : Phys α) : List α :=
  (if c.exclPos then p.qpos.drop 1 else p.qpos) ++ p.qvel.map (clamp (-ten) ten)
def walkerObsL (c : Cfg α) (p : Phys α) : List α := clippedVelObs c p
def walkerObsG (c : Cfg α) (p : Phys α) : List α :=
  (if c.exclPos then p.qpos.drop 1 else p.qpos) ++ p.qvel.map (clamp (-ten) ten)

/-! ### Ant -/

def antClippedForces (c : Cfg α) (p : Phys α) : List (List α) :=
  p.cfrcExt.map (fun r => r.map (clipO c.cLo c.cHi))

def antContactCost (c : Cfg α) (p : Phys α) : α :=
  c.contactW * sumSq (flat (antClippedForces c p))

def antHealthyL (c : Cfg α) (p : Phys α) : Bool :=
  p.finite && inClosed c.zLo c.zHi (at' p.qpos 2)
def antHealthyG (c : Cfg α) (p : Phys α) : Bool :=
  p.finite && inClosed c.zLo c.zHi (at' (p.qpos ++ p.qvel) 2)

def antObsL (c : Cfg α) (p : Phys α) : List α :=
  let position := if c.exclPos then p.qpos.drop 2 else p.qpos
  let contactForces := if c.inclCfrc then flat ((antClippedForces c p).drop 1) else []
  position ++ p.qvel ++ contactForces

def antObsG (c : Cfg α) (p : Phys α) : List α :=
  let position := if c.exclPos then p.qpos.drop 2 else p.qpos
  if c.inclCfrc then position ++ p.qvel ++ flat ((antClippedForces c p).drop 1)
  else position ++ p.qvel

def antRewardL (c : Cfg α) (prev next : Phys α) (a : List α) : Rew α :=
  let xVelocity := (at' (row next.xpos c.mainBody) 0 - at' (row prev.xpos c.mainBody) 0) / c.dt
  let forwardReward := c.fwdW * xVelocity
  let healthyReward := ofBool (antHealthyL c next) * c.healthyR
  let ctrlCost := c.ctrlW * sumSq a
  let contactCost := antContactCost c next
  ⟨forwardReward + healthyReward - ctrlCost - contactCost,
   [("reward_forward", forwardReward), ("reward_survive", healthyReward),
    ("reward_ctrl", -ctrlCost), ("reward_contact", -contactCost)]⟩

def antRewardG (c : Cfg α) (prev next : Phys α) (a : List α) : Rew α :=
  let xVelocity := (at' (row next.xpos c.mainBody) 0 - at' (row prev.xpos c.mainBody) 0) / c.dt
  let forwardReward := xVelocity * c.fwdW
  let healthyReward := ofBool (antHealthyG c next) * c.healthyR
  let rewards := forwardReward + healthyReward
  let ctrlCost := c.ctrlW * sumSq a
  let contactCost := antContactCost c next
  let costs := ctrlCost + contactCost
  ⟨rewards - costs,
   [("reward_forward", forwardReward), ("reward_survive", healthyReward),
    ("reward_ctrl", -ctrlCost), ("reward_contact", -contactCost)]⟩

def antObsSize (c : Cfg α) (nq nv nbody : Nat) : Nat :=
  nq + nv - (if c.exclPos then 2 else 0) + (if c.inclCfrc then (nbody - 1) * 6 else 0)

/-! ### Humanoid / HumanoidStandup -/

/-- shared `observation` / `_get_obs` layout -/
def humanoidObsL (c : Cfg α) (p : Phys α) : List α :=
  let position := if c.exclPos then p.qpos.drop 2 else p.qpos
  let comInertia := if c.inclCinert then flat (p.cinert.drop 1) else []
  let comVelocity := if c.inclCvel then flat (p.cvel.drop 1) else []
  let actuatorForces := if c.inclQfrc then p.qfrcActuator.drop 6 else []
  let externalContactForces := if c.inclCfrc then flat (p.cfrcExt.drop 1) else []
  position ++ p.qvel ++ comInertia ++ comVelocity ++ actuatorForces ++ externalContactForces

def humanoidObsG (c : Cfg α) (p : Phys α) : List α :=
  let comInertia := if c.inclCinert then flat (p.cinert.drop 1) else []
  let comVelocity := if c.inclCvel then flat (p.cvel.drop 1) else []
  let actuatorForces := if c.inclQfrc then p.qfrcActuator.drop 6 else []
  let externalContactForces := if c.inclCfrc then flat (p.cfrcExt.drop 1) else []
  let position := if c.exclPos then p.qpos.drop 2 else p.qpos
  position ++ p.qvel ++ comInertia ++ comVelocity ++ actuatorForces ++ externalContactForces

def humanoidObsSize (c : Cfg α) (nq nv nbody : Nat) : Nat :=
  nq + nv - (if c.exclPos then 2 else 0)
    + (if c.inclCinert then (nbody - 1) * 10 else 0)
    + (if c.inclCvel then (nbody - 1) * 6 else 0)
    + (if c.inclQfrc then nv - 6 else 0)
    + (if c.inclCfrc then (nbody - 1) * 6 else 0)

/-- `einsum("b,bj->j", body_mass, xipos) / sum(body_mass)`, coordinate `j` -/
def massCenter (c : Cfg α) (p : Phys α) (j : Nat) : α :=
  sum (List.zipWith (fun m r => m * at' r j) c.bodyMass p.xipos) / sum c.bodyMass

def humanoidHealthy (c : Cfg α) (p : Phys α) : Bool := inOpen c.zLo c.zHi (at' p.qpos 2)

/-- repaired lerax `contact_cost`: clip the weighted cost -/
def humanoidContactCostL (c : Cfg α) (p : Phys α) : α :=
  clipO c.cLo c.cHi (c.contactW * sumSq (flat p.cfrcExt))
/-- pre-repair: clip the raw sum, then weight -/
def LegacyHumanoidContactCostL (c : Cfg α) (p : Phys α) : α :=
  c.contactW * clipO c.cLo c.cHi (sumSq (flat p.cfrcExt))
def humanoidContactCostG (c : Cfg α) (p : Phys α) : α :=
  let contactCost := c.contactW * sumSq (flat p.cfrcExt)
  clipO c.cLo c.cHi contactCost

def humanoidRewardWith (contact : Cfg α → Phys α → α) (c : Cfg α) (prev next : Phys α)
    (a : List α) : Rew α :=
  let xVelocity := (massCenter c next 0 - massCenter c prev 0) / c.dt
  let healthyReward := ofBool (humanoidHealthy c next) * c.healthyR
  let forwardReward := c.fwdW * xVelocity
  let controlCost := c.ctrlW * sumSq a
  let contactCost := contact c next
  ⟨forwardReward + healthyReward - controlCost - contactCost,
   [("reward_survive", healthyReward), ("reward_forward", forwardReward),
    ("reward_ctrl", -controlCost), ("reward_contact", -contactCost)]⟩

def humanoidRewardL (c : Cfg α) (prev next : Phys α) (a : List α) : Rew α :=
  humanoidRewardWith humanoidContactCostL c prev next a
def LegacyHumanoidRewardL (c : Cfg α) (prev next : Phys α) (a : List α) : Rew α :=
  humanoidRewardWith LegacyHumanoidContactCostL c prev next a

/-- Gymnasium: control cost on `data.ctrl`; `rewards - costs` -/
def humanoidRewardG (c : Cfg α) (prev next : Phys α) (_a : List α) : Rew α :=
  let xVelocity := (massCenter c next 0 - massCenter c prev 0) / c.dt
  let forwardReward := c.fwdW * xVelocity
  let healthyReward := ofBool (humanoidHealthy c next) * c.healthyR
  let rewards := forwardReward + healthyReward
  let ctrlCost := c.ctrlW * sumSq next.ctrl
  let contactCost := humanoidContactCostG c next
  let costs := ctrlCost + contactCost
  ⟨rewards - costs,
   [("reward_survive", healthyReward), ("reward_forward", forwardReward),
    ("reward_ctrl", -ctrlCost), ("reward_contact", -contactCost)]⟩

def standupImpactCost (c : Cfg α) (p : Phys α) : α :=
  clipO c.cLo c.cHi (c.impactW * sumSq (flat p.cfrcExt))

/-- `uph_cost - ctrl_cost - impact_cost + 1` with the height term divided by `per` -/
def standupRewardWith (per : α) (c : Cfg α) (next : Phys α) : Rew α :=
  let uphCost := c.uphW * (at' next.qpos 2 / per)
  let ctrlCost := c.ctrlW * sumSq next.ctrl
  let impactCost := standupImpactCost c next
  ⟨uphCost - ctrlCost - impactCost + 1,
   [("reward_linup", uphCost), ("reward_quadctrl", -ctrlCost), ("reward_impact", -impactCost)]⟩

/-- repaired lerax: per simulator `timestep` -/
def standupRewardL (c : Cfg α) (_prev next : Phys α) (_a : List α) : Rew α :=
  standupRewardWith c.timestep c next
/-- pre-repair: per control step `dt = timestep * frame_skip` -/
def LegacyStandupRewardL (c : Cfg α) (_prev next : Phys α) (_a : List α) : Rew α :=
  standupRewardWith c.dt c next

/-- Gymnasium v5 (`uph_cost_weight` is stored but not applied by `_get_rew`) -/
def standupRewardG (c : Cfg α) (_prev next : Phys α) (_a : List α) : Rew α :=
  let uphCost := (at' next.qpos 2 - 0) / c.timestep
  let quadCtrlCost := c.ctrlW * sumSq next.ctrl
  let quadImpactCost := clipO c.cLo c.cHi (c.impactW * sumSq (flat next.cfrcExt))
  ⟨uphCost - quadCtrlCost - quadImpactCost + 1,
   [("reward_linup", uphCost), ("reward_quadctrl", -quadCtrlCost),
    ("reward_impact", -quadImpactCost)]⟩

end

/-! ### uniform access by environment -/

inductive Env where
  | ant | halfCheetah | hopper | humanoid | humanoidStandup | invertedDoublePendulum
  | invertedPendulum | pusher | reacher | swimmer | walker2d
  deriving Repr, DecidableEq

def Env.ofString : String → Option Env
  | "Ant" => some .ant
  | "HalfCheetah" => some .halfCheetah
  | "Hopper" => some .hopper
  | "Humanoid" => some .humanoid
  | "HumanoidStandup" => some .humanoidStandup
  | "InvertedDoublePendulum" => some .invertedDoublePendulum
  | "InvertedPendulum" => some .invertedPendulum
  | "Pusher" => some .pusher
  | "Reacher" => some .reacher
  | "Swimmer" => some .swimmer
  | "Walker2d" => some .walker2d
  | _ => none

section
variable {α : Type} [Add α] [Sub α] [Mul α] [Div α] [Neg α] [Zero α] [One α] [NatCast α]
  [LT α] [DecidableLT α] [LE α] [DecidableLE α]

def obsL (f : Fns α) (c : Cfg α) (p : Phys α) : Env → List α
  | .ant => antObsL c p
  | .halfCheetah => cheetahObsL c p
  | .hopper => hopperObsL c p
  | .humanoid => humanoidObsL c p
  | .humanoidStandup => humanoidObsL c p
  | .invertedDoublePendulum => idpObsL f c p
  | .invertedPendulum => ipObsL c p
  | .pusher => pusherObsL c p
  | .reacher => reacherObsL f c p
  | .swimmer => swimmerObsL c p
  | .walker2d => walkerObsL c p

def obsG (f : Fns α) (c : Cfg α) (p : Phys α) : Env → List α
  | .ant => antObsG c p
  | .halfCheetah => cheetahObsG c p
  | .hopper => hopperObsG c p
  | .humanoid => humanoidObsG c p
  | .humanoidStandup => humanoidObsG c p
  | .invertedDoublePendulum => idpObsG f c p
  | .invertedPendulum => ipObsG c p
  | .pusher => pusherObsG c p
  | .reacher => reacherObsG f c p
  | .swimmer => swimmerObsG c p
  | .walker2d => walkerObsG c p

def rewardL (f : Fns α) (c : Cfg α) (prev next : Phys α) (a : List α) : Env → Rew α
  | .ant => antRewardL c prev next a
  | .halfCheetah => runRewardL c prev next a
  | .hopper => legRewardL hopperHealthyL c prev next a
  | .humanoid => humanoidRewardL c prev next a
  | .humanoidStandup => standupRewardL c prev next a
  | .invertedDoublePendulum => idpRewardL c prev next a
  | .invertedPendulum => ipRewardL c prev next a
  | .pusher => pusherRewardL f c prev next a
  | .reacher => reacherRewardL f c prev next a
  | .swimmer => runRewardL c prev next a
  | .walker2d => legRewardL walkerHealthyL c prev next a

def rewardG (f : Fns α) (c : Cfg α) (prev next : Phys α) (a : List α) : Env → Rew α
  | .ant => antRewardG c prev next a
  | .halfCheetah => runRewardG c prev next a
  | .hopper => legRewardG hopperHealthyG c prev next a
  | .humanoid => humanoidRewardG c prev next a
  | .humanoidStandup => standupRewardG c prev next a
  | .invertedDoublePendulum => idpRewardG c prev next a
  | .invertedPendulum => ipRewardG c prev next a
  | .pusher => pusherRewardG f c prev next a
  | .reacher => reacherRewardG f c prev next a
  | .swimmer => runRewardG c prev next a
  | .walker2d => legRewardG walkerHealthyG c prev next a

def termL (c : Cfg α) (p : Phys α) : Env → Bool
  | .ant => healthTermL (antHealthyL c p) c
  | .hopper => healthTermL (hopperHealthyL c p) c
  | .humanoid => healthTermL (humanoidHealthy c p) c
  | .walker2d => healthTermL (walkerHealthyL c p) c
  | .invertedDoublePendulum => idpTermL c p
  | .invertedPendulum => ipTermL c p
  | .halfCheetah | .humanoidStandup | .pusher | .reacher | .swimmer => false

def termG (c : Cfg α) (p : Phys α) : Env → Bool
  | .ant => healthTermG (antHealthyG c p) c
  | .hopper => healthTermG (hopperHealthyG c p) c
  | .humanoid => healthTermG (humanoidHealthy c p) c
  | .walker2d => healthTermG (walkerHealthyG c p) c
  | .invertedDoublePendulum => idpTermG c p
  | .invertedPendulum => ipTermG c p
  | .halfCheetah | .humanoidStandup | .pusher | .reacher | .swimmer => false

/-- declared `obs_size` (lerax constructor) from the model dimensions `nq nv nbody` -/
def obsSize (c : Cfg α) (nq nv nbody : Nat) : Env → Nat
  | .ant => antObsSize c nq nv nbody
  | .halfCheetah => plainObsSize 1 c nq nv
  | .hopper => plainObsSize 1 c nq nv
  | .humanoid => humanoidObsSize c nq nv nbody
  | .humanoidStandup => humanoidObsSize c nq nv nbody
  | .invertedDoublePendulum => idpObsSizeL
  | .invertedPendulum => ipObsSizeL nq nv nbody
  | .pusher => pusherObsSizeL
  | .reacher => reacherObsSizeL
  | .swimmer => plainObsSize 2 c nq nv
  | .walker2d => plainObsSize 1 c nq nv

end

/-! ### kinematics-cache state machine

  `mjx.Data` carries the generalized state `(qpos, qvel)` and *cached* derived quantities
  (`xpos xipos cinert cvel site_xpos …`, here `kin : K`) that observation and reward read.
  `FK q v` is the forward pass (`mjx.forward` / `mj_forward`); `integ q v k a` is the
  integrator of one sub-step (oracle).  One `mjx.step` / `mj_step` = forward pass at the
  current state, then integration — so after a step the cache is the forward pass of the
  state *before* the last sub-step's integration, in MJX and in MuJoCo alike.  The ghost field
  `src` records at which state the cache was computed.
-/

structure Sim (Q V K : Type) where
  qpos : Q
  qvel : V
  kin : K
  src : Q × V

section
variable {Q V K A : Type}

/-- repaired `initial()`: `make_data(...).replace(qpos, qvel)` followed by `mjx.forward` -/
def simInitial (FK : Q → V → K) (q : Q) (v : V) : Sim Q V K := ⟨q, v, FK q v, (q, v)⟩

/-- pre-repair `initial()`: the cache keeps `make_data`'s zero placeholder `k0`, which was
    computed at no state at all (`src` is a ghost and is set to the reset state to make the
    incoherence visible as `kin ≠ FK src`) -/
def LegacySimInitial (k0 : K) (q : Q) (v : V) : Sim Q V K := ⟨q, v, k0, (q, v)⟩

/-- Gymnasium `reset_model`: `set_state(qpos, qvel)` = write state + `mj_forward` -/
def gymReset (FK : Q → V → K) (q : Q) (v : V) : Sim Q V K := ⟨q, v, FK q v, (q, v)⟩

/-- one `mjx.step` / `mj_step`: forward pass, then integrate -/
def subStep (FK : Q → V → K) (integ : Q → V → K → A → Q × V) (s : Sim Q V K) (a : A) :
    Sim Q V K :=
  let k := FK s.qpos s.qvel
  let qv := integ s.qpos s.qvel k a
  ⟨qv.1, qv.2, k, (s.qpos, s.qvel)⟩

/-- `transition`: `lax.scan(step_once, data.replace(ctrl=action), length=frame_skip)`;
    Gymnasium `do_simulation`: `mj_step(model, data, nstep=frame_skip)` -/
def simTransition (FK : Q → V → K) (integ : Q → V → K → A → Q × V) :
    Nat → Sim Q V K → A → Sim Q V K
  | 0, s, _ => s
  | n + 1, s, a => simTransition FK integ n (subStep FK integ s a) a

/-- states produced by `initial` or reachable from it by transitions -/
inductive SimReach (FK : Q → V → K) (integ : Q → V → K → A → Q × V) (frameSkip : Nat) :
    Sim Q V K → Prop where
  | init (q : Q) (v : V) : SimReach FK integ frameSkip (simInitial FK q v)
  | step {s : Sim Q V K} (a : A) : SimReach FK integ frameSkip s →
      SimReach FK integ frameSkip (simTransition FK integ frameSkip s a)

/-! ### contact-force cache

  `cfrc_ext` (and `cacc`, `cfrc_int`) are *not* part of the forward pass: MuJoCo computes them only on
  request (`mj_rnePostConstraint` / `mjx.rne_postconstraint`).  Gymnasium's `do_simulation` requests
  them after the frame-skipped steps; a reset (`mj_resetData` + `set_state` + `mj_forward`) leaves them
  at zero.  `SimF` extends the machine by that cache: `frc : Option F`, `none` = the zero placeholder
  of a fresh `Data`, `some f` = forces computed by `RNE` from the state they describe. -/

structure SimF (Q V K F : Type) where
  sim : Sim Q V K
  frc : Option F

/-- reset: kinematics by the forward pass, forces zero (both lerax and Gymnasium) -/
def simFInitial {F : Type} (FK : Q → V → K) (q : Q) (v : V) : SimF Q V K F := ⟨simInitial FK q v, none⟩

/-- `transition` (repaired) = Gymnasium's `do_simulation`: step `frame_skip` times, then compute the
    force-related quantities of the state reached -/
def simFTransition {F : Type} (FK : Q → V → K) (integ : Q → V → K → A → Q × V) (RNE : Q → V → F)
    (n : Nat) (s : SimF Q V K F) (a : A) : SimF Q V K F :=
  let s' := simTransition FK integ n s.sim a
  ⟨s', some (RNE s'.qpos s'.qvel)⟩

/-- pre-repair `transition`: the post-constraint pass is never requested, the cache keeps whatever it
    held (the zero placeholder from `make_data` onwards) -/
def LegacySimFTransition {F : Type} (FK : Q → V → K) (integ : Q → V → K → A → Q × V)
    (n : Nat) (s : SimF Q V K F) (a : A) : SimF Q V K F :=
  ⟨simTransition FK integ n s.sim a, s.frc⟩

end
end Lerax.Mujoco
