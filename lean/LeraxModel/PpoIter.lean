/-
  Model of one on-policy `iteration` up to the minibatches handed to the loss
  (`/repo/src/lerax/algorithm/on_policy.py:283-300, 435-449`; `ppo.py:240-290`):

    per environment (under `filter_vmap`):  collect_rollout  =  scan step ; post_collect
       post_collect:  obs = observation(final env state, post_collect_key)
                      last = policy.value(final policy state, obs)
                      buffer.compute_returns_and_advantages(last, λ, γ)
    train_epoch:     flat = buffer.flatten_axes();  indices = flat.batch_indices(B, key)
                     for idx in indices:  batch = flat.gather(idx);  loss(policy, batch)

  A collected sample annotated with its advantage and return is one value `Row × α × α`; the
  buffer handed to `train` is a list (environments) of lists (steps) of such samples.
-/
import LeraxModel.OnPolicy
import LeraxModel.Gae
import LeraxModel.Batching
import LeraxModel.Loss
namespace Lerax.PpoIter
open Lerax.Env Lerax.OnPolicy Lerax.Gae Lerax.Batching Lerax.Loss

section
variable {S A O K PS M α : Type} [Keys K] [Add α] [Mul α] [Sub α] [Zero α] [One α]

/-- `compute_returns_and_advantages` on one environment's rows: every row keeps its own
    advantage / return (the three arrays share the step axis) -/
def annotate (gamma lam : α) (rows : List (Row PS O A M α)) (last : α) : List (Row PS O A M α × α × α) :=
  let out := gae gamma lam (rows.map (·.reward)) (rows.map (·.value)) (rows.map (·.done)) last
  rows.zip (out.advantages.zip out.returns)

/-- `collect_rollout` incl. `post_collect` for one environment: `key, post_key = split(key, 2)`,
    `stepKeys = split(key, num_steps)` (the caller passes both) -/
def collectAndProcess (E : Env S A O α K) (actionMask : S → K → Option M) (clip : A → A)
    (P : Policy PS O A M α K) (gamma lam : α) (st : StepState S PS) (stepKeys : List K) (postKey : K) :
    StepState S PS × List (Row PS O A M α × α × α) :=
  let (stN, rows) := collectRollout E actionMask clip P gamma st stepKeys
  let last := P.value stN.policy (E.observation stN.env postKey)
  (stN, annotate gamma lam rows last)

/-- the vectorised collection of `iteration`: one independent `collect_rollout` per environment -/
def iterationBuffer (E : Env S A O α K) (actionMask : S → K → Option M) (clip : A → A)
    (P : Policy PS O A M α K) (gamma lam : α) (envs : List (StepState S PS × List K × K)) :
    List (List (Row PS O A M α × α × α)) :=
  envs.map (fun e => (collectAndProcess E actionMask clip P gamma lam e.1 e.2.1 e.2.2).2)

/-- the loss inputs of one gathered minibatch under policy `P'` (entropies are whatever the
    policy's distribution reports — an oracle of the sample) -/
def lossSamples (P' : Policy PS O A M α K) (ent : Row PS O A M α → α)
    (mb : List (Row PS O A M α × α × α)) : List (Sample α) :=
  mb.map (fun x =>
    let ev := P'.evaluate x.1.policyState x.1.observation x.1.action x.1.mask
    { logpNew := ev.2, vNew := ev.1, entropy := ent x.1, logpOld := x.1.logProb, vOld := x.1.value,
      ret := x.2.2, adv := x.2.1 })

end
end Lerax.PpoIter
