/-
  Model of the action-selection logic of lerax's policies:

  * `policy/actor.py:ActionLayer.__call__` — the head's law, masked iff a mask is given and the
    law is maskable (`Categorical`, `Bernoulli`, `MultiCategorical`);
  * `policy/actor_critic/mlp.py:MLPActorCriticPolicy.__call__ / action_and_value /
    evaluate_action` — `key = None ⇒ mode`, otherwise a sample; the log-probability is taken
    from the *same* law object as the action and summed over its components;
  * `policy/q/base_q.py:AbstractQPolicy.__call__` — ε-greedy over the masked soft-max of the
    Q-values;
  * `policy/sac/mlp.py:MLPSACPolicy.__call__ / action_and_log_prob` — squashed normal.

  Network outputs (logits, means, values, Q-values) and PRNG draws are oracle parameters.
-/
import LeraxModel.Dist

namespace Lerax.Policy
open Lerax.Dist

section
variable {α : Type} [Add α] [Sub α] [Mul α] [Div α] [Neg α] [Zero α] [One α] [LT α] [DecidableLT α]

/-- the law an action head produces -/
inductive Law (α : Type) where
  | cat (c : Cat α)                -- `Discrete`        → `Categorical`
  | bern (bs : List (Bern α))      -- `MultiBinary`     → `Bernoulli` (vector of bits)
  | multicat (mc : MultiCat α)     -- `MultiDiscrete`   → `MultiCategorical`
  | normal (d : Normal α)          -- scalar `Box`      → `Normal`
  | diag (d : DiagNormal α)        -- `Box`             → `MultivariateNormalDiag`

/-- an action -/
inductive Act (α : Type) where
  | idx (n : Nat)
  | bits (bs : List Bool)
  | idxs (ns : List Nat)
  | real (x : α)
  | reals (xs : List α)

/-- an action mask: one boolean per category / bit, or one list per component -/
inductive Mask where
  | flat (m : List Bool)
  | seq (ms : List (List Bool))

/-- the PRNG draw consumed by `sample` -/
inductive Noise (α : Type) where
  | gumbel (g : List α)            -- `jax.random.categorical`
  | unif (us : List α)             -- `jax.random.bernoulli`
  | gumbels (gs : List (List α))   -- one per component (`jax.random.split`)
  | z (z : α)                      -- `jax.random.normal`
  | zs (zs : List α)

/-- `isinstance(dist, AbstractMaskableDistribution)` -/
def Law.maskable : Law α → Bool
  | .cat _ => true
  | .bern _ => true
  | .multicat _ => true
  | .normal _ => false
  | .diag _ => false

variable (exp log : α → α)

def maskBits : List (Bern α) → List Bool → List (Bern α)
  | b :: bs, m :: ms => b.mask log m :: maskBits bs ms
  | _, _ => []

/-- `dist.mask(action_mask)` -/
def Law.mask : Law α → Mask → Law α
  | .cat c, .flat m => .cat (c.mask exp log m)
  | .bern bs, .flat m => .bern (maskBits log bs m)
  | .multicat mc, .flat m => .multicat (mc.maskFlat exp log m)
  | .multicat mc, .seq ms => .multicat (mc.maskSeq exp log ms)
  | l, _ => l

/-- `ActionLayer.__call__(features, action_mask)` given the head's law for these features -/
def actionLayer (head : Law α) (mask : Option Mask) : Law α :=
  match mask with
  | some m => if head.maskable then head.mask exp log m else head
  | none => head

/-- `dist.mode()` -/
def Law.mode : Law α → Act α
  | .cat c => .idx c.mode
  | .bern bs => .bits (bs.map (Bern.mode exp))
  | .multicat mc => .idxs (MultiCat.mode mc)
  | .normal d => .real d.mode
  | .diag d => .reals d.mode

def sampleBits : List (Bern α) → List α → List Bool
  | b :: bs, u :: us => b.sample exp u :: sampleBits bs us
  | _, _ => []

/-- `dist.sample(key)`; a draw of the wrong kind yields the mode (never happens) -/
def Law.sample : Law α → Noise α → Act α
  | .cat c, .gumbel g => .idx (c.sample log g)
  | .bern bs, .unif us => .bits (sampleBits exp bs us)
  | .multicat mc, .gumbels gs => .idxs (MultiCat.sample log mc gs)
  | .normal d, .z z => .real (d.sample z)
  | .diag d, .zs zs => .reals (d.sample zs)
  | l, _ => l.mode exp

def bitLogProbs : List (Bern α) → List Bool → List (Option α)
  | b :: bs, v :: vs => b.logProb exp log v :: bitLogProbs bs vs
  | _, _ => []

/-- `dist.log_prob(action).sum()` : the log-probability summed over the components -/
def Law.logProb (c : α) : Law α → Act α → Option α
  | .cat d, .idx n => d.logProb log (Int.ofNat n)
  | .bern bs, .bits vs => esum (bitLogProbs exp log bs vs)
  | .multicat mc, .idxs ns => MultiCat.logProb log mc (ns.map Int.ofNat)
  | .normal d, .real x => some (d.logProb log c x)
  | .diag d, .reals xs => some (d.logProb log c xs)
  | _, _ => none

/-- `dist.sample_and_log_prob(key)` followed by `.sum()` -/
def Law.sampleAndLogProb (c : α) : Law α → Noise α → Act α × Option α
  | .normal d, .z z => let r := d.sampleAndLogProb log c z; (.real r.1, some r.2)
  | .diag d, .zs zs => let r := d.sampleAndLogProb log c zs; (.reals r.1, some r.2)
  | l, nz => let a := l.sample exp log nz; (a, l.logProb exp log c a)

/-! ### actor-critic policy -/

/-- `MLPActorCriticPolicy.__call__` : the mode without a key, a sample with one -/
def acCall (head : Law α) (mask : Option Mask) (key : Option (Noise α)) : Act α :=
  let dist := actionLayer exp log head mask
  match key with
  | none => dist.mode exp
  | some nz => dist.sample exp log nz

/-- `action_and_value` : (action, value, summed log-probability) -/
def acActionAndValue (c : α) (head : Law α) (value : α) (mask : Option Mask) (nz : Noise α) :
    Act α × α × Option α :=
  let dist := actionLayer exp log head mask
  let r := dist.sampleAndLogProb exp log c nz
  (r.1, value, r.2)

/-- `evaluate_action` : (value, summed log-probability of the given action) -/
def acEvaluate (c : α) (head : Law α) (value : α) (mask : Option Mask) (a : Act α) : α × Option α :=
  let dist := actionLayer exp log head mask
  (value, dist.logProb exp log c a)

/-! ### Q policy -/

/-- `Categorical(logits=q_vals)` masked if a mask is given -/
def qDist (q : List α) (mask : Option (List Bool)) : Cat α :=
  let d := Cat.ofLogits exp log (q.map some)
  match mask with
  | some m => d.mask exp log m
  | none => d

/-- `AbstractQPolicy.__call__` : `key = (u, gumbel)` are the two draws (`jr.split(key, 2)`);
    greedy when there is no key or `ε ≤ 0`, otherwise a soft-max sample iff `u < ε` -/
def qSelect (q : List α) (mask : Option (List Bool)) (eps : α) (key : Option (α × List α)) : Nat :=
  let d := qDist exp log q mask
  match key with
  | none => d.mode
  | some (u, g) =>
      if 0 < eps then (if u < eps then d.sample log g else d.mode) else d.mode

/-! ### SAC policy -/

/-- `MLPSACPolicy.__call__` for a scalar action -/
def sacCall (sig : α → α) (d : SquashedNormal α) (key : Option α) : α :=
  match key with
  | none => d.mode sig
  | some z => d.sample sig z

/-- `action_and_log_prob` -/
def sacActionAndLogProb (sig : α → α) (c : α) (d : SquashedNormal α) (z : α) : α × α :=
  d.sampleAndLogProb exp log sig c z

def sacCallDiag (sig : α → α) (d : SquashedDiag α) (key : Option (List α)) : List α :=
  match key with
  | none => d.mode sig
  | some z => d.sample sig z

def sacActionAndLogProbDiag (sig : α → α) (c : α) (d : SquashedDiag α) (z : List α) : List α × α :=
  d.sampleAndLogProb exp log sig c z

end

/-! ## Executable form of the property (Φ) -/

/-- an action respects a mask: the chosen category is allowed (per component), a chosen bit is
    an allowed bit -/
def allowedAct {α : Type} (dims : List Nat) : Mask → Act α → Bool
  | .flat m, .idx n => m.getD n false
  | .flat m, .bits bs => allZip (fun (b : Bool) (a : Bool) => !b || a) bs m
  | .flat m, .idxs ns => allZip (fun (mi : List Bool) n => mi.getD n false) (splitBy dims m) ns
  | .seq ms, .idxs ns => allZip (fun (mi : List Bool) n => mi.getD n false) ms ns
  | _, _ => false

end Lerax.Policy
