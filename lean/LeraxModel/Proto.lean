/-
  Line protocol shared by the driver and the Python harness.

  A value `V` is JSON with one extension: floats cross the pipe as IEEE-754 bit patterns
  (`{"f": u64}` for a scalar, `{"F": [u64, ...]}` for a flat array) so that no precision is
  lost in either direction (Lean's `Float.toString` keeps six decimals only).  Plain JSON
  integers are `V.i`, booleans `V.b`, strings `V.s`, lists `V.l`, objects `V.o`.
-/
import Lean.Data.Json

namespace Lerax.Proto
open Lean

inductive V where
  | null
  | b (x : Bool)
  | i (x : Int)
  | f (x : Float)
  | s (x : String)
  | l (xs : List V)
  | o (kvs : List (String × V))
  deriving Inhabited

abbrev R := Except String

partial def V.ofJson : Json → R V
  | .null => pure .null
  | .bool x => pure (.b x)
  | .num n =>
      if n.exponent == 0 then pure (.i n.mantissa) else pure (.f n.toFloat)
  | .str x => pure (.s x)
  | .arr xs => do
      let ys ← xs.toList.mapM V.ofJson
      pure (.l ys)
  | .obj kvs => do
      let items := kvs.toList
      match items with
      | [("f", .num n)] =>
          if n.exponent == 0 then pure (.f (Float.ofBits n.mantissa.toNat.toUInt64))
          else throw "bad float bits"
      | [("F", .arr xs)] => do
          let ys ← xs.toList.mapM (fun j => match j with
            | .num n => if n.exponent == 0 then pure (V.f (Float.ofBits n.mantissa.toNat.toUInt64))
                        else throw "bad float bits"
            | _ => throw "bad float bits")
          pure (.l ys)
      | _ => do
          let ys ← items.mapM (fun (k, v) => do let v' ← V.ofJson v; pure (k, v'))
          pure (.o ys)

partial def V.toJson : V → Json
  | .null => .null
  | .b x => .bool x
  | .i x => .num ⟨x, 0⟩
  | .f x => Json.mkObj [("f", .num ⟨Int.ofNat x.toBits.toNat, 0⟩)]
  | .s x => .str x
  | .l xs => .arr (xs.map V.toJson).toArray
  | .o kvs => Json.mkObj (kvs.map (fun (k, v) => (k, V.toJson v)))

def V.get (v : V) (k : String) : R V :=
  match v with
  | .o kvs => match kvs.find? (·.1 == k) with
      | some (_, x) => pure x
      | none => throw s!"missing field {k}"
  | _ => throw s!"not an object (field {k})"

def V.get? (v : V) (k : String) : Option V :=
  match v with
  | .o kvs => (kvs.find? (·.1 == k)).map (·.2)
  | _ => none

def V.asF : V → R Float
  | .f x => pure x
  | .i x => pure (Float.ofInt x)
  | .b x => pure (if x then 1.0 else 0.0)
  | _ => throw "expected float"

def V.asI : V → R Int
  | .i x => pure x
  | .b x => pure (if x then 1 else 0)
  | _ => throw "expected int"

def V.asN (v : V) : R Nat := do
  let x ← v.asI
  if x < 0 then throw "expected nat" else pure x.toNat

def V.asB : V → R Bool
  | .b x => pure x
  | .i x => pure (x != 0)
  | _ => throw "expected bool"

def V.asS : V → R String
  | .s x => pure x
  | _ => throw "expected string"

def V.asL : V → R (List V)
  | .l xs => pure xs
  | _ => throw "expected list"

def V.asFs (v : V) : R (List Float) := do (← v.asL).mapM V.asF
def V.asIs (v : V) : R (List Int) := do (← v.asL).mapM V.asI
def V.asNs (v : V) : R (List Nat) := do (← v.asL).mapM V.asN
def V.asBs (v : V) : R (List Bool) := do (← v.asL).mapM V.asB
def V.asFss (v : V) : R (List (List Float)) := do (← v.asL).mapM V.asFs
def V.asNss (v : V) : R (List (List Nat)) := do (← v.asL).mapM V.asNs
def V.asBss (v : V) : R (List (List Bool)) := do (← v.asL).mapM V.asBs

def V.fs (xs : List Float) : V := .l (xs.map .f)
def V.ns (xs : List Nat) : V := .l (xs.map (fun n => .i (Int.ofNat n)))
def V.is (xs : List Int) : V := .l (xs.map .i)
def V.bs (xs : List Bool) : V := .l (xs.map .b)
def V.n (x : Nat) : V := .i (Int.ofNat x)

/-- tolerance relation used when Φ is decided on implementation outputs -/
structure Tol where
  atol : Float
  rtol : Float

def Tol.close (t : Tol) (x y : Float) : Bool :=
  if x.isNaN || y.isNaN then x.isNaN && y.isNaN
  else if x == y then true
  else
    let d := (x - y).abs
    let m := if x.abs < y.abs then y.abs else x.abs
    d ≤ t.atol + t.rtol * m

def Tol.closeL (t : Tol) : List Float → List Float → Bool
  | [], [] => true
  | x :: xs, y :: ys => t.close x y && Tol.closeL t xs ys
  | _, _ => false

def V.asTol (v : V) : R Tol := do
  let a ← (← v.get "atol").asF
  let r ← (← v.get "rtol").asF
  pure ⟨a, r⟩

/-- result of deciding Φ on one case: `ok`, or the name of the first clause that failed -/
def phiResult (clauses : List (String × Bool)) : V :=
  match clauses.find? (fun c => !c.2) with
  | none => .o [("phi", .b true)]
  | some (name, _) => .o [("phi", .b false), ("clause", .s name)]

end Lerax.Proto
