/-
  Model of lerax's action distributions (`/repo/src/lerax/distribution/*.py`) together with the
  distreqx formulas they delegate to (`distreqx/distributions/{_categorical,_bernoulli,_normal,
  _mvn_diag,_transformed}.py`, `distreqx/bijectors/{_sigmoid,_scalar_affine,_chain,_block}.py`,
  `distreqx/utils/math.py`).

  * Numbers are an arbitrary type `α` with core arithmetic classes.  `exp` and `log` are function
    parameters; `sigmoid`/`softplus` are *defined* from them as distreqx/jax define them.
  * Extended logits are `Option α`; `none` stands for `-∞` (what `jnp.where(mask, logits, -inf)`
    produces), `exp none = 0`.
  * PRNG draws are oracle parameters: the Gumbel noise of `jax.random.categorical`
    (`argmax (logits + g)`), the uniform of `jax.random.bernoulli` (`u < p`), the standard
    normal `z` of `jax.random.normal`.
  * Index results (`mode`, `sample`) are natural numbers: lerax computes them with JAX's default
    integer type (it does not inherit distreqx's `int8` cast).
-/
namespace Lerax.Dist

/-! ## generic list helpers -/

section
variable {β : Type}

/-- first arg-max of the non-empty list `x :: xs` under the strict order `lt`, with its value -/
def argmaxV (lt : β → β → Bool) : β → List β → Nat × β
  | x, [] => (0, x)
  | x, y :: ys =>
      let r := argmaxV lt y ys
      if lt x r.2 then (r.1 + 1, r.2) else (0, x)

/-- `jnp.argmax` (first maximal index; `0` for the empty list) -/
def argmax (lt : β → β → Bool) : List β → Nat
  | [] => 0
  | x :: xs => (argmaxV lt x xs).1

/-- `jnp.split(arr, cumsum(dims[:-1]))` for an array of length `sum dims` -/
def splitBy : List Nat → List β → List (List β)
  | [], _ => []
  | d :: ds, xs => xs.take d :: splitBy ds (xs.drop d)

end

section
variable {α : Type}

/-! ## extended numbers (`none = -∞`) -/

/-- `exp` on extended numbers, `exp (-∞) = 0` -/
def eexp [Zero α] (exp : α → α) : Option α → α
  | none => 0
  | some x => exp x

/-- strict order on extended numbers: `-∞` is below every finite number -/
def elt [LT α] [DecidableLT α] : Option α → Option α → Bool
  | none, none => false
  | none, some _ => true
  | some _, none => false
  | some a, some b => decide (a < b)

/-- strict order on plain numbers as a `Bool` -/
def flt [LT α] [DecidableLT α] (a b : α) : Bool := decide (a < b)

/-- extended addition (`-∞ + x = -∞`) -/
def eadd [Add α] : Option α → Option α → Option α
  | some a, some b => some (a + b)
  | _, _ => none

/-- `jnp.sum` of extended numbers -/
def esum [Add α] [Zero α] : List (Option α) → Option α
  | [] => some 0
  | x :: xs => eadd x (esum xs)

/-- `jnp.log p` with `log 0 = -∞` -/
def logE [Zero α] [LT α] [DecidableLT α] (log : α → α) (p : α) : Option α :=
  if 0 < p then some (log p) else none

/-- `jnp.where(mask, logits, -inf)` -/
def maskLogits : List Bool → List (Option α) → List (Option α)
  | m :: ms, l :: ls => (if m then l else none) :: maskLogits ms ls
  | _, _ => []

/-- `logits + noise` (a missing noise entry counts as `0`) -/
def addNoise [Add α] : List (Option α) → List α → List (Option α)
  | [], _ => []
  | l :: ls, [] => l :: addNoise ls []
  | l :: ls, g :: gs => l.map (· + g) :: addNoise ls gs

/-- `1/2` -/
def half [One α] [Add α] [Div α] : α := 1 / (1 + 1)

end

/-! ## categorical -/

section
variable {α : Type} [Add α] [Sub α] [Mul α] [Div α] [Neg α] [Zero α] [One α] [LT α] [DecidableLT α]
variable (exp log : α → α)

/-- `Σ_j exp l_j` -/
def sumExp (l : List (Option α)) : α := (l.map (eexp exp)).sum

/-- `jax.nn.log_softmax` : `l_i - log Σ_j exp l_j` (jax first subtracts `max l`, an identity) -/
def logSoftmax (l : List (Option α)) : List (Option α) :=
  let z := log (sumExp exp l)
  l.map (fun x => x.map (· - z))

/-- `jax.nn.softmax` -/
def softmax (l : List (Option α)) : List α :=
  let s := sumExp exp l
  l.map (fun x => eexp exp x / s)

/-- `normalize(probs=p) = p / p.sum()` -/
def normalizeProbs (p : List α) : List α :=
  let s := p.sum
  p.map (· / s)

/-- distreqx `Categorical`: it stores either normalised logits or normalised probabilities -/
inductive Cat (α : Type) where
  | logits (l : List (Option α))
  | probs (p : List α)

/-- `Categorical(logits=l)` -/
def Cat.ofLogits (l : List (Option α)) : Cat α := .logits (logSoftmax exp log l)

/-- `Categorical(probs=p)` -/
def Cat.ofProbs (p : List α) : Cat α := .probs (normalizeProbs p)

def Cat.n : Cat α → Nat
  | .logits l => l.length
  | .probs p => p.length

/-- property `logits` -/
def Cat.getLogits : Cat α → List (Option α)
  | .logits l => l
  | .probs p => p.map (logE log)

/-- property `probs` -/
def Cat.getProbs : Cat α → List α
  | .logits l => softmax exp l
  | .probs p => p

/-- `log_prob(v)`: `-∞` outside `{0..n-1}`, else the `v`-th logit -/
def Cat.logProb (c : Cat α) (v : Int) : Option α :=
  if v < 0 ∨ (c.n : Int) ≤ v then none else (c.getLogits log).getD v.toNat none

/-- `prob(v)`: `0` outside `{0..n-1}` (the one-hot vector is zero), else the `v`-th probability -/
def Cat.prob (c : Cat α) (v : Int) : α :=
  if v < 0 ∨ (c.n : Int) ≤ v then 0 else (c.getProbs exp).getD v.toNat 0

/-- `mul_exp(x, x)` : `x·exp x`, `0` where `exp x = 0` -/
def entTerm : Option α → α
  | none => 0
  | some x => x * exp x

/-- `entropy()` : `-Σ mul_exp(lp, lp)`, `lp = log_softmax(_logits)` resp. `log(_probs)` -/
def Cat.entropy : Cat α → α
  | .logits l => -(((logSoftmax exp log l).map (entTerm exp)).sum)
  | .probs p => -(((p.map (logE log)).map (entTerm exp)).sum)

/-- `mode()` : first arg-max of the stored parameter -/
def Cat.mode : Cat α → Nat
  | .logits l => argmax elt l
  | .probs p => argmax flt p

/-- `sample(key)` : `jax.random.categorical(key, logits) = argmax (logits + gumbel)` -/
def Cat.sample (c : Cat α) (noise : List α) : Nat :=
  argmax elt (addNoise (c.getLogits log) noise)

/-- `sample_and_log_prob(key)` : the sample and `log_prob` of it -/
def Cat.sampleAndLogProb (c : Cat α) (noise : List α) : Nat × Option α :=
  let s := c.sample log noise
  (s, c.logProb log (Int.ofNat s))

/-- `mask(m)` : `Categorical(logits = where(m, self.logits, -inf))` -/
def Cat.mask (c : Cat α) (m : List Bool) : Cat α :=
  Cat.ofLogits exp log (maskLogits m (c.getLogits log))

/-! ## Bernoulli (one bit; lerax's `Bernoulli` is a vector of independent bits whose
    `log_prob`/`prob`/`entropy` are returned per bit) -/

/-- `jax.nn.sigmoid` -/
def sigmoid (x : α) : α := 1 / (1 + exp (-x))

/-- `jax.nn.softplus` -/
def softplus (x : α) : α := log (1 + exp x)

inductive Bern (α : Type) where
  | ofLogit (l : Option α)
  | ofProb (p : α)

/-- property `probs` (probability of `1`) -/
def Bern.p1 : Bern α → α
  | .ofLogit none => 0
  | .ofLogit (some x) => sigmoid exp x
  | .ofProb p => p

/-- `_log_probs_parameter()` : (log P(0), log P(1)) -/
def Bern.logP0 : Bern α → Option α
  | .ofLogit none => some 0
  | .ofLogit (some x) => some (-(softplus exp log x))
  | .ofProb p => logE log (1 - p)

def Bern.logP1 : Bern α → Option α
  | .ofLogit none => none
  | .ofLogit (some x) => some (-(softplus exp log (-x)))
  | .ofProb p => logE log p

def Bern.logProb (b : Bern α) (v : Bool) : Option α := if v then b.logP1 exp log else b.logP0 exp log

def Bern.prob (b : Bern α) (v : Bool) : α := if v then b.p1 exp else 1 - b.p1 exp

/-- `multiply_no_nan(x, y)` with an extended first argument: `0` where `x = -∞` (then `y = 0`) -/
def mnn : Option α → α → α
  | none, _ => 0
  | some x, y => x * y

/-- `_probs_and_log_probs` : P(0) as the entropy computes it -/
def Bern.q0 : Bern α → α
  | .ofLogit none => 1
  | .ofLogit (some x) => sigmoid exp (-x)
  | .ofProb p => 1 - p

def Bern.q1 : Bern α → α
  | .ofLogit none => 0
  | .ofLogit (some x) => sigmoid exp x
  | .ofProb p => 1 - (1 - p)

def Bern.entropy (b : Bern α) : α :=
  -(mnn (b.logP0 exp log) (b.q0 exp) + mnn (b.logP1 exp log) (b.q1 exp))

/-- `mode()` : `probs > 0.5` -/
def Bern.mode (b : Bern α) : Bool := decide (half < b.p1 exp)

/-- `mean()` -/
def Bern.mean (b : Bern α) : α := b.p1 exp

/-- `sample(key)` : `jax.random.bernoulli(key, p) = (u < p)`, `u ∈ [0,1)` the uniform draw -/
def Bern.sample (b : Bern α) (u : α) : Bool := decide (u < b.p1 exp)

/-- `mask(m)` : `Bernoulli(logits = where(m, self.logits, -inf))` (a masked bit is forced to `0`);
    for the probability form `self.logits = log p − log(1−p)` (finite for `0 < p < 1`) -/
def Bern.mask (b : Bern α) (m : Bool) : Bern α :=
  if m then
    (match b with
     | .ofLogit l => .ofLogit l
     | .ofProb p => .ofLogit (some (log p - log (1 - p))))
  else .ofLogit none

/-! ## multi-categorical : a tuple of independent categoricals -/

abbrev MultiCat (α : Type) := List (Cat α)

/-- `MultiCategorical(logits=[...])` (sequence form) -/
def MultiCat.ofLogitsSeq (pieces : List (List (Option α))) : MultiCat α :=
  pieces.map (Cat.ofLogits exp log)

/-- `MultiCategorical(logits=flat, action_dims=dims)` (flat form) -/
def MultiCat.ofLogitsFlat (dims : List Nat) (flat : List (Option α)) : MultiCat α :=
  MultiCat.ofLogitsSeq exp log (splitBy dims flat)

def MultiCat.ofProbsSeq (pieces : List (List α)) : MultiCat α := pieces.map Cat.ofProbs

def MultiCat.ofProbsFlat (dims : List Nat) (flat : List α) : MultiCat α :=
  MultiCat.ofProbsSeq (splitBy dims flat)

def MultiCat.dims (mc : MultiCat α) : List Nat := mc.map Cat.n

/-- per-component log-probabilities of the value vector -/
def MultiCat.logProbs : MultiCat α → List Int → List (Option α)
  | c :: cs, v :: vs => c.logProb log v :: MultiCat.logProbs cs vs
  | _, _ => []

/-- `log_prob(v) = Σ_i log_prob_i(v_i)` -/
def MultiCat.logProb (mc : MultiCat α) (vs : List Int) : Option α := esum (mc.logProbs log vs)

/-- `prob(v) = exp(log_prob(v))` -/
def MultiCat.prob (mc : MultiCat α) (vs : List Int) : α := eexp exp (mc.logProb log vs)

/-- `entropy() = Σ_i entropy_i` -/
def MultiCat.entropy (mc : MultiCat α) : α := (mc.map (Cat.entropy exp log)).sum

def MultiCat.mode (mc : MultiCat α) : List Nat := mc.map Cat.mode

/-- `sample(key)` : one independent noise vector per component (`jax.random.split`) -/
def MultiCat.sample : MultiCat α → List (List α) → List Nat
  | c :: cs, g :: gs => c.sample log g :: MultiCat.sample cs gs
  | c :: cs, [] => c.sample log [] :: MultiCat.sample cs []
  | [], _ => []

def MultiCat.sampleAndLogProb (mc : MultiCat α) (noise : List (List α)) : List Nat × Option α :=
  let s := mc.sample log noise
  (s, mc.logProb log (s.map Int.ofNat))

/-- `mask(m)` with the mask given per component: the masked logits are concatenated and the law
    rebuilt through the flat constructor, exactly as lerax does -/
def MultiCat.maskSeq (mc : MultiCat α) (ms : List (List Bool)) : MultiCat α :=
  MultiCat.ofLogitsFlat exp log mc.dims
    (List.zipWith (fun c m => maskLogits m (c.getLogits log)) mc ms).flatten

/-- `mask(m)` with a flat mask, split by the law's own `action_dims` -/
def MultiCat.maskFlat (mc : MultiCat α) (m : List Bool) : MultiCat α :=
  mc.maskSeq exp log (splitBy mc.dims m)

/-! ## normal -/

/-- distreqx `Normal(loc, scale)`; `c = ½·log 2π` is a parameter -/
structure Normal (α : Type) where
  loc : α
  scale : α

/-- `-0.5·z²` -/
def negHalfSq (z : α) : α := -(half * (z * z))

def Normal.logProb (c : α) (d : Normal α) (x : α) : α :=
  negHalfSq ((x - d.loc) / d.scale) - (c + log d.scale)

def Normal.prob (c : α) (d : Normal α) (x : α) : α := exp (d.logProb log c x)

def Normal.entropy (c : α) (d : Normal α) : α := half + (c + log d.scale)

def Normal.mean (d : Normal α) : α := d.loc
def Normal.mode (d : Normal α) : α := d.loc

/-- `sample(key) = scale·z + loc` -/
def Normal.sample (d : Normal α) (z : α) : α := d.scale * z + d.loc

/-- `sample_and_log_prob(key)` computes the log-density from the noise directly -/
def Normal.sampleAndLogProb (c : α) (d : Normal α) (z : α) : α × α :=
  (d.scale * z + d.loc, negHalfSq z - c - log d.scale)

/-! ## diagonal normal : `Transformed(Independent(Normal(0,1)), Chain[Shift(loc), DiagLinear(σ)])` -/

def absv (x : α) : α := if x < 0 then -x else x

structure DiagNormal (α : Type) where
  loc : List α
  scale : List α

/-- standard-normal log-density as distreqx's `Normal(0,1).log_prob` computes it -/
def stdLogProb (c : α) (z : α) : α := Normal.logProb log c ⟨0, 1⟩ z

/-- `bijector.inverse` : `(1/σ)·((v − μ)·1 − 0)` (written `(v − μ)/σ`) -/
def DiagNormal.standardize (d : DiagNormal α) (v : List α) : List α :=
  List.zipWith (fun x ms => (x - ms.1) / ms.2) v (d.loc.zip d.scale)

/-- `log|det J|` of the forward map: `Σ log|σ_i|` -/
def DiagNormal.logDet (d : DiagNormal α) : α := (d.scale.map (fun s => log (absv s))).sum

/-- `log_prob(v) = Σ_i logN(z_i; 0, 1) − Σ_i log|σ_i|` -/
def DiagNormal.logProb (c : α) (d : DiagNormal α) (v : List α) : α :=
  ((d.standardize v).map (stdLogProb log c)).sum - d.logDet log

def DiagNormal.prob (c : α) (d : DiagNormal α) (v : List α) : α := exp (d.logProb log c v)

/-- `entropy() = Σ_i H(N(0,1)) + Σ_i log|σ_i|` -/
def DiagNormal.entropy (c : α) (d : DiagNormal α) : α :=
  (d.loc.map (fun _ => Normal.entropy log c ⟨0, 1⟩)).sum + d.logDet log

def DiagNormal.mean (d : DiagNormal α) : List α := d.loc
def DiagNormal.mode (d : DiagNormal α) : List α := d.loc

/-- `sample(key) = σ·z + μ` component-wise -/
def DiagNormal.sample (d : DiagNormal α) (z : List α) : List α :=
  List.zipWith (fun zi ms => ms.2 * zi + ms.1) z (d.loc.zip d.scale)

def DiagNormal.sampleAndLogProb (c : α) (d : DiagNormal α) (z : List α) : List α × α :=
  (d.sample z, (z.map (stdLogProb log c)).sum - d.logDet log)

/-- the components of a diagonal normal as scalar normals -/
def DiagNormal.components (d : DiagNormal α) : List (Normal α) :=
  List.zipWith (fun m s => ⟨m, s⟩) d.loc d.scale

/-! ## squashed laws : `Transformed(base, Chain[ScalarAffine(hi−lo, lo), Sigmoid])` -/

/-- the squashing bijector `g x = lo + (hi − lo)·σ(x)`; `sig` is the sigmoid used by the
    forward pass (a function parameter: distreqx uses `exp x` below `−9`) -/
structure Squash (α : Type) where
  lo : α
  hi : α

def Squash.forward (sig : α → α) (q : Squash α) (x : α) : α := (q.hi - q.lo) * sig x + q.lo

/-- `log|g'(x)| = −softplus(−x) − softplus(x) + log|hi − lo|` -/
def Squash.fldj (q : Squash α) (x : α) : α :=
  (-(softplus exp log (-x)) - softplus exp log x) + log (absv (q.hi - q.lo))

/-- `g⁻¹ y` : `u = (1/(hi−lo))·(y − lo)`, `x = log u − log(1 − u)` -/
def Squash.inverse (q : Squash α) (y : α) : α :=
  let u := (1 / (q.hi - q.lo)) * (y - q.lo)
  log u - log (1 - u)

/-- `log|(g⁻¹)'(y)|` as the chain accumulates it: `−log|hi−lo| + (softplus(−x) + softplus(x))` -/
def Squash.ildj (q : Squash α) (y : α) : α :=
  -(log (absv (q.hi - q.lo)))
    + -(-(softplus exp log (-(q.inverse log y))) - softplus exp log (q.inverse log y))

structure SquashedNormal (α : Type) where
  base : Normal α
  sq : Squash α

/-- `log_prob(y) = logN(g⁻¹ y) + log|(g⁻¹)'(y)|` -/
def SquashedNormal.logProb (c : α) (d : SquashedNormal α) (y : α) : α :=
  d.base.logProb log c (d.sq.inverse log y) + d.sq.ildj exp log y

def SquashedNormal.prob (c : α) (d : SquashedNormal α) (y : α) : α := exp (d.logProb exp log c y)

/-- `sample(key) = g(μ + σz)` -/
def SquashedNormal.sample (sig : α → α) (d : SquashedNormal α) (z : α) : α :=
  d.sq.forward sig (d.base.sample z)

/-- `sample_and_log_prob(key)` : `(g x, logN(x) − log|g'(x)|)`, `x = μ + σz` -/
def SquashedNormal.sampleAndLogProb (sig : α → α) (c : α) (d : SquashedNormal α) (z : α) : α × α :=
  let r := d.base.sampleAndLogProb log c z
  (d.sq.forward sig r.1, r.2 - d.sq.fldj exp log r.1)

/-- lerax's fallback `mode() = g(base.mode())` -/
def SquashedNormal.mode (sig : α → α) (d : SquashedNormal α) : α := d.sq.forward sig d.base.mode

/-- squashed diagonal normal: `Block` sums the log-determinants over the dimensions -/
structure SquashedDiag (α : Type) where
  base : DiagNormal α
  sqs : List (Squash α)

def SquashedDiag.inverse (d : SquashedDiag α) (y : List α) : List α :=
  List.zipWith (fun q yi => Squash.inverse log q yi) d.sqs y

def SquashedDiag.logProb (c : α) (d : SquashedDiag α) (y : List α) : α :=
  d.base.logProb log c (d.inverse log y)
    + (List.zipWith (fun q yi => Squash.ildj exp log q yi) d.sqs y).sum

def SquashedDiag.prob (c : α) (d : SquashedDiag α) (y : List α) : α := exp (d.logProb exp log c y)

def SquashedDiag.forward (sig : α → α) (d : SquashedDiag α) (x : List α) : List α :=
  List.zipWith (fun q xi => Squash.forward sig q xi) d.sqs x

def SquashedDiag.sample (sig : α → α) (d : SquashedDiag α) (z : List α) : List α :=
  d.forward sig (d.base.sample z)

def SquashedDiag.sampleAndLogProb (sig : α → α) (c : α) (d : SquashedDiag α) (z : List α) :
    List α × α :=
  let r := d.base.sampleAndLogProb log c z
  (d.forward sig r.1, r.2 - (List.zipWith (fun q xi => Squash.fldj exp log q xi) d.sqs r.1).sum)

def SquashedDiag.mode (sig : α → α) (d : SquashedDiag α) : List α := d.forward sig d.base.mode

/-- the components of a squashed diagonal normal as scalar squashed normals -/
def SquashedDiag.components (d : SquashedDiag α) : List (SquashedNormal α) :=
  List.zipWith (fun b q => ⟨b, q⟩) d.base.components d.sqs

end

/-! ## Executable forms of the property (Φ), decided by the driver on the implementation's
    outputs and proved of the model in `LeraxProofs/C15.lean` / `C16.lean`. -/

section
variable {α : Type} [Add α] [Sub α] [Mul α] [Div α] [Neg α] [Zero α] [One α] [LT α] [DecidableLT α]

/-- comparison of extended numbers through a comparison of numbers -/
def eeqv (eqv : α → α → Bool) : Option α → Option α → Bool
  | none, none => true
  | some a, some b => eqv a b
  | _, _ => false

def allZip {β γ : Type} (f : β → γ → Bool) : List β → List γ → Bool
  | [], [] => true
  | x :: xs, y :: ys => f x y && allZip f xs ys
  | _, _ => false

/-- Φ (discrete law, tabulated): `probs`/`logps` are `prob(v)`/`log_prob(v)` for every
    `v = 0..n-1`, `outP/outLp` the same at points outside the support.
    Clauses: `prob = exp(log_prob)` everywhere, outside points have probability zero, the total
    mass is one, and the entropy is `−Σ p·log p` (with `0·log 0 = 0`). -/
def phiTable (exp : α → α) (eqv : α → α → Bool) (probs : List α) (logps : List (Option α))
    (outP : List α) (outLp : List (Option α)) (entropy : α) : List (String × Bool) :=
  [("prob_eq_exp_logprob", allZip (fun p lp => eqv p (eexp exp lp)) probs logps),
   ("outside_support_zero", allZip (fun p lp => eqv p 0 && lp.isNone) outP outLp),
   ("mass_one", eqv probs.sum 1),
   ("entropy_eq_neg_expect_log", eqv entropy (-((List.zipWith (fun p lp => mnn lp p) probs logps).sum)))]

/-- Φ: an index result lies in the support (`< n` and of non-zero probability) -/
def inSupport (logps : List (Option α)) (v : Int) : Bool :=
  decide (0 ≤ v) && decide (v.toNat < logps.length) && (logps.getD v.toNat none).isSome

/-- Φ: the mode is in the support (`< n`, non-zero probability) and no value is more probable
    (`leqv a b` reads `a ≤ b`) -/
def phiMode (leqv : α → α → Bool) (probs : List α) (m : Int) : Bool :=
  decide (0 ≤ m) && decide (m.toNat < probs.length) && flt 0 (probs.getD m.toNat 0) &&
  probs.all (fun p => leqv p (probs.getD m.toNat 0))

/-- Φ: a mask is respected — masked values have probability zero and the remaining
    probabilities are the unmasked ones divided by the allowed mass -/
def phiMasked (eqv : α → α → Bool) (mask : List Bool) (probs masked : List α) : Bool :=
  let z := (List.zipWith (fun (m : Bool) p => if m then p else 0) mask probs).sum
  masked.length == probs.length && mask.length == probs.length &&
  allZip (fun (mp : Bool × α) q => if mp.1 then eqv q (mp.2 / z) else eqv q 0) (mask.zip probs) masked

/-- Φ, log-space form of `phiMasked` (usable when the allowed mass underflows as a
    probability): masked values have log-probability `-∞`, the others
    `log p_i − log Σ_{j allowed} p_j` -/
def phiMaskedLog (exp log : α → α) (eqv : α → α → Bool) (mask : List Bool)
    (baseLp maskedLp : List (Option α)) : Bool :=
  let z := log ((maskLogits mask baseLp).map (eexp exp)).sum
  maskedLp.length == baseLp.length && mask.length == baseLp.length &&
  allZip (fun (l : Option α) q => eeqv eqv q (l.map (· - z))) (maskLogits mask baseLp) maskedLp

/-- Φ: an index result is allowed by the mask -/
def allowed (mask : List Bool) (v : Int) : Bool :=
  decide (0 ≤ v) && mask.getD v.toNat false

end
end Lerax.Dist
