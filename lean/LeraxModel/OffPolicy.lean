/-
  Model of off-policy collection: `AbstractOffPolicyAlgorithm.step`
  (`/repo/src/lerax/algorithm/off_policy.py:143-213`), the warm-up scan of `reset` (215-234,
  278-320) and `collect_rollout`.

  step():  observe; (ps', a) = policy(ps, obs); clipped = clip(a) for Box spaces;
           next = transition(s, clipped); r = reward(s, clipped, next);
           done = term | trunc; timeout = trunc & ~term; next_obs = observation(next) — taken
           BEFORE the reset; on done env := initial(k), policy state := reset(k');
           buffer.add(obs, next_obs, a, r, done, timeout, ps, ps')
-/
import LeraxModel.Env
import LeraxModel.Replay
namespace Lerax.OffPolicy
open Lerax.Env Lerax.Replay

structure Policy (PS O A K : Type) where
  act : PS → O → K → PS × A
  reset : K → PS

structure Row (PS O A α : Type) where
  observation : O
  nextObservation : O
  action : A
  reward : α
  done : Bool
  timeout : Bool
  policyState : PS
  nextPolicyState : PS

structure StepState (S PS O A α : Type) where
  env : S
  policy : PS
  buffer : Buf (Row PS O A α)

section
variable {S A O K PS α : Type} [Keys K]

/-- the transition produced by one step (what is handed to `buffer.add`) and the carried states -/
def stepRow (E : Env S A O α K) (clip : A → A) (P : Policy PS O A K) (env : S) (ps : PS) (key : K) :
    S × PS × Row PS O A α :=
  let obs := E.observation env (sub key 2)
  let (ps', a) := P.act ps obs (sub key 0)
  let ca := clip a
  let next := E.transition env ca (sub key 1)
  let r := E.reward env ca next (sub key 3)
  let term := E.terminal next (sub key 4)
  let trunc := E.truncate next
  let done := term || trunc
  let timeout := trunc && !term
  let nobs := E.observation next (sub key 5)
  let env' := if done then E.initial (sub key 6) else next
  let pol' := if done then P.reset (sub key 7) else ps'
  (env', pol', { observation := obs, nextObservation := nobs, action := a, reward := r, done := done,
                 timeout := timeout, policyState := ps, nextPolicyState := ps' })

def offStep (E : Env S A O α K) (clip : A → A) (P : Policy PS O A K)
    (st : StepState S PS O A α) (key : K) : StepState S PS O A α :=
  let (env', pol', row) := stepRow E clip P st.env st.policy key
  { env := env', policy := pol', buffer := add st.buffer row }

/-- `collect_learning_starts` / `collect_rollout`: scan `step` over the split keys -/
def collect (E : Env S A O α K) (clip : A → A) (P : Policy PS O A K)
    (st : StepState S PS O A α) (keys : List K) : StepState S PS O A α :=
  keys.foldl (offStep E clip P) st

/-- `AbstractOffPolicyStepState.initial`: fresh env and policy state, empty buffer of the
    per-environment capacity -/
def initialState (E : Env S A O α K) (P : Policy PS O A K) (cap : Nat) (key : K) :
    StepState S PS O A α :=
  { env := E.initial (sub key 0), policy := P.reset (sub key 1), buffer := empty cap }

/-- the transitions produced by a collection, in order -/
def producedRows (E : Env S A O α K) (clip : A → A) (P : Policy PS O A K) :
    S → PS → List K → List (Row PS O A α)
  | _, _, [] => []
  | env, ps, k :: ks =>
      let (env', pol', row) := stepRow E clip P env ps k
      row :: producedRows E clip P env' pol' ks

end
end Lerax.OffPolicy
