/-
  Model of `ReplayBuffer` (`/repo/src/lerax/buffer/replay.py`): ring-buffer insertion
  (`add`, lines 67-129) and the validity mask / sampling probabilities of `sample`
  (lines 131-163, with `flatten_axes` merging the (env, slot) axes of stacked buffers).

  A row is one transition with all of its fields; `add` writes the whole row at
  `position % size`.  (That every field leaf is written at the same index is what the harness
  checks on the implementation by tagging each field of insertion `i` with `i`.)
-/
namespace Lerax.Replay

structure Buf (ρ : Type) where
  cap : Nat
  pos : Nat
  slots : List (Option ρ)       -- length = cap; `none` = never written

def empty {ρ : Type} (cap : Nat) : Buf ρ := { cap := cap, pos := 0, slots := List.replicate cap none }

/-- `add`: `idx = position % size`; write every field at `idx`; `position + 1` -/
def add {ρ : Type} (b : Buf ρ) (row : ρ) : Buf ρ :=
  { b with pos := b.pos + 1, slots := b.slots.set (b.pos % b.cap) (some row) }

/-- `current_size = minimum(position, size)` -/
def currentSize {ρ : Type} (b : Buf ρ) : Nat := min b.pos b.cap

/-- `valid_mask = arange(size) < current_size` -/
def validMask {ρ : Type} (b : Buf ρ) : List Bool :=
  (List.range b.cap).map (fun j => decide (j < currentSize b))

/-- stacked per-environment buffers: `(arange(size) < current_size[..., None]).reshape(-1)` -/
def flatMask {ρ : Type} (bs : List (Buf ρ)) : List Bool := (bs.map validMask).flatten

/-- `flatten_axes(None)` of stacked buffers: slot `j` of env `e` lands at `e * cap + j` -/
def flatSlots {ρ : Type} (bs : List (Buf ρ)) : List (Option ρ) := (bs.map (·.slots)).flatten

/-- the stored transitions, oldest first -/
def contents {ρ : Type} (b : Buf ρ) : List ρ :=
  let n := currentSize b
  let start := b.pos - n
  (List.range n).filterMap (fun i => (b.slots.getD ((start + i) % b.cap) none))

/-- `probs = valid_mask / sum(valid_mask)` (number type `α`) -/
def probs {α : Type} [Div α] [OfNat α 0] [OfNat α 1] [NatCast α] (mask : List Bool) : List α :=
  let n : α := ((mask.filter id).length : Nat)
  mask.map (fun m => (if m then (1 : α) else 0) / n)

/-- `jnp.take(x, batch_indices, axis=0)` on the flattened buffer -/
def take {ρ : Type} (flat : List (Option ρ)) (idx : List Nat) : List (Option ρ) :=
  idx.map (fun i => flat.getD i none)

/-! ### executable Φ: decided on implementation outputs -/

/-- After inserting `rows` into an empty buffer of capacity `cap`, the implementation reports
    `tags` (tag of the row in each slot, `none` = unwritten) and a validity mask. -/
def phiContents (cap : Nat) (nInserted : Nat) (slotTags : List (Option Nat)) : Bool :=
  let stored := (slotTags.filterMap id)
  let expected := (List.range nInserted).drop (nInserted - cap)
  slotTags.length == cap &&
  -- exactly the most recent min(n, C) insertions are stored (where they sit is not constrained)
  expected.all (fun t => stored.contains t) && stored.all (fun t => expected.contains t) &&
  stored.length == expected.length

/-- a sampled batch: indices into the flattened buffer -/
def phiSample (flatValid : List Bool) (idx : List Nat) : Bool :=
  idx.all (fun i => flatValid.getD i false) && idx.eraseDups.length == idx.length

end Lerax.Replay

/-! ### `position` as the 32-bit signed counter the code actually carries

`ReplayBuffer.position` is a `jnp` int32 scalar (x64 off, the library default):
`position + 1` wraps in two's complement, `position % size` is the floored remainder
(non-negative for `size > 0`), and `current_size = minimum(position, size)` is a signed
comparison.  `Buf32` mirrors that; `LeraxProofs/C06Int32.lean` proves it coincides with the
`Nat`-counter model `Buf` for every history shorter than `2^31` insertions, and exhibits what
happens at the `2^31`-th insertion. -/
namespace Lerax.Replay

structure Buf32 (ρ : Type) where
  cap : Nat
  pos : BitVec 32
  slots : List (Option ρ)

def empty32 {ρ : Type} (cap : Nat) : Buf32 ρ :=
  { cap := cap, pos := 0, slots := List.replicate cap none }

/-- `idx = position % size` on int32 (floored remainder: sign of the divisor) -/
def idx32 (pos : BitVec 32) (cap : Nat) : Nat := (pos.toInt % (cap : Int)).toNat

def add32 {ρ : Type} (b : Buf32 ρ) (row : ρ) : Buf32 ρ :=
  { b with pos := b.pos + 1, slots := b.slots.set (idx32 b.pos b.cap) (some row) }

/-- `current_size = minimum(position, size)` (signed) -/
def currentSize32 {ρ : Type} (b : Buf32 ρ) : Int := min b.pos.toInt (b.cap : Int)

/-- `valid_mask = arange(size) < current_size` (signed comparison) -/
def validMask32 {ρ : Type} (b : Buf32 ρ) : List Bool :=
  (List.range b.cap).map (fun (j : Nat) => decide (Int.ofNat j < currentSize32 b))

/-- forget the word size -/
def abs32 {ρ : Type} (b : Buf32 ρ) : Buf ρ :=
  { cap := b.cap, pos := b.pos.toNat, slots := b.slots }

end Lerax.Replay
