/-
  Model of the reported performance numbers:
  `LoggingCallbackStepState.next` (`/repo/src/lerax/callback/logging/callback.py:138-176`),
  the per-iteration aggregation of `LoggingCallback.on_iteration` (501-531) and the evaluation
  helpers `rollout_scan`, `rollout_while`, `average_reward` (`benchmark/__init__.py`).
-/
import LeraxModel.Env
namespace Lerax.Logging
open Lerax.Env

section
variable {α : Type} [Add α] [Sub α] [Mul α] [Zero α] [One α] [NatCast α]

structure LogState (α : Type) where
  step : Nat
  episodeReturn : α
  episodeLength : Nat
  episodeDone : Bool
  averageReturn : α
  averageLength : α

def LogState.initial : LogState α :=
  { step := 0, episodeReturn := 0, episodeLength := 0, episodeDone := false,
    averageReturn := 0, averageLength := 0 }

def ofBool (b : Bool) : α := if b then 1 else 0

/-- `next(reward, done, alpha)` -/
def LogState.next (s : LogState α) (reward : α) (done : Bool) (alpha : α) : LogState α :=
  let episodeReturn := s.episodeReturn * (1 - ofBool s.episodeDone) + reward
  let episodeLength := s.episodeLength * (1 - (if s.episodeDone then 1 else 0)) + 1
  { step := s.step + 1, episodeReturn := episodeReturn, episodeLength := episodeLength,
    episodeDone := done,
    averageReturn := if done then alpha * episodeReturn + (1 - alpha) * s.averageReturn else s.averageReturn,
    averageLength := if done then alpha * ((episodeLength : Nat) : α) + (1 - alpha) * s.averageLength
                     else s.averageLength }

/-- drive the state with a (reward, done) history -/
def run (alpha : α) (h : List (α × Bool)) : LogState α :=
  h.foldl (fun s x => s.next x.1 x.2 alpha) LogState.initial

/-- completed episodes of a history: (sum of rewards, number of steps) since the previous end -/
def episodesAux : List (α × Bool) → α → Nat → List (α × Nat)
  | [], _, _ => []
  | (r, d) :: rest, cr, cl =>
      if d then (cr + r, cl + 1) :: episodesAux rest 0 0 else episodesAux rest (cr + r) (cl + 1)

def episodes (h : List (α × Bool)) : List (α × Nat) := episodesAux h 0 0

/-- exponential moving average with weight `alpha` on the newest value, starting from 0 -/
def ema (alpha : α) (xs : List α) : α := xs.foldl (fun acc x => alpha * x + (1 - alpha) * acc) 0

/-- what `on_iteration` hands to the backend: (Σ_env step, mean_env average_return,
    mean_env average_length) -/
def iterationRecord [Div α] (states : List (LogState α)) : Nat × α × α :=
  ((states.map (·.step)).foldl (· + ·) 0,
   (states.map (·.averageReturn)).foldl (· + ·) 0 / ((states.length : Nat) : α),
   (states.map (·.averageLength)).foldl (· + ·) 0 / ((states.length : Nat) : α))

end

/-! ### evaluation helpers -/

section
variable {S A O K PS α : Type} [Keys K] [Add α] [Zero α]

/-- a policy as used by the helpers: `policy(state, obs, key?)` -/
structure EvalPolicy (PS O A K : Type) where
  act : PS → O → Option K → PS × A
  reset : K → PS

/-- one step of `rollout_scan` (`carry_key, obs_key, action_key, transition_key, terminal_key =
    split(key, 5)`): returns successor, policy state, reward and done -/
def scanStep (E : Env S A O α K) (P : EvalPolicy PS O A K) (deterministic : Bool)
    (s : S) (ps : PS) (key : K) : S × PS × α × Bool :=
  let obs := E.observation s (sub key 1)
  let (ps', a) := P.act ps obs (if deterministic then none else some (sub key 2))
  let s' := E.transition s a (sub key 3)
  let r := E.reward s a s' (sub key 0)
  (s', ps', r, E.terminal s' (sub key 4) || E.truncate s')

/-- `rollout_scan` as coded: carry `(env_state, policy_state, done)`, `lax.cond(done, …)`, one
    reward per scanned key, summed at the end -/
def scanCode (E : Env S A O α K) (P : EvalPolicy PS O A K) (deterministic : Bool) :
    S × PS × Bool → List K → List α
  | _, [] => []
  | (s, ps, done), k :: ks =>
      if done then 0 :: scanCode E P deterministic (s, ps, true) ks
      else
        let (s', ps', r, d) := scanStep E P deterministic s ps k
        r :: scanCode E P deterministic (s', ps', d) ks

def rolloutScan (E : Env S A O α K) (P : EvalPolicy PS O A K) (deterministic : Bool)
    (key : K) (stepKeys : List K) : α :=
  (scanCode E P deterministic (E.initial key, P.reset key, false) stepKeys).foldl (· + ·) 0

/-- specification: rewards up to and including the first step whose successor is terminal or
    truncated, or all `max_steps` rewards if there is none -/
def episodeReturn (E : Env S A O α K) (P : EvalPolicy PS O A K) (deterministic : Bool) :
    S → PS → List K → α
  | _, _, [] => 0
  | s, ps, k :: ks =>
      let (s', ps', r, d) := scanStep E P deterministic s ps k
      if d then r else r + episodeReturn E P deterministic s' ps' ks

/-- `rollout_while` with its own key chain (`carry_key, obs_key, action_key, transition_key =
    split(key, 4)`), bounded by `fuel` loop iterations -/
def rolloutWhileFrom (E : Env S A O α K) (P : EvalPolicy PS O A K) (deterministic : Bool) :
    Nat → S → PS → K → α → α
  | 0, _, _, _, acc => acc
  | fuel + 1, s, ps, key, acc =>
      if E.terminal s key || E.truncate s then acc
      else
        let obs := E.observation s (sub key 1)
        let (ps', a) := P.act ps obs (if deterministic then none else some (sub key 2))
        let s' := E.transition s a (sub key 3)
        let r := E.reward s a s' (sub key 0)
        rolloutWhileFrom E P deterministic fuel s' ps' (sub key 0) (acc + r)

end

section
variable {α : Type} [Add α] [Div α] [Zero α] [NatCast α]

/-- `average_reward`: mean over `num_episodes` independent keys -/
def averageReward (episode : Nat → α) (numEpisodes : Nat) : α :=
  ((List.range numEpisodes).map episode).foldl (· + ·) 0 / ((numEpisodes : Nat) : α)

end
end Lerax.Logging
