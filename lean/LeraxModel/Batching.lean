/-
  Model of `AbstractBuffer.resolve_axes / flatten_axes / batch_indices / gather / batches`
  (`/repo/src/lerax/buffer/base_buffer.py:20-130`) and of the epoch / minibatch loop shape of
  `PPO.train_epoch` / `PPO.train` (`/repo/src/lerax/algorithm/ppo.py:240-306`).

  A rollout buffer with batch shape (E, T) is a list of E per-environment lists of T rows; a
  row is one collected sample with all of its fields.  The permutation drawn by
  `jr.permutation` is an oracle parameter.
-/
namespace Lerax.Batching

/-- `resolve_axes`: `None` → all axes; an int → that axis; negative axes are normalised with
    `+ ndim`; duplicates or out-of-range axes are rejected (`ValueError` → `none`). -/
def resolveAxes (ndim : Nat) (axes : Option (List Int)) : Option (List Nat) :=
  let raw : List Int := match axes with
    | none => (List.range ndim).map (fun n => Int.ofNat n)
    | some l => l
  let norm : List Int := raw.map (fun a => if a < 0 then a + ndim else a)
  if norm.eraseDups.length != norm.length || norm.any (fun a => a < 0 || a ≥ (ndim : Int)) then none
  else some (norm.map Int.toNat)

/-- `flatten_axes()` with the default axes on a buffer of shape (E, T): `moveaxis` is the
    identity and `reshape` is row-major, so sample (e, t) lands at index `e * T + t`. -/
def flatten2 {ρ : Type} (xs : List (List ρ)) : List ρ := xs.flatten

/-- `flatten_axes((1, 0))`: the step axis is moved first; sample (e, t) lands at `t * E + e`. -/
def flatten2T {ρ : Type} (T : Nat) (xs : List (List ρ)) : List ρ :=
  ((List.range T).map (fun t => xs.filterMap (fun row => row[t]?))).flatten

/-- `batch_indices`: `indices[:total - total % batch_size].reshape(-1, batch_size)` -/
def batchIndices (perm : List Nat) (B : Nat) : List (List Nat) :=
  let total := perm.length
  let trim := total - total % B
  (List.range (trim / B)).map (fun i => (perm.drop (i * B)).take B)

/-- `gather`: `jnp.take(x, indices, axis=0)` on every leaf — a row is taken whole -/
def gather {ρ : Type} (rows : List ρ) (idx : List Nat) : List (Option ρ) := idx.map (fun i => rows[i]?)

/-- one epoch: flatten, draw a permutation (oracle), split into index rows, gather each -/
def epoch {ρ : Type} (buffer : List (List ρ)) (perm : List Nat) (B : Nat) : List (List (Option ρ)) :=
  let flat := flatten2 buffer
  (batchIndices perm B).map (gather flat)

/-- the flat indices visited by `num_epochs` epochs (one permutation oracle per epoch) -/
def trainVisits (perms : List (List Nat)) (B : Nat) : List Nat :=
  (perms.map (fun p => (batchIndices p B).flatten)).flatten

/-! ### executable Φ -/

/-- index matrix returned by the implementation for a buffer of `N` samples and batch size `B` -/
def phiPartition (N B : Nat) (rows : List (List Nat)) : Bool :=
  let flat := rows.flatten
  rows.length == N / B && rows.all (fun r => r.length == B) &&
  flat.all (fun i => i < N) && flat.eraseDups.length == flat.length &&
  flat.length == (N / B) * B && decide (N - (N / B) * B < B)

/-- flattening neither loses nor duplicates a sample: the flat tags are a permutation of
    `0 … E·T − 1` (the order itself is not part of the property) -/
def phiFlatten (E T : Nat) (flatTags : List Nat) : Bool :=
  flatTags.length == E * T && flatTags.all (fun t => t < E * T) &&
  flatTags.eraseDups.length == flatTags.length

end Lerax.Batching
