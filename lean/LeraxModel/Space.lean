/-
  Model of lerax's spaces (`/repo/src/lerax/space/{box,discrete,multi_binary,multi_discrete,
  dict,tuple,utils}.py`) and of the two space converters in
  `/repo/src/lerax/compatibility/gym.py` (`lerax_to_gym_space`, `gym_space_to_lerax_space`).

  The model mirrors the code AFTER the repairs recorded for property C14 (patches 01–09);
  the pre-repair behaviour of every repaired method is kept as a `Legacy…` definition at the
  end of the file (refuted on concrete witnesses in `LeraxProofs/C14.lean`).

  Numbers.  An array entry is a `Num α`: a finite number `fin x` (`x : α`; the driver uses
  `Float`, the proofs an ordered field), IEEE negative zero `nzero` (the number 0 with the sign
  bit set — it compares equal to `fin 0` but has different bytes), `pinf`, `ninf`, `nan`.
  Comparisons follow IEEE-754 (`nan` compares false with everything).  Integrality of a finite
  number (`x == floor x`) is the function parameter `isInt`; naturals are cast with `NatCast`.

  Values.  `Val` covers everything a caller can hand to `contains`: arrays and Python scalars
  (`arr shape data`, row-major), tuples, lists, `OrderedDict`s, plain `dict`s and foreign
  objects (`str`, `None`, `object()`, integers that do not fit the integer dtype, …).
  `tryCast` is `jnp.asarray` wrapped by `utils.try_cast`: nested tuples/lists of equal-shaped
  castable things become one array, everything else (ragged nesting, dicts, foreign) is `none`.
-/
namespace Lerax.Space

/-! ## Numbers -/

inductive Num (α : Type) where
  | fin (x : α)
  | nzero
  | pinf
  | ninf
  | nan
  deriving Repr, DecidableEq, Inhabited

section NumOps
variable {α : Type} [Zero α] [LE α] [LT α] [DecidableLE α] [DecidableLT α]

/-- `jnp.isfinite`: the finite value of an entry (`-0.0` is the number 0) -/
def Num.fin? : Num α → Option α
  | .fin x => some x
  | .nzero => some 0
  | _ => none

/-- IEEE `a <= b` -/
def Num.le : Num α → Num α → Bool
  | .nan, _ => false
  | _, .nan => false
  | .ninf, _ => true
  | _, .pinf => true
  | .pinf, _ => false
  | _, .ninf => false
  | .fin x, .fin y => decide (x ≤ y)
  | .fin x, .nzero => decide (x ≤ 0)
  | .nzero, .fin y => decide ((0 : α) ≤ y)
  | .nzero, .nzero => true

/-- IEEE `a == b` (as computed by `jnp.array_equal`, `x == 0`): `a <= b` and `b <= a` -/
def Num.eqv (a b : Num α) : Bool := a.le b && b.le a

/-- `0 <= x` -/
def Num.nonneg (x : Num α) : Bool := (Num.fin 0).le x

/-- `x < n` for a Python int `n` -/
def Num.ltNat [NatCast α] : Num α → Nat → Bool
  | .fin y, n => decide (y < (n : α))
  | .nzero, n => decide ((0 : α) < (n : α))
  | .ninf, _ => true
  | _, _ => false

/-- `x == jnp.floor(x)`: `floor` fixes ±inf, NaN is unequal to itself -/
def Num.integral (isInt : α → Bool) : Num α → Bool
  | .fin y => isInt y
  | .nzero => isInt 0
  | .pinf => true
  | .ninf => true
  | .nan => false

/-- the number an entry denotes, forgetting the sign of zero (what Python's `hash`/`==` of the
    float sees); used for hashing and for "equal parameters" -/
def Num.canon : Num α → Num α
  | .nzero => .fin 0
  | x => x

end NumOps

/-! ## Values and spaces -/

inductive Val (α : Type) where
  | arr (shape : List Nat) (data : List (Num α))
  | tuple (xs : List (Val α))
  | list (xs : List (Val α))
  | odict (kvs : List (String × Val α))
  | pdict (kvs : List (String × Val α))
  | foreign
  deriving Repr, Inhabited

inductive Space (α : Type) where
  | box (shape : List Nat) (low high : List (Num α))
  | discrete (n : Nat)
  | multiBinary (shape : List Nat)
  | multiDiscrete (nvec : List Nat)
  | dict (fields : List (String × Space α))
  | tuple (items : List (Space α))
  deriving Repr, Inhabited

/-- number of entries of an array of the given shape -/
def prod : List Nat → Nat
  | [] => 1
  | d :: ds => d * prod ds

/-- two lists are related entry by entry (and have the same length) -/
def All2 {β γ : Type} (R : β → γ → Prop) : List β → List γ → Prop
  | [], [] => True
  | b :: bs, c :: cs => R b c ∧ All2 R bs cs
  | _, _ => False

/-- keys of an association list -/
def keys {β : Type} (kvs : List (String × β)) : List String := kvs.map (·.1)

section Cast
variable {α : Type}

abbrev Arr (α : Type) := List Nat × List (Num α)

/-- `np.array([a₀, a₁, …])`: all parts must have one shape -/
def stack : List (Arr α) → Option (Arr α)
  | [] => some ([0], [])
  | (sh, d) :: rest =>
      if rest.all (fun a => a.1 == sh) then
        some ((rest.length + 1) :: sh, d ++ (rest.map (·.2)).flatten)
      else none

mutual
/-- `utils.try_cast` (repaired: every conversion failure is `None`) -/
def tryCast : Val α → Option (Arr α)
  | .arr sh d => if d.length = prod sh then some (sh, d) else none
  | .tuple xs => match castAll xs with
      | some parts => stack parts
      | none => none
  | .list xs => match castAll xs with
      | some parts => stack parts
      | none => none
  | .odict _ => none
  | .pdict _ => none
  | .foreign => none
def castAll : List (Val α) → Option (List (Arr α))
  | [] => some []
  | x :: xs => match tryCast x, castAll xs with
      | some a, some as => some (a :: as)
      | _, _ => none
end

end Cast

/-! ## `contains` -/

section Contains
variable {α : Type} [Zero α] [One α] [LE α] [LT α] [DecidableLE α] [DecidableLT α] [NatCast α]
variable (isInt : α → Bool)

/-- `jnp.all(a <= b)` for equal shapes -/
def allLe : List (Num α) → List (Num α) → Bool
  | [], [] => true
  | a :: as, b :: bs => a.le b && allLe as bs
  | _, _ => false

/-- `Box.contains` -/
def boxContains (sh : List Nat) (lo hi : List (Num α)) (v : Val α) : Bool :=
  match tryCast v with
  | none => false
  | some (xs, d) => xs == sh && allLe lo d && allLe d hi

/-- integral, `0 <= x`, `x < n` -/
def isIndex (x : Num α) (n : Nat) : Bool := x.integral isInt && x.nonneg && x.ltNat n

/-- `Discrete.contains` -/
def discreteContains (n : Nat) (v : Val α) : Bool :=
  match tryCast v with
  | some ([], [x]) => isIndex isInt x n
  | _ => false

/-- `(x == 0) | (x == 1)` -/
def isBit (x : Num α) : Bool := x.eqv (.fin 0) || x.eqv (.fin 1)

/-- `MultiBinary.contains` (repaired: `all` over every axis) -/
def multiBinaryContains (sh : List Nat) (v : Val α) : Bool :=
  match tryCast v with
  | none => false
  | some (xs, d) => xs == sh && d.all isBit

def allIndex : List (Num α) → List Nat → Bool
  | [], [] => true
  | x :: xs, n :: ns => isIndex isInt x n && allIndex xs ns
  | _, _ => false

/-- `MultiDiscrete.contains` (repaired: `0 <= x` is tested) -/
def multiDiscreteContains (nvec : List Nat) (v : Val α) : Bool :=
  match tryCast v with
  | none => false
  | some (xs, d) => xs == [nvec.length] && allIndex isInt d nvec

/-- `self.spaces.keys() != x.keys()` is a comparison of key *sets* -/
def keysEq (a b : List String) : Bool := a.all (b.contains ·) && b.all (a.contains ·)

mutual
/-- `space.contains(x)`; the answer is a Python/JAX scalar boolean by construction -/
def contains : Space α → Val α → Bool
  | .box sh lo hi, v => boxContains sh lo hi v
  | .discrete n, v => discreteContains isInt n v
  | .multiBinary sh, v => multiBinaryContains sh v
  | .multiDiscrete nvec, v => multiDiscreteContains isInt nvec v
  | .dict fs, .odict kvs => keysEq (keys fs) (keys kvs) && containsFields fs kvs
  | .dict _, _ => false
  | .tuple ss, .tuple xs => xs.length == ss.length && containsList ss xs
  | .tuple _, _ => false
/-- `all(space.contains(x[key]) for key, space in self.spaces.items())` -/
def containsFields : List (String × Space α) → List (String × Val α) → Bool
  | [], _ => true
  | (k, s) :: fs, kvs =>
      (match kvs.lookup k with
       | some x => contains s x
       | none => false) && containsFields fs kvs
/-- `all(space.contains(x_i) for space, x_i in zip(self.spaces, x))` -/
def containsList : List (Space α) → List (Val α) → Bool
  | [], [] => true
  | s :: ss, x :: xs => contains s x && containsList ss xs
  | _, _ => false
end

/-- what `contains` hands back to the caller -/
inductive CResult where
  | scalar (b : Bool)
  | array (shape : List Nat)
  | raised (exc : String)
  deriving Repr, DecidableEq

def containsR (s : Space α) (v : Val α) : CResult := .scalar (contains isInt s v)

/-! ### Specification of membership, independent of the code's structure -/

/-- `x` is one of the indices `0, 1, …, n-1` -/
def IsIndex (x : Num α) (n : Nat) : Prop :=
  ∃ y, x.fin? = some y ∧ isInt y = true ∧ (0 : α) ≤ y ∧ y < (n : α)

/-- `x` is the number 0 or the number 1 -/
def IsBit (x : Num α) : Prop := x.fin? = some 0 ∨ x.fin? = some 1

mutual
/-- membership: right container type, right shape, entries integral where required and within
    the inclusive bounds (extended-real order `Num.le`, never true for NaN) -/
def Mem : Space α → Val α → Prop
  | .box sh lo hi, v => ∃ d, tryCast v = some (sh, d) ∧
      All2 (fun l x => l.le x = true) lo d ∧ All2 (fun x h => x.le h = true) d hi
  | .discrete n, v => ∃ x, tryCast v = some ([], [x]) ∧ IsIndex isInt x n
  | .multiBinary sh, v => ∃ d, tryCast v = some (sh, d) ∧ ∀ x, x ∈ d → IsBit x
  | .multiDiscrete nvec, v => ∃ d, tryCast v = some ([nvec.length], d) ∧ All2 (IsIndex isInt) d nvec
  | .dict fs, v => ∃ kvs, v = .odict kvs ∧ (∀ k, k ∈ keys fs ↔ k ∈ keys kvs) ∧ MemFields fs kvs
  | .tuple ss, v => ∃ xs, v = .tuple xs ∧ MemList ss xs
/-- every declared key is present and its value is a member of the key's space -/
def MemFields : List (String × Space α) → List (String × Val α) → Prop
  | [], _ => True
  | (k, s) :: fs, kvs => (∃ x, kvs.lookup k = some x ∧ Mem s x) ∧ MemFields fs kvs
def MemList : List (Space α) → List (Val α) → Prop
  | [], [] => True
  | s :: ss, x :: xs => Mem s x ∧ MemList ss xs
  | _, _ => False
end

end Contains

/-! ## Well-formedness -/

section WF
variable {α : Type} [Zero α] [LE α] [LT α] [DecidableLE α] [DecidableLT α]

/-- a lower bound: finite or `-inf` -/
def Num.isLow : Num α → Bool
  | .fin _ => true | .nzero => true | .ninf => true | _ => false
/-- an upper bound: finite or `+inf` -/
def Num.isHigh : Num α → Bool
  | .fin _ => true | .nzero => true | .pinf => true | _ => false

def boundsOk : List (Num α) → List (Num α) → Bool
  | [], [] => true
  | l :: ls, h :: hs => l.isLow && h.isHigh && l.le h && boundsOk ls hs
  | _, _ => false

def nodupKeys : List String → Bool
  | [] => true
  | k :: ks => !ks.contains k && nodupKeys ks

mutual
/-- what the constructors assert (`n > 0`, positive dimensions, non-empty `nvec` / tuple, distinct
    keys) plus, for `Box` (whose constructor checks nothing): bounds broadcast to `shape`, no NaN
    bound, `low ≠ +inf`, `high ≠ -inf`, `low <= high` -/
def wellFormed : Space α → Bool
  | .box sh lo hi => lo.length == prod sh && boundsOk lo hi
  | .discrete n => decide (0 < n)
  | .multiBinary sh => sh.all (fun d => decide (0 < d))
  | .multiDiscrete nvec => !nvec.isEmpty && nvec.all (fun n => decide (0 < n))
  | .dict fs => nodupKeys (keys fs) && wellFormedFields fs
  | .tuple ss => !ss.isEmpty && wellFormedList ss
def wellFormedFields : List (String × Space α) → Bool
  | [] => true
  | (_, s) :: fs => wellFormed s && wellFormedFields fs
def wellFormedList : List (Space α) → Bool
  | [] => true
  | s :: ss => wellFormed s && wellFormedList ss
end

end WF

/-! ## `sample` (oracle draws), `canonical` -/

/-- the random draws one `sample` call consumes, observed from the implementation -/
inductive Draw (α : Type) where
  | box (us es zs : List α)   -- per entry: `uniform`∈[0,1), `exponential`≥0, `normal`
  | index (i : Nat)           -- `Discrete`: the index returned by `jr.choice`
  | bits (bs : List Bool)     -- `MultiBinary`: `jr.bernoulli`
  | indices (ix : List Nat)   -- `MultiDiscrete`: `jr.randint`
  | node (ds : List (Draw α)) -- `Dict`/`Tuple`: one sub-draw per component (split keys)
  deriving Inhabited

section Sample
variable {α : Type} [Zero α] [One α] [Add α] [Sub α] [Mul α] [Div α] [LE α] [LT α]
  [DecidableLE α] [DecidableLT α] [NatCast α]

/-- one entry of `Box.sample`: uniform when bounded, normal when unbounded, shifted exponential
    when bounded on one side -/
def sampleEntry (lo hi : Num α) (u e z : α) : Num α :=
  match lo.fin?, hi.fin? with
  | some l, some h => .fin (l + u * (h - l))
  | none, none => .fin z
  | none, some h => .fin (h - e)
  | some l, none => .fin (l + e)

def sampleBox : List (Num α) → List (Num α) → List α → List α → List α → List (Num α)
  | l :: ls, h :: hs, u :: us, e :: es, z :: zs => sampleEntry l h u e z :: sampleBox ls hs us es zs
  | _, _, _, _, _ => []

def ofBit (b : Bool) : Num α := if b then .fin 1 else .fin 0

mutual
def sample : Space α → Draw α → Val α
  | .box sh lo hi, .box us es zs => .arr sh (sampleBox lo hi us es zs)
  | .discrete _, .index i => .arr [] [.fin (Nat.cast i : α)]
  | .multiBinary sh, .bits bs => .arr sh (bs.map ofBit)
  | .multiDiscrete nvec, .indices ix => .arr [nvec.length] (ix.map (fun (i : Nat) => Num.fin (Nat.cast i : α)))
  | .dict fs, .node ds => .odict (sampleFields fs ds)
  | .tuple ss, .node ds => .tuple (sampleList ss ds)
  | _, _ => .foreign
def sampleFields : List (String × Space α) → List (Draw α) → List (String × Val α)
  | (k, s) :: fs, d :: ds => (k, sample s d) :: sampleFields fs ds
  | _, _ => []
def sampleList : List (Space α) → List (Draw α) → List (Val α)
  | s :: ss, d :: ds => sample s d :: sampleList ss ds
  | _, _ => []
end

/-- `p = mask / jnp.sum(mask)` handed to `jr.choice` by `Discrete.sample` -/
def choiceProbs (mask : List Bool) : List α :=
  let w : List α := mask.map (fun b => if b then 1 else 0)
  w.map (fun x => x / w.sum)

/-- range of the draws: what `jax.random` promises -/
def boxDrawsOk (n : Nat) (us es zs : List α) : Prop :=
  us.length = n ∧ es.length = n ∧ zs.length = n ∧
  (∀ u, u ∈ us → (0 : α) ≤ u ∧ u < 1) ∧ (∀ e, e ∈ es → (0 : α) ≤ e)

mutual
def DrawOk : Space α → Draw α → Prop
  | .box _ lo _, .box us es zs => boxDrawsOk lo.length us es zs
  | .discrete n, .index i => i < n
  | .multiBinary sh, .bits bs => bs.length = prod sh
  | .multiDiscrete nvec, .indices ix => All2 (fun i n => i < n) ix nvec
  | .dict fs, .node ds => DrawOkFields fs ds
  | .tuple ss, .node ds => DrawOkList ss ds
  | _, _ => False
def DrawOkFields : List (String × Space α) → List (Draw α) → Prop
  | [], [] => True
  | (_, s) :: fs, d :: ds => DrawOk s d ∧ DrawOkFields fs ds
  | _, _ => False
def DrawOkList : List (Space α) → List (Draw α) → Prop
  | [], [] => True
  | s :: ss, d :: ds => DrawOk s d ∧ DrawOkList ss ds
  | _, _ => False
end

/-- `jnp.clip(0, lo, hi) = minimum(maximum(0, lo), hi)` on extended reals (no NaN) -/
def clipZero (lo hi : Num α) : Num α :=
  let m := if (Num.fin (0 : α)).le lo then lo else .fin 0
  if m.le hi then m else hi

/-- one entry of `Box.canonical` (repaired): midpoint of finite bounds, else 0 clipped -/
def canonicalEntry (lo hi : Num α) : Num α :=
  match lo.fin?, hi.fin? with
  | some l, some h => .fin ((l + h) / (1 + 1))
  | _, _ => clipZero lo hi

def canonicalBox : List (Num α) → List (Num α) → List (Num α)
  | l :: ls, h :: hs => canonicalEntry l h :: canonicalBox ls hs
  | _, _ => []

mutual
def canonical : Space α → Val α
  | .box sh lo hi => .arr sh (canonicalBox lo hi)
  | .discrete _ => .arr [] [.fin 0]
  | .multiBinary sh => .arr sh (List.replicate (prod sh) (.fin 0))
  | .multiDiscrete nvec => .arr [nvec.length] (List.replicate nvec.length (.fin 0))
  | .dict fs => .odict (canonicalFields fs)
  | .tuple ss => .tuple (canonicalList ss)
def canonicalFields : List (String × Space α) → List (String × Val α)
  | [] => []
  | (k, s) :: fs => (k, canonical s) :: canonicalFields fs
def canonicalList : List (Space α) → List (Val α)
  | [] => []
  | s :: ss => canonical s :: canonicalList ss
end

end Sample

/-! ## `flatten_sample`, `flat_size`, and the decoder showing the flat vector determines the sample -/

section Flatten
variable {α : Type}

def leafFlatten (v : Val α) : List (Num α) :=
  match tryCast v with
  | some (_, d) => d
  | none => []

mutual
def flatSize : Space α → Nat
  | .box sh _ _ => prod sh
  | .discrete _ => 1
  | .multiBinary sh => prod sh
  | .multiDiscrete nvec => nvec.length
  | .dict fs => flatSizeFields fs
  | .tuple ss => flatSizeList ss
def flatSizeFields : List (String × Space α) → Nat
  | [] => 0
  | (_, s) :: fs => flatSize s + flatSizeFields fs
def flatSizeList : List (Space α) → Nat
  | [] => 0
  | s :: ss => flatSize s + flatSizeList ss
end

mutual
/-- `space.flatten_sample(x)` (`jnp.asarray(x, dtype=float).ravel()` at the leaves, parts
    concatenated in the space's own order) -/
def flatten : Space α → Val α → List (Num α)
  | .box _ _ _, v => leafFlatten v
  | .discrete _, v => leafFlatten v
  | .multiBinary _, v => leafFlatten v
  | .multiDiscrete _, v => leafFlatten v
  | .dict fs, .odict kvs => flattenFields fs kvs
  | .dict _, _ => []
  | .tuple ss, .tuple xs => flattenList ss xs
  | .tuple _, _ => []
def flattenFields : List (String × Space α) → List (String × Val α) → List (Num α)
  | [], _ => []
  | (k, s) :: fs, kvs =>
      (match kvs.lookup k with
       | some x => flatten s x
       | none => []) ++ flattenFields fs kvs
def flattenList : List (Space α) → List (Val α) → List (Num α)
  | s :: ss, x :: xs => flatten s x ++ flattenList ss xs
  | _, _ => []
end

mutual
/-- decoder: rebuilds the (normal form of the) sample from its flat vector -/
def unflatten : Space α → List (Num α) → Val α
  | .box sh _ _, d => .arr sh d
  | .discrete _, d => .arr [] d
  | .multiBinary sh, d => .arr sh d
  | .multiDiscrete nvec, d => .arr [nvec.length] d
  | .dict fs, d => .odict (unflattenFields fs d)
  | .tuple ss, d => .tuple (unflattenList ss d)
def unflattenFields : List (String × Space α) → List (Num α) → List (String × Val α)
  | [], _ => []
  | (k, s) :: fs, d => (k, unflatten s (d.take (flatSize s))) :: unflattenFields fs (d.drop (flatSize s))
def unflattenList : List (Space α) → List (Num α) → List (Val α)
  | [], _ => []
  | s :: ss, d => unflatten s (d.take (flatSize s)) :: unflattenList ss (d.drop (flatSize s))
end

def leafNormalize (v : Val α) : Val α :=
  match tryCast v with
  | some (sh, d) => .arr sh d
  | none => .foreign

mutual
/-- normal form of a sample: array-likes as arrays, dict items in the space's key order -/
def normalize : Space α → Val α → Val α
  | .box _ _ _, v => leafNormalize v
  | .discrete _, v => leafNormalize v
  | .multiBinary _, v => leafNormalize v
  | .multiDiscrete _, v => leafNormalize v
  | .dict fs, .odict kvs => .odict (normalizeFields fs kvs)
  | .dict _, _ => .foreign
  | .tuple ss, .tuple xs => .tuple (normalizeList ss xs)
  | .tuple _, _ => .foreign
def normalizeFields : List (String × Space α) → List (String × Val α) → List (String × Val α)
  | [], _ => []
  | (k, s) :: fs, kvs =>
      (k, match kvs.lookup k with
          | some x => normalize s x
          | none => .foreign) :: normalizeFields fs kvs
def normalizeList : List (Space α) → List (Val α) → List (Val α)
  | s :: ss, x :: xs => normalize s x :: normalizeList ss xs
  | _, _ => []
end

end Flatten

/-! ## `__eq__`, `__hash__` -/

section Eq
variable {α : Type} [Zero α] [LE α] [LT α] [DecidableLE α] [DecidableLT α]

/-- `jnp.array_equal` on the data of two equal-shaped arrays -/
def allEqv : List (Num α) → List (Num α) → Bool
  | [], [] => true
  | a :: as, b :: bs => a.eqv b && allEqv as bs
  | _, _ => false

mutual
/-- `space == other` (repaired `Tuple.__eq__` / `Dict.__eq__`: equal length, pairwise equal, keys
    compared in order) -/
def beq : Space α → Space α → Bool
  | .box sh lo hi, .box sh' lo' hi' => sh == sh' && allEqv lo lo' && allEqv hi hi'
  | .discrete n, .discrete m => n == m
  | .multiBinary sh, .multiBinary sh' => sh == sh'
  | .multiDiscrete nv, .multiDiscrete nv' => nv == nv'
  | .dict fs, .dict gs => beqFields fs gs
  | .tuple ss, .tuple ts => beqList ss ts
  | _, _ => false
def beqFields : List (String × Space α) → List (String × Space α) → Bool
  | [], [] => true
  | (k, s) :: fs, (k', t) :: gs => k == k' && beq s t && beqFields fs gs
  | _, _ => false
def beqList : List (Space α) → List (Space α) → Bool
  | [], [] => true
  | s :: ss, t :: ts => beq s t && beqList ss ts
  | _, _ => false
end

/-- the Python object whose `hash` is returned by `__hash__` (equal keys ⇒ equal hashes) -/
inductive HKey (α : Type) where
  | nat (n : Nat)
  | nats (ns : List Nat)
  | box (sh : List Nat) (lo hi : List (Num α))
  | node (ks : List (HKey α))
  | fields (kvs : List (String × HKey α))
  deriving Repr

mutual
def hashKey : Space α → HKey α
  | .box sh lo hi => .box sh (lo.map Num.canon) (hi.map Num.canon)
  | .discrete n => .nat n
  | .multiBinary sh => .nats sh
  | .multiDiscrete nv => .nats nv
  | .dict fs => .fields (hashKeyFields fs)
  | .tuple ss => .node (hashKeyList ss)
def hashKeyFields : List (String × Space α) → List (String × HKey α)
  | [] => []
  | (k, s) :: fs => (k, hashKey s) :: hashKeyFields fs
def hashKeyList : List (Space α) → List (HKey α)
  | [] => []
  | s :: ss => hashKey s :: hashKeyList ss
end

mutual
/-- "equal structure and parameters": the space with the sign of zero bounds forgotten -/
def canonSpace : Space α → Space α
  | .box sh lo hi => .box sh (lo.map Num.canon) (hi.map Num.canon)
  | .discrete n => .discrete n
  | .multiBinary sh => .multiBinary sh
  | .multiDiscrete nv => .multiDiscrete nv
  | .dict fs => .dict (canonSpaceFields fs)
  | .tuple ss => .tuple (canonSpaceList ss)
def canonSpaceFields : List (String × Space α) → List (String × Space α)
  | [] => []
  | (k, s) :: fs => (k, canonSpace s) :: canonSpaceFields fs
def canonSpaceList : List (Space α) → List (Space α)
  | [] => []
  | s :: ss => canonSpace s :: canonSpaceList ss
end

end Eq

/-! ## Gymnasium round trip -/

/-- the Gymnasium spaces the converters know -/
inductive GSpace (α : Type) where
  | box (shape : List Nat) (low high : List (Num α))
  | discrete (n : Nat) (start : Int)
  | multiBinaryInt (n : Nat)
  | multiBinaryTup (shape : List Nat)
  | multiDiscrete (nvec : List Nat)
  | dict (fields : List (String × GSpace α))   -- in Gymnasium's stored order
  | tuple (items : List (GSpace α))
  deriving Repr, Inhabited

section Gym
variable {α : Type}

/-- insertion into a key-sorted association list (stable) -/
def insertKey {β : Type} (k : String) (v : β) : List (String × β) → List (String × β)
  | [] => [(k, v)]
  | (k', v') :: rest => if k' < k then (k', v') :: insertKey k v rest else (k, v) :: (k', v') :: rest

/-- `dict(sorted(spaces.items()))` — what `gymnasium.spaces.Dict.__init__` does to a plain dict -/
def sortKeysL {β : Type} : List (String × β) → List (String × β)
  | [] => []
  | (k, v) :: rest => insertKey k v (sortKeysL rest)

mutual
/-- `lerax_to_gym_space` -/
def toGym : Space α → GSpace α
  | .box sh lo hi => .box sh lo hi
  | .discrete n => .discrete n 0
  | .multiBinary sh => match sh with
      | [n] => .multiBinaryInt n
      | _ => .multiBinaryTup sh
  | .multiDiscrete nv => .multiDiscrete nv
  | .dict fs => .dict (sortKeysL (toGymFields fs))
  | .tuple ss => .tuple (toGymList ss)
def toGymFields : List (String × Space α) → List (String × GSpace α)
  | [] => []
  | (k, s) :: fs => (k, toGym s) :: toGymFields fs
def toGymList : List (Space α) → List (GSpace α)
  | [] => []
  | s :: ss => toGym s :: toGymList ss
end

mutual
/-- `gym_space_to_lerax_space`; `none` = `NotImplementedError` (non-zero `start`) -/
def ofGym : GSpace α → Option (Space α)
  | .box sh lo hi => some (.box sh lo hi)
  | .discrete n start => if start = 0 then some (.discrete n) else none
  | .multiBinaryInt n => some (.multiBinary [n])
  | .multiBinaryTup sh => some (.multiBinary sh)
  | .multiDiscrete nv => some (.multiDiscrete nv)
  | .dict gs => match ofGymFields gs with
      | some fs => some (.dict fs)
      | none => none
  | .tuple gs => match ofGymList gs with
      | some ss => some (.tuple ss)
      | none => none
def ofGymFields : List (String × GSpace α) → Option (List (String × Space α))
  | [] => some []
  | (k, g) :: gs => match ofGym g, ofGymFields gs with
      | some s, some fs => some ((k, s) :: fs)
      | _, _ => none
def ofGymList : List (GSpace α) → Option (List (Space α))
  | [] => some []
  | g :: gs => match ofGym g, ofGymList gs with
      | some s, some ss => some (s :: ss)
      | _, _ => none
end

mutual
/-- the space with every Dict's keys in Gymnasium's order -/
def sortKeys : Space α → Space α
  | .box sh lo hi => .box sh lo hi
  | .discrete n => .discrete n
  | .multiBinary sh => .multiBinary sh
  | .multiDiscrete nv => .multiDiscrete nv
  | .dict fs => .dict (sortKeysL (sortKeysFields fs))
  | .tuple ss => .tuple (sortKeysList ss)
def sortKeysFields : List (String × Space α) → List (String × Space α)
  | [] => []
  | (k, s) :: fs => (k, sortKeys s) :: sortKeysFields fs
def sortKeysList : List (Space α) → List (Space α)
  | [] => []
  | s :: ss => sortKeys s :: sortKeysList ss
end

end Gym

/-! ## Executable Φ, decided by the driver on the implementation's answers -/

section Phi
variable {α : Type} [Zero α] [One α] [LE α] [LT α] [DecidableLE α] [DecidableLT α] [NatCast α]
variable (isInt : α → Bool)

/-- `contains` answered with a scalar boolean that is true exactly for members -/
def phiContains (s : Space α) (v : Val α) (impl : CResult) : Bool :=
  impl == .scalar (contains isInt s v)

/-- the mask allows the drawn index (only `Discrete` honours a mask) -/
def maskAllows (mask : Option (List Bool)) (v : Val α) : Bool :=
  match mask, v with
  | none, _ => true
  | some m, .arr [] [x] =>
      (List.range m.length).any (fun i => m.getD i false && x.eqv (.fin (Nat.cast i : α)))
  | some _, _ => false

/-- a sample / canonical element returned by the implementation is a member -/
def phiMember (s : Space α) (mask : Option (List Bool)) (v : Val α) : Bool :=
  contains isInt s v && maskAllows mask v

mutual
def Val.eqv : Val α → Val α → Bool
  | .arr sh d, .arr sh' d' => sh == sh' && allEqv d d'
  | .tuple xs, .tuple ys => Val.eqvList xs ys
  | .list xs, .list ys => Val.eqvList xs ys
  | .odict kvs, .odict kvs' => Val.eqvFields kvs kvs'
  | .pdict kvs, .pdict kvs' => Val.eqvFields kvs kvs'
  | .foreign, .foreign => true
  | _, _ => false
def Val.eqvList : List (Val α) → List (Val α) → Bool
  | [], [] => true
  | x :: xs, y :: ys => Val.eqv x y && Val.eqvList xs ys
  | _, _ => false
def Val.eqvFields : List (String × Val α) → List (String × Val α) → Bool
  | [], [] => true
  | (k, x) :: xs, (k', y) :: ys => k == k' && Val.eqv x y && Val.eqvFields xs ys
  | _, _ => false
end

/-- `flatten_sample` returned `flat_size` numbers from which the decoder rebuilds the sample -/
def phiFlatten (s : Space α) (v : Val α) (flat : List (Num α)) : Bool :=
  flat.length == flatSize s && (unflatten s flat).eqv (normalize s v)

/-- `==` is exact, and equal spaces hash equally -/
def phiEq (s t : Space α) (implEq : Bool) (implHashEq : Bool) : Bool :=
  implEq == beq s t && (!implEq || implHashEq)

/-- the space that came back from Gymnasium equals the original with keys in Gymnasium's order -/
def phiGym (s back : Space α) : Bool := beq back (sortKeys s)

end Phi

/-! ## Pre-repair behaviour (refuted in `LeraxProofs/C14.lean`) -/

section Legacy
variable {α : Type} [Zero α] [One α] [Add α] [Div α] [LE α] [LT α] [DecidableLE α] [DecidableLT α] [NatCast α]
variable (isInt : α → Bool)

/-- old `MultiDiscrete.contains`: `jnp.all(x < nvec)` only -/
def legacyAllBelow : List (Num α) → List Nat → Bool
  | [], [] => true
  | x :: xs, n :: ns => x.ltNat n && legacyAllBelow xs ns
  | _, _ => false
def legacyMultiDiscreteContains (nvec : List Nat) (v : Val α) : Bool :=
  match tryCast v with
  | none => false
  | some (xs, d) => xs == [nvec.length] && d.all (Num.integral isInt) && legacyAllBelow d nvec

/-- old `MultiBinary.contains`: `jnp.all(…, axis=0)` leaves the trailing axes -/
def legacyMultiBinaryContainsR (sh : List Nat) (v : Val α) : CResult :=
  match tryCast v with
  | none => .scalar false
  | some (xs, d) =>
      if xs == sh then
        (match sh with
         | _ :: (r :: rest) => .array (r :: rest)
         | _ => .scalar (d.all isBit))
      else .scalar false

/-- old `try_cast`: only `TypeError` was caught; ragged nesting and `None` raise `ValueError`,
    oversized integers `OverflowError` -/
def legacyLeafContainsR (isRaggedOrNone : Bool) (answer : Bool) : CResult :=
  if isRaggedOrNone then .raised "ValueError" else .scalar answer

/-- old `Tuple.__eq__`: `all(a == b for a, b in zip(…))` — truncates to the shorter tuple -/
def legacyBeqList (eq : Space α → Space α → Bool) : List (Space α) → List (Space α) → Bool
  | s :: ss, t :: ts => eq s t && legacyBeqList eq ss ts
  | _, _ => true

/-- old `Dict.__eq__`: `isinstance(other, OrderedDict)` is false for every `Dict` -/
def legacyDictBeq (_fs _gs : List (String × Space α)) : Bool := false

/-- old `Dict.__hash__`: `hash(odict_items)` raises `TypeError` -/
def legacyDictHash (_fs : List (String × Space α)) : Option (HKey α) := none

/-- old `Box.__hash__`: the raw bytes, which distinguish `-0.0` from `0.0` -/
def legacyBoxHashKey (sh : List Nat) (lo hi : List (Num α)) : HKey α := .box sh lo hi

/-- old `Box.canonical`: `(low + high) / 2` in IEEE arithmetic -/
def legacyCanonicalEntry (lo hi : Num α) : Num α :=
  match lo, hi with
  | .nan, _ => .nan
  | _, .nan => .nan
  | .pinf, .ninf => .nan
  | .ninf, .pinf => .nan
  | .pinf, _ => .pinf
  | _, .pinf => .pinf
  | .ninf, _ => .ninf
  | _, .ninf => .ninf
  | a, b => match a.fin?, b.fin? with
      | some l, some h => .fin ((l + h) / (1 + 1))
      | _, _ => .nan

/-- old `Dict.flatten_sample`: `jnp.concatenate([])` raises for a Dict without keys -/
def legacyDictFlattenLength (fs : List (String × Space α)) : Option Nat :=
  if fs.isEmpty then none else some (flatSizeFields fs)

end Legacy

end Lerax.Space
