/-
  Reference models: Gymnasium 1.3.0's classic-control environments, transcribed from
  `/venv/lib/python3.13/site-packages/gymnasium/envs/classic_control/{cartpole,mountain_car,
  continuous_mountain_car,acrobot}.py` (`step`, `reset`, `_terminal`, `_dsdt`, `wrap`, `bound`,
  `rk4`), same operations in the same order.  The agreement of these transcriptions with the
  installed Gymnasium is part of the correspondence check of C17 (the harness sets
  `env.unwrapped.state`, calls `step` once and compares).

  Uses only the state types and literal helpers of `LeraxModel/Classic.lean` (no Mathlib).
-/
import LeraxModel.Classic

namespace Lerax.GymRef
open Lerax.Classic (S2 S4 lit ofBool neq)

section
variable {α : Type} [Add α] [Sub α] [Mul α] [Div α] [Neg α] [Zero α] [One α] [NatCast α]
  [LT α] [DecidableLT α] [LE α] [DecidableLE α]

/-- `np.clip(x, lo, hi)` and Python's `min(max(x, lo), hi)` -/
def npClip (lo hi x : α) : α :=
  let t := if x < lo then lo else x
  if hi < t then hi else t

/-- result of one `step` -/
structure Step (σ α : Type) where
  state : σ
  reward : α
  terminated : Bool

/-! ### `cartpole.py` -/

structure CartPoleG (α : Type) where
  gravity : α
  masscart : α
  masspole : α
  length : α
  forceMag : α
  tau : α
  thetaThreshold : α
  xThreshold : α

def CartPoleG.totalMass (p : CartPoleG α) : α := p.masspole + p.masscart
def CartPoleG.polemassLength (p : CartPoleG α) : α := p.masspole * p.length

/-- `(xacc, thetaacc)` of `CartPoleEnv.step` (lines 168-182) -/
def cartpoleAcc (sin cos : α → α) (p : CartPoleG α) (s : S4 α) (action : Nat) : α × α :=
  let theta := s.c
  let thetaDot := s.d
  let force := if action = 1 then p.forceMag else -p.forceMag
  let costheta := cos theta
  let sintheta := sin theta
  let temp := (force + p.polemassLength * (thetaDot * thetaDot) * sintheta) / p.totalMass
  let thetaacc := (p.gravity * sintheta - costheta * temp) /
    (p.length * (lit 4 / lit 3 - p.masspole * (costheta * costheta) / p.totalMass))
  let xacc := temp - p.polemassLength * thetaacc * costheta / p.totalMass
  (xacc, thetaacc)

/-- the vector field Gymnasium integrates: `d/dt (x, x_dot, theta, theta_dot)` -/
def cartpoleField (sin cos : α → α) (p : CartPoleG α) (s : S4 α) (action : Nat) : S4 α :=
  ⟨s.b, (cartpoleAcc sin cos p s action).1, s.d, (cartpoleAcc sin cos p s action).2⟩

def cartpoleTerminated (p : CartPoleG α) (s : S4 α) : Bool :=
  decide (s.a < -p.xThreshold) || decide (p.xThreshold < s.a) ||
  decide (s.c < -p.thetaThreshold) || decide (p.thetaThreshold < s.c)

/-- `kinematics_integrator == "euler"` update (lines 184-188) -/
def cartpoleNext (sin cos : α → α) (p : CartPoleG α) (s : S4 α) (action : Nat) : S4 α :=
  let acc := cartpoleAcc sin cos p s action
  ⟨s.a + p.tau * s.b, s.b + p.tau * acc.1, s.c + p.tau * s.d, s.d + p.tau * acc.2⟩

/-- reward bookkeeping (lines 204-219, `sutton_barto_reward = False`); `stepsBeyond` is
    `steps_beyond_terminated` (`none` while the episode has not terminated) -/
def cartpoleRewardG (terminated : Bool) (stepsBeyond : Option Nat) : α :=
  if !terminated then 1 else match stepsBeyond with
    | none => 1
    | some _ => 0

def cartpoleStep (sin cos : α → α) (p : CartPoleG α) (s : S4 α) (action : Nat)
    (stepsBeyond : Option Nat) : Step (S4 α) α :=
  let s' := cartpoleNext sin cos p s action
  let t := cartpoleTerminated p s'
  ⟨s', cartpoleRewardG t stepsBeyond, t⟩

/-- `reset`: `uniform(low=-0.05, high=0.05, size=(4,))` -/
def cartpoleResetRange : List (α × α) := List.replicate 4 (-(lit 5 / lit 100), lit 5 / lit 100)

/-! ### `mountain_car.py` -/

structure MountainCarG (α : Type) where
  minPosition : α
  maxPosition : α
  maxSpeed : α
  goalPosition : α
  goalVelocity : α
  force : α
  gravity : α

/-- the velocity increment of line 138 -/
def mcAcc (cos : α → α) (p : MountainCarG α) (s : S2 α) (action : Nat) : α :=
  ((action : α) - 1) * p.force + cos (lit 3 * s.x) * (-p.gravity)

def mcField (cos : α → α) (p : MountainCarG α) (s : S2 α) (action : Nat) : S2 α :=
  ⟨s.v, mcAcc cos p s action⟩

/-- the three limit statements of `step` (lines 139, 141, 142-143) applied to a raw
    `(position, velocity)` pair -/
def mcLimits (p : MountainCarG α) (s : S2 α) : S2 α :=
  let velocity := npClip (-p.maxSpeed) p.maxSpeed s.v
  let position := npClip p.minPosition p.maxPosition s.x
  let velocity := if !(neq position p.minPosition) && decide (velocity < 0) then 0 else velocity
  ⟨position, velocity⟩

def mcTerminated (p : MountainCarG α) (s : S2 α) : Bool :=
  decide (p.goalPosition ≤ s.x) && decide (p.goalVelocity ≤ s.v)

/-- `MountainCarEnv.step` (lines 137-154), statement by statement -/
def mcStep (cos : α → α) (p : MountainCarG α) (s : S2 α) (action : Nat) : Step (S2 α) α :=
  let position := s.x
  let velocity := s.v
  let velocity := velocity + mcAcc cos p s action
  let velocity := npClip (-p.maxSpeed) p.maxSpeed velocity
  let position := position + velocity
  let position := npClip p.minPosition p.maxPosition position
  let velocity := if !(neq position p.minPosition) && decide (velocity < 0) then 0 else velocity
  let s' : S2 α := ⟨position, velocity⟩
  ⟨s', -1, mcTerminated p s'⟩

def mcResetRange : List (α × α) := [(-(lit 6 / lit 10), -(lit 4 / lit 10)), (0, 0)]

/-! ### `continuous_mountain_car.py` -/

structure CmcG (α : Type) where
  minAction : α
  maxAction : α
  minPosition : α
  maxPosition : α
  maxSpeed : α
  goalPosition : α
  goalVelocity : α
  power : α

/-- `force * power - 0.0025 * cos(3 * position)` with `force = min(max(a, min), max)` -/
def cmcAcc (cos : α → α) (p : CmcG α) (s : S2 α) (action : α) : α :=
  let force := npClip p.minAction p.maxAction action
  force * p.power - lit 25 / lit 10000 * cos (lit 3 * s.x)

def cmcField (cos : α → α) (p : CmcG α) (s : S2 α) (action : α) : S2 α :=
  ⟨s.v, cmcAcc cos p s action⟩

/-- the `if` cascades of lines 156-166 on a raw `(position, velocity)` pair -/
def cmcLimits (p : CmcG α) (s : S2 α) : S2 α :=
  let velocity := s.v
  let velocity := if p.maxSpeed < velocity then p.maxSpeed else velocity
  let velocity := if velocity < -p.maxSpeed then -p.maxSpeed else velocity
  let position := s.x
  let position := if p.maxPosition < position then p.maxPosition else position
  let position := if position < p.minPosition then p.minPosition else position
  let velocity := if !(neq position p.minPosition) && decide (velocity < 0) then 0 else velocity
  ⟨position, velocity⟩

def cmcTerminated (p : CmcG α) (s : S2 α) : Bool :=
  decide (p.goalPosition ≤ s.x) && decide (p.goalVelocity ≤ s.v)

/-- `reward = 0; if terminated: reward = 100.0; reward -= action[0]**2 * 0.1` (raw action) -/
def cmcRewardG (terminated : Bool) (action : α) : α :=
  (if terminated then lit 100 else 0) - action * action * (lit 1 / lit 10)

/-- `Continuous_MountainCarEnv.step` (lines 151-183) -/
def cmcStep (cos : α → α) (p : CmcG α) (s : S2 α) (action : α) : Step (S2 α) α :=
  let position := s.x
  let velocity := s.v
  let velocity := velocity + cmcAcc cos p s action
  let velocity := if p.maxSpeed < velocity then p.maxSpeed else velocity
  let velocity := if velocity < -p.maxSpeed then -p.maxSpeed else velocity
  let position := position + velocity
  let position := if p.maxPosition < position then p.maxPosition else position
  let position := if position < p.minPosition then p.minPosition else position
  let velocity := if !(neq position p.minPosition) && decide (velocity < 0) then 0 else velocity
  let s' : S2 α := ⟨position, velocity⟩
  let t := cmcTerminated p s'
  ⟨s', cmcRewardG t action, t⟩

def cmcResetRange : List (α × α) := [(-(lit 6 / lit 10), -(lit 4 / lit 10)), (0, 0)]

/-- Gymnasium's goal position -/
def cmcGoal : α := lit 45 / lit 100

/-! ### `acrobot.py` ("book" dynamics) -/

structure AcrobotG (α : Type) where
  l1 : α
  m1 : α
  m2 : α
  lc1 : α
  lc2 : α
  moi : α
  g : α            -- `g = 9.8` inside `_dsdt`
  maxVel1 : α
  maxVel2 : α
  availTorque : List α
  dt : α

/-- `_dsdt` (lines 244-279), `book_or_nips = "book"`; `a` is the torque -/
def acrobotDsdt (sin cos : α → α) (pi : α) (p : AcrobotG α) (s : S4 α) (a : α) : S4 α :=
  let m1 := p.m1
  let m2 := p.m2
  let l1 := p.l1
  let lc1 := p.lc1
  let lc2 := p.lc2
  let i1 := p.moi
  let i2 := p.moi
  let g := p.g
  let theta1 := s.a
  let theta2 := s.b
  let dtheta1 := s.c
  let dtheta2 := s.d
  let d1 := m1 * (lc1 * lc1) + m2 * (l1 * l1 + lc2 * lc2 + lit 2 * l1 * lc2 * cos theta2) + i1 + i2
  let d2 := m2 * (lc2 * lc2 + l1 * lc2 * cos theta2) + i2
  let phi2 := m2 * lc2 * g * cos (theta1 + theta2 - pi / lit 2)
  let phi1 := -m2 * l1 * lc2 * (dtheta2 * dtheta2) * sin theta2
    - lit 2 * m2 * l1 * lc2 * dtheta2 * dtheta1 * sin theta2
    + (m1 * lc1 + m2 * l1) * g * cos (theta1 - pi / lit 2)
    + phi2
  let ddtheta2 := (a + d2 / d1 * phi1 - m2 * l1 * lc2 * (dtheta1 * dtheta1) * sin theta2 - phi2)
    / (m2 * (lc2 * lc2) + i2 - d2 * d2 / d1)
  let ddtheta1 := -(d2 * ddtheta2 + phi1) / d1
  ⟨dtheta1, dtheta2, ddtheta1, ddtheta2⟩

def acrobotField (sin cos : α → α) (pi : α) (p : AcrobotG α) (s : S4 α) (action : Nat) : S4 α :=
  acrobotDsdt sin cos pi p s (p.availTorque.getD action 0)

def S4.add (x y : S4 α) : S4 α := ⟨x.a + y.a, x.b + y.b, x.c + y.c, x.d + y.d⟩
def S4.smul (k : α) (x : S4 α) : S4 α := ⟨k * x.a, k * x.b, k * x.c, k * x.d⟩

/-- `rk4(derivs, y0, [0, dt])` (one interval) -/
def rk4 (f : S4 α → S4 α) (dt : α) (y0 : S4 α) : S4 α :=
  let dt2 := dt / lit 2
  let k1 := f y0
  let k2 := f (S4.add y0 (S4.smul dt2 k1))
  let k3 := f (S4.add y0 (S4.smul dt2 k2))
  let k4 := f (S4.add y0 (S4.smul dt k3))
  S4.add y0 (S4.smul (dt / lit 6)
    (S4.add (S4.add (S4.add k1 (S4.smul (lit 2) k2)) (S4.smul (lit 2) k3)) k4))

/-- `while x > M: x = x - diff` with a step budget -/
def wrapDown : Nat → α → α → α → α
  | 0, _, _, x => x
  | n + 1, M, diff, x => if M < x then wrapDown n M diff (x - diff) else x

/-- `while x < m: x = x + diff` with a step budget -/
def wrapUp : Nat → α → α → α → α
  | 0, _, _, x => x
  | n + 1, m, diff, x => if x < m then wrapUp n m diff (x + diff) else x

/-- `wrap(x, m, M)` (lines 376-394); `fuel` bounds the number of loop iterations -/
def wrap (fuel : Nat) (m M x : α) : α := wrapUp fuel m (M - m) (wrapDown fuel M (M - m) x)

/-- `bound(x, m, M) = min(max(x, m), M)` -/
def bound (m M x : α) : α := npClip m M x

/-- the limit statements of `step` (lines 219-222) -/
def acrobotLimits (fuel : Nat) (pi : α) (p : AcrobotG α) (ns : S4 α) : S4 α :=
  ⟨wrap fuel (-pi) pi ns.a, wrap fuel (-pi) pi ns.b,
   bound (-p.maxVel1) p.maxVel1 ns.c, bound (-p.maxVel2) p.maxVel2 ns.d⟩

/-- `_terminal`: `-cos(s[0]) - cos(s[1] + s[0]) > 1.0` -/
def acrobotTerminated (cos : α → α) (s : S4 α) : Bool :=
  decide (1 < -cos s.a - cos (s.b + s.a))

/-- `reward = -1.0 if not terminated else 0.0` -/
def acrobotRewardG (terminated : Bool) : α := if !terminated then -1 else 0

def acrobotStep (sin cos : α → α) (fuel : Nat) (pi : α) (p : AcrobotG α) (s : S4 α)
    (action : Nat) : Step (S4 α) α :=
  let torque := p.availTorque.getD action 0
  let ns := rk4 (fun z => acrobotDsdt sin cos pi p z torque) p.dt s
  let ns := acrobotLimits fuel pi p ns
  let t := acrobotTerminated cos ns
  ⟨ns, acrobotRewardG t, t⟩

def acrobotObs (sin cos : α → α) (s : S4 α) : List α :=
  [cos s.a, sin s.a, cos s.b, sin s.b, s.c, s.d]

def acrobotResetRange : List (α × α) := List.replicate 4 (-(lit 1 / lit 10), lit 1 / lit 10)

end
end Lerax.GymRef
