/-
  Model of `RolloutBuffer.compute_returns_and_advantages`
  (`/repo/src/lerax/buffer/rollout.py:63-92`), same operations in the same order:

    next_values        = concatenate([values[1:], last_value[None]])
    next_non_terminals = 1.0 - dones.astype(float)
    deltas             = rewards + gamma * next_values * next_non_terminals - values
    discounts          = gamma * gae_lambda * next_non_terminals
    advantages         = reverse scan  a_t = delta_t + discount_t * carry,  carry_T = 0
    returns            = advantages + values

  Numbers are an arbitrary type `α` with core arithmetic classes; the driver instantiates
  `Float`, the proofs an arbitrary commutative ring / ordered field.
-/
namespace Lerax.Gae

section
variable {α : Type} [Add α] [Sub α] [Mul α] [Zero α] [One α]

/-- `dones.astype(float)` -/
def ofBool (d : Bool) : α := if d then 1 else 0

/-- `concatenate([values[1:], last[None]])` -/
def nextValues (values : List α) (last : α) : List α := values.drop 1 ++ [last]

/-- `1.0 - dones.astype(float)` -/
def nextNonTerminals (dones : List Bool) : List α := dones.map (fun d => (1 : α) - ofBool d)

def zipWith3 (f : α → α → α → α) : List α → List α → List α → List α
  | a :: as, b :: bs, c :: cs => f a b c :: zipWith3 f as bs cs
  | _, _, _ => []

/-- `rewards + gamma * next_values * next_non_terminals - values` (elementwise) -/
def deltas (gamma : α) (rewards values nextVals nnt : List α) : List α :=
  zipWith3 (fun x y z => x + y - z) rewards
    (List.zipWith (fun nv n => gamma * nv * n) nextVals nnt) values

/-- `gamma * gae_lambda * next_non_terminals` -/
def discounts (gamma lam : α) (nnt : List α) : List α := nnt.map (fun n => gamma * lam * n)

/-- `lax.scan(scan_fn, 0.0, (deltas, discounts), reverse=True)`; returns (outputs, final carry) -/
def scanRev : List (α × α) → α → List α × α
  | [], c => ([], c)
  | (delta, discount) :: xs, c =>
      let (out, c') := scanRev xs c
      let a := delta + discount * c'
      (a :: out, a)

structure Out (α : Type) where
  advantages : List α
  returns : List α

def gae (gamma lam : α) (rewards values : List α) (dones : List Bool) (last : α) : Out α :=
  let nv := nextValues values last
  let nnt : List α := nextNonTerminals dones
  let ds := deltas gamma rewards values nv nnt
  let disc := discounts gamma lam nnt
  let adv := (scanRev (ds.zip disc) 0).1
  { advantages := adv, returns := List.zipWith (· + ·) adv values }

/-- several parallel environments: the estimator runs inside the per-environment vmap -/
def gaeBatch (gamma lam : α) (envs : List (List α × List α × List Bool × α)) : List (Out α) :=
  envs.map (fun e => gae gamma lam e.1 e.2.1 e.2.2.1 e.2.2.2)

end

/-! ### Executable form of the property (Φ), decided on implementation outputs by the driver
    and proved of `gae` for every input in `LeraxProofs/C03.lean`. -/

section
variable {α : Type} [Add α] [Sub α] [Mul α] [Zero α] [One α]

/-- GAE recurrence at index `t`, reading `A_{T} = 0` and `V_{T} = last`. -/
def recurrenceAt (eqv : α → α → Bool) (gamma lam : α) (rewards values : List α)
    (dones : List Bool) (last : α) (adv ret : List α) (t : Nat) : Bool :=
  let r := rewards.getD t 0
  let v := values.getD t 0
  let d := dones.getD t false
  let vNext := (values ++ [last]).getD (t + 1) 0
  let aNext := adv.getD (t + 1) 0
  let nnt : α := 1 - ofBool d
  let delta := r + gamma * vNext * nnt - v
  eqv (adv.getD t 0) (delta + gamma * lam * nnt * aNext) && eqv (ret.getD t 0) (adv.getD t 0 + v)

def phi (eqv : α → α → Bool) (gamma lam : α) (rewards values : List α)
    (dones : List Bool) (last : α) (adv ret : List α) : Bool :=
  adv.length == rewards.length && ret.length == rewards.length &&
  (List.range rewards.length).all (recurrenceAt eqv gamma lam rewards values dones last adv ret)

end
end Lerax.Gae
