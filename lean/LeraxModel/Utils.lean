/-
  Model of `filter_cond` (`/repo/src/lerax/utils.py:14-60`): both branches are evaluated, their
  outputs are partitioned into array leaves and static (non-array) leaves, the static parts must
  be identical (else `ValueError`), the array leaves are selected by `lax.cond(pred, …)` and
  recombined with the static part of the true branch.

  A pytree is modelled by its ordered list of leaves.
-/
namespace Lerax.Utils

inductive Leaf (α σ : Type) where
  | arr (x : α)
  | static (s : σ)
  deriving DecidableEq

/-- `eqx.partition(tree, eqx.is_array)`: (array part, static part), each with holes -/
def arrays {α σ : Type} (t : List (Leaf α σ)) : List (Option α) :=
  t.map (fun l => match l with | .arr x => some x | .static _ => none)

def statics {α σ : Type} (t : List (Leaf α σ)) : List (Option σ) :=
  t.map (fun l => match l with | .arr _ => none | .static s => some s)

/-- `eqx.combine(arrays, statics)` -/
def combine {α σ : Type} : List (Option α) → List (Option σ) → List (Leaf α σ)
  | some x :: as, _ :: ss => .arr x :: combine as ss
  | none :: as, some s :: ss => .static s :: combine as ss
  | _, _ => []

def filterCond {α σ : Type} [DecidableEq σ] (pred : Bool) (t f : List (Leaf α σ)) :
    Except String (List (Leaf α σ)) :=
  if statics t ≠ statics f then .error "Non-array leaves of true_fun and false_fun outputs must be identical."
  else .ok (combine (if pred then arrays t else arrays f) (statics t))

end Lerax.Utils
