/-
  Models of lerax's classic-control kernels (`/repo/src/lerax/env/classic_control/*.py`):
  `dynamics`, `clip`, `observation`, `reward`, `terminal`, the range `initial` draws from, and
  the explicit-Euler step that `transition` performs with `solver = diffrax.Euler()`
  (`base_classic_control.py:47-72`: one step `y0 + dt * f(t0, y0)` from `t0` to `t0 + dt`, then
  `clip`).  Same operations in the same order as the Python code.

  Numbers are an arbitrary type `α` with core classes only (the driver instantiates `Float`,
  the proofs an ordered field); numeric literals of the source (`4.0 / 3.0`, `0.0025`, `100.0`)
  are written as casts of naturals and quotients of such (`25 / 10000`), `sin cos` are function
  parameters, `jnp`'s float `%` is the function parameter `pmod`, `jnp.pi` the parameter `pi`.
  Discrete actions are naturals.

  The models mirror the code AFTER the C17 repairs (see `/verif/known_findings.json`):
  `ContinuousMountainCar.reward` tests the goal on `next_state`, `ContinuousMountainCar.clip`
  has the left-wall velocity rule, the default goal position is Gymnasium's.  The pre-repair
  behaviour is kept as `Legacy…` definitions.
-/
namespace Lerax.Classic

structure S2 (α : Type) where
  x : α
  v : α
  deriving Repr, DecidableEq

structure S4 (α : Type) where
  a : α
  b : α
  c : α
  d : α
  deriving Repr, DecidableEq

def S2.toList {α : Type} (s : S2 α) : List α := [s.x, s.v]
def S4.toList {α : Type} (s : S4 α) : List α := [s.a, s.b, s.c, s.d]

section
variable {α : Type} [Add α] [Sub α] [Mul α] [Div α] [Neg α] [Zero α] [One α] [NatCast α]
  [LT α] [DecidableLT α] [LE α] [DecidableLE α]

/-- a natural-number literal of the source code -/
def lit (n : Nat) : α := (n : α)

/-- `jnp.clip(x, lo, hi)` = `minimum(maximum(x, lo), hi)` -/
def clamp (lo hi x : α) : α :=
  if hi < (if x < lo then lo else x) then hi else (if x < lo then lo else x)

/-- `x != y` on numbers (written with `<` only, so that no decidable equality is needed) -/
def neq (x y : α) : Bool := decide (x < y) || decide (y < x)

/-- `bool.astype(float)` -/
def ofBool (b : Bool) : α := if b then 1 else 0

/-- one explicit-Euler step `y + dt * f y` (what `diffrax.Euler` does over `[t0, t0 + dt]` with
    `dt0 = dt`) -/
def euler2 (dt : α) (f : S2 α → S2 α) (y : S2 α) : S2 α :=
  ⟨y.x + dt * (f y).x, y.v + dt * (f y).v⟩

def euler4 (dt : α) (f : S4 α → S4 α) (y : S4 α) : S4 α :=
  ⟨y.a + dt * (f y).a, y.b + dt * (f y).b, y.c + dt * (f y).c, y.d + dt * (f y).d⟩

/-! ### CartPole (`cartpole.py`) — state `(x, x_dot, theta, theta_dot)` -/

structure CartPoleP (α : Type) where
  gravity : α
  cartMass : α
  poleMass : α
  length : α          -- half length
  forceMag : α
  thetaThreshold : α
  xThreshold : α
  dt : α

def CartPoleP.totalMass (p : CartPoleP α) : α := p.poleMass + p.cartMass
def CartPoleP.polemassLength (p : CartPoleP α) : α := p.poleMass * p.length

/-- `CartPole.dynamics` (lines 167-182) -/
def cartpoleDynamics (sin cos : α → α) (p : CartPoleP α) (y : S4 α) (action : Nat) : S4 α :=
  let xDot := y.b
  let theta := y.c
  let thetaDot := y.d
  let force := ((action : α) * lit 2 - 1) * p.forceMag
  let temp := (force + p.polemassLength * (thetaDot * thetaDot) * sin theta) / p.totalMass
  let thetaDD := (p.gravity * sin theta - cos theta * temp) /
    (p.length * (lit 4 / lit 3 - p.poleMass * (cos theta * cos theta) / p.totalMass))
  let xDD := temp - p.polemassLength * thetaDD * cos theta / p.totalMass
  ⟨xDot, xDD, thetaDot, thetaDD⟩

/-- `CartPole.clip` is the identity -/
def cartpoleClip (y : S4 α) : S4 α := y

def cartpoleObs (y : S4 α) : List α := y.toList

/-- `CartPole.reward`: `1.0` on every step -/
def cartpoleReward (_y : S4 α) (_action : Nat) (_next : S4 α) : α := 1

/-- `CartPole.terminal` (lines 201-207) -/
def cartpoleTerminal (p : CartPoleP α) (y : S4 α) : Bool :=
  let withinX := decide (-p.xThreshold ≤ y.a) && decide (y.a ≤ p.xThreshold)
  let withinTheta := decide (-p.thetaThreshold ≤ y.c) && decide (y.c ≤ p.thetaThreshold)
  !(withinX && withinTheta)

/-- `initial`: `uniform(key, (4,), -0.05, 0.05)` — per-coordinate `(low, high)` -/
def cartpoleInitRange : List (α × α) :=
  List.replicate 4 (-(lit 5 / lit 100), lit 5 / lit 100)

/-- declared observation space: `Box(-high, high)`, `high = [2·x_thr, ∞, 2·θ_thr, ∞]`
    (`none` = unbounded) -/
def cartpoleObsHigh (p : CartPoleP α) : List (Option α) :=
  [some (p.xThreshold * lit 2), none, some (p.thetaThreshold * lit 2), none]

/-- `transition` with `solver = diffrax.Euler()` -/
def cartpoleEulerStep (sin cos : α → α) (p : CartPoleP α) (y : S4 α) (action : Nat) : S4 α :=
  cartpoleClip (euler4 p.dt (fun z => cartpoleDynamics sin cos p z action) y)

/-! ### MountainCar (`mountain_car.py`) — state `(x, v)` -/

structure MountainCarP (α : Type) where
  minPosition : α
  maxPosition : α
  maxSpeed : α
  goalPosition : α
  goalVelocity : α
  force : α
  gravity : α
  dt : α

/-- `MountainCar.dynamics` (lines 151-157) -/
def mcDynamics (cos : α → α) (p : MountainCarP α) (y : S2 α) (action : Nat) : S2 α :=
  let u := ((action : α) - 1) * p.force
  let xDD := u - p.gravity * cos (lit 3 * y.x)
  ⟨y.v, xDD⟩

/-- `MountainCar.clip` (lines 159-164): clip speed, clip position,
    `v * ((x != min_position) | (v > 0))` -/
def mcClip (p : MountainCarP α) (y : S2 α) : S2 α :=
  let v := clamp (-p.maxSpeed) p.maxSpeed y.v
  let x := clamp p.minPosition p.maxPosition y.x
  let v := v * ofBool (neq x p.minPosition || decide (0 < v))
  ⟨x, v⟩

def mcObs (y : S2 α) : List α := y.toList
def mcReward (_y : S2 α) (_action : Nat) (_next : S2 α) : α := -1

def mcTerminal (p : MountainCarP α) (y : S2 α) : Bool :=
  decide (p.goalPosition ≤ y.x) && decide (p.goalVelocity ≤ y.v)

/-- `initial`: `[uniform(-0.6, -0.4), 0.0]` -/
def mcInitRange : List (α × α) := [(-(lit 6 / lit 10), -(lit 4 / lit 10)), (0, 0)]

def mcObsLow (p : MountainCarP α) : List α := [p.minPosition, -p.maxSpeed]
def mcObsHigh (p : MountainCarP α) : List α := [p.maxPosition, p.maxSpeed]

def mcEulerStep (cos : α → α) (p : MountainCarP α) (y : S2 α) (action : Nat) : S2 α :=
  mcClip p (euler2 p.dt (fun z => mcDynamics cos p z action) y)

/-! ### ContinuousMountainCar (`continuous_mountain_car.py`) -/

structure CmcP (α : Type) where
  minAction : α
  maxAction : α
  minPosition : α
  maxPosition : α
  maxSpeed : α
  goalPosition : α
  goalVelocity : α
  power : α
  dt : α

/-- `ContinuousMountainCar.dynamics`: `power * clip(a) - 0.0025 * cos(3 x)` -/
def cmcDynamics (cos : α → α) (p : CmcP α) (y : S2 α) (action : α) : S2 α :=
  let a := clamp p.minAction p.maxAction action
  let xDD := p.power * a - lit 25 / lit 10000 * cos (lit 3 * y.x)
  ⟨y.v, xDD⟩

/-- `ContinuousMountainCar.clip` (repaired: with the left-wall rule of `MountainCar.clip`) -/
def cmcClip (p : CmcP α) (y : S2 α) : S2 α :=
  let v := clamp (-p.maxSpeed) p.maxSpeed y.v
  let x := clamp p.minPosition p.maxPosition y.x
  let v := v * ofBool (neq x p.minPosition || decide (0 < v))
  ⟨x, v⟩

/-- pre-repair `clip`: no left-wall rule -/
def LegacyCmcClip (p : CmcP α) (y : S2 α) : S2 α :=
  ⟨clamp p.minPosition p.maxPosition y.x, clamp (-p.maxSpeed) p.maxSpeed y.v⟩

def cmcObs (y : S2 α) : List α := y.toList

def cmcTerminal (p : CmcP α) (y : S2 α) : Bool :=
  decide (p.goalPosition ≤ y.x) && decide (p.goalVelocity ≤ y.v)

/-- `ContinuousMountainCar.reward` (repaired): `100 * terminal(next_state) - 0.1 * clip(a)**2` -/
def cmcReward (p : CmcP α) (_y : S2 α) (action : α) (next : S2 α) : α :=
  lit 100 * ofBool (cmcTerminal p next)
    - lit 1 / lit 10 * (clamp p.minAction p.maxAction action * clamp p.minAction p.maxAction action)

/-- pre-repair reward: the goal bonus was decided on the state *before* the transition -/
def LegacyCmcReward (p : CmcP α) (y : S2 α) (action : α) (_next : S2 α) : α :=
  lit 100 * ofBool (cmcTerminal p y)
    - lit 1 / lit 10 * (clamp p.minAction p.maxAction action * clamp p.minAction p.maxAction action)

def cmcInitRange : List (α × α) := [(-(lit 6 / lit 10), -(lit 4 / lit 10)), (0, 0)]
def cmcObsLow (p : CmcP α) : List α := [p.minPosition, -p.maxSpeed]
def cmcObsHigh (p : CmcP α) : List α := [p.maxPosition, p.maxSpeed]

/-- default goal position (repaired: Gymnasium's 0.45; was 0.5) -/
def cmcDefaultGoal : α := lit 45 / lit 100
def LegacyCmcDefaultGoal : α := lit 5 / lit 10

def cmcEulerStep (cos : α → α) (p : CmcP α) (y : S2 α) (action : α) : S2 α :=
  cmcClip p (euler2 p.dt (fun z => cmcDynamics cos p z action) y)

/-! ### Acrobot (`acrobot.py`) — state `(theta1, theta2, theta1_dot, theta2_dot)` -/

structure AcrobotP (α : Type) where
  gravity : α
  l1 : α
  l2 : α
  m1 : α
  m2 : α
  lc1 : α
  lc2 : α
  moi : α
  maxVel1 : α
  maxVel2 : α
  torques : List α
  dt : α

/-- `Acrobot.dynamics` (lines 172-230), `pi` is `jnp.pi` -/
def acrobotDynamics (sin cos : α → α) (pi : α) (p : AcrobotP α) (y : S4 α) (action : Nat) : S4 α :=
  let theta1 := y.a
  let theta2 := y.b
  let theta1D := y.c
  let theta2D := y.d
  let a := p.torques.getD action 0
  let d1 := p.m1 * (p.lc1 * p.lc1)
    + p.m2 * (p.l1 * p.l1 + p.lc2 * p.lc2 + lit 2 * p.l1 * p.lc2 * cos theta2)
    + p.moi + p.moi
  let d2 := p.m2 * (p.lc2 * p.lc2 + p.l1 * p.lc2 * cos theta2) + p.moi
  let phi2 := p.m2 * p.lc2 * p.gravity * cos (theta1 + theta2 - pi / lit 2)
  let phi1 := -p.m2 * p.l1 * p.lc2 * (theta2D * theta2D) * sin theta2
    - lit 2 * p.m2 * p.l1 * p.lc2 * theta1D * theta2D * sin theta2
    + (p.m1 * p.lc1 + p.m2 * p.l1) * p.gravity * cos (theta1 - pi / lit 2)
    + phi2
  let theta2DD := (a + d2 / d1 * phi1 - p.m2 * p.l1 * p.lc2 * (theta1D * theta1D) * sin theta2 - phi2)
    / (p.m2 * (p.lc2 * p.lc2) + p.moi - d2 * d2 / d1)
  let theta1DD := -(d2 * theta2DD + phi1) / d1
  ⟨theta1D, theta2D, theta1DD, theta2DD⟩

/-- `(x + pi) % (2 pi) - pi` -/
def wrapPi (pmod : α → α → α) (pi : α) (x : α) : α := pmod (x + pi) (lit 2 * pi) - pi

/-- `Acrobot.clip` (lines 232-239) -/
def acrobotClip (pmod : α → α → α) (pi : α) (p : AcrobotP α) (y : S4 α) : S4 α :=
  ⟨wrapPi pmod pi y.a, wrapPi pmod pi y.b,
   clamp (-p.maxVel1) p.maxVel1 y.c, clamp (-p.maxVel2) p.maxVel2 y.d⟩

def acrobotObs (sin cos : α → α) (y : S4 α) : List α :=
  [cos y.a, sin y.a, cos y.b, sin y.b, y.c, y.d]

def acrobotTerminal (cos : α → α) (y : S4 α) : Bool :=
  decide (1 < -cos y.a - cos (y.a + y.b))

/-- `Acrobot.reward`: `done(next_state).astype(float) - 1.0` -/
def acrobotReward (cos : α → α) (_y : S4 α) (_action : Nat) (next : S4 α) : α :=
  ofBool (acrobotTerminal cos next) - 1

def acrobotInitRange : List (α × α) := List.replicate 4 (-(lit 1 / lit 10), lit 1 / lit 10)
def acrobotObsHigh (p : AcrobotP α) : List α := [1, 1, 1, 1, p.maxVel1, p.maxVel2]

def acrobotEulerStep (sin cos : α → α) (pmod : α → α → α) (pi : α) (p : AcrobotP α) (y : S4 α)
    (action : Nat) : S4 α :=
  acrobotClip pmod pi p (euler4 p.dt (fun z => acrobotDynamics sin cos pi p z action) y)

/-! ### Pendulum (`pendulum.py`) — only what property C02 needs plus the field -/

structure PendulumP (α : Type) where
  maxSpeed : α
  maxTorque : α
  g : α
  m : α
  l : α
  dt : α

def pendulumDynamics (sin : α → α) (p : PendulumP α) (y : S2 α) (action : α) : S2 α :=
  let u := clamp (-p.maxTorque) p.maxTorque action
  let thetaDD := lit 3 * p.g / (lit 2 * p.l) * sin y.x + lit 3 / (p.m * (p.l * p.l)) * u
  ⟨y.v, thetaDD⟩

def pendulumClip (pmod : α → α → α) (pi : α) (p : PendulumP α) (y : S2 α) : S2 α :=
  ⟨wrapPi pmod pi y.x, clamp (-p.maxSpeed) p.maxSpeed y.v⟩

def pendulumObs (sin cos : α → α) (y : S2 α) : List α := [cos y.x, sin y.x, y.v]

def pendulumReward (p : PendulumP α) (_y : S2 α) (action : α) (next : S2 α) : α :=
  let u := clamp (-p.maxTorque) p.maxTorque action
  let cost := next.x * next.x + lit 1 / lit 10 * (next.v * next.v) + lit 1 / lit 1000 * (u * u)
  Neg.neg cost

def pendulumObsHigh (p : PendulumP α) : List α := [1, 1, p.maxSpeed]

/-- `lo ≤ x ≤ hi` coordinatewise -/
def inBox (lo hi xs : List α) : Bool :=
  xs.length == lo.length && xs.length == hi.length &&
  (List.zip lo (List.zip xs hi)).all (fun t => decide (t.1 ≤ t.2.1) && decide (t.2.1 ≤ t.2.2))

end

/-! ### Φ on implementation outputs: two implementations (lerax, Gymnasium) asked the same
    question must give the same answer.  `phiSame eqv clauses` returns the name of the first
    clause whose two answers differ (lists compared elementwise with `eqv`). -/

def sameList {α : Type} (eqv : α → α → Bool) : List α → List α → Bool
  | [], [] => true
  | x :: xs, y :: ys => eqv x y && sameList eqv xs ys
  | _, _ => false

def phiSame {α : Type} (eqv : α → α → Bool) (clauses : List (String × List α × List α)) :
    Option String :=
  (clauses.find? (fun c => !sameList eqv c.2.1 c.2.2)).map (·.1)

end Lerax.Classic
