/-
  Model of on-policy collection: `AbstractActorCriticOnPolicyAlgorithm.step`
  (`/repo/src/lerax/algorithm/on_policy.py:340-433`), `collect_rollout` (185-217) and the
  vectorised collection of `iteration` (283-296).

  step():  observe; mask; (ps', a, v, logp) = policy.action_and_value(ps, obs, mask);
           clipped = clip(a) for Box action spaces; next = transition(s, clipped);
           r = reward(s, clipped, next); term, trunc; done = term | trunc;
           stored reward = r + γ·V(ps', obs(next)) iff trunc ∧ ¬term, else r;
           on done: env state := initial(k), policy state := reset(k');
           row = (obs, a, stored reward, done, logp, v, ps, mask)
-/
import LeraxModel.Env
namespace Lerax.OnPolicy
open Lerax.Env

/-- an actor-critic policy (`AbstractActorCriticPolicy`) -/
structure Policy (PS O A M α K : Type) where
  actionAndValue : PS → O → K → Option M → PS × A × α × α   -- next state, action, value, log-prob
  evaluate : PS → O → A → Option M → α × α                  -- value, log-prob
  value : PS → O → α
  reset : K → PS

structure Row (PS O A M α : Type) where
  observation : O
  action : A
  reward : α
  done : Bool
  logProb : α
  value : α
  policyState : PS
  mask : Option M

structure StepState (S PS : Type) where
  env : S
  policy : PS

section
variable {S A O K PS M α : Type} [Keys K] [Add α] [Mul α]

/-- one collection step; `clip` is `jnp.clip` to the Box bounds (identity for non-Box spaces) -/
def collectStep (E : Env S A O α K) (actionMask : S → K → Option M) (clip : A → A)
    (P : Policy PS O A M α K) (gamma : α) (st : StepState S PS) (key : K) :
    StepState S PS × Row PS O A M α :=
  let obs := E.observation st.env (sub key 2)
  let mask := actionMask st.env (sub key 2)
  let (ps', a, v, lp) := P.actionAndValue st.policy obs (sub key 0) mask
  let ca := clip a
  let next := E.transition st.env ca (sub key 1)
  let r := E.reward st.env ca next (sub key 3)
  let term := E.terminal next (sub key 4)
  let trunc := E.truncate next
  let done := term || trunc
  let br := if trunc && !term then r + gamma * P.value ps' (E.observation next (sub key 5)) else r
  let env' := if done then E.initial (sub key 6) else next
  let pol' := if done then P.reset (sub key 7) else ps'
  ({ env := env', policy := pol' },
   { observation := obs, action := a, reward := br, done := done, logProb := lp, value := v,
     policyState := st.policy, mask := mask })

/-- `collect_rollout`: scan `step` over the split keys -/
def collectRollout (E : Env S A O α K) (actionMask : S → K → Option M) (clip : A → A)
    (P : Policy PS O A M α K) (gamma : α) :
    StepState S PS → List K → StepState S PS × List (Row PS O A M α)
  | st, [] => (st, [])
  | st, k :: ks =>
      let (st', row) := collectStep E actionMask clip P gamma st k
      let (stN, rows) := collectRollout E actionMask clip P gamma st' ks
      (stN, row :: rows)

/-- `filter_vmap(collect_rollout)` over per-environment step states and keys -/
def collectN (E : Env S A O α K) (actionMask : S → K → Option M) (clip : A → A)
    (P : Policy PS O A M α K) (gamma : α) (envs : List (StepState S PS × List K)) :
    List (StepState S PS × List (Row PS O A M α)) :=
  envs.map (fun e => collectRollout E actionMask clip P gamma e.1 e.2)

end
end Lerax.OnPolicy
