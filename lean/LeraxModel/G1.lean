/-
  Model of the Unitree G1 episode set-up and gait clock
  (`/repo/src/lerax/env/unitree/g1/{gait,randomize,base_g1,locomotion,standing,standup}.py`).

  * gait.py — `initial_gait_phase`, `advance_gait_phase`, `desired_foot_height` (with its inner
    `_cubic_bezier`), operation by operation.  `pi` and C's `fmod` are parameters.
  * randomize.py — the four `randomize_*` functions and `randomize_model`; the uniform draws
    (`jr.uniform`) are oracle parameters (`Draws`).  Only the four named fields of the MJX model
    are represented explicitly; everything else of `mjx.Model` is the abstract field `rest`.
  * `initial()` of the three tasks — `randomize_model`, `mjx.forward`, `_snap_to_ground`
    (shift `qpos[2]`, then `mjx.forward` again), command and gait-frequency sampling.  Forward
    kinematics is the abstract function `FK : model → qpos → derived positions`.
  * base_g1.py `transition` — the gait-phase update (physics result is an oracle).

  Numbers are an arbitrary type `α` with core classes only; the driver instantiates `Float`,
  the proofs an ordered field.
-/
namespace Lerax.G1

/-! ### gait.py -/

section gait
variable {α : Type} [Add α] [Sub α] [Mul α] [Div α] [Zero α] [One α] [OfNat α 2] [OfNat α 3]
  [LE α] [DecidableLE α]

/-- `jnp.array([0.0, jnp.pi])` : [left, right] -/
def initial_gait_phase (pi : α) : α × α := (0, pi)

/-- one component of `advance_gait_phase`:
    `phase_increment = 2*pi*frequency*dt; next_phase = phase + phase_increment;
     fmod(next_phase + pi, 2*pi) - pi` -/
def advance1 (pi : α) (fmod : α → α → α) (phase frequency dt : α) : α :=
  let phase_increment := 2 * pi * frequency * dt
  let next_phase := phase + phase_increment
  fmod (next_phase + pi) (2 * pi) - pi

/-- `advance_gait_phase` (elementwise on [left, right]) -/
def advance_gait_phase (pi : α) (fmod : α → α → α) (phase : α × α) (frequency dt : α) : α × α :=
  (advance1 pi fmod phase.1 frequency dt, advance1 pi fmod phase.2 frequency dt)

/-- `_cubic_bezier(y_start, y_end, x)`:
    `y_diff = y_end - y_start; bezier = x**3 + 3*(x**2*(1-x)); y_start + y_diff*bezier` -/
def bezier (y_start y_end x : α) : α :=
  let y_diff := y_end - y_start
  let b := x * x * x + 3 * (x * x * (1 - x))
  y_start + y_diff * b

/-- one component of `desired_foot_height`:
    `x = (phase+pi)/(2*pi); stance = bezier(0, h, 2x); swing = bezier(h, 0, 2x-1);
     where(x <= 0.5, stance, swing)` -/
def desired_foot_height1 (pi : α) (phase swing_height : α) : α :=
  let x := (phase + pi) / (2 * pi)
  let stance := bezier 0 swing_height (2 * x)
  let swing := bezier swing_height 0 (2 * x - 1)
  if x ≤ 1 / 2 then stance else swing

def desired_foot_height (pi : α) (phase : α × α) (swing_height : α) : α × α :=
  (desired_foot_height1 pi phase.1 swing_height, desired_foot_height1 pi phase.2 swing_height)

/-- the gait clock along a history of control steps, each with its own `(frequency, dt)` -/
def run_phase (pi : α) (fmod : α → α → α) : List (α × α) → α × α → α × α
  | [], p => p
  | (f, dt) :: rest, p => run_phase pi fmod rest (advance_gait_phase pi fmod p f dt)

/-- every phase visited along a history (including the start) -/
def trace_phase (pi : α) (fmod : α → α → α) : List (α × α) → α × α → List (α × α)
  | [], p => [p]
  | (f, dt) :: rest, p => p :: trace_phase pi fmod rest (advance_gait_phase pi fmod p f dt)

end gait

/-! ### randomize.py -/

/-- the four randomised fields of `mjx.Model`; all other leaves are `rest` -/
structure Model (α : Type) (Rest : Type) where
  pair_friction : List (List α)      -- (npair, 5)
  dof_frictionloss : List α          -- (nv,)
  dof_armature : List α              -- (nv,)
  body_mass : List α                 -- (nbody,)
  rest : Rest

/-- nominal values held by the environment (`_init_common`) -/
structure Nominal (α : Type) where
  friction_loss : List α             -- `mj_model.dof_frictionloss[6:]`
  armature : List α                  -- `mj_model.dof_armature[6:]`
  body_mass : List α                 -- `mj_model.body_mass`
  torso_body_id : Nat
  foot_pair_ids : List Nat           -- compiled indices of left_foot_floor, right_foot_floor

/-- the `jr.uniform` draws of `randomize_model` (oracle answers) -/
structure Draws (α : Type) where
  friction : α
  floss_scales : List α
  armature_scales : List α
  mass_scales : List α
  torso_offset : α

/-- number of free-joint DOFs skipped by the `[6:]` slices -/
def freeDofs : Nat := 6

section randomize
variable {α : Type} [Add α] [Mul α] [Zero α] {Rest : Type}

/-- `x.at[pair_ids, 0:2].set(friction)` -/
def setFriction (pairs : List Nat) (friction : α) (pf : List (List α)) : List (List α) :=
  pf.mapIdx (fun i row =>
    if pairs.contains i then row.mapIdx (fun j x => if j < 2 then friction else x) else row)

/-- `randomize_friction` -/
def randomize_friction (m : Model α Rest) (pairs : List Nat) (friction : α) : Model α Rest :=
  { m with pair_friction := setFriction pairs friction m.pair_friction }

/-- `x.at[6:].set(new)` (JAX shape-checks `len new = len x - 6`) -/
def setFrom6 (xs new : List α) : List α := xs.take freeDofs ++ new

/-- `randomize_friction_loss`: `frictionloss = nominal * scales; dof_frictionloss.at[6:].set(..)` -/
def randomize_friction_loss (m : Model α Rest) (nominal scales : List α) : Model α Rest :=
  let frictionloss := List.zipWith (· * ·) nominal scales
  { m with dof_frictionloss := setFrom6 m.dof_frictionloss frictionloss }

/-- `randomize_armature` -/
def randomize_armature (m : Model α Rest) (nominal scales : List α) : Model α Rest :=
  let armature := List.zipWith (· * ·) nominal scales
  { m with dof_armature := setFrom6 m.dof_armature armature }

/-- `randomize_body_mass`: `body_mass = nominal * scales;
    body_mass.at[torso].set(body_mass[torso] + torso_offset)` -/
def randomize_body_mass (m : Model α Rest) (nominal scales : List α) (torso : Nat)
    (torso_offset : α) : Model α Rest :=
  let body_mass := List.zipWith (· * ·) nominal scales
  let body_mass := body_mass.set torso (body_mass.getD torso 0 + torso_offset)
  { m with body_mass := body_mass }

/-- `randomize_model`: friction, friction loss, armature, body mass, in this order -/
def randomize_model (m : Model α Rest) (nom : Nominal α) (d : Draws α) : Model α Rest :=
  let m := randomize_friction m nom.foot_pair_ids d.friction
  let m := randomize_friction_loss m nom.friction_loss d.floss_scales
  let m := randomize_armature m nom.armature d.armature_scales
  randomize_body_mass m nom.body_mass d.mass_scales nom.torso_body_id d.torso_offset

end randomize

/-- configured randomisation ranges (`_init_common` arguments) -/
structure RandRanges (α : Type) where
  friction : α × α
  floss : α × α
  armature : α × α
  mass : α × α
  torso_offset : α × α

/-! ### Φ for the randomised model (decided by the driver on implementation outputs)

    `same` compares entries that must be untouched (exact), `le` is the order used for range
    membership (tolerant in the driver, `≤` in the proofs). -/

section phiRandomize
variable {α : Type} [Add α] [Mul α] [Zero α] {Rest : Type}

def inRange (le : α → α → Bool) (r : α × α) (x : α) : Bool := le r.1 x && le x r.2

/-- scaled entry: `nominal*lo ≤ x ≤ nominal*hi` -/
def inScaled (le : α → α → Bool) (r : α × α) (nominal x : α) : Bool :=
  le (nominal * r.1) x && le x (nominal * r.2)

/-- pair friction: touched entries in range, all others equal the base model's -/
def phiFriction (same le : α → α → Bool) (r : α × α) (pairs : List Nat)
    (base out : List (List α)) : Bool :=
  out.length == base.length &&
  (List.range base.length).all (fun i =>
    let brow := base.getD i []
    let orow := out.getD i []
    orow.length == brow.length &&
    (List.range brow.length).all (fun j =>
      if pairs.contains i && decide (j < 2) then inRange le r (orow.getD j 0)
      else same (orow.getD j 0) (brow.getD j 0)))

/-- a per-DOF field: free-joint DOFs untouched, actuated DOFs scaled within range -/
def phiDof (same le : α → α → Bool) (r : α × α) (nominal base out : List α) : Bool :=
  out.length == base.length && base.length == freeDofs + nominal.length &&
  (List.range base.length).all (fun i =>
    if i < freeDofs then same (out.getD i 0) (base.getD i 0)
    else inScaled le r (nominal.getD (i - freeDofs) 0) (out.getD i 0))

/-- body masses: scaled within range; the torso additionally offset within its range -/
def phiMass (le : α → α → Bool) (r off : α × α) (torso : Nat) (nominal out : List α) : Bool :=
  out.length == nominal.length &&
  (List.range nominal.length).all (fun i =>
    let n := nominal.getD i 0
    let x := out.getD i 0
    if i = torso then le (n * r.1 + off.1) x && le x (n * r.2 + off.2)
    else inScaled le r n x)

/-- Φ (randomisation): the four fields in range / framed, `rest` unchanged.  Returns the list of
    named clauses so that the driver can report the first failing one. -/
def phiRandomizeClauses (same le : α → α → Bool) (sameRest : Rest → Rest → Bool)
    (rr : RandRanges α) (nom : Nominal α) (base out : Model α Rest) : List (String × Bool) :=
  [("friction", phiFriction same le rr.friction nom.foot_pair_ids base.pair_friction out.pair_friction),
   ("frictionloss", phiDof same le rr.floss nom.friction_loss base.dof_frictionloss out.dof_frictionloss),
   ("armature", phiDof same le rr.armature nom.armature base.dof_armature out.dof_armature),
   ("body_mass", phiMass le rr.mass rr.torso_offset nom.torso_body_id nom.body_mass out.body_mass),
   ("rest", sameRest out.rest base.rest)]

def phiRandomize (same le : α → α → Bool) (sameRest : Rest → Rest → Bool)
    (rr : RandRanges α) (nom : Nominal α) (base out : Model α Rest) : Bool :=
  (phiRandomizeClauses same le sameRest rr nom base out).all (·.2)

end phiRandomize

/-! ### `initial()` of the three tasks and the phase update of `transition` -/

inductive Task where
  | locomotion | standing | standup
  deriving DecidableEq, Repr

/-- command / gait-frequency sampling ranges of `G1Locomotion` -/
structure CmdRanges (α : Type) where
  vx : α × α
  vy : α × α
  yaw : α × α
  freq : α × α

/-- draws of `sample_command` and of the gait frequency (oracle answers) -/
structure CmdDraws (α : Type) where
  vx : α
  vy : α
  yaw : α
  zero : Bool          -- `jr.bernoulli(zero_key, p=zero_command_probability)`
  freq : α

/-- `mjx.Data` as far as the property sees it: joint configuration and the positions derived
    from it by forward kinematics -/
structure Sim (Q X : Type) where
  qpos : Q
  xpos : X

structure State (α Q X Rest : Type) where
  sim : Sim Q X
  model : Model α Rest
  gait_phase : α × α
  gait_frequency : α
  command : List α
  step_count : Nat

section initial
variable {α : Type} [Add α] [Sub α] [Mul α] [Div α] [Zero α] [One α] [OfNat α 2] [OfNat α 3]
  {Q X Rest : Type}

/-- `mjx.forward(model, data)`: derived quantities recomputed from `data.qpos` -/
def forward (FK : Model α Rest → Q → X) (m : Model α Rest) (q : Q) : Sim Q X :=
  { qpos := q, xpos := FK m q }

/-- `_snap_to_ground`: `z_correction = -min_z + clearance; qpos = qpos.at[2].add(z_correction);
    mjx.forward(model, data)` -/
def snap_to_ground (FK : Model α Rest → Q → X) (lowest : X → α) (shiftZ : Q → α → Q)
    (clearance : α) (m : Model α Rest) (d : Sim Q X) : Sim Q X :=
  let min_z := lowest d.xpos
  let z_correction := (0 - min_z) + clearance
  let qpos := shiftZ d.qpos z_correction
  forward FK m qpos

/-- `sample_command` of the task -/
def sample_command (task : Task) (c : CmdDraws α) : List α :=
  match task with
  | .locomotion => if c.zero then [0, 0, 0] else [c.vx, c.vy, c.yaw]
  | .standing => [0, 0, 0]
  | .standup => [0, 0, 0]

/-- gait frequency of a new episode -/
def sample_frequency (task : Task) (c : CmdDraws α) : α :=
  match task with
  | .locomotion => c.freq
  | .standing => 0
  | .standup => 0

/-- `initial(key)`: randomise the model, place the (perturbed, oracle) joint configuration `q0`,
    `mjx.forward`, snap to the ground, sample command and gait frequency -/
def initial (task : Task) (pi : α) (FK : Model α Rest → Q → X) (lowest : X → α)
    (shiftZ : Q → α → Q) (clearance : α) (base : Model α Rest) (nom : Nominal α)
    (d : Draws α) (q0 : Q) (c : CmdDraws α) : State α Q X Rest :=
  let model := randomize_model base nom d
  let data := forward FK model q0
  let data := snap_to_ground FK lowest shiftZ clearance model data
  { sim := data, model := model, gait_phase := initial_gait_phase pi,
    gait_frequency := sample_frequency task c, command := sample_command task c,
    step_count := 0 }

/-- `transition`: physics result `sim'` is an oracle; the phase advances once per control step;
    model, frequency and command are carried -/
def transition (pi : α) (fmod : α → α → α) (dt : α) (s : State α Q X Rest) (sim' : Sim Q X) :
    State α Q X Rest :=
  { s with sim := sim',
           gait_phase := advance_gait_phase pi fmod s.gait_phase s.gait_frequency dt,
           step_count := s.step_count + 1 }

/-- an episode: `initial` followed by one `transition` per oracle physics result -/
def episode (pi : α) (fmod : α → α → α) (dt : α) :
    List (Sim Q X) → State α Q X Rest → State α Q X Rest
  | [], s => s
  | sim' :: rest, s => episode pi fmod dt rest (transition pi fmod dt s sim')

end initial

/-! ### Φ for the episode start and the gait clock -/

section phiInitial
variable {α : Type} [Add α] [Sub α] [Mul α] [Div α] [Zero α] [One α] [OfNat α 2] [OfNat α 3]

def isZero (same : α → α → Bool) (cmd : List α) : Bool := cmd.all (fun x => same x 0)

/-- command: three entries; zero for the standing tasks; for locomotion either the zero command
    or every component within its range -/
def phiCommand (same le : α → α → Bool) (task : Task) (r : CmdRanges α) (cmd : List α) : Bool :=
  cmd.length == 3 &&
  (match task with
   | .locomotion =>
       isZero same cmd ||
       (inRange le r.vx (cmd.getD 0 0) && inRange le r.vy (cmd.getD 1 0) &&
        inRange le r.yaw (cmd.getD 2 0))
   | .standing => isZero same cmd
   | .standup => isZero same cmd)

/-- gait frequency: within range for locomotion, zero for the standing tasks -/
def phiFrequency (same le : α → α → Bool) (task : Task) (r : CmdRanges α) (f : α) : Bool :=
  match task with
  | .locomotion => inRange le r.freq f
  | .standing => same f 0
  | .standup => same f 0

/-- both phases within `[-pi, pi]` -/
def phiPhaseRange (le : α → α → Bool) (pi : α) (p : α × α) : Bool :=
  le (0 - pi) p.1 && le p.1 pi && le (0 - pi) p.2 && le p.2 pi

/-- half a cycle apart: for phases in `[-pi, pi]`, `right - left ≡ pi (mod 2 pi)` means
    `right - left = pi` or `right - left = -pi` -/
def phiHalfCycle (eqv : α → α → Bool) (pi : α) (p : α × α) : Bool :=
  eqv (p.2 - p.1) pi || eqv (p.2 - p.1) (0 - pi)

/-- `Nat → α` by repeated addition of one (core classes only) -/
def ofNat' : Nat → α
  | 0 => 0
  | n + 1 => ofNat' n + 1

/-- advance by `2*pi*f*dt` modulo `2*pi`, with the number of wraps `k` as a witness -/
def phiAdvance (eqv : α → α → Bool) (pi : α) (phase f dt next : α) (k : Nat) : Bool :=
  eqv (next + ofNat' k * (2 * pi)) (phase + 2 * pi * f * dt)

/-- desired foot height within `[0, swing_height]` -/
def phiFootHeight (le : α → α → Bool) (swing_height h : α) : Bool :=
  le 0 h && le h swing_height

end phiInitial

end Lerax.G1
