/-
  Model of the on-policy losses: `PPO.ppo_loss` (`/repo/src/lerax/algorithm/ppo.py:143-210`),
  `A2C.a2c_loss` (`a2c.py:124-152`), `REINFORCE.reinforce_loss` (`reinforce.py:113-137`) and of
  `optax.clip_by_global_norm` followed by the first Adam step.

  Per-sample inputs: new log-prob / value / entropy from `policy.evaluate_action`, and the stored
  log-prob, value, return, advantage of the rollout buffer.  `exp`, `sqrt` are function
  parameters.
-/
namespace Lerax.Loss

section
variable {α : Type} [Add α] [Sub α] [Mul α] [Div α] [Neg α] [Zero α] [One α] [NatCast α]
  [LT α] [DecidableLT α]

def mean (xs : List α) : α := xs.foldl (· + ·) 0 / (xs.length : Nat)
def sq (x : α) : α := x * x
def minA (a b : α) : α := if b < a then b else a
def maxA (a b : α) : α := if a < b then b else a
/-- `jnp.clip(x, lo, hi)` -/
def clipA (lo hi x : α) : α := minA (maxA x lo) hi

structure Sample (α : Type) where
  logpNew : α
  vNew : α
  entropy : α
  logpOld : α
  vOld : α
  ret : α
  adv : α

structure Cfg (α : Type) where
  normalize : Bool
  clipCoef : α
  clipValue : Bool
  valueCoef : α
  entropyCoef : α
  eps : α            -- `jnp.finfo(dtype).eps`

structure PPOOut (α : Type) where
  loss : α
  approxKl : α
  policyLoss : α
  valueLoss : α
  entropyLoss : α

/-- `(adv - mean(adv)) / (std(adv) + eps)` with `std = sqrt(mean((adv - mean)^2))` -/
def normalizeAdv (sqrt : α → α) (eps : α) (adv : List α) : List α :=
  let m := mean adv
  let std := sqrt (mean (adv.map (fun a => sq (a - m))))
  adv.map (fun a => (a - m) / (std + eps))

def advantages (sqrt : α → α) (cfg : Cfg α) (b : List (Sample α)) : List α :=
  if cfg.normalize then normalizeAdv sqrt cfg.eps (b.map (·.adv)) else b.map (·.adv)

/-- per-sample clipped surrogate `min(A * r, A * clip(r, 1-ε, 1+ε))` -/
def surrogate (eps a r : α) : α := minA (a * r) (a * clipA (1 - eps) (1 + eps) r)

/-- per-sample value error: unclipped `(v - R)^2`; with value clipping the larger of the
    unclipped and the clipped error (PPO2) -/
def valueErr (clipValue : Bool) (eps vNew vOld ret : α) : α :=
  if clipValue then
    let vc := vOld + clipA (-eps) eps (vNew - vOld)
    maxA (sq (vNew - ret)) (sq (vc - ret))
  else sq (vNew - ret)

def ppoLoss (exp sqrt : α → α) (cfg : Cfg α) (b : List (Sample α)) : PPOOut α :=
  let logRatios := b.map (fun s => s.logpNew - s.logpOld)
  let ratios := logRatios.map exp
  let approxKl := mean (List.zipWith (fun r l => r - l) ratios logRatios) - 1
  let adv := advantages sqrt cfg b
  let policyLoss := - mean (List.zipWith (surrogate cfg.clipCoef) adv ratios)
  let valueLoss := mean (b.map (fun s => valueErr cfg.clipValue cfg.clipCoef s.vNew s.vOld s.ret)) / (2 : Nat)
  let entropyLoss := - mean (b.map (·.entropy))
  { loss := policyLoss + valueLoss * cfg.valueCoef + entropyLoss * cfg.entropyCoef,
    approxKl := approxKl, policyLoss := policyLoss, valueLoss := valueLoss, entropyLoss := entropyLoss }

structure ACOut (α : Type) where
  loss : α
  policyLoss : α
  valueLoss : α
  entropyLoss : α

/-- A2C: `-mean(log_prob * A) + c_v * mean((v - R)^2)/2 + c_e * (-mean(entropy))` -/
def a2cLoss (sqrt : α → α) (cfg : Cfg α) (b : List (Sample α)) : ACOut α :=
  let adv := advantages sqrt cfg b
  let policyLoss := - mean (List.zipWith (fun (s : Sample α) a => s.logpNew * a) b adv)
  let valueLoss := mean (b.map (fun s => sq (s.vNew - s.ret))) / (2 : Nat)
  let entropyLoss := - mean (b.map (·.entropy))
  { loss := policyLoss + valueLoss * cfg.valueCoef + entropyLoss * cfg.entropyCoef,
    policyLoss := policyLoss, valueLoss := valueLoss, entropyLoss := entropyLoss }

/-- REINFORCE: as A2C without the entropy term -/
def reinforceLoss (sqrt : α → α) (cfg : Cfg α) (b : List (Sample α)) : ACOut α :=
  let adv := advantages sqrt cfg b
  let policyLoss := - mean (List.zipWith (fun (s : Sample α) a => s.logpNew * a) b adv)
  let valueLoss := mean (b.map (fun s => sq (s.vNew - s.ret))) / (2 : Nat)
  { loss := policyLoss + valueLoss * cfg.valueCoef, policyLoss := policyLoss, valueLoss := valueLoss,
    entropyLoss := 0 }

/-! ### per-sample partial derivatives of the PPO loss (what `jax.grad` must return) -/

/-- ∂loss/∂logp_new of sample `i` (advantage `a` already normalised if configured):
    `-(1/N)·A·r` where the unclipped branch is the minimum, `0` where the ratio has left the clip
    interval in the direction the advantage favours -/
def dPolicy (eps a r : α) (n : Nat) : α :=
  let lo : α := 1 - eps
  let hi : α := 1 + eps
  let inside := !(r < lo) && !(hi < r)
  -- the unclipped term is active iff it is the smaller one (or the ratio is inside the interval)
  if inside then -(a * r) / (n : Nat)
  else if a * r < a * clipA lo hi r then -(a * r) / (n : Nat) else 0

/-- ∂loss/∂v_new of sample `i` -/
def dValue (cfg : Cfg α) (vNew vOld ret : α) (n : Nat) : α :=
  let e := cfg.clipCoef
  if cfg.clipValue then
    let d := vNew - vOld
    let vc := vOld + clipA (-e) e d
    if sq (vNew - ret) < sq (vc - ret) then
      (if !(d < -e) && !(e < d) then (vc - ret) else 0) * cfg.valueCoef / (n : Nat)
    else (vNew - ret) * cfg.valueCoef / (n : Nat)
  else (vNew - ret) * cfg.valueCoef / (n : Nat)

/-! ### optimiser: global-norm clipping, then the first Adam step -/

def normSq (g : List α) : α := (g.map sq).foldl (· + ·) 0

/-- `optax.clip_by_global_norm(max)`: `g` if `‖g‖ < max` else `g / ‖g‖ * max` -/
def clipByGlobalNorm (sqrt : α → α) (maxNorm : α) (g : List α) : List α :=
  let n := sqrt (normSq g)
  if n < maxNorm then g else g.map (fun x => x / n * maxNorm)

/-- first `optax.adam` step from a zero state: `-lr * m̂ / (sqrt(v̂) + eps)` with `m̂ = g`, `v̂ = g²` -/
def adamFirstStep (sqrt : α → α) (lr eps : α) (g : List α) : List α :=
  g.map (fun x => -(lr * (x / (sqrt (x * x) + eps))))

/-- `optax.adam` over a sequence of gradients (moments start at zero; bias correction
    `1 - b^t`): returns the update of every step -/
def powN (x : α) : Nat → α
  | 0 => 1
  | n + 1 => powN x n * x

def adamRun (sqrt : α → α) (lr eps b1 b2 : α) : List (List α) → List α → List α → Nat → List (List α)
  | [], _, _, _ => []
  | g :: gs, m, v, t =>
      let m' := List.zipWith (fun mi gi => b1 * mi + (1 - b1) * gi) m g
      let v' := List.zipWith (fun vi gi => b2 * vi + (1 - b2) * (gi * gi)) v g
      let t' := t + 1
      let upd := List.zipWith (fun mi vi =>
        -(lr * ((mi / (1 - powN b1 t')) / (sqrt (vi / (1 - powN b2 t')) + eps)))) m' v'
      upd :: adamRun sqrt lr eps b1 b2 gs m' v' t'

/-- the configured optimiser `optax.chain(clip_by_global_norm(max), adam(lr))` over a sequence of
    raw gradients: every gradient is clipped BEFORE it enters Adam's moment estimates -/
def clipThenAdam (sqrt : α → α) (maxNorm lr eps b1 b2 : α) (grads : List (List α)) : List (List α) :=
  match grads with
  | [] => []
  | g :: _ =>
      adamRun sqrt lr eps b1 b2 (grads.map (clipByGlobalNorm sqrt maxNorm))
        (g.map (fun _ => 0)) (g.map (fun _ => 0)) 0

end
end Lerax.Loss
