/-
  Skeleton of `learn` / `iteration` / `step` with the algorithm state split into a `core`
  component (environment states, policy, optimiser state, buffers, counters) and a callback
  component, mirroring how the code threads callbacks
  (`/repo/src/lerax/algorithm/base_algorithm.py:208-276`, `on_policy.py:262-330, 411-417`,
  `off_policy.py:205-213, 322-364`): callbacks receive a context (they may read anything) and
  their own split key, and their results are stored only in the callback-state fields.
-/
import LeraxModel.Env
namespace Lerax.Learn
open Lerax.Env

/-- an observer: arbitrary functions of everything they are shown, producing only callback state -/
structure Callbacks (Core Cb K : Type) where
  init : Core → K → Cb
  onStep : Core → Cb → K → Cb
  onIteration : Core → Cb → K → Cb
  onTrainingStart : Core → Cb → K → Cb
  onTrainingEnd : Core → Cb → K → Cb

section
variable {Core Cb K : Type} [Keys K]

/-- one environment step inside a rollout: the core transition uses sub-keys 0..7 of the step key,
    the callback gets sub-key 8 (`callback_key`) and its result only replaces the callback state -/
def step (coreStep : Core → K → Core) (cb : Callbacks Core Cb K) (s : Core × Cb) (key : K) : Core × Cb :=
  let core' := coreStep s.1 key
  (core', cb.onStep core' s.2 (sub key 8))

/-- `iteration`: `rollout_key, train_key, callback_key = split(key, 3)`; scan `step` over the
    rollout keys; train (core only); `on_iteration` updates callback state only -/
def iteration (coreStep : Core → K → Core) (train : Core → K → Core) (numSteps : Nat)
    (cb : Callbacks Core Cb K) (s : Core × Cb) (key : K) : Core × Cb :=
  let rolloutKeys := (List.range numSteps).map (fun i => sub (sub key 0) i)
  let s1 := rolloutKeys.foldl (step coreStep cb) s
  let core2 := train s1.1 (sub key 1)
  (core2, cb.onIteration core2 s1.2 (sub key 2))

/-- `learn`: `callback_start_key, reset_key, learn_key, callback_end_key = split(key, 4)`;
    reset; `on_training_start`; scan `iteration`; `on_training_end`; return the policy (part of
    the core) -/
def learn (reset : K → Core) (coreStep : Core → K → Core) (train : Core → K → Core)
    (numSteps numIters : Nat) (cb : Callbacks Core Cb K) (key : K) : Core × Cb :=
  let core0 := reset (sub key 1)
  let cb0 := cb.onTrainingStart core0 (cb.init core0 (sub key 1)) (sub key 0)
  let iterKeys := (List.range numIters).map (fun i => sub (sub key 2) i)
  let s := iterKeys.foldl (iteration coreStep train numSteps cb) (core0, cb0)
  (s.1, cb.onTrainingEnd s.1 s.2 (sub key 3))

end
end Lerax.Learn
