/-
  Model of `rescale_box` (`/repo/src/lerax/wrapper/utils.py:15-60`), one dimension at a time,
  and of `jnp.clip`.  New bounds `min`, `max` may be infinite (`none`); the original box
  bounds `low`, `high` are numbers.

    gradient  = 1;  where both finite: (max - min) / (high - low)
    intercept = 0;  where max finite: max - high;  then where min finite: min - low * gradient
    forward  x = gradient * x + intercept          (original -> rescaled)
    backward y = (y - intercept) / gradient        (rescaled -> original)
-/
namespace Lerax.Rescale

section
variable {α : Type} [Add α] [Sub α] [Mul α] [Div α] [Zero α] [One α]

def gradient (low high : α) (min max : Option α) : α :=
  match min, max with
  | some mn, some mx => (mx - mn) / (high - low)
  | _, _ => 1

def intercept (low high : α) (min max : Option α) : α :=
  let g := gradient low high min max
  let i0 : α := 0
  let i1 := match max with
    | some mx => mx - high
    | none => i0
  match min with
  | some mn => mn - low * g
  | none => i1

def forward (low high : α) (min max : Option α) (x : α) : α :=
  gradient low high min max * x + intercept low high min max

def backward (low high : α) (min max : Option α) (y : α) : α :=
  (y - intercept low high min max) / gradient low high min max

end

section
variable {α : Type} [LT α] [DecidableLT α]

/-- `jnp.clip(x, lo, hi)` = `minimum(maximum(x, lo), hi)` -/
def clip (lo hi x : α) : α :=
  if hi < (if x < lo then lo else x) then hi else (if x < lo then lo else x)

end
end Lerax.Rescale
