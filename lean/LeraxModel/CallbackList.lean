/-
  `CallbackList` (`/repo/src/lerax/callback/list.py`): the aggregate callback every algorithm builds
  from the user's callbacks (`base_algorithm.py: consolidate_callbacks`).  Its state is the list of
  the members' states; every hook hands member `i` the shared context with *its own* state(s)
  substituted (`eqx.tree_at(lambda c: c.state, ctx, state)`), and the `i`-th of
  `jr.split(key, len(callbacks))`; the results are collected in member order.  `zip` truncates to the
  shortest of (callbacks, states, keys).
-/
import LeraxModel.Learn
namespace Lerax.CallbackList
open Lerax.Env Lerax.Learn

section
variable {Core Cb K : Type} [Keys K]

/-- `[f(m, s, split(key, n)[i]) for i, (m, s) in enumerate(zip(ms, sts))]` (positions counted from `start`) -/
def zipIdx (f : Callbacks Core Cb K → Cb → K → Cb) :
    List (Callbacks Core Cb K) → List Cb → K → Nat → List Cb
  | m :: ms, s :: sts, key, start => f m s (sub key start) :: zipIdx f ms sts key (start + 1)
  | _, _, _, _ => []

/-- `[m.reset(ctx, key=split(key, n)[i]) for i, m in enumerate(ms)]` -/
def initIdx (core : Core) : List (Callbacks Core Cb K) → K → Nat → List Cb
  | m :: ms, key, start => m.init core (sub key start) :: initIdx core ms key (start + 1)
  | [], _, _ => []

/-- the aggregate callback -/
def listCallbacks (ms : List (Callbacks Core Cb K)) : Callbacks Core (List Cb) K where
  init core key := initIdx core ms key 0
  onStep core sts key := zipIdx (fun m s k => m.onStep core s k) ms sts key 0
  onIteration core sts key := zipIdx (fun m s k => m.onIteration core s k) ms sts key 0
  onTrainingStart core sts key := zipIdx (fun m s k => m.onTrainingStart core s k) ms sts key 0
  onTrainingEnd core sts key := zipIdx (fun m s k => m.onTrainingEnd core s k) ms sts key 0

/-- member `m` run as the ONLY callback, but drawing the keys it would get at position `i` of a list -/
def atPos (i : Nat) (m : Callbacks Core Cb K) : Callbacks Core Cb K where
  init core key := m.init core (sub key i)
  onStep core s key := m.onStep core s (sub key i)
  onIteration core s key := m.onIteration core s (sub key i)
  onTrainingStart core s key := m.onTrainingStart core s (sub key i)
  onTrainingEnd core s key := m.onTrainingEnd core s (sub key i)

/-- `jnp.all(jnp.array([m.continue_training(...) for m in ms]))` -/
def continueAll (flags : List Bool) : Bool := flags.all id

end
end Lerax.CallbackList
