/-
  Model of the functional environment interface and its Gym-style `reset` / `step`
  (`/repo/src/lerax/env/base_env.py:240-286`) and of the wrappers in
  `/repo/src/lerax/wrapper/{misc,transform_action,transform_observation,transform_reward}.py`.

  PRNG keys are an abstract type `K` with an abstract sub-key function `sub k i`
  (the `i`-th key of `jr.split(k, n)`); nothing below depends on what it returns.
-/
namespace Lerax.Env

/-- abstract key splitting: `sub k i` is the i-th sub-key of a split of `k` -/
class Keys (K : Type) where
  sub : K → Nat → K

export Keys (sub)

/-- the functional components of an environment (`AbstractEnvLike`) -/
structure Env (S A O R K : Type) where
  initial : K → S
  transition : S → A → K → S
  observation : S → K → O
  reward : S → A → S → K → R
  terminal : S → K → Bool
  truncate : S → Bool

section
variable {S A O R K : Type} [Keys K]

/-- `reset`: `initial_key, observation_key = split(key, 2)` -/
def Env.reset (E : Env S A O R K) (key : K) : S × O :=
  let state := E.initial (sub key 0)
  (state, E.observation state (sub key 1))

structure StepOut (S O R : Type) where
  state : S
  observation : O
  reward : R
  terminal : Bool
  truncate : Bool

/-- `step`: `transition_key, reward_key, terminal_key, reset_key = split(key, 4)`;
    compose; `lax.cond(terminal | truncate, initial(reset_key), next_state)`; observe the
    *selected* state (the code passes the parent key to `observation`). -/
def Env.step (E : Env S A O R K) (state : S) (action : A) (key : K) : StepOut S O R :=
  let next := E.transition state action (sub key 0)
  let reward := E.reward state action next (sub key 1)
  let terminal := E.terminal next (sub key 2)
  let truncate := E.truncate next
  let state' := if terminal || truncate then E.initial (sub key 3) else next
  { state := state', observation := E.observation state' key, reward := reward,
    terminal := terminal, truncate := truncate }

/-! ### wrappers -/

/-- `Identity` (the wrapper state only boxes the inner state) -/
def identity (E : Env S A O R K) : Env S A O R K := E

/-- `TimeLimit(env, n)`: state = (inner state, step_count) -/
def timeLimit (n : Nat) (E : Env S A O R K) : Env (S × Nat) A O R K where
  initial k := (E.initial k, 0)
  transition s a k := (E.transition s.1 a k, s.2 + 1)
  observation s k := E.observation s.1 k
  reward s a s' k := E.reward s.1 a s'.1 k
  terminal s k := E.terminal s.1 k
  truncate s := E.truncate s.1 || decide (n ≤ s.2)

/-- pure action wrappers (`TransformAction`, `ClipAction`, `RescaleAction`): `func` is applied in
    `transition`, `reward` (and `transition_info`) -/
def mapAction {A' : Type} (f : A' → A) (E : Env S A O R K) : Env S A' O R K where
  initial := E.initial
  transition s a k := E.transition s (f a) k
  observation := E.observation
  reward s a s' k := E.reward s (f a) s' k
  terminal := E.terminal
  truncate := E.truncate

/-- pure observation wrappers (`TransformObservation`, `ClipObservation`, `RescaleObservation`,
    `FlattenObservation`) -/
def mapObs {O' : Type} (g : O → O') (E : Env S A O R K) : Env S A O' R K where
  initial := E.initial
  transition := E.transition
  observation s k := g (E.observation s k)
  reward := E.reward
  terminal := E.terminal
  truncate := E.truncate

/-- pure reward wrappers (`TransformReward`, `ClipReward`) -/
def mapReward (h : R → R) (E : Env S A O R K) : Env S A O R K where
  initial := E.initial
  transition := E.transition
  observation := E.observation
  reward s a s' k := h (E.reward s a s' k)
  terminal := E.terminal
  truncate := E.truncate

end

/-! ### arbitrary wrapper stacks -/

/-- A stack of wrappers over a base environment with state `S0`, actions `A0`, observations
    `O0`; the indices are the state / action / observation types of the wrapped environment. -/
inductive Stack (S0 A0 O0 R : Type) : Type → Type → Type → Type 1 where
  | base : Stack S0 A0 O0 R S0 A0 O0
  | identity {S A O : Type} : Stack S0 A0 O0 R S A O → Stack S0 A0 O0 R S A O
  | timeLimit {S A O : Type} (n : Nat) : Stack S0 A0 O0 R S A O → Stack S0 A0 O0 R (S × Nat) A O
  | mapAction {S A O A' : Type} (f : A' → A) : Stack S0 A0 O0 R S A O → Stack S0 A0 O0 R S A' O
  | mapObs {S A O O' : Type} (g : O → O') : Stack S0 A0 O0 R S A O → Stack S0 A0 O0 R S A O'
  | mapReward {S A O : Type} (h : R → R) : Stack S0 A0 O0 R S A O → Stack S0 A0 O0 R S A O

section
variable {S0 A0 O0 R K : Type} [Keys K]

/-- the wrapped environment denoted by a stack over the base environment `E` -/
def Stack.denote {S A O : Type} : Stack S0 A0 O0 R S A O → Env S0 A0 O0 R K → Env S A O R K
  | .base, E => E
  | .identity st, E => Lerax.Env.identity (st.denote E)
  | .timeLimit n st, E => Lerax.Env.timeLimit n (st.denote E)
  | .mapAction f st, E => Lerax.Env.mapAction f (st.denote E)
  | .mapObs g st, E => Lerax.Env.mapObs g (st.denote E)
  | .mapReward h st, E => Lerax.Env.mapReward h (st.denote E)

/-- `state.unwrapped`: peel every wrapper state -/
def Stack.unwrapState {S A O : Type} : Stack S0 A0 O0 R S A O → S → S0
  | .base, s => s
  | .identity st, s => st.unwrapState s
  | .timeLimit _ st, s => st.unwrapState s.1
  | .mapAction _ st, s => st.unwrapState s
  | .mapObs _ st, s => st.unwrapState s
  | .mapReward _ st, s => st.unwrapState s

/-- every `TimeLimit` counter in the stack is zero -/
def Stack.Fresh {S A O : Type} : Stack S0 A0 O0 R S A O → S → Prop
  | .base, _ => True
  | .identity st, s => st.Fresh s
  | .timeLimit _ st, s => s.2 = 0 ∧ st.Fresh s.1
  | .mapAction _ st, s => st.Fresh s
  | .mapObs _ st, s => st.Fresh s
  | .mapReward _ st, s => st.Fresh s

/-- the `TimeLimit` counters of a wrapped state, outermost first -/
def Stack.counters {S A O : Type} : Stack S0 A0 O0 R S A O → S → List Nat
  | .base, _ => []
  | .identity st, s => st.counters s
  | .timeLimit _ st, s => s.2 :: st.counters s.1
  | .mapAction _ st, s => st.counters s
  | .mapObs _ st, s => st.counters s
  | .mapReward _ st, s => st.counters s

end

/-! ### declared spaces of a wrapper stack

  Spaces are membership predicates.  An observation wrapper *declares* a new observation space
  (`ClipObservation`: the inner box; `RescaleObservation`: `Box(min, max)`; `FlattenObservation`: the flat
  box; `TransformObservation`: the space it is given); an action wrapper declares a new action space and
  passes the observation space of the environment it wraps (`self.env.observation_space`) through;
  `Identity`, `TimeLimit` and the reward wrappers pass both through. -/

inductive SpacedStack (S0 A0 O0 R : Type) : Type → Type → Type → Type 1 where
  | base : SpacedStack S0 A0 O0 R S0 A0 O0
  | identity {S A O : Type} : SpacedStack S0 A0 O0 R S A O → SpacedStack S0 A0 O0 R S A O
  | timeLimit {S A O : Type} (n : Nat) : SpacedStack S0 A0 O0 R S A O → SpacedStack S0 A0 O0 R (S × Nat) A O
  | mapAction {S A O A' : Type} (f : A' → A) (actP : A' → Prop) :
      SpacedStack S0 A0 O0 R S A O → SpacedStack S0 A0 O0 R S A' O
  | mapObs {S A O O' : Type} (g : O → O') (obsP : O' → Prop) :
      SpacedStack S0 A0 O0 R S A O → SpacedStack S0 A0 O0 R S A O'
  | mapReward {S A O : Type} (h : R → R) : SpacedStack S0 A0 O0 R S A O → SpacedStack S0 A0 O0 R S A O

section
variable {S0 A0 O0 R K : Type} [Keys K]

def SpacedStack.toStack {S A O : Type} : SpacedStack S0 A0 O0 R S A O → Stack S0 A0 O0 R S A O
  | .base => .base
  | .identity st => .identity st.toStack
  | .timeLimit n st => .timeLimit n st.toStack
  | .mapAction f _ st => .mapAction f st.toStack
  | .mapObs g _ st => .mapObs g st.toStack
  | .mapReward h st => .mapReward h st.toStack

/-- the observation space the stack advertises, given the base environment's -/
def SpacedStack.obsSpace {S A O : Type} (baseObs : O0 → Prop) : SpacedStack S0 A0 O0 R S A O → (O → Prop)
  | .base => baseObs
  | .identity st => st.obsSpace baseObs
  | .timeLimit _ st => st.obsSpace baseObs
  | .mapAction _ _ st => st.obsSpace baseObs        -- `self.env.observation_space`
  | .mapObs _ obsP _ => obsP
  | .mapReward _ st => st.obsSpace baseObs

/-- the action space the stack advertises -/
def SpacedStack.actSpace {S A O : Type} (baseAct : A0 → Prop) : SpacedStack S0 A0 O0 R S A O → (A → Prop)
  | .base => baseAct
  | .identity st => st.actSpace baseAct
  | .timeLimit _ st => st.actSpace baseAct
  | .mapAction _ actP _ => actP
  | .mapObs _ _ st => st.actSpace baseAct
  | .mapReward _ st => st.actSpace baseAct

/-- every observation layer maps the space declared below it into the space it declares, every action
    layer maps the space it declares into the space declared below it -/
def SpacedStack.Sound {S A O : Type} (baseObs : O0 → Prop) (baseAct : A0 → Prop) :
    SpacedStack S0 A0 O0 R S A O → Prop
  | .base => True
  | .identity st => st.Sound baseObs baseAct
  | .timeLimit _ st => st.Sound baseObs baseAct
  | .mapAction f actP st => (∀ a, actP a → st.actSpace baseAct (f a)) ∧ st.Sound baseObs baseAct
  | .mapObs g obsP st => (∀ o, st.obsSpace baseObs o → obsP (g o)) ∧ st.Sound baseObs baseAct
  | .mapReward _ st => st.Sound baseObs baseAct

end

/-! ### executable form of the step contract (Φ for C01), on recorded components -/

/-- What the functional API says about one transition, as recorded by the harness:
    the successor's flags / reward, and which returned state is acceptable. -/
structure StepRecord (R : Type) where
  reward : R            -- reward(state, action, successor)
  terminal : Bool       -- terminal(successor)
  truncate : Bool       -- truncate(successor)
  /-- returned state equals the successor -/
  stateIsSuccessor : Bool
  /-- returned state is an initial state of the environment with every wrapper counter zero -/
  stateIsFreshInitial : Bool
  /-- returned observation is the observation of the returned state -/
  obsOfReturnedState : Bool
  outReward : R
  outTerminal : Bool
  outTruncate : Bool

def stepOK {R : Type} (eqv : R → R → Bool) (r : StepRecord R) : List (String × Bool) :=
  [ ("reward_is_transition_reward", eqv r.outReward r.reward),
    ("terminal_flag", r.outTerminal == r.terminal),
    ("truncate_flag", r.outTruncate == r.truncate),
    ("done_returns_fresh_initial", !(r.terminal || r.truncate) || r.stateIsFreshInitial),
    ("continue_returns_successor", (r.terminal || r.truncate) || r.stateIsSuccessor),
    ("observation_of_returned_state", r.obsOfReturnedState) ]

end Lerax.Env

/-! ### Gymnasium adapter (`LeraxToGymEnv`, `/repo/src/lerax/compatibility/gym.py`) -/

namespace Lerax.Env

section
variable {S A O R K : Type} [Keys K]

/-- the adapter's mutable fields: its PRNG key and the current environment state -/
structure GymAdapter (S K : Type) where
  key : K
  state : S

/-- `reset(seed)`: `if seed is not None: key = jr.key(seed)`; `key, reset_key = split(key)`;
    `state, obs, info = env.reset(key=reset_key)` -/
def GymAdapter.reset (E : Env S A O R K) (ad : GymAdapter S K) (seed : Option K) : GymAdapter S K × O :=
  let key0 := seed.getD ad.key
  let out := E.reset (sub key0 1)
  ({ key := sub key0 0, state := out.1 }, out.2)

/-- `step(action)`: `key, step_key = split(key)`; `env.step(state, action, key=step_key)` -/
def GymAdapter.step (E : Env S A O R K) (ad : GymAdapter S K) (a : A) : GymAdapter S K × StepOut S O R :=
  let out := E.step ad.state a (sub ad.key 1)
  ({ key := sub ad.key 0, state := out.state }, out)

/-- outputs of a sequence of adapter steps -/
def GymAdapter.run (E : Env S A O R K) : GymAdapter S K → List A → List (StepOut S O R)
  | _, [] => []
  | ad, a :: as => let (ad', out) := ad.step E a; out :: GymAdapter.run E ad' as

/-- the adapted environment stepped directly under the adapter's key schedule -/
def envRun (E : Env S A O R K) : S → K → List A → List (StepOut S O R)
  | _, _, [] => []
  | s, k, a :: as => let out := E.step s a (sub k 1); out :: envRun E out.state (sub k 0) as


/-! ### Gymnax adapter (`LeraxToGymnaxEnv.step_env`, `/repo/src/lerax/compatibility/gymnax.py`) -/

/-- `step_env(key, state, action)`: `env.step(state, action, key)`; the two flags are merged into
    Gymnax's single `done = termination | truncation` -/
def gymnaxStepEnv (E : Env S A O R K) (state : S) (action : A) (key : K) : O × S × R × Bool :=
  let out := E.step state action key
  (out.observation, out.state, out.reward, out.terminal || out.truncate)

end
end Lerax.Env
