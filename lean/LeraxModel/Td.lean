/-
  Model of the TD regression targets and losses of DQN and SAC:
  `DQN.dqn_loss` (`/repo/src/lerax/algorithm/dqn.py:216-241`),
  `compute_target` inside `SAC.sac_train` (`sac.py:452-469`), `SAC.q_loss`, `SAC.actor_loss`,
  and the dataflow of `sac_train` (which parameter blocks each optimiser step may write).
-/
namespace Lerax.Td

section
variable {α : Type} [Add α] [Sub α] [Mul α] [Div α] [Zero α] [One α] [NatCast α]

def ofBool (b : Bool) : α := if b then 1 else 0

/-- `not_terminal = (~dones | timeouts).astype(float)` -/
def notTerminal (done timeout : Bool) : α := ofBool (!done || timeout)

/-- `targets = rewards + gamma * next_value * not_terminal` -/
def tdTarget (gamma r vNext : α) (done timeout : Bool) : α :=
  r + gamma * vNext * notTerminal done timeout

def mean (xs : List α) : α := xs.foldl (· + ·) 0 / (xs.length : Nat)

def sq (x : α) : α := x * x

end

section
variable {α : Type} [Add α] [Sub α] [Mul α] [Div α] [Zero α] [One α] [NatCast α] [LT α] [DecidableLT α]

/-- `jnp.argmax`: first index of the maximum -/
def argmax : List α → Nat
  | [] => 0
  | x :: xs =>
      let rec go (best : α) (bi i : Nat) : List α → Nat
        | [] => bi
        | y :: ys => if best < y then go y i (i + 1) ys else go best bi (i + 1) ys
      go x 0 1 xs

/-- one transition of a DQN batch: online Q(s,·) row, action taken, reward, flags, online and
    target Q(s',·) rows -/
structure DqnSample (α : Type) where
  q : List α
  action : Nat
  reward : α
  done : Bool
  timeout : Bool
  onlineNext : List α
  targetNext : List α

/-- Double DQN: the target network's value of the online network's greedy action -/
def dqnNextValue (s : DqnSample α) : α := s.targetNext.getD (argmax s.onlineNext) 0

def dqnTarget (gamma : α) (s : DqnSample α) : α :=
  tdTarget gamma s.reward (dqnNextValue s) s.done s.timeout

/-- `loss = mean(square(q_selected - targets)) / 2` -/
def dqnLoss (gamma : α) (batch : List (DqnSample α)) : α :=
  mean (batch.map (fun s => sq (s.q.getD s.action 0 - dqnTarget gamma s))) / (2 : Nat)

def minA (a b : α) : α := if b < a then b else a

/-- one transition of a SAC batch, with the freshly sampled next action already evaluated:
    target critics at (s', a'), log π(a'|s'), online critics at (s, a) -/
structure SacSample (α : Type) where
  q1 : α
  q2 : α
  reward : α
  done : Bool
  timeout : Bool
  q1TargetNext : α
  q2TargetNext : α
  logpNext : α

/-- `min(q1', q2') - alpha * log pi(a'|s')` -/
def sacNextValue (alpha : α) (s : SacSample α) : α :=
  minA s.q1TargetNext s.q2TargetNext - alpha * s.logpNext

def sacTarget (gamma alpha : α) (s : SacSample α) : α :=
  tdTarget gamma s.reward (sacNextValue alpha s) s.done s.timeout

/-- `q_loss = mean(square(q1 - y))/2 + mean(square(q2 - y))/2` with `y` given (a constant) -/
def qLoss (q1 q2 y : List α) : α :=
  mean (List.zipWith (fun q t => sq (q - t)) q1 y) / (2 : Nat) +
  mean (List.zipWith (fun q t => sq (q - t)) q2 y) / (2 : Nat)

/-- actor loss: `mean(alpha * log_prob - min(q1, q2))` -/
def actorLoss (alpha : α) (logp q1 q2 : List α) : α :=
  mean ((logp.zip (q1.zip q2)).map (fun x => alpha * x.1 - minA x.2.1 x.2.2))

end

/-! ### dataflow of one `sac_train` call: which blocks are written -/

/-- parameter blocks; the optimiser steps are abstract functions (oracles) -/
structure SacBlocks (Θ : Type) where
  actor : Θ
  critics : Θ
  targets : Θ
  logAlpha : Θ

/-- `sac_train` returns (policy, qf1/qf2, log_alpha) — the target critics are read, never
    returned; the critic step sees the targets and the batch; the actor step sees the UPDATED
    critics; actor and temperature move only when `updateActor` (and `autotune`) hold. -/
def sacTrain {Θ : Type} (criticStep : Θ → Θ → Θ → Θ → Θ) (actorStep : Θ → Θ → Θ → Θ)
    (alphaStep : Θ → Θ → Θ) (updateActor autotune : Bool) (b : SacBlocks Θ) : SacBlocks Θ :=
  let critics' := criticStep b.critics b.targets b.actor b.logAlpha
  let actor' := if updateActor then actorStep b.actor critics' b.logAlpha else b.actor
  let logAlpha' := if autotune && updateActor then alphaStep b.logAlpha actor' else b.logAlpha
  { actor := actor', critics := critics', targets := b.targets, logAlpha := logAlpha' }

/-- `dqn_train`: only the online policy is written; the target is read -/
def dqnTrain {Θ : Type} (step : Θ → Θ → Θ) (online target : Θ) : Θ × Θ := (step online target, target)

end Lerax.Td
