import LeraxModel.Proto
import LeraxModel.Gae
