import LeraxModel.Proto
import LeraxModel.Gae
import LeraxModel.Env
import LeraxModel.Rescale
import LeraxModel.Replay
import LeraxModel.Batching
import LeraxModel.OnPolicy
import LeraxModel.OffPolicy
