import Driver.Gae
import Driver.Tabular
import Driver.Wrappers
