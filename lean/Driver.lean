import Driver.Gae
import Driver.Tabular
import Driver.Wrappers
import Driver.Replay
import Driver.Batching
import Driver.OnPolicy
import Driver.OffPolicy
import Driver.Td
