import Driver.Gae
