import Driver
open Lerax.Proto Lerax.Driver Lean

/-- every driver op, by name; each `Driver/X.lean` contributes its own list -/
def allOps : List (String × (V → R V)) :=
  [("ping", fun a => pure a)]
  ++ gaeOps
  ++ tabularOps
  ++ wrappersOps
  ++ replayOps
  ++ batchingOps
  ++ onPolicyOps
  ++ offPolicyOps
  ++ tdOps
  ++ lossOps
  ++ scheduleOps
  ++ serialOps
  ++ loggingOps
  ++ spaceOps
  ++ g1Ops
  ++ distOps
  ++ classicOps ++ mujocoOps

def dispatch (op : String) (a : V) : R V :=
  match allOps.find? (·.1 == op) with
  | some (_, f) => f a
  | none => throw s!"unknown op {op}"

def handleLine (line : String) : String :=
  let res : R (V × V) := do
    let j ← Json.parse line
    let v ← V.ofJson j
    let op ← (← v.get "op").asS
    let id := (v.get? "id").getD .null
    let a := (v.get? "a").getD .null
    match dispatch op a with
    | .ok r => pure (id, r)
    | .error e => throw s!"{op}: {e}"
  match res with
  | .ok (id, r) => (V.toJson (.o [("id", id), ("ok", r)])).compress
  | .error e => (V.toJson (.o [("err", .s e)])).compress

partial def loop (hin hout : IO.FS.Stream) : IO Unit := do
  let line ← hin.getLine
  if line.isEmpty then return ()
  if line.trimAscii.isEmpty then loop hin hout else
  hout.putStrLn (handleLine line)
  hout.flush
  loop hin hout

def main : IO Unit := do
  loop (← IO.getStdin) (← IO.getStdout)
