/-
  C04 — An on-policy rollout is a faithful record of the interaction.

  Theorems about `collectStep` / `collectRollout` / `collectN` of `LeraxModel/OnPolicy.lean`, for
  every environment, every (coherent) policy, every state, key, rollout length and number of
  parallel environments.
-/
import LeraxModel.OnPolicy
import LeraxModel.Utils

namespace Lerax.C04
open Lerax.Env Lerax.OnPolicy

set_option linter.unusedSectionVars false

variable {S A O K PS M α : Type} [Keys K] [Add α] [Mul α]

/-- A policy is coherent when re-evaluating the action it returned, for the same policy state,
    observation and mask, reproduces the value and log-probability it reported. -/
def Coherent (P : Policy PS O A M α K) : Prop :=
  ∀ ps o k m, P.evaluate ps o (P.actionAndValue ps o k m).2.1 m =
    ((P.actionAndValue ps o k m).2.2.1, (P.actionAndValue ps o k m).2.2.2)

variable (E : Env S A O α K) (actionMask : S → K → Option M) (clip : A → A)
  (P : Policy PS O A M α K) (gamma : α)

/-- What it means for `row` to be a faithful record of the step taken from `st` under `key`,
    leading to `st'`. -/
structure RowOK (st : StepState S PS) (key : K) (st' : StepState S PS) (row : Row PS O A M α) : Prop where
  /-- the observation the policy saw, and the mask the environment offered, recorded and applied -/
  obs : row.observation = E.observation st.env (sub key 2)
  mask : row.mask = actionMask st.env (sub key 2)
  pstate : row.policyState = st.policy
  /-- the stored action, value and log-prob are the policy's own answer for that observation -/
  acted : (row.action, row.value, row.logProb) =
      (P.actionAndValue st.policy row.observation (sub key 0) row.mask).2
  /-- done = terminal or truncated of the successor reached with the *clipped* action -/
  done : row.done = (E.terminal (E.transition st.env (clip row.action) (sub key 1)) (sub key 4) ||
      E.truncate (E.transition st.env (clip row.action) (sub key 1)))
  /-- reward computed with the clipped action; γ·V(successor observation) added iff the step was
      ended only by truncation; a termination never bootstraps -/
  reward :
    let next := E.transition st.env (clip row.action) (sub key 1)
    let r := E.reward st.env (clip row.action) next (sub key 3)
    let ps' := (P.actionAndValue st.policy row.observation (sub key 0) row.mask).1
    row.reward = if E.truncate next && !E.terminal next (sub key 4)
      then r + gamma * P.value ps' (E.observation next (sub key 5)) else r
  /-- after a done step both the environment and the policy restart from fresh initial states;
      otherwise they continue with the successor / the policy's next state -/
  next_env : st'.env = if row.done then E.initial (sub key 6)
      else E.transition st.env (clip row.action) (sub key 1)
  next_policy : st'.policy = if row.done then P.reset (sub key 7)
      else (P.actionAndValue st.policy row.observation (sub key 0) row.mask).1

/-- **Every step produces a faithful row.** -/
theorem row_faithful (st : StepState S PS) (key : K) :
    RowOK E actionMask clip P gamma st key
      (collectStep E actionMask clip P gamma st key).1
      (collectStep E actionMask clip P gamma st key).2 := by
  constructor <;> simp [collectStep]

/-- **Re-evaluating the stored sample under the unchanged policy reproduces the stored value
    and log-probability** — hence the first PPO probability ratio is exactly 1. -/
theorem ratio_one (hP : Coherent P) (st : StepState S PS) (key : K) :
    let row := (collectStep E actionMask clip P gamma st key).2
    P.evaluate row.policyState row.observation row.action row.mask = (row.value, row.logProb) := by
  simp only [collectStep]
  exact hP _ _ _ _

/-- **A true termination never bootstraps**; a step ended only by truncation has
    `γ·V(successor observation)` added. -/
theorem reward_bootstrap (st : StepState S PS) (key : K) :
    let row := (collectStep E actionMask clip P gamma st key).2
    let next := E.transition st.env (clip row.action) (sub key 1)
    let r := E.reward st.env (clip row.action) next (sub key 3)
    (E.terminal next (sub key 4) = true → row.reward = r) ∧
    (E.truncate next = false → row.reward = r) ∧
    (E.truncate next = true → E.terminal next (sub key 4) = false →
      row.reward = r + gamma * P.value (P.actionAndValue st.policy row.observation (sub key 0) row.mask).1
        (E.observation next (sub key 5))) := by
  simp only [collectStep]
  refine ⟨fun h => by simp [h], fun h => by simp [h], fun h1 h2 => by simp [h1, h2]⟩

/-- **After a done step both the environment and the policy state restart.** -/
theorem post_done_fresh (st : StepState S PS) (key : K)
    (h : (collectStep E actionMask clip P gamma st key).2.done = true) :
    (collectStep E actionMask clip P gamma st key).1.env = E.initial (sub key 6) ∧
    (collectStep E actionMask clip P gamma st key).1.policy = P.reset (sub key 7) := by
  have hr := row_faithful E actionMask clip P gamma st key
  exact ⟨by rw [hr.next_env, h]; rfl, by rw [hr.next_policy, h]; rfl⟩

/-! ### lifted to whole rollouts of any length, and to any number of environments -/

/-- the step states a rollout passes through -/
def trace : StepState S PS → List K → List (StepState S PS)
  | st, [] => [st]
  | st, k :: ks => st :: trace (collectStep E actionMask clip P gamma st k).1 ks

theorem rollout_length (st : StepState S PS) (keys : List K) :
    (collectRollout E actionMask clip P gamma st keys).2.length = keys.length := by
  induction keys generalizing st with
  | nil => rfl
  | cons k ks ih => simp [collectRollout, ih]

/-- **Row `t` of a rollout of any length is a faithful record of step `t`**, taken from the
    state the previous `t` steps led to. -/
theorem rollout_rows_faithful (st : StepState S PS) (keys : List K) (t : Nat) (ht : t < keys.length) :
    ∃ (s s' : StepState S PS) (row : Row PS O A M α),
      (trace E actionMask clip P gamma st keys)[t]? = some s ∧
      (trace E actionMask clip P gamma st keys)[t + 1]? = some s' ∧
      (collectRollout E actionMask clip P gamma st keys).2[t]? = some row ∧
      RowOK E actionMask clip P gamma s keys[t] s' row := by
  induction keys generalizing st t with
  | nil => simp at ht
  | cons k ks ih =>
      cases t with
      | zero =>
          refine ⟨st, (collectStep E actionMask clip P gamma st k).1,
            (collectStep E actionMask clip P gamma st k).2, ?_, ?_, ?_, ?_⟩
          · simp [trace]
          · cases ks <;> simp [trace]
          · simp [collectRollout]
          · exact row_faithful E actionMask clip P gamma st k
      | succ t =>
          obtain ⟨s, s', row, h1, h2, h3, h4⟩ :=
            ih (collectStep E actionMask clip P gamma st k).1 t (by simpa using ht)
          exact ⟨s, s', row, by simpa [trace] using h1, by simpa [trace] using h2,
            by simpa [collectRollout] using h3, by simpa using h4⟩

/-- the final carried step state is the last state of the trace -/
theorem rollout_final (st : StepState S PS) (keys : List K) :
    (trace E actionMask clip P gamma st keys)[keys.length]? =
      some (collectRollout E actionMask clip P gamma st keys).1 := by
  induction keys generalizing st with
  | nil => simp [trace, collectRollout]
  | cons k ks ih => simpa [trace, collectRollout] using ih _

/-- **Parallel environments**: the rollout of environment `i` is the single-environment rollout
    from its own step state and keys (nothing crosses between environments). -/
theorem collectN_eq_map (envs : List (StepState S PS × List K)) (i : Nat) :
    (collectN E actionMask clip P gamma envs)[i]? =
      (envs[i]?).map (fun e => collectRollout E actionMask clip P gamma e.1 e.2) := by
  simp [collectN]

/-! ### non-vacuity: a coherent policy exists and a truncated-only step really bootstraps -/

instance : Keys Nat := ⟨fun k i => k + i⟩

def toyEnv : Env Nat Nat Nat Int Nat where
  initial _ := 0
  transition s _ _ := s + 1
  observation s _ := s
  reward _ _ _ _ := 1
  terminal _ _ := false
  truncate s := decide (2 ≤ s)

def toyPolicy : Policy Unit Nat Nat Unit Int Nat where
  actionAndValue _ o _ _ := ((), 0, (10 : Int) * o, -1)
  evaluate _ o _ _ := ((10 : Int) * o, -1)
  value _ o := (10 : Int) * o
  reset _ := ()

example : Coherent toyPolicy := by intro ps o k m; rfl

example : (collectStep toyEnv (fun _ _ => none) id toyPolicy 2 ⟨1, ()⟩ 0).2.reward = 1 + 2 * 20 ∧
    (collectStep toyEnv (fun _ _ => none) id toyPolicy 2 ⟨1, ()⟩ 0).1.env = 0 := by decide

end Lerax.C04

/-! ### `filter_cond` (used for the two resets of `step`) selects whole branches -/

namespace Lerax.C04
open Lerax.Utils

theorem combine_partition {α σ : Type} (t : List (Leaf α σ)) : combine (arrays t) (statics t) = t := by
  induction t with
  | nil => rfl
  | cons l ls ih => cases l <;> simp [arrays, statics, combine] at ih ⊢ <;> exact ih

theorem combine_of_same_statics {α σ : Type} (t f : List (Leaf α σ)) (h : statics t = statics f) :
    combine (arrays f) (statics t) = f := by
  rw [h]; exact combine_partition f

/-- **`filter_cond` returns the true branch's tree when the predicate holds and the false
    branch's otherwise** (given identical static leaves), and raises when the static leaves of
    the two branches differ — so after a done step the carried state is exactly the reset state,
    never a leaf-wise mixture of the two. -/
theorem filterCond_selects {α σ : Type} [DecidableEq σ] (pred : Bool) (t f : List (Leaf α σ)) :
    (statics t = statics f → filterCond pred t f = .ok (if pred then t else f)) ∧
    (statics t ≠ statics f → ∃ e, filterCond pred t f = .error e) := by
  constructor
  · intro h
    unfold filterCond
    rw [if_neg (by simpa using h)]
    cases pred
    · simp [combine_of_same_statics t f h]
    · simp [combine_partition]
  · intro h
    exact ⟨_, by unfold filterCond; rw [if_pos h]⟩

end Lerax.C04
