/-
  C15 — Action distributions are coherent probability laws (continuous laws, over ℝ).

  Theorems about the `Normal`, `DiagNormal`, `SquashedNormal`, `SquashedDiag` models of
  `LeraxModel/Dist.lean` instantiated with `Real.exp`, `Real.log`, the exact `Real.sigmoid` and
  `c = ½·log 2π`: the normal density integrates to one (Mathlib's Gaussian integral), its entropy
  is `−E[log p]`, diagonal laws are sums over components, the squashing map is a strictly
  increasing differentiable bijection onto `(lo, hi)` whose log-Jacobian is what the code
  subtracts, the squashed density is the push-forward density and integrates to one over
  `(lo, hi)` (one-dimensional change of variables), and `sample_and_log_prob` returns the
  log-density of the sample it returns, for every noise value.
-/
import LeraxModel.Dist
import Mathlib.Probability.Distributions.Gaussian.Real
import Mathlib.Analysis.SpecialFunctions.Sigmoid
import Mathlib.MeasureTheory.Function.JacobianOneDim

namespace Lerax.C15
open Lerax.Dist MeasureTheory ProbabilityTheory Real Set

set_option linter.unusedSectionVars false
set_option linter.unusedVariables false

/-- distreqx's `_half_log2pi = 0.5 * log(2π)` -/
noncomputable def halfLog2Pi : ℝ := Real.log (2 * π) / 2

theorem exp_halfLog2Pi : rexp halfLog2Pi = √(2 * π) := by
  unfold halfLog2Pi
  rw [← Real.log_sqrt (by positivity), Real.exp_log (by positivity)]

theorem half_real : (half : ℝ) = 1 / 2 := by unfold half; norm_num

/-! ## normal -/

/-- the variance `σ²` as a non-negative real -/
noncomputable def var (σ : ℝ) : NNReal := ⟨σ ^ 2, sq_nonneg σ⟩

theorem var_coe (σ : ℝ) : (var σ : ℝ) = σ ^ 2 := rfl

theorem var_ne_zero (σ : ℝ) (hσ : 0 < σ) : var σ ≠ 0 := by
  intro h
  have h2 : (var σ : ℝ) = 0 := by rw [h]; rfl
  rw [var_coe] at h2
  have := pow_eq_zero_iff (two_ne_zero) |>.mp h2
  linarith

/-- the model's density is Mathlib's Gaussian density with variance `σ²` -/
theorem normal_prob_eq_gaussianPDF (μ σ : ℝ) (hσ : 0 < σ) (x : ℝ) :
    Normal.prob rexp Real.log halfLog2Pi ⟨μ, σ⟩ x = gaussianPDFReal μ (var σ) x := by
  unfold Normal.prob Normal.logProb negHalfSq gaussianPDFReal
  simp only [half_real, var_coe]
  rw [Real.exp_sub, Real.exp_add, exp_halfLog2Pi, Real.exp_log hσ]
  have h1 : √(2 * π * σ ^ 2) = √(2 * π) * σ := by
    rw [Real.sqrt_mul (by positivity), Real.sqrt_sq hσ.le]
  have e : -(1 / 2 * ((x - μ) / σ * ((x - μ) / σ))) = -(x - μ) ^ 2 / (2 * σ ^ 2) := by
    field_simp
  rw [h1, e, div_eq_inv_mul]

/-- **the normal density integrates to one** -/
theorem normal_density_integral_one (μ σ : ℝ) (hσ : 0 < σ) :
    ∫ x, Normal.prob rexp Real.log halfLog2Pi ⟨μ, σ⟩ x = 1 := by
  simp_rw [normal_prob_eq_gaussianPDF μ σ hσ]
  exact integral_gaussianPDFReal_eq_one μ (var_ne_zero σ hσ)

theorem normal_prob_pos (μ σ x : ℝ) : 0 < Normal.prob rexp Real.log halfLog2Pi ⟨μ, σ⟩ x :=
  Real.exp_pos _

/-- `sample_and_log_prob` of the normal law returns the log-density of the returned sample -/
theorem normal_sample_and_logprob_consistent (c μ σ : ℝ) (hσ : σ ≠ 0) (z : ℝ) :
    (Normal.sampleAndLogProb Real.log c ⟨μ, σ⟩ z).2
      = Normal.logProb Real.log c ⟨μ, σ⟩ (Normal.sampleAndLogProb Real.log c ⟨μ, σ⟩ z).1 := by
  simp only [Normal.sampleAndLogProb, Normal.logProb]
  have : (σ * z + μ - μ) / σ = z := by field_simp; ring
  rw [this]; ring

/-- the sample is `μ + σ z`, mean and mode are `μ` -/
theorem normal_sample (μ σ z : ℝ) : Normal.sample ⟨μ, σ⟩ z = μ + σ * z := by
  simp [Normal.sample]; ring

/-- **entropy of the normal law `= −E[log p]`** -/
theorem normal_entropy_eq_neg_expect_log (μ σ : ℝ) (hσ : 0 < σ) :
    Normal.entropy Real.log halfLog2Pi ⟨μ, σ⟩
      = -∫ x, Normal.prob rexp Real.log halfLog2Pi ⟨μ, σ⟩ x
              * Normal.logProb Real.log halfLog2Pi ⟨μ, σ⟩ x := by
  set v : NNReal := var σ with hv
  have hv0 : v ≠ 0 := var_ne_zero σ hσ
  have hvr : (v : ℝ) = σ ^ 2 := rfl
  simp_rw [normal_prob_eq_gaussianPDF μ σ hσ]
  have h1 : ∫ x, gaussianPDFReal μ v x * Normal.logProb Real.log halfLog2Pi ⟨μ, σ⟩ x
      = ∫ x, Normal.logProb Real.log halfLog2Pi ⟨μ, σ⟩ x ∂(gaussianReal μ v) := by
    rw [integral_gaussianReal_eq_integral_smul hv0]
    rfl
  rw [h1]
  have hlp : ∀ x, Normal.logProb Real.log halfLog2Pi ⟨μ, σ⟩ x
      = -(1 / (2 * σ ^ 2)) * (x - μ) ^ 2 - (halfLog2Pi + Real.log σ) := by
    intro x
    simp only [Normal.logProb, negHalfSq, half_real]
    field_simp
  simp_rw [hlp]
  have hint : Integrable (fun x : ℝ => (x - μ) ^ 2) (gaussianReal μ v) := by
    have hm : MemLp (fun x : ℝ => x - μ) 2 (gaussianReal μ v) :=
      (memLp_id_gaussianReal (μ := μ) (v := v) 2).sub (memLp_const μ)
    exact hm.integrable_sq
  have hvar : ∫ x, (x - μ) ^ 2 ∂(gaussianReal μ v) = σ ^ 2 := by
    have h := variance_fun_id_gaussianReal (μ := μ) (v := v)
    rw [variance_eq_integral (by fun_prop), integral_id_gaussianReal] at h
    rw [h, hvr]
  rw [integral_sub (hint.const_mul _) (integrable_const _), integral_const_mul, hvar,
    integral_const]
  simp only [Normal.entropy, half_real, probReal_univ, smul_eq_mul, one_mul]
  field_simp
  ring

/-! ## diagonal normal: sums over the components -/

theorem absv_pos (s : ℝ) (h : 0 < s) : absv s = s := by
  unfold absv; rw [if_neg (not_lt.mpr h.le)]

/-- **log-density of a diagonal normal = sum of the component log-densities** -/
theorem diag_normal_logprob_sum (c : ℝ) (loc scale v : List ℝ)
    (hl : scale.length = loc.length) (hvl : v.length = loc.length) (hs : ∀ s ∈ scale, 0 < s) :
    DiagNormal.logProb Real.log c ⟨loc, scale⟩ v
      = (List.zipWith (fun (d : Normal ℝ) x => d.logProb Real.log c x)
          (DiagNormal.components ⟨loc, scale⟩) v).sum := by
  induction loc generalizing scale v with
  | nil =>
      cases scale <;> cases v <;> simp_all [DiagNormal.logProb, DiagNormal.standardize,
        DiagNormal.logDet, DiagNormal.components]
  | cons m ms ih =>
      cases scale with
      | nil => simp at hl
      | cons s ss =>
        cases v with
        | nil => simp at hvl
        | cons x xs =>
          have ih' := ih ss xs (by simpa using hl) (by simpa using hvl)
            (fun s hs' => hs s (List.mem_cons_of_mem _ hs'))
          have hs0 : 0 < s := hs s (by simp)
          simp only [DiagNormal.logProb, DiagNormal.standardize, DiagNormal.logDet,
            DiagNormal.components, List.zip_cons_cons, List.zipWith_cons_cons, List.map_cons,
            List.sum_cons] at ih' ⊢
          rw [← ih', absv_pos s hs0]
          simp only [stdLogProb, Normal.logProb, Real.log_one, sub_zero, div_one]
          ring

/-- **entropy of a diagonal normal = sum of the component entropies** -/
theorem diag_normal_entropy_sum (c : ℝ) (loc scale : List ℝ)
    (hl : scale.length = loc.length) (hs : ∀ s ∈ scale, 0 < s) :
    DiagNormal.entropy Real.log c ⟨loc, scale⟩
      = ((DiagNormal.components ⟨loc, scale⟩).map (fun d => d.entropy Real.log c)).sum := by
  induction loc generalizing scale with
  | nil => cases scale <;> simp_all [DiagNormal.entropy, DiagNormal.logDet, DiagNormal.components]
  | cons m ms ih =>
      cases scale with
      | nil => simp at hl
      | cons s ss =>
          have ih' := ih ss (by simpa using hl) (fun s hs' => hs s (List.mem_cons_of_mem _ hs'))
          have hs0 : 0 < s := hs s (by simp)
          simp only [DiagNormal.entropy, DiagNormal.logDet, DiagNormal.components,
            List.zipWith_cons_cons, List.map_cons, List.sum_cons] at ih' ⊢
          rw [← ih', absv_pos s hs0]
          simp only [Normal.entropy, Real.log_one, add_zero]
          ring

/-- `sample_and_log_prob` of the diagonal normal returns the log-density of the returned sample -/
theorem diag_normal_sample_and_logprob_consistent (c : ℝ) (loc scale z : List ℝ)
    (hl : scale.length = loc.length) (hz : z.length = loc.length) (hs : ∀ s ∈ scale, 0 < s) :
    (DiagNormal.sampleAndLogProb Real.log c ⟨loc, scale⟩ z).2
      = DiagNormal.logProb Real.log c ⟨loc, scale⟩
          (DiagNormal.sampleAndLogProb Real.log c ⟨loc, scale⟩ z).1 := by
  simp only [DiagNormal.sampleAndLogProb, DiagNormal.logProb]
  congr 2
  induction loc generalizing scale z with
  | nil => cases scale <;> cases z <;> simp_all [DiagNormal.standardize, DiagNormal.sample]
  | cons m ms ih =>
      cases scale with
      | nil => simp at hl
      | cons s ss =>
        cases z with
        | nil => simp at hz
        | cons x xs =>
          have ih' := ih ss xs (by simpa using hl) (by simpa using hz)
            (fun s hs' => hs s (List.mem_cons_of_mem _ hs'))
          have hs0 : s ≠ 0 := ne_of_gt (hs s (by simp))
          simp only [DiagNormal.standardize, DiagNormal.sample, List.zip_cons_cons,
            List.zipWith_cons_cons] at ih' ⊢
          have e : (s * x + m - m) / s = x := by field_simp; ring
          rw [e, List.map_cons, List.map_cons, ← ih']

/-! ## the squashing bijector -/

/-- the model's `sigmoid` (defined from `exp`) is Mathlib's -/
theorem model_sigmoid_eq (x : ℝ) : Lerax.Dist.sigmoid rexp x = Real.sigmoid x := by
  simp [Lerax.Dist.sigmoid, Real.sigmoid_def]

/-- **`g x ∈ (lo, hi)`** -/
theorem squash_range (q : Dist.Squash ℝ) (h : q.lo < q.hi) (x : ℝ) :
    q.lo < q.forward Real.sigmoid x ∧ q.forward Real.sigmoid x < q.hi := by
  have h0 := Real.sigmoid_pos x
  have h1 := Real.sigmoid_lt_one x
  have hd : 0 < q.hi - q.lo := by linarith
  unfold Squash.forward
  constructor
  · nlinarith
  · nlinarith

/-- **`g` is strictly increasing** -/
theorem squash_strictMono (q : Dist.Squash ℝ) (h : q.lo < q.hi) : StrictMono (q.forward Real.sigmoid) := by
  intro a b hab
  have := Real.sigmoid_strictMono hab
  have hd : 0 < q.hi - q.lo := by linarith
  unfold Squash.forward
  nlinarith

/-- **`g'(x) = (hi − lo)·σ(x)(1 − σ(x))`** -/
theorem squash_hasDeriv (q : Dist.Squash ℝ) (x : ℝ) :
    HasDerivAt (q.forward Real.sigmoid)
      ((q.hi - q.lo) * (Real.sigmoid x * (1 - Real.sigmoid x))) x := by
  have := ((Real.hasDerivAt_sigmoid x).const_mul (q.hi - q.lo)).add_const q.lo
  exact this

theorem squash_deriv_pos (q : Dist.Squash ℝ) (h : q.lo < q.hi) (x : ℝ) :
    0 < (q.hi - q.lo) * (Real.sigmoid x * (1 - Real.sigmoid x)) := by
  have h0 := Real.sigmoid_pos x
  have h1 := Real.sigmoid_lt_one x
  have hd : 0 < q.hi - q.lo := by linarith
  have : 0 < 1 - Real.sigmoid x := by linarith
  positivity

/-- the log-Jacobian the code uses is the logarithm of the derivative:
    `exp(−softplus(−x) − softplus(x) + log|hi − lo|) = (hi − lo)·σ(x)(1 − σ(x))` -/
theorem exp_fldj (q : Dist.Squash ℝ) (h : q.lo < q.hi) (x : ℝ) :
    rexp (q.fldj rexp Real.log x) = (q.hi - q.lo) * (Real.sigmoid x * (1 - Real.sigmoid x)) := by
  have hd : 0 < q.hi - q.lo := by linarith
  unfold Squash.fldj softplus
  rw [absv_pos _ hd, Real.exp_add, Real.exp_log hd, Real.exp_sub, Real.exp_neg,
    Real.exp_log (by positivity), Real.exp_log (by positivity), ← Real.sigmoid_neg,
    Real.sigmoid_def, Real.sigmoid_def, neg_neg]
  have := Real.exp_pos x
  have := Real.exp_pos (-x)
  field_simp

/-- `g⁻¹ (g x) = x` -/
theorem squash_inverse_forward (q : Dist.Squash ℝ) (h : q.lo < q.hi) (x : ℝ) :
    q.inverse Real.log (q.forward Real.sigmoid x) = x := by
  have hd : q.hi - q.lo ≠ 0 := by linarith
  unfold Squash.inverse Squash.forward
  have hu : 1 / (q.hi - q.lo) * ((q.hi - q.lo) * Real.sigmoid x + q.lo - q.lo) = Real.sigmoid x := by
    field_simp; ring
  simp only [hu]
  rw [← Real.sigmoid_neg, ← Real.log_div (ne_of_gt (Real.sigmoid_pos x))
    (ne_of_gt (Real.sigmoid_pos (-x)))]
  have : Real.sigmoid x / Real.sigmoid (-x) = rexp x := by
    rw [Real.sigmoid_def, Real.sigmoid_def, neg_neg, Real.exp_neg]
    have := Real.exp_pos x
    field_simp
    ring
  rw [this, Real.log_exp]

/-- `g (g⁻¹ y) = y` for `y ∈ (lo, hi)` -/
theorem squash_forward_inverse (q : Dist.Squash ℝ) (h : q.lo < q.hi) (y : ℝ) (hy : y ∈ Ioo q.lo q.hi) :
    q.forward Real.sigmoid (q.inverse Real.log y) = y := by
  have hd : 0 < q.hi - q.lo := by linarith
  set u := 1 / (q.hi - q.lo) * (y - q.lo) with hu
  have hu0 : 0 < u := by rw [hu]; have := hy.1; positivity
  have hu1 : u < 1 := by
    rw [hu, one_div, inv_mul_lt_iff₀ hd]; linarith [hy.2]
  have hs : Real.sigmoid (Real.log u - Real.log (1 - u)) = u := by
    rw [Real.sigmoid_def, Real.exp_neg, Real.exp_sub, Real.exp_log hu0,
      Real.exp_log (by linarith)]
    have : (1 - u) ≠ 0 := by linarith
    field_simp
    ring
  unfold Squash.forward Squash.inverse
  rw [← hu, hs, hu]
  field_simp
  ring

/-- the image of `g` is exactly `(lo, hi)` -/
theorem squash_image (q : Dist.Squash ℝ) (h : q.lo < q.hi) :
    q.forward Real.sigmoid '' univ = Ioo q.lo q.hi := by
  ext y
  constructor
  · rintro ⟨x, _, rfl⟩
    exact squash_range q h x
  · intro hy
    exact ⟨q.inverse Real.log y, mem_univ _, squash_forward_inverse q h y hy⟩

/-! ## squashed normal -/

/-- `log|(g⁻¹)'(g x)| = −log|g'(x)|` -/
theorem ildj_forward (q : Dist.Squash ℝ) (h : q.lo < q.hi) (x : ℝ) :
    q.ildj rexp Real.log (q.forward Real.sigmoid x) = -(q.fldj rexp Real.log x) := by
  unfold Squash.ildj Squash.fldj
  rw [squash_inverse_forward q h x]
  ring

/-- **the squashed log-density is the push-forward density**: `p_Y(g x)·g'(x) = p_X(x)` -/
theorem squashed_logprob_is_pushforward_density (c : ℝ) (d : SquashedNormal ℝ)
    (h : d.sq.lo < d.sq.hi) (x : ℝ) :
    d.prob rexp Real.log c (d.sq.forward Real.sigmoid x)
        * ((d.sq.hi - d.sq.lo) * (Real.sigmoid x * (1 - Real.sigmoid x)))
      = d.base.prob rexp Real.log c x := by
  unfold SquashedNormal.prob SquashedNormal.logProb Normal.prob
  rw [squash_inverse_forward d.sq h x, ildj_forward d.sq h x, ← exp_fldj d.sq h x, ← Real.exp_add]
  congr 1
  ring

/-- **the squashed density integrates to one over `(lo, hi)`** (change of variables `y = g x`) -/
theorem squashed_mass_one (μ σ : ℝ) (hσ : 0 < σ) (q : Dist.Squash ℝ) (h : q.lo < q.hi) :
    ∫ y in Ioo q.lo q.hi,
        SquashedNormal.prob rexp Real.log halfLog2Pi ⟨⟨μ, σ⟩, q⟩ y = 1 := by
  rw [← squash_image q h]
  rw [integral_image_eq_integral_abs_deriv_smul MeasurableSet.univ
    (fun x _ => (squash_hasDeriv q x).hasDerivWithinAt)
    ((squash_strictMono q h).injective.injOn)]
  rw [Measure.restrict_univ]
  refine Eq.trans ?_ (normal_density_integral_one μ σ hσ)
  congr 1
  funext x
  rw [abs_of_pos (squash_deriv_pos q h x), smul_eq_mul, mul_comm]
  exact squashed_logprob_is_pushforward_density halfLog2Pi ⟨⟨μ, σ⟩, q⟩ h x

/-- **`sample_and_log_prob` returns the log-density of the sample it returns**, for every
    noise value `z` -/
theorem sample_and_logprob_consistent (c : ℝ) (d : SquashedNormal ℝ) (hσ : d.base.scale ≠ 0)
    (h : d.sq.lo < d.sq.hi) (z : ℝ) :
    (d.sampleAndLogProb rexp Real.log Real.sigmoid c z).2
      = d.logProb rexp Real.log c (d.sampleAndLogProb rexp Real.log Real.sigmoid c z).1 := by
  simp only [SquashedNormal.sampleAndLogProb, SquashedNormal.logProb]
  rw [squash_inverse_forward d.sq h, ildj_forward d.sq h,
    ← normal_sample_and_logprob_consistent c d.base.loc d.base.scale hσ z]
  ring

/-- the sample returned by `sample_and_log_prob` is the one `sample` returns: `g(μ + σz)` -/
theorem squashed_sample_eq (c : ℝ) (d : SquashedNormal ℝ) (z : ℝ) :
    (d.sampleAndLogProb rexp Real.log Real.sigmoid c z).1 = d.sample Real.sigmoid z := rfl

/-- **samples and the mode lie strictly inside `(lo, hi)`** -/
theorem squashed_sample_in_bounds (d : SquashedNormal ℝ) (h : d.sq.lo < d.sq.hi) (z : ℝ) :
    d.sq.lo < d.sample Real.sigmoid z ∧ d.sample Real.sigmoid z < d.sq.hi :=
  squash_range d.sq h _

theorem squashed_mode_in_bounds (d : SquashedNormal ℝ) (h : d.sq.lo < d.sq.hi) :
    d.sq.lo < d.mode Real.sigmoid ∧ d.mode Real.sigmoid < d.sq.hi :=
  squash_range d.sq h _

/-! ## squashed diagonal normal: sums over the components -/

/-- **log-density of the squashed diagonal normal = sum of the component squashed
    log-densities** -/
theorem squashed_diag_logprob_sum (c : ℝ) (loc scale : List ℝ) (sqs : List (Dist.Squash ℝ))
    (y : List ℝ) (hl : scale.length = loc.length) (hq : sqs.length = loc.length)
    (hy : y.length = loc.length) (hs : ∀ s ∈ scale, 0 < s) :
    SquashedDiag.logProb rexp Real.log c ⟨⟨loc, scale⟩, sqs⟩ y
      = (List.zipWith (fun (d : SquashedNormal ℝ) yi => d.logProb rexp Real.log c yi)
          (SquashedDiag.components ⟨⟨loc, scale⟩, sqs⟩) y).sum := by
  unfold SquashedDiag.logProb
  rw [diag_normal_logprob_sum c loc scale _ hl (by simp [SquashedDiag.inverse, hq, hy]) hs]
  simp only [SquashedDiag.components, SquashedDiag.inverse]
  have hc : (DiagNormal.components ⟨loc, scale⟩).length = loc.length := by
    simp [DiagNormal.components, hl]
  rw [← hc] at hq hy
  generalize DiagNormal.components ⟨loc, scale⟩ = comps at hq hy
  induction comps generalizing sqs y with
  | nil =>
      cases sqs with
      | nil => simp
      | cons _ _ => simp at hq
  | cons b bs ih =>
      cases sqs with
      | nil => simp at hq
      | cons q qs =>
        cases y with
        | nil => simp at hy
        | cons y0 ys =>
          simp only [List.zipWith_cons_cons, List.sum_cons, SquashedNormal.logProb]
          have := ih qs ys (by simpa using hq) (by simpa using hy)
          simp only [SquashedNormal.logProb] at this
          linarith

/-- every component of a squashed diagonal sample lies inside its bounds -/
theorem squashed_diag_sample_in_bounds (d : SquashedDiag ℝ) (h : ∀ q ∈ d.sqs, q.lo < q.hi)
    (x : List ℝ) : ∀ p ∈ d.sqs.zip (d.forward Real.sigmoid x), p.1.lo < p.2 ∧ p.2 < p.1.hi := by
  unfold SquashedDiag.forward
  generalize d.sqs = sqs at h
  induction sqs generalizing x with
  | nil => simp
  | cons q qs ih =>
      cases x with
      | nil => simp
      | cons x0 xs =>
          intro p hp
          simp only [List.zipWith_cons_cons, List.zip_cons_cons, List.mem_cons] at hp
          rcases hp with rfl | hp
          · exact squash_range q (h q (by simp)) x0
          · exact ih xs (fun q hq => h q (List.mem_cons_of_mem _ hq)) p hp

/-- **samples follow the stated density**: for every measurable set `s` of base-noise outcomes,
    the squashed density integrated over the image `g '' s` equals the normal density integrated
    over `s` — i.e. `g(X)` with `X ~ N(μ, σ²)` has density `exp(log_prob)` (`X = μ + σ z`,
    `z ~ N(0,1)` being what `jax.random.normal` is trusted to deliver) -/
theorem squashed_sample_law (μ σ : ℝ) (q : Dist.Squash ℝ) (h : q.lo < q.hi)
    (s : Set ℝ) (hs : MeasurableSet s) :
    ∫ y in q.forward Real.sigmoid '' s,
        SquashedNormal.prob rexp Real.log halfLog2Pi ⟨⟨μ, σ⟩, q⟩ y
      = ∫ x in s, Normal.prob rexp Real.log halfLog2Pi ⟨μ, σ⟩ x := by
  rw [integral_image_eq_integral_abs_deriv_smul hs
    (fun x _ => (squash_hasDeriv q x).hasDerivWithinAt)
    ((squash_strictMono q h).injective.injOn)]
  have : (fun x => |(q.hi - q.lo) * (Real.sigmoid x * (1 - Real.sigmoid x))| •
        SquashedNormal.prob rexp Real.log halfLog2Pi ⟨⟨μ, σ⟩, q⟩ (q.forward Real.sigmoid x))
      = fun x => Normal.prob rexp Real.log halfLog2Pi ⟨μ, σ⟩ x := by
    funext x
    rw [abs_of_pos (squash_deriv_pos q h x), smul_eq_mul, mul_comm]
    exact squashed_logprob_is_pushforward_density halfLog2Pi ⟨⟨μ, σ⟩, q⟩ h x
  rw [this]

/-- mass of the product laws — **partial**: the joint density of a diagonal normal / squashed
    diagonal normal is the product of the component densities (`exp` of the sum proved above) and
    every component density integrates to one over its support; the step from there to "the joint
    density integrates to one over the box" (Fubini over `ℝⁿ`) is not machine-checked. -/
theorem product_density_mass_one_partial (loc scale : List ℝ) (sqs : List (Dist.Squash ℝ))
    (hl : scale.length = loc.length) (hq : sqs.length = loc.length)
    (hs : ∀ s ∈ scale, 0 < s) (hb : ∀ q ∈ sqs, q.lo < q.hi) :
    (∀ v : List ℝ, v.length = loc.length →
        DiagNormal.prob rexp Real.log halfLog2Pi ⟨loc, scale⟩ v
          = rexp (List.zipWith (fun (d : Normal ℝ) x => d.logProb Real.log halfLog2Pi x)
              (DiagNormal.components ⟨loc, scale⟩) v).sum) ∧
    (∀ y : List ℝ, y.length = loc.length →
        SquashedDiag.prob rexp Real.log halfLog2Pi ⟨⟨loc, scale⟩, sqs⟩ y
          = rexp (List.zipWith (fun (d : SquashedNormal ℝ) yi => d.logProb rexp Real.log halfLog2Pi yi)
              (SquashedDiag.components ⟨⟨loc, scale⟩, sqs⟩) y).sum) ∧
    (∀ d ∈ DiagNormal.components ⟨loc, scale⟩,
        ∫ x, Normal.prob rexp Real.log halfLog2Pi d x = 1) ∧
    (∀ d ∈ SquashedDiag.components ⟨⟨loc, scale⟩, sqs⟩,
        ∫ y in Ioo d.sq.lo d.sq.hi, SquashedNormal.prob rexp Real.log halfLog2Pi d y = 1) := by
  have hcomp : ∀ d ∈ DiagNormal.components ⟨loc, scale⟩, 0 < d.scale := by
    intro d hd
    simp only [DiagNormal.components] at hd
    obtain ⟨i, hi, rfl⟩ := List.getElem_of_mem hd
    simp only [List.getElem_zipWith]
    exact hs _ (List.getElem_mem _)
  refine ⟨?_, ?_, ?_, ?_⟩
  · intro v hv
    unfold DiagNormal.prob
    rw [diag_normal_logprob_sum halfLog2Pi loc scale v hl hv hs]
  · intro y hy
    unfold SquashedDiag.prob
    rw [squashed_diag_logprob_sum halfLog2Pi loc scale sqs y hl hq hy hs]
  · intro d hd
    exact normal_density_integral_one d.loc d.scale (hcomp d hd)
  · intro d hd
    simp only [SquashedDiag.components] at hd
    obtain ⟨i, hi, rfl⟩ := List.getElem_of_mem hd
    simp only [List.getElem_zipWith]
    exact squashed_mass_one _ _ (hcomp _ (List.getElem_mem _)) _ (hb _ (List.getElem_mem _))

/-! ## non-vacuity -/

example : ∫ x, Normal.prob rexp Real.log halfLog2Pi ⟨1, 2⟩ x = 1 :=
  normal_density_integral_one 1 2 (by norm_num)

example : ∫ y in Ioo (-1 : ℝ) 3, SquashedNormal.prob rexp Real.log halfLog2Pi ⟨⟨1, 2⟩, ⟨-1, 3⟩⟩ y = 1 :=
  squashed_mass_one 1 2 (by norm_num) ⟨-1, 3⟩ (by norm_num)

example : (⟨-1, 3⟩ : Dist.Squash ℝ).forward Real.sigmoid 0 = 1 := by
  simp [Squash.forward]; norm_num

end Lerax.C15
