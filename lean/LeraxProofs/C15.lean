/-
  C15 — Action distributions are coherent probability laws (discrete laws).

  Theorems about `LeraxModel/Dist.lean` (the model of lerax's `Categorical`, `Bernoulli`,
  `MultiCategorical` wrappers and of the distreqx formulas they delegate to) over an arbitrary
  linearly ordered field `α` with functions `exp log : α → α` that satisfy the four facts
  bundled in `ExpLog` (positivity, `exp (a+b) = exp a · exp b`, `exp ∘ log = id` on positives,
  `log ∘ exp = id`, monotonicity); `expLog_real` discharges them for `Real.exp`/`Real.log`.

  Every statement is for all lengths, all (extended) logit / probability vectors, all masks,
  all sample points and all noise vectors.  The continuous laws are in `C15b.lean`.
-/
import LeraxModel.Dist
import Mathlib.Tactic.Ring
import Mathlib.Tactic.FieldSimp
import Mathlib.Tactic.Linarith
import Mathlib.Algebra.Order.Field.Basic
import Mathlib.Algebra.BigOperators.Group.List.Basic
import Mathlib.Algebra.Order.BigOperators.Group.List
import Mathlib.Analysis.SpecialFunctions.Log.Basic

namespace Lerax.C15
open Lerax.Dist

set_option linter.unusedSectionVars false
set_option linter.unusedVariables false

variable {α : Type} [Field α] [LinearOrder α] [IsStrictOrderedRing α]

/-- the facts about `exp` and `log` that the theorems use (five) -/
structure ExpLog (exp log : α → α) : Prop where
  pos : ∀ x, 0 < exp x
  add : ∀ a b, exp (a + b) = exp a * exp b
  exp_log : ∀ x, 0 < x → exp (log x) = x
  log_exp : ∀ x, log (exp x) = x
  mono : ∀ a b, a ≤ b → exp a ≤ exp b

theorem expLog_real : ExpLog Real.exp Real.log :=
  ⟨Real.exp_pos, Real.exp_add, fun _ h => Real.exp_log h, Real.log_exp,
   fun _ _ h => Real.exp_le_exp.mpr h⟩

section explog
variable {exp log : α → α} (E : ExpLog exp log)
include E

theorem ExpLog.zero : exp 0 = 1 := by
  have h := E.add 0 0
  rw [add_zero] at h
  have hp := E.pos 0
  have : exp 0 * (exp 0 - 1) = 0 := by rw [mul_sub, ← h]; ring
  rcases mul_eq_zero.mp this with h0 | h0
  · exact absurd h0 (ne_of_gt hp)
  · linarith

theorem ExpLog.sub (a b : α) : exp (a - b) = exp a / exp b := by
  have h := E.add (a - b) b
  rw [sub_add_cancel] at h
  rw [h, mul_div_assoc, div_self (ne_of_gt (E.pos b)), mul_one]

theorem ExpLog.neg (a : α) : exp (-a) = 1 / exp a := by
  have h := E.sub 0 a
  rw [zero_sub, E.zero] at h
  exact h

theorem ExpLog.log_one : log 1 = 0 := by
  rw [← E.zero, E.log_exp]

end explog

/-! ## list helpers -/

theorem map_getD_range {β : Type} (l : List β) (d : β) :
    List.map (fun i => l.getD i d) (List.range l.length) = l := by
  apply List.ext_getElem
  · simp
  · intro i h1 h2
    simp only [List.length_map, List.length_range] at h1
    simp [List.getD_eq_getElem?_getD, List.getElem?_eq_getElem h1]

theorem sum_map_div (f : β → α) (s : α) (l : List β) :
    (l.map (fun x => f x / s)).sum = (l.map f).sum / s := by
  induction l with
  | nil => simp
  | cons x xs ih => simp [ih, add_div]

theorem getD_map' {β γ : Type} (f : β → γ) (l : List β) (i : Nat) (d : β) :
    (l.map f).getD i (f d) = f (l.getD i d) := by
  simp only [List.getD_eq_getElem?_getD, List.getElem?_map]
  cases l[i]? <;> rfl

/-! ## arg-max -/

section argmax
variable {β : Type} (lt : β → β → Bool)

theorem argmaxV_lt_length (x : β) (xs : List β) : (argmaxV lt x xs).1 < (x :: xs).length := by
  induction xs generalizing x with
  | nil => simp [argmaxV]
  | cons y ys ih =>
      simp only [argmaxV]
      split
      · have := ih y; simp only [List.length_cons] at this ⊢; omega
      · simp

/-- the returned value is the entry at the returned index -/
theorem argmaxV_get (x : β) (xs : List β) :
    (x :: xs)[(argmaxV lt x xs).1]? = some (argmaxV lt x xs).2 := by
  induction xs generalizing x with
  | nil => simp [argmaxV]
  | cons y ys ih =>
      simp only [argmaxV]
      split
      · simpa using ih y
      · simp

/-- every entry strictly before the returned index is strictly smaller: it is the *first* maximum -/
theorem argmaxV_first (x : β) (xs : List β) (j : Nat) (hj : j < (argmaxV lt x xs).1) :
    ∃ w, (x :: xs)[j]? = some w ∧ lt w (argmaxV lt x xs).2 = true := by
  induction xs generalizing x j with
  | nil => simp [argmaxV] at hj
  | cons y ys ih =>
      simp only [argmaxV] at hj ⊢
      split
      · rename_i h
        rw [if_pos h] at hj
        cases j with
        | zero => exact ⟨x, by simp, h⟩
        | succ j =>
            have := ih y j (by simpa using hj)
            simpa using this
      · rename_i h
        rw [if_neg h] at hj
        simp at hj

/-- no entry is strictly greater than the returned value (for an asymmetric, negatively
    transitive `lt`, e.g. the strict part of a linear order) -/
theorem argmaxV_max (hasym : ∀ a b, lt a b = true → lt b a = false)
    (hnt : ∀ a b c, lt a b = false → lt b c = false → lt a c = false)
    (x : β) (xs : List β) : ∀ w ∈ x :: xs, lt (argmaxV lt x xs).2 w = false := by
  induction xs generalizing x with
  | nil =>
      intro w hw
      simp only [List.mem_singleton] at hw
      subst hw
      simp only [argmaxV]
      cases h : lt w w
      · rfl
      · have := hasym w w h; rw [h] at this; exact absurd this (by simp)
  | cons y ys ih =>
      intro w hw
      simp only [argmaxV]
      split
      · rename_i h
        rcases List.mem_cons.mp hw with rfl | hw'
        · exact hasym _ _ h
        · exact ih y w hw'
      · rename_i h
        have hx : lt x (argmaxV lt y ys).2 = false := by simpa using h
        rcases List.mem_cons.mp hw with rfl | hw'
        · cases h' : lt w w
          · rfl
          · have := hasym w w h'; rw [h'] at this; exact absurd this (by simp)
        · exact hnt _ _ _ hx (ih y w hw')

end argmax

/-! ### the order on extended numbers -/

theorem elt_asymm (a b : Option α) (h : elt a b = true) : elt b a = false := by
  cases a <;> cases b <;> simp_all [elt]
  exact le_of_lt h

theorem elt_negtrans (a b c : Option α) (h1 : elt a b = false) (h2 : elt b c = false) :
    elt a c = false := by
  cases a <;> cases b <;> cases c <;> simp_all [elt]
  exact le_trans h2 h1

theorem flt_asymm (a b : α) (h : flt a b = true) : flt b a = false := by
  simp_all [flt]; exact le_of_lt h

theorem flt_negtrans (a b c : α) (h1 : flt a b = false) (h2 : flt b c = false) :
    flt a c = false := by
  simp_all [flt]; exact le_trans h2 h1

/-- a list of extended numbers with at least one finite entry -/
def HasFinite (l : List (Option α)) : Prop := ∃ x, some x ∈ l

/-- the first arg-max of a list with a finite entry is a finite entry -/
theorem argmax_elt_finite (l : List (Option α)) (h : HasFinite l) :
    argmax elt l < l.length ∧ ∃ x, l[argmax elt l]? = some (some x) := by
  cases l with
  | nil => obtain ⟨x, hx⟩ := h; simp at hx
  | cons y ys =>
      refine ⟨argmaxV_lt_length elt y ys, ?_⟩
      have hget := argmaxV_get elt y ys
      have hmax := argmaxV_max elt elt_asymm elt_negtrans y ys
      obtain ⟨x, hx⟩ := h
      cases hv : (argmaxV elt y ys).2 with
      | none =>
          have := hmax (some x) hx
          rw [hv] at this
          simp [elt] at this
      | some v =>
          exact ⟨v, by simpa [argmax, hv] using hget⟩

/-- no entry exceeds the entry at the arg-max -/
theorem argmax_elt_max (l : List (Option α)) (w : Option α) (hw : w ∈ l) :
    ∃ v, l[argmax elt l]? = some v ∧ elt v w = false := by
  cases l with
  | nil => simp at hw
  | cons y ys =>
      exact ⟨_, argmaxV_get elt y ys, argmaxV_max elt elt_asymm elt_negtrans y ys w hw⟩

/-! ## soft-max algebra -/

section softmax
variable {exp log : α → α} (E : ExpLog exp log)
include E

theorem eexp_nonneg (x : Option α) : 0 ≤ eexp exp x := by
  cases x with
  | none => simp [eexp]
  | some x => exact le_of_lt (E.pos x)

theorem sumExp_nonneg (l : List (Option α)) : 0 ≤ sumExp exp l := by
  unfold sumExp
  apply List.sum_nonneg
  intro y hy
  obtain ⟨x, _, rfl⟩ := List.mem_map.mp hy
  exact eexp_nonneg E x

/-- at least one finite logit makes the normaliser positive -/
theorem sumExp_pos (l : List (Option α)) (h : HasFinite l) : 0 < sumExp exp l := by
  induction l with
  | nil => obtain ⟨x, hx⟩ := h; simp at hx
  | cons y ys ih =>
      have hn := sumExp_nonneg E ys
      simp only [sumExp, List.map_cons, List.sum_cons] at hn ⊢
      obtain ⟨x, hx⟩ := h
      rcases List.mem_cons.mp hx with rfl | hx'
      · have := E.pos x
        simp only [eexp]
        linarith
      · have := ih ⟨x, hx'⟩
        have h0 := eexp_nonneg E y
        simp only [sumExp] at this
        linarith

theorem eexp_shift (x : Option α) (z : α) : eexp exp (x.map (· - z)) = eexp exp x / exp z := by
  cases x with
  | none => simp [eexp]
  | some x => simp [eexp, E.sub]

theorem sumExp_shift (l : List (Option α)) (z : α) :
    sumExp exp (l.map (fun x => x.map (· - z))) = sumExp exp l / exp z := by
  induction l with
  | nil => simp [sumExp]
  | cons y ys ih =>
      simp only [sumExp, List.map_cons, List.sum_cons] at ih ⊢
      rw [ih, eexp_shift E, add_div]

/-- the normalised logits have normaliser one -/
theorem sumExp_logSoftmax (l : List (Option α)) (h : HasFinite l) :
    sumExp exp (logSoftmax exp log l) = 1 := by
  have hp := sumExp_pos E l h
  unfold logSoftmax
  simp only []
  rw [sumExp_shift E, E.exp_log _ hp, div_self (ne_of_gt hp)]

/-- `log_softmax` is idempotent -/
theorem logSoftmax_idem (l : List (Option α)) (h : HasFinite l) :
    logSoftmax exp log (logSoftmax exp log l) = logSoftmax exp log l := by
  have h1 := sumExp_logSoftmax E l h
  generalize logSoftmax exp log l = L at h1 ⊢
  show L.map (fun x => x.map (· - log (sumExp exp L))) = L
  rw [h1, E.log_one]
  conv_rhs => rw [← List.map_id L]
  apply List.map_congr_left
  intro x _
  cases x <;> simp

theorem hasFinite_map (l : List (Option α)) (z : α) (h : HasFinite l) :
    HasFinite (l.map (fun x => x.map (· - z))) := by
  obtain ⟨x, hx⟩ := h
  exact ⟨x - z, List.mem_map.mpr ⟨some x, hx, rfl⟩⟩

theorem hasFinite_logSoftmax (l : List (Option α)) (h : HasFinite l) :
    HasFinite (logSoftmax exp log l) := hasFinite_map E l _ h

/-- `softmax` is invariant under a common shift of the logits -/
theorem softmax_shift (l : List (Option α)) (z : α) :
    softmax exp (l.map (fun x => x.map (· - z))) = softmax exp l := by
  unfold softmax
  simp only []
  rw [sumExp_shift E, List.map_map]
  apply List.map_congr_left
  intro x _
  simp only [Function.comp]
  rw [eexp_shift E]
  have := ne_of_gt (E.pos z)
  field_simp

theorem softmax_logSoftmax (l : List (Option α)) :
    softmax exp (logSoftmax exp log l) = softmax exp l := softmax_shift E l _

theorem softmax_sum (l : List (Option α)) (h : HasFinite l) : (softmax exp l).sum = 1 := by
  have hp := sumExp_pos E l h
  unfold softmax
  simp only []
  rw [sum_map_div, ← sumExp, div_self (ne_of_gt hp)]

end softmax

/-! ## categorical -/

/-- a valid parameter of the probability form: non-negative entries, positive total -/
def ValidProbs (p : List α) : Prop := (∀ x ∈ p, 0 ≤ x) ∧ 0 < p.sum

theorem normalizeProbs_nonneg (p : List α) (h : ValidProbs p) : ∀ x ∈ normalizeProbs p, 0 ≤ x := by
  intro x hx
  obtain ⟨y, hy, rfl⟩ := List.mem_map.mp hx
  exact div_nonneg (h.1 y hy) (le_of_lt h.2)

theorem normalizeProbs_sum (p : List α) (h : ValidProbs p) : (normalizeProbs p).sum = 1 := by
  unfold normalizeProbs
  simp only []
  have := sum_map_div (fun x : α => x) p.sum p
  simp only [List.map_id'] at this
  rw [this, div_self (ne_of_gt h.2)]

theorem exists_pos_of_sum_pos (p : List α) (h : 0 < p.sum) : ∃ x ∈ p, 0 < x := by
  induction p with
  | nil => simp at h
  | cons y ys ih =>
      by_cases hy : 0 < y
      · exact ⟨y, by simp, hy⟩
      · have : 0 < ys.sum := by
          simp only [List.sum_cons] at h
          have := not_lt.mp hy
          linarith
        obtain ⟨x, hx, hx0⟩ := ih this
        exact ⟨x, List.mem_cons_of_mem _ hx, hx0⟩

theorem getD_mem_or {β : Type} (l : List β) (i : Nat) (d : β) : l.getD i d ∈ l ∨ l.getD i d = d := by
  rw [List.getD_eq_getElem?_getD]
  cases h : l[i]? with
  | none => right; rfl
  | some x => left; exact List.mem_of_getElem? h

section categorical
variable {exp log : α → α} (E : ExpLog exp log)
include E

theorem eexp_logE (q : α) (hq : 0 ≤ q) : eexp exp (logE log q) = q := by
  unfold logE
  split
  · rename_i h; simp [eexp, E.exp_log q h]
  · rename_i h; simp only [eexp]; exact le_antisymm (by simpa using hq) (not_lt.mp h) |>.symm ▸ rfl

theorem softmax_getD_normalised (L : List (Option α)) (hL : sumExp exp L = 1) (i : Nat) :
    (softmax exp L).getD i 0 = eexp exp (L.getD i none) := by
  unfold softmax
  simp only []
  rw [hL]
  have := getD_map' (fun x => eexp exp x / 1) L i none
  simp only [eexp, div_one] at this ⊢
  exact this

theorem length_softmax (L : List (Option α)) : (softmax exp L).length = L.length := by
  simp [softmax]

/-- a categorical law in normal form: what the two constructors produce from valid parameters -/
def Cat.Normal (exp : α → α) : Cat α → Prop
  | .logits L => HasFinite L ∧ sumExp exp L = 1
  | .probs q => (∀ x ∈ q, 0 ≤ x) ∧ q.sum = 1

theorem ofLogits_normal (l : List (Option α)) (h : HasFinite l) :
    Cat.Normal exp (Cat.ofLogits exp log l) :=
  ⟨hasFinite_logSoftmax E l h, sumExp_logSoftmax E l h⟩

omit E in
theorem ofProbs_normal (p : List α) (h : ValidProbs p) : Cat.Normal exp (Cat.ofProbs p) :=
  ⟨normalizeProbs_nonneg p h, normalizeProbs_sum p h⟩

theorem length_getProbs (c : Cat α) : (c.getProbs exp).length = c.n := by
  cases c <;> simp [Cat.getProbs, Cat.n, softmax]

omit E in
theorem length_getLogits (c : Cat α) : (c.getLogits log).length = c.n := by
  cases c <;> simp [Cat.getLogits, Cat.n]

/-- probability and log-probability at natural-number points, read off the parameter lists -/
theorem prob_nat (c : Cat α) (v : Nat) : c.prob exp (v : Int) = (c.getProbs exp).getD v 0 := by
  unfold Cat.prob
  by_cases h : v < c.n
  · rw [if_neg (by omega)]; simp
  · rw [if_pos (by omega)]
    rw [List.getD_eq_getElem?_getD, List.getElem?_eq_none (by rw [length_getProbs E]; omega)]
    rfl

omit E in
theorem logProb_nat (c : Cat α) (v : Nat) : c.logProb log (v : Int) = (c.getLogits log).getD v none := by
  unfold Cat.logProb
  by_cases h : v < c.n
  · rw [if_neg (by omega)]; simp
  · rw [if_pos (by omega)]
    rw [List.getD_eq_getElem?_getD, List.getElem?_eq_none (by rw [length_getLogits]; omega)]
    rfl

omit E in
theorem prob_outside (c : Cat α) (v : Int) (h : v < 0 ∨ (c.n : Int) ≤ v) :
    c.prob exp v = 0 ∧ c.logProb log v = none := by
  simp [Cat.prob, Cat.logProb, h]

/-- pointwise: the `i`-th probability is `exp` of the `i`-th (extended) logit -/
theorem getProbs_getD (c : Cat α) (hc : Cat.Normal exp c) (i : Nat) :
    (c.getProbs exp).getD i 0 = eexp exp ((c.getLogits log).getD i none) := by
  cases c with
  | logits L => exact softmax_getD_normalised E L hc.2 i
  | probs q =>
      simp only [Cat.getProbs, Cat.getLogits]
      have h0 : logE log (0 : α) = none := by simp [logE]
      rw [← h0, getD_map' (logE log) q i 0]
      have hq : 0 ≤ q.getD i 0 := by
        rcases getD_mem_or q i 0 with h | h
        · exact hc.1 _ h
        · rw [h]
      rw [eexp_logE E _ hq]

/-- **`prob = exp(log_prob)`** at every integer point (inside or outside the support), for a
    categorical law built from any logit vector with a finite entry or any valid probability vector -/
theorem prob_eq_exp_logprob_normal (c : Cat α) (hc : Cat.Normal exp c) (v : Int) :
    c.prob exp v = eexp exp (c.logProb log v) := by
  by_cases h : v < 0 ∨ (c.n : Int) ≤ v
  · obtain ⟨h1, h2⟩ := prob_outside (exp := exp) (log := log) c v h
    rw [h1, h2]; rfl
  · push Not at h
    obtain ⟨k, rfl⟩ := Int.eq_ofNat_of_zero_le h.1
    rw [prob_nat E, logProb_nat, getProbs_getD E c hc]

theorem prob_eq_exp_logprob (l : List (Option α)) (h : HasFinite l) (v : Int) :
    (Cat.ofLogits exp log l).prob exp v = eexp exp ((Cat.ofLogits exp log l).logProb log v) :=
  prob_eq_exp_logprob_normal E _ (ofLogits_normal E l h) v

theorem prob_eq_exp_logprob_probs (p : List α) (h : ValidProbs p) (v : Int) :
    (Cat.ofProbs p).prob exp v = eexp exp ((Cat.ofProbs p).logProb log v) :=
  prob_eq_exp_logprob_normal E _ (ofProbs_normal p h) v

/-- total mass of a law in normal form -/
theorem mass_one_normal (c : Cat α) (hc : Cat.Normal exp c) :
    ((List.range c.n).map (fun v : Nat => c.prob exp (v : Int))).sum = 1 := by
  have : (List.range c.n).map (fun v : Nat => c.prob exp (v : Int)) = c.getProbs exp := by
    rw [← length_getProbs E c]
    conv_rhs => rw [← map_getD_range (c.getProbs exp) 0]
    apply List.map_congr_left
    intro v _
    exact prob_nat E c v
  rw [this]
  cases c with
  | logits L =>
      simp only [Cat.getProbs]
      exact softmax_sum E L hc.1
  | probs q => exact hc.2

/-- **the probabilities over the support sum to one** (logit form) -/
theorem categorical_mass_one (l : List (Option α)) (h : HasFinite l) :
    ((List.range l.length).map
      (fun v : Nat => (Cat.ofLogits exp log l).prob exp (v : Int))).sum = 1 := by
  have := mass_one_normal E _ (ofLogits_normal E l h)
  simpa [Cat.ofLogits, Cat.n, logSoftmax] using this

/-- **the probabilities over the support sum to one** (probability form) -/
theorem categorical_mass_one_probs (p : List α) (h : ValidProbs p) :
    ((List.range p.length).map (fun v : Nat => (Cat.ofProbs p).prob exp (v : Int))).sum = 1 := by
  have := mass_one_normal E _ (ofProbs_normal (exp := exp) p h)
  simpa [Cat.ofProbs, Cat.n, normalizeProbs] using this

omit E in
theorem entTerm_eq_mnn (x : Option α) : entTerm exp x = mnn x (eexp exp x) := by
  cases x <;> simp [entTerm, mnn, eexp]

/-- **entropy `= −Σ_v p(v)·log p(v)`** with the convention `0·log 0 = 0` (`mnn none _ = 0`) -/
theorem entropy_eq_neg_expect_log_normal (c : Cat α) (hc : Cat.Normal exp c) :
    c.entropy exp log =
      -((List.range c.n).map (fun v : Nat => mnn (c.logProb log (v : Int)) (c.prob exp (v : Int)))).sum := by
  have key : (List.range c.n).map (fun v : Nat => mnn (c.logProb log (v : Int)) (c.prob exp (v : Int)))
      = (c.getLogits log).map (entTerm exp) := by
    rw [← length_getLogits (log := log) c]
    conv_rhs => rw [← map_getD_range (c.getLogits log) none, List.map_map]
    apply List.map_congr_left
    intro v _
    simp only [Function.comp]
    rw [prob_nat E, logProb_nat, getProbs_getD E c hc, entTerm_eq_mnn]
  rw [key]
  cases c with
  | logits L =>
      simp only [Cat.entropy, Cat.getLogits]
      have : logSoftmax exp log L = L := by
        have h1 := hc.2
        show L.map (fun x => x.map (· - log (sumExp exp L))) = L
        rw [h1, E.log_one]
        conv_rhs => rw [← List.map_id L]
        apply List.map_congr_left
        intro x _
        cases x <;> simp
      rw [this]
  | probs q => simp only [Cat.entropy, Cat.getLogits]

theorem entropy_eq_neg_expect_log (l : List (Option α)) (h : HasFinite l) :
    (Cat.ofLogits exp log l).entropy exp log =
      -((List.range l.length).map (fun v : Nat =>
          mnn ((Cat.ofLogits exp log l).logProb log (v : Int))
              ((Cat.ofLogits exp log l).prob exp (v : Int)))).sum := by
  have := entropy_eq_neg_expect_log_normal E _ (ofLogits_normal E l h)
  simpa [Cat.ofLogits, Cat.n, logSoftmax] using this

theorem entropy_eq_neg_expect_log_probs (p : List α) (h : ValidProbs p) :
    (Cat.ofProbs p).entropy exp log =
      -((List.range p.length).map (fun v : Nat =>
          mnn ((Cat.ofProbs p).logProb log (v : Int)) ((Cat.ofProbs p).prob exp (v : Int)))).sum := by
  have := entropy_eq_neg_expect_log_normal E _ (ofProbs_normal (exp := exp) p h)
  simpa [Cat.ofProbs, Cat.n, normalizeProbs] using this

/-- a zero-probability point contributes nothing and a point of log-probability `-∞` has
    probability zero (so the convention in the entropy is `0·log 0 = 0`) -/
theorem prob_zero_of_logprob_none (c : Cat α) (hc : Cat.Normal exp c) (v : Int)
    (h : c.logProb log v = none) : c.prob exp v = 0 := by
  rw [prob_eq_exp_logprob_normal E c hc v, h]; rfl

theorem prob_pos_of_logprob_some (c : Cat α) (hc : Cat.Normal exp c) (v : Int) (x : α)
    (h : c.logProb log v = some x) : 0 < c.prob exp v := by
  rw [prob_eq_exp_logprob_normal E c hc v, h]; exact E.pos x

end categorical

/-! ## mode and samples lie in the support -/

theorem argmax_max {β : Type} (lt : β → β → Bool) (hasym : ∀ a b, lt a b = true → lt b a = false)
    (hnt : ∀ a b c, lt a b = false → lt b c = false → lt a c = false)
    (l : List β) (w : β) (hw : w ∈ l) :
    argmax lt l < l.length ∧ ∃ v, l[argmax lt l]? = some v ∧ lt v w = false := by
  cases l with
  | nil => simp at hw
  | cons y ys =>
      exact ⟨argmaxV_lt_length lt y ys, _, argmaxV_get lt y ys, argmaxV_max lt hasym hnt y ys w hw⟩

theorem addNoise_get (L : List (Option α)) (g : List α) (i : Nat) :
    (addNoise L g)[i]? = (L[i]?).map (fun l => l.map (· + g.getD i 0)) := by
  induction L generalizing g i with
  | nil => simp [addNoise]
  | cons l ls ih =>
      cases g with
      | nil =>
          cases i with
          | zero => cases l <;> simp [addNoise]
          | succ i =>
              have := ih [] i
              simp only [addNoise, List.getElem?_cons_succ, this]
              simp
      | cons g gs =>
          cases i with
          | zero => simp [addNoise]
          | succ i => simp [addNoise, ih gs i]

theorem addNoise_length (L : List (Option α)) (g : List α) : (addNoise L g).length = L.length := by
  induction L generalizing g with
  | nil => simp [addNoise]
  | cons l ls ih => cases g <;> simp [addNoise, ih]

theorem hasFinite_iff_get (L : List (Option α)) :
    HasFinite L ↔ ∃ (i : Nat) (x : α), L[i]? = some (some x) := by
  constructor
  · rintro ⟨x, hx⟩
    obtain ⟨i, hi⟩ := List.getElem?_of_mem hx
    exact ⟨i, x, hi⟩
  · rintro ⟨i, x, h⟩
    exact ⟨x, List.mem_of_getElem? h⟩

theorem hasFinite_addNoise (L : List (Option α)) (g : List α) (h : HasFinite L) :
    HasFinite (addNoise L g) := by
  rw [hasFinite_iff_get] at h ⊢
  obtain ⟨i, x, hx⟩ := h
  exact ⟨i, x + g.getD i 0, by rw [addNoise_get, hx]; rfl⟩

section support
variable {exp log : α → α} (E : ExpLog exp log)
include E

theorem hasFinite_getLogits (c : Cat α) (hc : Cat.Normal exp c) : HasFinite (c.getLogits log) := by
  cases c with
  | logits L => exact hc.1
  | probs q =>
      have : 0 < q.sum := by rw [hc.2]; exact zero_lt_one
      obtain ⟨x, hx, hx0⟩ := exists_pos_of_sum_pos q this
      exact ⟨log x, List.mem_map.mpr ⟨x, hx, by simp [logE, hx0]⟩⟩

omit E in
/-- **a sample lies in the support, whatever the noise**: it is an index `< n` whose
    log-probability is finite (probability non-zero) -/
theorem sample_in_support_of_finite (c : Cat α) (h : HasFinite (c.getLogits log)) (noise : List α) :
    c.sample log noise < c.n ∧ ∃ x, c.logProb log (c.sample log noise : Int) = some x := by
  have hN := hasFinite_addNoise _ noise h
  obtain ⟨h1, y, hy⟩ := argmax_elt_finite _ hN
  rw [addNoise_length, length_getLogits] at h1
  refine ⟨h1, ?_⟩
  rw [addNoise_get] at hy
  rw [logProb_nat]
  unfold Cat.sample
  cases hL : (c.getLogits log)[argmax elt (addNoise (c.getLogits log) noise)]? with
  | none => rw [hL] at hy; simp at hy
  | some l =>
      rw [hL] at hy
      cases l with
      | none => simp at hy
      | some x => exact ⟨x, by rw [List.getD_eq_getElem?_getD, hL]; rfl⟩

theorem sample_in_support (c : Cat α) (hc : Cat.Normal exp c) (noise : List α) :
    c.sample log noise < c.n ∧ 0 < c.prob exp (c.sample log noise : Int) := by
  obtain ⟨h1, x, hx⟩ := sample_in_support_of_finite c (hasFinite_getLogits E c hc) noise
  exact ⟨h1, prob_pos_of_logprob_some E c hc _ x hx⟩

omit E in
/-- `sample_and_log_prob` returns the log-probability of the very sample it returns -/
theorem cat_sample_and_logprob_consistent (c : Cat α) (noise : List α) :
    (c.sampleAndLogProb log noise).2 = c.logProb log ((c.sampleAndLogProb log noise).1 : Int) := rfl

/-- **the mode lies in the support and no point is more probable** -/
theorem mode_in_support (c : Cat α) (hc : Cat.Normal exp c) :
    c.mode < c.n ∧ 0 < c.prob exp (c.mode : Int) ∧ ∀ v : Int, c.prob exp v ≤ c.prob exp (c.mode : Int) := by
  cases c with
  | logits L =>
      obtain ⟨h1, x, hx⟩ := argmax_elt_finite L hc.1
      have hlp : (Cat.logits L).logProb log ((Cat.logits L).mode : Int) = some x := by
        rw [logProb_nat]; simp only [Cat.getLogits, Cat.mode]
        rw [List.getD_eq_getElem?_getD, hx]; rfl
      have hpm := prob_eq_exp_logprob_normal E (Cat.logits L) hc ((Cat.logits L).mode : Int)
      rw [hlp] at hpm
      refine ⟨h1, prob_pos_of_logprob_some E _ hc _ x hlp, ?_⟩
      intro v
      rw [hpm, prob_eq_exp_logprob_normal E _ hc v]
      cases hv : (Cat.logits L).logProb log v with
      | none => exact le_of_lt (E.pos x)
      | some y =>
          have hmem : some y ∈ L := by
            unfold Cat.logProb at hv
            split at hv
            · cases hv
            · simp only [Cat.getLogits] at hv
              rcases getD_mem_or L v.toNat none with h | h
              · rw [hv] at h; exact h
              · rw [hv] at h; cases h
          obtain ⟨w, hw, hlt⟩ := argmax_elt_max L (some y) hmem
          rw [hx] at hw
          cases hw
          simp only [elt, decide_eq_false_iff_not, not_lt] at hlt
          exact E.mono _ _ hlt
  | probs q =>
      have hpos : 0 < q.sum := by rw [hc.2]; exact zero_lt_one
      obtain ⟨x, hx, hx0⟩ := exists_pos_of_sum_pos q hpos
      obtain ⟨h1, w, hw, hlt⟩ := argmax_max flt flt_asymm flt_negtrans q x hx
      have hm : (Cat.probs q).prob exp ((Cat.probs q).mode : Int) = w := by
        rw [prob_nat E]; simp only [Cat.getProbs, Cat.mode]
        rw [List.getD_eq_getElem?_getD, hw]; rfl
      have hxw : x ≤ w := by simpa [flt] using hlt
      refine ⟨h1, by rw [hm]; linarith, ?_⟩
      intro v
      rw [hm]
      unfold Cat.prob
      split
      · linarith
      · simp only [Cat.getProbs]
        rcases getD_mem_or q v.toNat 0 with h | h
        · obtain ⟨_, w', hw', hlt'⟩ := argmax_max flt flt_asymm flt_negtrans q _ h
          rw [hw] at hw'; cases hw'
          simpa [flt] using hlt'
        · rw [h]; linarith

end support

/-! ## Bernoulli -/

/-- valid Bernoulli parameter: any (extended) logit, or a probability in `[0,1]` -/
def BernValid : Bern α → Prop
  | .ofLogit _ => True
  | .ofProb p => 0 ≤ p ∧ p ≤ 1

section bernoulli
variable {exp log : α → α} (E : ExpLog exp log)
include E

theorem sigmoid_eq (x : α) : sigmoid exp x = exp x / (1 + exp x) := by
  unfold sigmoid
  rw [E.neg]
  have := E.pos x
  have h1 : 1 + exp x ≠ 0 := by linarith
  have h2 : exp x ≠ 0 := ne_of_gt this
  field_simp
  ring

theorem sigmoid_pos (x : α) : 0 < sigmoid exp x := by
  rw [sigmoid_eq E]
  have := E.pos x
  exact div_pos this (by linarith)

theorem sigmoid_lt_one (x : α) : sigmoid exp x < 1 := by
  rw [sigmoid_eq E]
  have := E.pos x
  rw [div_lt_one (by linarith)]
  linarith

theorem sigmoid_neg (x : α) : sigmoid exp (-x) = 1 - sigmoid exp x := by
  rw [sigmoid_eq E, sigmoid_eq E, E.neg]
  have := E.pos x
  have h1 : 1 + exp x ≠ 0 := by linarith
  have h2 : exp x ≠ 0 := ne_of_gt this
  field_simp
  ring

theorem exp_neg_softplus (x : α) : exp (-(softplus exp log x)) = 1 - sigmoid exp x := by
  unfold softplus
  have := E.pos x
  rw [E.neg, E.exp_log _ (by linarith), sigmoid_eq E]
  have h1 : 1 + exp x ≠ 0 := by linarith
  field_simp
  ring

/-- **Bernoulli: `prob = exp(log_prob)`** for both outcomes -/
theorem bernoulli_prob_eq_exp_logprob (b : Bern α) (hb : BernValid b) (v : Bool) :
    b.prob exp v = eexp exp (b.logProb exp log v) := by
  cases b with
  | ofLogit l =>
      cases l with
      | none => cases v <;> simp [Bern.prob, Bern.logProb, Bern.p1, Bern.logP0, Bern.logP1, eexp, E.zero]
      | some x =>
          cases v
          · simp only [Bern.prob, Bern.logProb, Bern.p1, Bern.logP0, eexp, Bool.false_eq_true, if_false]
            rw [exp_neg_softplus E]
          · simp only [Bern.prob, Bern.logProb, Bern.p1, Bern.logP1, eexp, if_true]
            rw [exp_neg_softplus E, sigmoid_neg E]; ring
  | ofProb p =>
      obtain ⟨h0, h1⟩ := hb
      cases v
      · simp only [Bern.prob, Bern.logProb, Bern.p1, Bern.logP0, Bool.false_eq_true, if_false]
        rw [eexp_logE E _ (by linarith)]
      · simp only [Bern.prob, Bern.logProb, Bern.p1, Bern.logP1, if_true]
        rw [eexp_logE E _ h0]

omit E in
/-- **Bernoulli: the two probabilities sum to one** -/
theorem bernoulli_mass_one (b : Bern α) : b.prob exp false + b.prob exp true = 1 := by
  simp [Bern.prob]

/-- **Bernoulli: entropy `= −Σ_v p(v) log p(v)`** (with `0·log 0 = 0`) -/
theorem bernoulli_entropy_eq_neg_expect_log (b : Bern α) :
    b.entropy exp log = -(mnn (b.logProb exp log false) (b.prob exp false)
                          + mnn (b.logProb exp log true) (b.prob exp true)) := by
  cases b with
  | ofLogit l =>
      cases l with
      | none => simp [Bern.entropy, Bern.prob, Bern.logProb, Bern.p1, Bern.q0, Bern.q1]
      | some x =>
          simp only [Bern.entropy, Bern.prob, Bern.logProb, Bern.p1, Bern.q0, Bern.q1,
            Bool.false_eq_true, if_false, if_true]
          rw [sigmoid_neg E]
  | ofProb p =>
      simp only [Bern.entropy, Bern.prob, Bern.logProb, Bern.p1, Bern.q0, Bern.q1,
        Bool.false_eq_true, if_false, if_true]
      rw [sub_sub_cancel]

omit E in
/-- the mode is a most probable outcome -/
theorem bernoulli_mode_most_probable (b : Bern α) :
    b.prob exp (!b.mode exp) ≤ b.prob exp (b.mode exp) := by
  unfold Bern.mode Bern.prob
  by_cases h : (half : α) < b.p1 exp
  · have hh : (half : α) = 1 / 2 := by unfold half; norm_num
    rw [hh] at h
    simp only [hh, h, decide_true, Bool.not_true, Bool.false_eq_true, if_false, if_true]
    linarith
  · have hh : (half : α) = 1 / 2 := by unfold half; norm_num
    rw [hh] at h
    simp only [hh, h, decide_false, Bool.not_false, Bool.false_eq_true, if_false, if_true]
    linarith [not_lt.mp h]

/-- **a Bernoulli sample has non-zero probability** for every uniform draw `u ∈ [0,1)` -/
theorem bernoulli_sample_in_support (b : Bern α) (u : α) (h0 : 0 ≤ u) (h1 : u < 1) :
    0 < b.prob exp (b.sample exp u) := by
  unfold Bern.sample Bern.prob
  by_cases h : u < b.p1 exp
  · simp only [h, decide_true, if_true]; linarith
  · simp only [h, decide_false, Bool.false_eq_true, if_false]; linarith [not_lt.mp h]

/-- the mean is the probability of `1` -/
theorem bernoulli_mean (b : Bern α) : b.mean exp = b.prob exp true := by
  simp [Bern.mean, Bern.prob]

end bernoulli

/-! ## multi-categorical: a product of independent categoricals -/

/-- **both constructors give the same law, for every split**: splitting the concatenation of
    the pieces by their lengths gives the pieces back -/
theorem splitBy_flatten {β : Type} (pieces : List (List β)) :
    splitBy (pieces.map List.length) pieces.flatten = pieces := by
  induction pieces with
  | nil => rfl
  | cons p ps ih => simp [splitBy, ih]

/-- conversely every flat parameter of length `Σ dims` is the concatenation of its pieces, whose
    lengths are `dims` -/
theorem splitBy_spec {β : Type} (dims : List Nat) (flat : List β) (h : flat.length = dims.sum) :
    (splitBy dims flat).flatten = flat ∧ (splitBy dims flat).map List.length = dims := by
  induction dims generalizing flat with
  | nil =>
      simp only [List.sum_nil, List.length_eq_zero_iff] at h
      subst h; simp [splitBy]
  | cons d ds ih =>
      simp only [List.sum_cons] at h
      have := ih (flat.drop d) (by simp [h])
      simp only [splitBy, List.flatten_cons, List.map_cons, this.1, this.2, List.take_append_drop,
        List.length_take, true_and]
      congr 1
      omega

section multicat
variable {exp log : α → α}

theorem flat_eq_sequence (pieces : List (List (Option α))) :
    MultiCat.ofLogitsFlat exp log (pieces.map List.length) pieces.flatten
      = MultiCat.ofLogitsSeq exp log pieces := by
  simp [MultiCat.ofLogitsFlat, splitBy_flatten]

theorem flat_eq_sequence_probs (pieces : List (List α)) :
    MultiCat.ofProbsFlat (pieces.map List.length) pieces.flatten = MultiCat.ofProbsSeq pieces := by
  simp [MultiCat.ofProbsFlat, splitBy_flatten]

/-- the components of the flat-form law are the categoricals of the pieces, and its
    `action_dims` are the given ones -/
theorem ofLogitsFlat_dims (dims : List Nat) (flat : List (Option α)) (h : flat.length = dims.sum) :
    (MultiCat.ofLogitsFlat exp log dims flat).dims = dims := by
  have := (splitBy_spec dims flat h).2
  simp only [MultiCat.ofLogitsFlat, MultiCat.ofLogitsSeq, MultiCat.dims, List.map_map]
  conv_rhs => rw [← this]
  apply List.map_congr_left
  intro x _
  simp [Cat.ofLogits, Cat.n, logSoftmax]

/-- **log-probability of a product law = sum over the components** -/
theorem multicat_logprob_sum (mc : MultiCat α) (vs : List Int) (h : vs.length = mc.length) :
    mc.logProb log vs = esum (List.zipWith (fun c v => Cat.logProb log c v) mc vs) := by
  unfold MultiCat.logProb
  congr 1
  induction mc generalizing vs with
  | nil => cases vs <;> simp [MultiCat.logProbs]
  | cons c cs ih =>
      cases vs with
      | nil => simp at h
      | cons v vs => simp [MultiCat.logProbs, ih vs (by simpa using h)]

/-- **entropy of a product law = sum over the components** -/
theorem multicat_entropy_sum (mc : MultiCat α) :
    mc.entropy exp log = (mc.map (fun c => c.entropy exp log)).sum := rfl

theorem multicat_logprob_cons (c : Cat α) (cs : MultiCat α) (v : Int) (vs : List Int) :
    MultiCat.logProb log (c :: cs) (v :: vs) = eadd (c.logProb log v) (MultiCat.logProb log cs vs) := rfl

variable (E : ExpLog exp log)
include E

theorem eexp_eadd (a b : Option α) : eexp exp (eadd a b) = eexp exp a * eexp exp b := by
  cases a <;> cases b <;> simp [eadd, eexp, E.add]

/-- the probability of a value vector is the product of the component probabilities -/
theorem multicat_prob_cons (c : Cat α) (hc : Cat.Normal exp c) (cs : MultiCat α) (v : Int)
    (vs : List Int) :
    MultiCat.prob exp log (c :: cs) (v :: vs) = c.prob exp v * MultiCat.prob exp log cs vs := by
  unfold MultiCat.prob
  rw [multicat_logprob_cons, eexp_eadd E, ← prob_eq_exp_logprob_normal E c hc v]

theorem multicat_prob_prod (mc : MultiCat α) (hmc : ∀ c ∈ mc, Cat.Normal exp c) (vs : List Int)
    (h : vs.length = mc.length) :
    mc.prob exp log vs = (List.zipWith (fun c v => Cat.prob exp c v) mc vs).prod := by
  induction mc generalizing vs with
  | nil => cases vs <;> simp [MultiCat.prob, MultiCat.logProb, MultiCat.logProbs, esum, eexp, E.zero]
  | cons c cs ih =>
      cases vs with
      | nil => simp at h
      | cons v vs =>
          rw [multicat_prob_cons E c (hmc c (by simp)) cs v vs,
            ih (fun c hc => hmc c (List.mem_cons_of_mem _ hc)) vs (by simpa using h)]
          simp

/-- every value vector of a product space with sizes `dims` -/
def tuples : List Nat → List (List Nat)
  | [] => [[]]
  | d :: ds => (List.range d).flatMap (fun v => (tuples ds).map (v :: ·))

omit E in
theorem sum_flatMap {β γ : Type} (l : List β) (f : β → List γ) (g : γ → α) :
    ((l.flatMap f).map g).sum = (l.map (fun x => ((f x).map g).sum)).sum := by
  induction l with
  | nil => simp
  | cons x xs ih => simp [List.flatMap_cons, ih]

omit E in
theorem sum_map_mul_left' {β : Type} (l : List β) (r : α) (f : β → α) :
    (l.map (fun b => r * f b)).sum = r * (l.map f).sum := by
  induction l with
  | nil => simp
  | cons x xs ih => simp [ih, mul_add]

/-- **total mass of a product law**: the probabilities of all value vectors sum to one -/
theorem multicat_mass_one (mc : MultiCat α) (hmc : ∀ c ∈ mc, Cat.Normal exp c) :
    ((tuples mc.dims).map (fun t => mc.prob exp log (t.map Int.ofNat))).sum = 1 := by
  induction mc with
  | nil => simp [MultiCat.dims, tuples, MultiCat.prob, MultiCat.logProb, MultiCat.logProbs, esum, eexp, E.zero]
  | cons c cs ih =>
      have hc := hmc c (by simp)
      have ih' := ih (fun c hc => hmc c (List.mem_cons_of_mem _ hc))
      simp only [MultiCat.dims, List.map_cons, tuples] at ih' ⊢
      rw [sum_flatMap]
      have : ∀ v : Nat,
          (((tuples (List.map Cat.n cs)).map (v :: ·)).map
            (fun t => MultiCat.prob exp log (c :: cs) (t.map Int.ofNat))).sum
          = c.prob exp (v : Int) * 1 := by
        intro v
        rw [List.map_map, ← ih', ← sum_map_mul_left']
        congr 1
        apply List.map_congr_left
        intro t _
        simp only [Function.comp, List.map_cons]
        exact multicat_prob_cons E c hc cs _ _
      simp only [this, mul_one]
      exact mass_one_normal E c hc

end multicat

/-! ## Φ, the executable predicate the driver evaluates on implementation outputs, is true of
    the model (with exact equality as the comparison) -/

theorem allZip_map {β γ δ : Type} (f : γ → δ → Bool) (g : β → γ) (h : β → δ) (l : List β) :
    allZip f (l.map g) (l.map h) = l.all (fun x => f (g x) (h x)) := by
  induction l with
  | nil => rfl
  | cons x xs ih => simp [allZip, ih]

section phi
variable {exp log : α → α} (E : ExpLog exp log)
include E

/-- every clause of `phiTable` holds for the tables of a categorical law in normal form -/
theorem phiTable_model (c : Cat α) (hc : Cat.Normal exp c) (outs : List Int)
    (ho : ∀ v ∈ outs, v < 0 ∨ (c.n : Int) ≤ v) :
    ∀ cl ∈ phiTable exp (fun a b => decide (a = b))
        ((List.range c.n).map (fun v : Nat => c.prob exp (v : Int)))
        ((List.range c.n).map (fun v : Nat => c.logProb log (v : Int)))
        (outs.map (c.prob exp)) (outs.map (c.logProb log)) (c.entropy exp log), cl.2 = true := by
  intro cl hcl
  simp only [phiTable, List.mem_cons, List.mem_nil_iff, or_false] at hcl
  rcases hcl with rfl | rfl | rfl | rfl
  · simp only [allZip_map, List.all_eq_true, decide_eq_true_eq]
    intro v _
    exact prob_eq_exp_logprob_normal E c hc v
  · simp only [allZip_map, List.all_eq_true, Bool.and_eq_true, decide_eq_true_eq]
    intro v hv
    obtain ⟨h1, h2⟩ := prob_outside (exp := exp) (log := log) c v (ho v hv)
    exact ⟨h1, by rw [h2]; rfl⟩
  · simp only [decide_eq_true_eq]
    exact mass_one_normal E c hc
  · simp only [decide_eq_true_eq]
    rw [entropy_eq_neg_expect_log_normal E c hc]
    congr 2
    simp [List.zipWith_map_left, List.zipWith_map_right, List.zipWith_self]

/-- `phiMode` holds for the model's mode -/
theorem phiMode_model (c : Cat α) (hc : Cat.Normal exp c) :
    phiMode (fun a b => decide (a ≤ b))
      ((List.range c.n).map (fun v : Nat => c.prob exp (v : Int))) (c.mode : Int) = true := by
  obtain ⟨h1, h2, h3⟩ := mode_in_support E c hc
  have hget : ((List.range c.n).map (fun v : Nat => c.prob exp (v : Int))).getD c.mode 0
      = c.prob exp (c.mode : Int) := by
    rw [List.getD_eq_getElem?_getD, List.getElem?_map, List.getElem?_range h1]; rfl
  simp only [phiMode, Int.toNat_natCast, hget, Bool.and_eq_true, decide_eq_true_eq, List.length_map,
    List.length_range, List.all_eq_true, List.mem_map, List.mem_range, flt]
  refine ⟨⟨⟨Int.natCast_nonneg _, h1⟩, h2⟩, ?_⟩
  rintro p ⟨v, _, rfl⟩
  exact h3 v

/-- `inSupport` holds for every sample of the model, whatever the noise -/
theorem inSupport_sample_model (c : Cat α) (hc : Cat.Normal exp c) (noise : List α) :
    inSupport ((List.range c.n).map (fun v : Nat => c.logProb log (v : Int)))
      (c.sample log noise : Int) = true := by
  obtain ⟨h1, x, hx⟩ := sample_in_support_of_finite c (hasFinite_getLogits E c hc) noise
  have hget : ((List.range c.n).map (fun v : Nat => c.logProb log (v : Int))).getD (c.sample log noise) none
      = c.logProb log (c.sample log noise : Int) := by
    rw [List.getD_eq_getElem?_getD, List.getElem?_map, List.getElem?_range h1]; rfl
  simp only [inSupport, Int.toNat_natCast, hget, hx, Bool.and_eq_true, decide_eq_true_eq,
    List.length_map, List.length_range, Option.isSome_some, and_true]
  exact ⟨Int.natCast_nonneg _, h1⟩

end phi

/-! ## non-vacuity: concrete laws over ℝ -/

example : HasFinite [some (0 : ℝ), none, some 2] := ⟨0, by simp⟩

example : ((List.range 3).map (fun v : Nat =>
    (Cat.ofLogits Real.exp Real.log [some (0 : ℝ), none, some 2]).prob Real.exp (v : Int))).sum = 1 :=
  categorical_mass_one expLog_real [some 0, none, some 2] ⟨0, by simp⟩

example : ValidProbs [(1 : ℝ), 0, 3] := ⟨by simp, by norm_num⟩

example : (Cat.ofProbs [(1 : ℝ), 0, 3]).prob Real.exp (2 : Int) = 3 / 4 := by
  simp [Cat.ofProbs, Cat.prob, Cat.n, Cat.getProbs, normalizeProbs]; norm_num

example : splitBy [2, 1] [(1 : ℝ), 2, 3] = [[1, 2], [3]] := by simp [splitBy]

example : tuples [2, 2] = [[0, 0], [0, 1], [1, 0], [1, 1]] := by decide

end Lerax.C15
