/-
  C11 — Training is reproducible, pure, and unaffected by observers.

  The part of this property that a theorem can carry is non-interference: whatever the
  callbacks compute, the core component (hence the returned policy) is the same.  Bit-identical
  repetition and key sensitivity are facts about XLA and `jax.random`; they are decided by
  differential runs of the real code (see harness/c11.py), not by a theorem.
-/
import LeraxModel.Learn

namespace Lerax.C11
open Lerax.Env Lerax.Learn

variable {Core Cb Cb' K : Type} [Keys K]

theorem step_core (coreStep : Core → K → Core) (cb : Callbacks Core Cb K) (s : Core × Cb) (key : K) :
    (step coreStep cb s key).1 = coreStep s.1 key := rfl

theorem rollout_core (coreStep : Core → K → Core) (cb : Callbacks Core Cb K) (cb' : Callbacks Core Cb' K)
    (keys : List K) (s : Core × Cb) (s' : Core × Cb') (h : s.1 = s'.1) :
    (keys.foldl (step coreStep cb) s).1 = (keys.foldl (step coreStep cb') s').1 := by
  induction keys generalizing s s' with
  | nil => exact h
  | cons k ks ih => exact ih _ _ (by simp [step, h])

theorem iteration_core (coreStep : Core → K → Core) (train : Core → K → Core) (n : Nat)
    (cb : Callbacks Core Cb K) (cb' : Callbacks Core Cb' K) (s : Core × Cb) (s' : Core × Cb')
    (h : s.1 = s'.1) (key : K) :
    (iteration coreStep train n cb s key).1 = (iteration coreStep train n cb' s' key).1 := by
  simp only [iteration]
  rw [rollout_core coreStep cb cb' _ s s' h]

/-- **Observer non-interference.**  For any two sets of observers (any callback state types, any
    callback functions, e.g. none vs. logging + progress bar) the core component — environment
    states, policy parameters, optimiser state, buffers, counters — after `learn` is the same,
    for every number of iterations and steps. -/
theorem observer_noninterference (reset : K → Core) (coreStep : Core → K → Core)
    (train : Core → K → Core) (numSteps numIters : Nat)
    (cb : Callbacks Core Cb K) (cb' : Callbacks Core Cb' K) (key : K) :
    (learn reset coreStep train numSteps numIters cb key).1 =
      (learn reset coreStep train numSteps numIters cb' key).1 := by
  simp only [learn]
  generalize (List.range numIters).map (fun i => sub (sub key 2) i) = iterKeys
  suffices ∀ (s : Core × Cb) (s' : Core × Cb'), s.1 = s'.1 →
      (iterKeys.foldl (iteration coreStep train numSteps cb) s).1 =
      (iterKeys.foldl (iteration coreStep train numSteps cb') s').1 from this _ _ rfl
  induction iterKeys with
  | nil => intro s s' h; exact h
  | cons k ks ih =>
      intro s s' h
      exact ih _ _ (iteration_core coreStep train numSteps cb cb' s s' h k)

/-- **Training is a function of (environment, initial policy, hyper-parameters, key)**: in the
    pure model equal inputs give equal outputs, and the input policy is an argument, not a
    mutable cell (stated for completeness). -/
theorem learn_is_function (reset reset' : K → Core) (coreStep : Core → K → Core)
    (train : Core → K → Core) (n m : Nat) (cb : Callbacks Core Cb K) (key : K) (h : reset = reset') :
    learn reset coreStep train n m cb key = learn reset' coreStep train n m cb key := by rw [h]

/-! non-vacuity: an observer that counts steps does not move a counter core -/
instance : Keys Nat := ⟨fun k i => k + i⟩

def silent : Callbacks Nat Unit Nat :=
  { init := fun _ _ => (), onStep := fun _ _ _ => (), onIteration := fun _ _ _ => (),
    onTrainingStart := fun _ _ _ => (), onTrainingEnd := fun _ _ _ => () }
def counting : Callbacks Nat Nat Nat :=
  { init := fun _ _ => 0, onStep := fun c n _ => n + c, onIteration := fun _ n _ => n + 1,
    onTrainingStart := fun _ n _ => n, onTrainingEnd := fun _ n _ => n }

example : (learn (fun k => k) (fun c k => c + k) (fun c _ => 2 * c) 3 2 counting 5).1 =
    (learn (fun k => k) (fun c k => c + k) (fun c _ => 2 * c) 3 2 silent 5).1 ∧
    (learn (fun k => k) (fun c k => c + k) (fun c _ => 2 * c) 3 2 counting 5).2 ≠ 0 := by decide

end Lerax.C11
