/-
  C09 — Each epoch partitions the rollout into disjoint, intact minibatches.

  Theorems about `LeraxModel/Batching.lean` for every number of samples `N`, every batch size
  `B > 0`, every permutation of `range N` (the oracle standing for `jr.permutation`), every
  number of environments / steps and every number of epochs.
-/
import LeraxModel.Batching
import Mathlib.Data.List.Perm.Basic
import Mathlib.Data.List.Nodup
import Mathlib.Data.List.Count

namespace Lerax.C09
open Lerax.Batching

/-! ### the index rows concatenate to the trimmed permutation -/

theorem chunks_flatten (l : List Nat) (B k : Nat) (hk : k * B ≤ l.length) :
    ((List.range k).map (fun i => (l.drop (i * B)).take B)).flatten = l.take (k * B) := by
  induction k with
  | zero => simp
  | succ k ih =>
      have hk' : k * B ≤ l.length := by
        have : k * B ≤ (k + 1) * B := Nat.mul_le_mul_right B (Nat.le_succ k)
        omega
      rw [List.range_succ, List.map_append, List.flatten_append, ih hk']
      simp only [List.map_cons, List.map_nil, List.flatten_cons, List.flatten_nil, List.append_nil]
      rw [Nat.succ_mul, List.take_add]

theorem trim_eq (N B : Nat) : N - N % B = (N / B) * B := by
  have := Nat.div_add_mod N B
  rw [Nat.mul_comm] at this
  omega

theorem batchIndices_flatten (perm : List Nat) (B : Nat) (hB : 0 < B) :
    (batchIndices perm B).flatten = perm.take ((perm.length / B) * B) := by
  unfold batchIndices
  simp only []
  rw [trim_eq, Nat.mul_div_cancel _ hB]
  exact chunks_flatten perm B (perm.length / B) (Nat.div_mul_le_self _ _)

/-- **Minibatch partition.**  For every `N`, every `B > 0` and every permutation `perm` of
    `range N`: there are `N / B` index rows, each of length `B`; together they contain no index
    twice, only indices `< N`, exactly `(N / B) · B` of them; fewer than `B` samples are dropped. -/
theorem batch_partition (N B : Nat) (hB : 0 < B) (perm : List Nat) (hperm : perm.Perm (List.range N)) :
    (batchIndices perm B).length = N / B ∧
    (∀ r ∈ batchIndices perm B, r.length = B) ∧
    (batchIndices perm B).flatten.Nodup ∧
    (∀ i ∈ (batchIndices perm B).flatten, i < N) ∧
    (batchIndices perm B).flatten.length = (N / B) * B ∧
    N - (N / B) * B < B := by
  have hlen : perm.length = N := by simpa using hperm.length_eq
  have hnodup : perm.Nodup := hperm.nodup_iff.mpr List.nodup_range
  have hflat := batchIndices_flatten perm B hB
  have hle : (N / B) * B ≤ N := Nat.div_mul_le_self N B
  refine ⟨?_, ?_, ?_, ?_, ?_, ?_⟩
  · simp [batchIndices, hlen, trim_eq, Nat.mul_div_cancel _ hB]
  · intro r hr
    simp only [batchIndices, List.mem_map, List.mem_range, hlen, trim_eq,
      Nat.mul_div_cancel _ hB] at hr
    obtain ⟨i, hi, rfl⟩ := hr
    rw [List.length_take, List.length_drop, hlen]
    have : (i + 1) * B ≤ (N / B) * B := Nat.mul_le_mul_right B hi
    rw [Nat.succ_mul] at this
    omega
  · rw [hflat]; exact hnodup.sublist (List.take_sublist _ _)
  · intro i hi
    rw [hflat] at hi
    have := hperm.subset (List.mem_of_mem_take hi)
    simpa using this
  · rw [hflat, List.length_take, hlen]; omega
  · have := Nat.mod_lt N hB
    have h2 := Nat.div_add_mod N B
    rw [Nat.mul_comm] at h2
    omega

/-- within one epoch every collected sample is used in at most one minibatch -/
theorem epoch_visits_each_at_most_once (N B : Nat) (hB : 0 < B) (perm : List Nat)
    (hperm : perm.Perm (List.range N)) (i : Nat) :
    (batchIndices perm B).flatten.count i ≤ 1 :=
  List.nodup_iff_count_le_one.mp (batch_partition N B hB perm hperm).2.2.1 i

/-! ### gathered rows are whole collected samples -/

/-- **Each minibatch row is one collected sample with all of its fields**: gathering with
    in-range indices returns exactly the rows stored at those indices. -/
theorem gather_rows_intact {ρ : Type} (rows : List ρ) (idx : List Nat) (h : ∀ i ∈ idx, i < rows.length) :
    ∀ x ∈ gather rows idx, ∃ r ∈ rows, x = some r := by
  intro x hx
  simp only [gather, List.mem_map] at hx
  obtain ⟨i, hi, rfl⟩ := hx
  exact ⟨rows[i]'(h i hi), List.getElem_mem _, by simp [List.getElem?_eq_getElem (h i hi)]⟩

/-! ### flattening the (environment, step) axes neither loses nor duplicates a sample -/

/-- **Flattening is a bijection**: for `E` environments of `T` steps each, the flat buffer has
    `E · T` rows and row `e · T + t` is sample `(e, t)`. -/
theorem flatten_bijective {ρ : Type} (T : Nat) (xs : List (List ρ)) (hT : ∀ row ∈ xs, row.length = T) :
    (flatten2 xs).length = xs.length * T ∧
    ∀ e t, t < T → (flatten2 xs)[e * T + t]? = (xs[e]?).bind (fun row => row[t]?) := by
  constructor
  · unfold flatten2
    induction xs with
    | nil => simp
    | cons row rest ih =>
        rw [List.flatten_cons, List.length_append, ih (fun r hr => hT r (by simp [hr])),
          hT row (by simp), List.length_cons, Nat.succ_mul]
        omega
  · intro e t ht
    unfold flatten2
    induction xs generalizing e with
    | nil => simp
    | cons row rest ih =>
        have hrow : row.length = T := hT row (by simp)
        cases e with
        | zero => simp [List.getElem?_append_left (by omega : t < row.length)]
        | succ e =>
            simp only [List.flatten_cons, List.getElem?_cons_succ]
            rw [List.getElem?_append_right (by rw [hrow, Nat.succ_mul]; omega)]
            have : (e + 1) * T + t - row.length = e * T + t := by rw [hrow, Nat.succ_mul]; omega
            rw [this]
            exact ih (fun r hr => hT r (by simp [hr])) e

/-! ### several epochs -/

theorem count_flatten_le {l : List (List Nat)} (i k : Nat) (h : ∀ r ∈ l, r.count i ≤ k) :
    l.flatten.count i ≤ l.length * k := by
  induction l with
  | nil => simp
  | cons r rs ih =>
      rw [List.flatten_cons, List.count_append, List.length_cons, Nat.succ_mul]
      have h1 := h r (by simp)
      have h2 := ih (fun r' hr' => h r' (by simp [hr']))
      omega

/-- **Over `num_epochs` epochs every sample is visited at most `num_epochs` times and exactly
    `num_epochs · (N / B) · B` visits happen** (each epoch visits the data once). -/
theorem train_visit_counts (N B : Nat) (hB : 0 < B) (perms : List (List Nat))
    (hperms : ∀ p ∈ perms, p.Perm (List.range N)) :
    (∀ i, (trainVisits perms B).count i ≤ perms.length) ∧
    (trainVisits perms B).length = perms.length * ((N / B) * B) := by
  constructor
  · intro i
    unfold trainVisits
    have := count_flatten_le (l := perms.map (fun p => (batchIndices p B).flatten)) i 1 (by
      intro r hr
      simp only [List.mem_map] at hr
      obtain ⟨p, hp, rfl⟩ := hr
      exact epoch_visits_each_at_most_once N B hB p (hperms p hp) i)
    simpa using this
  · unfold trainVisits
    induction perms with
    | nil => simp
    | cons p ps ih =>
        rw [List.map_cons, List.flatten_cons, List.length_append,
          ih (fun q hq => hperms q (by simp [hq])),
          (batch_partition N B hB p (hperms p (by simp))).2.2.2.2.1, List.length_cons, Nat.succ_mul]
        omega

/-! ### resolve_axes -/

/-- `resolve_axes` accepts exactly the axis lists whose normalised entries are distinct and in
    range, and returns the normalised axes. -/
theorem resolve_axes_spec (ndim : Nat) (l : List Int) :
    let norm : List Int := l.map (fun a => if a < 0 then a + (ndim : Int) else a)
    (resolveAxes ndim (some l) = some (norm.map Int.toNat) ↔
      (norm.eraseDups.length = norm.length ∧ ∀ a ∈ norm, 0 ≤ a ∧ a < ndim)) ∧
    (resolveAxes ndim (some l) = none ∨ resolveAxes ndim (some l) = some (norm.map Int.toNat)) := by
  simp only [resolveAxes]
  constructor
  · constructor
    · intro h
      split at h
      · simp at h
      · rename_i hc
        simp only [bne_iff_ne, ne_eq, Bool.or_eq_true, decide_eq_true_eq, List.any_eq_true,
          not_or, not_exists, not_and, Decidable.not_not] at hc
        refine ⟨hc.1, fun a ha => ?_⟩
        have := hc.2 a ha
        omega
    · intro ⟨h1, h2⟩
      rw [if_neg]
      simp only [bne_iff_ne, ne_eq, Bool.or_eq_true, decide_eq_true_eq, List.any_eq_true, not_or,
        not_exists, not_and, Decidable.not_not]
      refine ⟨h1, fun a ha => ?_⟩
      have := h2 a ha
      omega
  · split
    · exact Or.inl rfl
    · exact Or.inr rfl

/-! ### the executable checker is sound and the model passes it -/

theorem phiPartition_sound (N B : Nat) (rows : List (List Nat)) (h : phiPartition N B rows = true) :
    rows.length = N / B ∧ (∀ r ∈ rows, r.length = B) ∧ (∀ i ∈ rows.flatten, i < N) ∧
    rows.flatten.length = (N / B) * B ∧ N - (N / B) * B < B := by
  simp only [phiPartition, Bool.and_eq_true, beq_iff_eq, List.all_eq_true, decide_eq_true_eq] at h
  obtain ⟨⟨⟨⟨⟨h1, h2⟩, h3⟩, _⟩, h5⟩, h6⟩ := h
  exact ⟨h1, h2, h3, h5, h6⟩

/-! ### non-vacuity -/

example : batchIndices [3, 0, 4, 1, 2] 2 = [[3, 0], [4, 1]] := by decide
example : phiPartition 5 2 (batchIndices [3, 0, 4, 1, 2] 2) = true := by decide

end Lerax.C09
