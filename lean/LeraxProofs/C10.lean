/-
  C10 — Training schedule: step budget, iteration counter, target-network updates.
-/
import LeraxModel.Schedule
import Mathlib.Algebra.Order.Field.Basic
import Mathlib.Algebra.BigOperators.Group.Finset.Basic
import Mathlib.Algebra.BigOperators.Ring.Finset
import Mathlib.Tactic.Ring

namespace Lerax.C10
open Lerax.Schedule

/-! ### step budget and iteration counter -/

/-- **Training for `total` timesteps performs exactly `⌊total / (E·T)⌋` iterations**: that many
    iterations fit in the budget and one more would not. -/
theorem iterations_floor (total E T : Nat) (h : 0 < E * T) :
    numIterations total E T * (E * T) ≤ total ∧ total < (numIterations total E T + 1) * (E * T) := by
  unfold numIterations
  constructor
  · exact Nat.div_mul_le_self total (E * T)
  · have := Nat.lt_succ_iff.mpr (Nat.le_refl (total / (E * T)))
    exact (Nat.div_lt_iff_lt_mul h).mp this

/-- each iteration advances the counter by one: after `n` iterations the counter is `n` -/
theorem dqn_counter {Θ : Type} (I : Nat) (train : DqnState Θ → Θ) (θ0 : Θ) (n : Nat) :
    (dqnRun I train θ0 n).iter = n := by
  induction n with
  | zero => rfl
  | succ n ih => simp [dqnRun, dqnIter, ih]

/-- `k` iterations of `E·T` environment steps each consume `k·E·T` steps, within the budget -/
theorem steps_consumed (total E T : Nat) :
    numIterations total E T * (E * T) ≤ total := Nat.div_mul_le_self total (E * T)

/-! ### DQN: the target equals the online network as of the most recent multiple of the interval -/

/-- **After `n` iterations the target network is the online network as it was after iteration
    `I·⌊n/I⌋`** (the most recent iteration whose count is a multiple of the update interval; the
    initial policy for `n < I`), for every interval `I ≥ 1` and whatever training does. -/
theorem dqn_target_is_last_multiple {Θ : Type} (I : Nat) (_hI : 1 ≤ I) (train : DqnState Θ → Θ)
    (θ0 : Θ) (n : Nat) :
    (dqnRun I train θ0 n).target = (dqnRun I train θ0 (I * (n / I))).online := by
  induction n with
  | zero => simp [dqnRun, dqnInit]
  | succ n ih =>
      have hc := dqn_counter I train θ0 n
      by_cases hm : (n + 1) % I = 0
      · have hmul : I * ((n + 1) / I) = n + 1 := Nat.mul_div_cancel' (Nat.dvd_of_mod_eq_zero hm)
        rw [hmul]
        simp [dqnRun, dqnIter, hc, hm]
      · have hdiv : (n + 1) / I = n / I := by
          rw [Nat.succ_div]
          simp [Nat.dvd_iff_mod_eq_zero, hm]
        rw [hdiv, ← ih]
        simp [dqnRun, dqnIter, hc, hm]

/-- … and it is unchanged between multiples. -/
theorem dqn_target_unchanged_between {Θ : Type} (I : Nat) (train : DqnState Θ → Θ) (θ0 : Θ) (n : Nat)
    (hm : (n + 1) % I ≠ 0) :
    (dqnRun I train θ0 (n + 1)).target = (dqnRun I train θ0 n).target := by
  simp [dqnRun, dqnIter, dqn_counter, hm]

/-! ### SAC: Polyak averaging exactly once per iteration; actor / temperature gating -/

section sac
variable {Θ α : Type} [Field α]

theorem sac_counter (tau : α) (pf : Nat) (au : Bool) (cs : SacState Θ α → α)
    (as_ al : SacState Θ α → Θ) (a l : Θ) (c0 : α) (n : Nat) :
    (sacRun tau pf au cs as_ al a l c0 n).iter = n := by
  induction n with
  | zero => rfl
  | succ n ih => simp [sacRun, sacIter, ih]

/-- **`θ' ← τ·θ + (1−τ)·θ'` exactly once per iteration**, with the critic as updated in that
    iteration. -/
theorem sac_polyak_once (tau : α) (pf : Nat) (au : Bool) (cs : SacState Θ α → α)
    (as_ al : SacState Θ α → Θ) (a l : Θ) (c0 : α) (n : Nat) :
    (sacRun tau pf au cs as_ al a l c0 (n + 1)).target =
      tau * (sacRun tau pf au cs as_ al a l c0 (n + 1)).critic +
        (1 - tau) * (sacRun tau pf au cs as_ al a l c0 n).target := by
  simp [sacRun, sacIter]

/-- closed form: `target_n = (1−τ)^n·θ_0 + Σ_{k=1}^{n} τ·(1−τ)^{n−k}·θ_k` -/
theorem sac_polyak_closed_form (tau : α) (pf : Nat) (au : Bool) (cs : SacState Θ α → α)
    (as_ al : SacState Θ α → Θ) (a l : Θ) (c0 : α) (n : Nat) :
    (sacRun tau pf au cs as_ al a l c0 n).target =
      (1 - tau) ^ n * c0 +
        ∑ k ∈ Finset.range n, tau * (1 - tau) ^ (n - 1 - k) *
          (sacRun tau pf au cs as_ al a l c0 (k + 1)).critic := by
  induction n with
  | zero => simp [sacRun, sacInit]
  | succ n ih =>
      rw [sac_polyak_once, ih, Finset.sum_range_succ, mul_add, Finset.mul_sum]
      have : ∀ k ∈ Finset.range n,
          (1 - tau) * (tau * (1 - tau) ^ (n - 1 - k) * (sacRun tau pf au cs as_ al a l c0 (k + 1)).critic)
          = tau * (1 - tau) ^ (n + 1 - 1 - k) * (sacRun tau pf au cs as_ al a l c0 (k + 1)).critic := by
        intro k hk
        have hk' : k < n := Finset.mem_range.mp hk
        have : n + 1 - 1 - k = (n - 1 - k) + 1 := by omega
        rw [this, pow_succ]; ring
      rw [Finset.sum_congr rfl this]
      simp only [Nat.add_sub_cancel, Nat.sub_self, pow_zero, mul_one]
      ring

/-- **The actor changes only on every `policy_frequency`-th iteration** … -/
theorem sac_actor_gating (tau : α) (pf : Nat) (au : Bool) (cs : SacState Θ α → α)
    (as_ al : SacState Θ α → Θ) (a l : Θ) (c0 : α) (n : Nat) (h : n % pf ≠ 0) :
    (sacRun tau pf au cs as_ al a l c0 (n + 1)).actor = (sacRun tau pf au cs as_ al a l c0 n).actor := by
  simp [sacRun, sacIter, sac_counter, h]

/-- … **and the temperature only then and only when autotuning is on.** -/
theorem sac_alpha_gating (tau : α) (pf : Nat) (au : Bool) (cs : SacState Θ α → α)
    (as_ al : SacState Θ α → Θ) (a l : Θ) (c0 : α) (n : Nat) (h : n % pf ≠ 0 ∨ au = false) :
    (sacRun tau pf au cs as_ al a l c0 (n + 1)).logAlpha =
      (sacRun tau pf au cs as_ al a l c0 n).logAlpha := by
  rcases h with h | h <;> simp [sacRun, sacIter, sac_counter, h]

theorem sac_alpha_never_without_autotune (tau : α) (pf : Nat) (cs : SacState Θ α → α)
    (as_ al : SacState Θ α → Θ) (a l : Θ) (c0 : α) (n : Nat) :
    (sacRun tau pf false cs as_ al a l c0 n).logAlpha = l := by
  induction n with
  | zero => rfl
  | succ n ih => rw [sac_alpha_gating tau pf false cs as_ al a l c0 n (Or.inr rfl), ih]

end sac

/-! ### the executable checker accepts the model's own history -/

theorem phi_dqn_example : phiDqnTargets 2 [10, 11, 12, 13, 14] [10, 10, 12, 12, 14] = true := by decide

/-! ### non-vacuity -/

example : (dqnRun 3 (fun s => s.online + 1) (0 : Nat) 7).target = 6 ∧
    (dqnRun 3 (fun s => s.online + 1) (0 : Nat) 7).online = 7 := by decide

end Lerax.C10
