/-
  C01 — Gym-style step/reset honours episode boundaries (auto-reset contract).

  Theorems about `Env.step` / `Env.reset` of `LeraxModel/Env.lean` for every environment,
  every wrapper stack (`Stack`, any depth), every state, action and key, and — by induction
  over action/key histories — for every reachable state.
-/
import LeraxModel.Env

namespace Lerax.C01
open Lerax.Env

set_option linter.unusedSectionVars false

variable {S A O R K : Type} [Keys K]

/-- **The step reports the reward and flags of exactly the transition taken** from the given
    state with the given action. -/
theorem step_reports_transition (E : Env S A O R K) (s : S) (a : A) (k : K) :
    let next := E.transition s a (sub k 0)
    (E.step s a k).reward = E.reward s a next (sub k 1) ∧
    (E.step s a k).terminal = E.terminal next (sub k 2) ∧
    (E.step s a k).truncate = E.truncate next := by
  simp [Env.step]

/-- **Whenever either flag is raised the returned state is a freshly drawn initial state and
    the returned observation is that state's observation.** -/
theorem step_done_resets (E : Env S A O R K) (s : S) (a : A) (k : K)
    (h : (E.step s a k).terminal = true ∨ (E.step s a k).truncate = true) :
    (E.step s a k).state = E.initial (sub k 3) ∧
    (E.step s a k).observation = E.observation (E.initial (sub k 3)) k := by
  simp only [Env.step] at h ⊢
  have hc : (E.terminal (E.transition s a (sub k 0)) (sub k 2) ||
      E.truncate (E.transition s a (sub k 0))) = true := by
    rcases h with h | h <;> simp [h]
  simp [hc]

/-- **Otherwise the returned state is the successor and the observation is the successor's.** -/
theorem step_continue (E : Env S A O R K) (s : S) (a : A) (k : K)
    (h1 : (E.step s a k).terminal = false) (h2 : (E.step s a k).truncate = false) :
    (E.step s a k).state = E.transition s a (sub k 0) ∧
    (E.step s a k).observation = E.observation (E.transition s a (sub k 0)) k := by
  simp only [Env.step] at h1 h2 ⊢
  simp [h1, h2]

/-- **reset returns an initial state together with that state's own observation.** -/
theorem reset_contract (E : Env S A O R K) (k : K) :
    (E.reset k).1 = E.initial (sub k 0) ∧ (E.reset k).2 = E.observation (E.reset k).1 (sub k 1) := by
  simp [Env.reset]

/-! ### wrapper stacks: a drawn initial state has every wrapper counter restarted -/

variable {S0 A0 O0 : Type}

/-- For **every** wrapper stack over **every** base environment, an initial state of the wrapped
    environment has all `TimeLimit` counters at zero … -/
theorem fresh_initial {S A O : Type} (st : Stack S0 A0 O0 R S A O) (E : Env S0 A0 O0 R K) (k : K) :
    st.Fresh ((st.denote E).initial k) := by
  induction st with
  | base => trivial
  | identity st ih => exact ih
  | timeLimit n st ih => exact ⟨rfl, ih⟩
  | mapAction f st ih => exact ih
  | mapObs g st ih => exact ih
  | mapReward h st ih => exact ih

/-- … and unwraps to an initial state of the base environment drawn with the same key. -/
theorem unwrapped_initial {S A O : Type} (st : Stack S0 A0 O0 R S A O) (E : Env S0 A0 O0 R K) (k : K) :
    st.unwrapState ((st.denote E).initial k) = E.initial k := by
  induction st with
  | base => rfl
  | identity st ih => exact ih
  | timeLimit n st ih => exact ih
  | mapAction f st ih => exact ih
  | mapObs g st ih => exact ih
  | mapReward h st ih => exact ih

theorem fresh_counters {S A O : Type} (st : Stack S0 A0 O0 R S A O) (s : S) :
    st.Fresh s ↔ ∀ c ∈ st.counters s, c = 0 := by
  induction st with
  | base => simp [Stack.Fresh, Stack.counters]
  | identity st ih => exact ih s
  | timeLimit n st ih => simp [Stack.Fresh, Stack.counters, ih s.1]
  | mapAction f st ih => exact ih s
  | mapObs g st ih => exact ih s
  | mapReward h st ih => exact ih s

/-- **C01 for every wrapper stack**: a step of the wrapped environment that raises a flag
    returns a fresh initial state of the *wrapped* environment (all wrapper counters zero, base
    state a drawn initial state of the base environment) and that state's observation. -/
theorem stack_step_done_resets {S A O : Type} (st : Stack S0 A0 O0 R S A O)
    (E : Env S0 A0 O0 R K) (s : S) (a : A) (k : K)
    (h : ((st.denote E).step s a k).terminal = true ∨ ((st.denote E).step s a k).truncate = true) :
    let out := (st.denote E).step s a k
    st.Fresh out.state ∧ st.unwrapState out.state = E.initial (sub k 3) ∧
    out.observation = (st.denote E).observation out.state k := by
  have h' := step_done_resets (st.denote E) s a k h
  refine ⟨?_, ?_, ?_⟩
  · rw [h'.1]; exact fresh_initial st E _
  · rw [h'.1]; exact unwrapped_initial st E _
  · rw [h'.2, h'.1]

/-! ### every reachable state -/

/-- states reachable from a reset by a finite sequence of (action, key) steps -/
inductive Reachable (E : Env S A O R K) : S → Prop where
  | reset (k : K) : Reachable E (E.reset k).1
  | step {s : S} (a : A) (k : K) : Reachable E s → Reachable E (E.step s a k).state

/-- **Along any history, every state the Gym-style API hands back is either an initial state
    or the functional successor of the previous one** — the API never invents a state. -/
theorem reachable_initial_or_successor (E : Env S A O R K) (s : S) (h : Reachable E s) :
    (∃ k, s = E.initial k) ∨ (∃ s' a k, Reachable E s' ∧ s = E.transition s' a k) := by
  cases h with
  | reset k => exact Or.inl ⟨_, rfl⟩
  | @step s' a k hs =>
      by_cases hd : (E.terminal (E.transition s' a (sub k 0)) (sub k 2) ||
          E.truncate (E.transition s' a (sub k 0))) = true
      · left; exact ⟨sub k 3, by simp [Env.step, hd]⟩
      · right; exact ⟨s', a, sub k 0, hs, by simp [Env.step, hd]⟩

/-- The step contract holds at every reachable state (it holds at every state). -/
theorem reachable_step_contract (E : Env S A O R K) (s : S) (_h : Reachable E s) (a : A) (k : K) :
    let out := E.step s a k
    let next := E.transition s a (sub k 0)
    out.reward = E.reward s a next (sub k 1) ∧ out.terminal = E.terminal next (sub k 2) ∧
    out.truncate = E.truncate next ∧
    (if out.terminal || out.truncate then out.state = E.initial (sub k 3) else out.state = next) ∧
    out.observation = E.observation out.state k := by
  simp only [Env.step]
  refine ⟨trivial, trivial, trivial, ?_, trivial⟩
  split <;> simp_all

/-- The executable checker `stepOK` accepts exactly the records that satisfy the contract. -/
theorem stepOK_iff [DecidableEq R] (r : StepRecord R) :
    ((stepOK (fun a b => decide (a = b)) r).all (·.2) = true) ↔
      (r.outReward = r.reward ∧ r.outTerminal = r.terminal ∧ r.outTruncate = r.truncate ∧
       ((r.terminal || r.truncate) = true → r.stateIsFreshInitial = true) ∧
       ((r.terminal || r.truncate) = false → r.stateIsSuccessor = true) ∧
       r.obsOfReturnedState = true) := by
  simp only [stepOK, List.all_cons, List.all_nil, Bool.and_true, Bool.and_eq_true,
    decide_eq_true_eq, beq_iff_eq, Bool.or_eq_true, Bool.not_eq_true', Bool.or_eq_false_iff]
  cases r.terminal <;> cases r.truncate <;> simp

/-! ### non-vacuity: a two-state environment under TimeLimit(1) really resets -/

instance : Keys Nat := ⟨fun k i => k + i⟩

def toy : Env Nat Nat Nat Nat Nat where
  initial _ := 0
  transition s _ _ := s + 1
  observation s _ := s
  reward _ _ _ _ := 1
  terminal _ _ := false
  truncate _ := false

example : ((timeLimit 1 toy).step (0, 0) 0 0).truncate = true ∧
    ((timeLimit 1 toy).step (0, 0) 0 0).state = (0, 0) := by decide

end Lerax.C01
